/-
The HTTP storage server as a state machine (C30/C31): `HTTPServer` of `storage/http_server.py` over an
abstract `StorageServer`.  Mathlib-free, executable.

State = finished immutable shares, uploads in progress (`UploadsInProgress` + the `BucketWriter`s), mutable
shares, number of corruption advisories written.  Leases are kept as (renew secret, cancel secret) pairs;
expiry times are outside the model (the harness freezes the clock).

Assumptions of this model (listed in the harness `ASSUMPTIONS`): a storage index is used either for
immutable or for mutable shares; the disk never fills; request bodies are ≤ 64 KiB (one iteration of the
read loop in `write_share_data`); mutable shares stay below `MAX_SIZE`.
-/
import Tahoe.Http.Auth
import Tahoe.Http.Marshal
namespace Tahoe.Http

abbrev Key := String × Nat            -- (canonical storage index, share number)
abbrev Lease := Bytes × Bytes         -- (renew secret, cancel secret)

structure ImmShare where
  data : Bytes
  leases : List Lease
deriving Repr, DecidableEq

structure Upload where
  secret : Bytes
  cells : Cells
  lease : Lease
deriving Repr, DecidableEq

structure MutShare where
  enabler : Bytes
  data : Bytes
  leases : List Lease
  nodeid : Bytes := []        -- the nodeid recorded next to the write enabler in the container header
deriving Repr, DecidableEq

structure State where
  imm : List (Key × ImmShare) := []
  up : List (Key × Upload) := []
  muts : List (Key × MutShare) := []
  advisories : Nat := 0
  myNodeid : Bytes := []      -- `StorageServer.my_nodeid` of the serving node (fixed while it runs; see `migrate`)
deriving Repr, DecidableEq

/-- the decoded payload of a request (everything a handler reads besides the secrets) -/
inductive Body
  | none
  | invalid                                   -- body rejected by the CBOR decoder / CDDL schema → 400
  | badType                                   -- Content-Type other than application/cbor → 415
  | allocate (shnums : List Nat) (size : Nat)
  | write (cr : Option ContentRange) (data : Bytes)
  | range (r : Option RangeHdr)               -- a `Range` header was sent; `none` = unparseable
  | rtw (a : RtwArgs)
  | reason                                    -- a valid corruption advisory
deriving Repr

inductive RBody
  | empty
  | html                                      -- werkzeug / twisted error page
  | text (s : String)
  | share (b : Bytes)                         -- bytes of a share
  | allocated (already alloc : List Nat)
  | required (r : List (Nat × Nat))
  | shares (l : List Nat)
  | rtwResult (r : RtwResult)
  | version
deriving Repr, DecidableEq

structure Response where
  status : Nat
  body : RBody
deriving Repr, DecidableEq

/-- bytes of stored shares carried by a response -/
def Response.shareBytes (r : Response) : Bytes :=
  match r.body with
  | .share b => b
  | .rtwResult x => (x.reads.map (fun p => p.2.flatten)).flatten
  | _ => []

structure Request where
  method : String
  path : List String
  auth : List Bytes
  xauth : List Bytes
  body : Body

/-! ### small state helpers -/

def lookupK {α : Type} (k : Key) (l : List (Key × α)) : Option α := (l.find? (fun e => e.1 = k)).map (·.2)
def eraseK {α : Type} (k : Key) (l : List (Key × α)) : List (Key × α) := l.filter (fun e => e.1 ≠ k)
def setK {α : Type} (k : Key) (v : α) (l : List (Key × α)) : List (Key × α) :=
  if l.any (fun e => e.1 = k) then l.map (fun e => if e.1 = k then (k, v) else e) else l ++ [(k, v)]

def insertSorted (n : Nat) : List Nat → List Nat
  | [] => [n]
  | x :: xs => if n < x then n :: x :: xs else if n = x then x :: xs else x :: insertSorted n xs

def sortNat (l : List Nat) : List Nat := l.foldl (fun acc n => insertSorted n acc) []

def immNums (st : State) (si : String) : List Nat := sortNat ((st.imm.filter (fun e => e.1.1 = si)).map (·.1.2))
def mutNums (st : State) (si : String) : List Nat := sortNat ((st.muts.filter (fun e => e.1.1 = si)).map (·.1.2))

/-- `add_or_renew_lease`: a lease with the same renew secret is renewed (only its expiry changes), otherwise
the new lease is appended. -/
def addOrRenew (ls : List Lease) (l : Lease) : List Lease :=
  if ls.any (fun x => x.1 = l.1) then ls else ls ++ [l]

def leaseAll (st : State) (si : String) (l : Lease) : State :=
  { st with
    imm := st.imm.map (fun e => if e.1.1 = si then (e.1, { e.2 with leases := addOrRenew e.2.leases l }) else e)
    muts := st.muts.map (fun e => if e.1.1 = si then (e.1, { e.2 with leases := addOrRenew e.2.leases l }) else e) }

/-! ### handlers (run only after the swissnum and the secrets were accepted) -/

def getS (d : SecretsDict) (k : Secret) : Bytes := (dictGet d k).getD []

/-- `StorageServer.allocate_buckets(si, renew_secret, cancel_secret, sharenums, allocated_size, renew_leases)`:
when `renewLeases` (the default, and what both front ends pass) every finished share of the storage index gets
the caller's lease added or renewed; all of them are reported as already-have; a requested share that is
neither finished nor being uploaded gets a `BucketWriter` (which carries the lease).  `owner` is the handle the
caller keeps for the new writers (the upload secret over HTTP).  Returns the state, already-have, allocated. -/
def ssAllocate (renewLeases : Bool) (st : State) (si : String) (shnums : List Nat) (size : Nat) (owner : Bytes)
    (lease : Lease) : State × List Nat × List Nat :=
  let imm' : List (Key × ImmShare) :=
    if renewLeases then st.imm.map (fun e =>
      if e.1.1 = si then (e.1, { e.2 with leases := addOrRenew e.2.leases lease }) else e)
    else st.imm
  let fresh := (sortNat shnums).filter (fun n => (lookupK (si, n) st.imm).isNone && (lookupK (si, n) st.up).isNone)
  let newUp : Upload := ⟨owner, List.replicate size none, lease⟩
  let ups : List (Key × Upload) := st.up ++ fresh.map (fun n => ((si, n), newUp))
  ({ st with imm := imm', up := ups }, immNums st si, fresh)

/-- `HTTPServer.allocate_buckets`: the direct call with the default `renew_leases`, the new writers registered
under the request's upload secret -/
def hAllocate (st : State) (sec : SecretsDict) (si : String) (shnums : List Nat) (size : Nat) : State × Response :=
  let r := ssAllocate true st si shnums size (getS sec .upload) (getS sec .leaseRenew, getS sec .leaseCancel)
  (r.1, ⟨200, .allocated r.2.1 r.2.2⟩)

def hAbort (st : State) (sec : SecretsDict) (si : String) (n : Nat) : State × Response :=
  match getWriteBucket Upload.secret st.up si n (getS sec .upload) with
  | .unauthorized => (st, ⟨401, .empty⟩)
  | .notFound => if (lookupK (si, n) st.imm).isSome then (st, ⟨405, .empty⟩) else (st, ⟨404, .empty⟩)
  | .found _ => ({ st with up := eraseK (si, n) st.up }, ⟨200, .empty⟩)

def hWrite (st : State) (sec : SecretsDict) (si : String) (n : Nat) (cr : Option ContentRange) (data : Bytes) :
    State × Response :=
  match cr with
  | none => (st, ⟨416, .empty⟩)
  | some c =>
    if c.units ≠ "bytes" then (st, ⟨416, .empty⟩)
    else match getWriteBucket Upload.secret st.up si n (getS sec .upload) with
      | .unauthorized => (st, ⟨401, .empty⟩)
      | .notFound => (st, ⟨404, .empty⟩)
      | .found u =>
        match c.span with
        | none => (st, ⟨500, .html⟩)                              -- `assert content_range.stop is not None`
        | some (start, stop) =>
          let want := stop - start
          let piece := data.take want
          if want = 0 then
            -- loop not entered: `finished` stays False
            (st, ⟨200, .required (required u.cells)⟩)
          else if piece = [] then (st, ⟨500, .html⟩)             -- `assert data`
          else match bucketWrite u.cells start piece with
            | .tooLarge => (st, ⟨500, .html⟩)
            | .conflict => (st, ⟨409, .empty⟩)
            | .ok cells =>
              if piece.length < want then
                -- the next `read` returns b"" and `assert data` fails *after* this piece was written
                ({ st with up := setK (si, n) { u with cells := cells } st.up }, ⟨500, .html⟩)
              else if finished cells then
                ({ st with up := eraseK (si, n) st.up,
                           imm := st.imm ++ [((si, n), ⟨cellsData cells, [u.lease]⟩)] },
                 ⟨201, .required []⟩)
              else ({ st with up := setK (si, n) { u with cells := cells } st.up }, ⟨200, .required (required cells)⟩)

/-- shared by the immutable and the mutable read route -/
def readResp (r : ReadResp) : Response :=
  match r with
  | .ok200 d => ⟨200, .share d⟩
  | .partial206 _ _ d => ⟨206, .share d⟩
  | .noContent204 => ⟨204, .empty⟩
  | .rangeNotSatisfiable416 => ⟨416, .empty⟩
  | .serverError500 => ⟨500, .html⟩

def rangeOfBody : Body → Option (Option RangeHdr)
  | .range r => some r
  | .none => none | .invalid => none | .badType => none | .allocate _ _ => none | .write _ _ => none
  | .rtw _ => none | .reason => none

/-- shares of one mutable slot as (share number, data), in share-number order -/
def slotShares (st : State) (si : String) : List (Nat × Bytes) :=
  (mutNums st si).filterMap (fun n => (lookupK (si, n) st.muts).map (fun s => (n, s.data)))

/-- the header field is `struct.pack("32s", write_enabler)`: zero-padded / truncated to 32 bytes.  (A share
created with an enabler of another length therefore never accepts that enabler again — only its padded or
truncated form; clients always send 32-byte enablers.) -/
def pad32 (e : Bytes) : Bytes := (e ++ List.replicate (32 - e.length) 0).take 32

/-- `_evaluate_write_vectors` for one share -/
def applyTW (enabler : Bytes) (lease : Lease) (si : String) (nodeid : Bytes) (ms : List (Key × MutShare)) (p : Nat × TWV) :
    List (Key × MutShare) :=
  let k : Key := (si, p.1)
  if p.2.newLength = some 0 then eraseK k ms
  else
    let cur : MutShare := (lookupK k ms).getD ⟨pad32 enabler, [], [], nodeid⟩   -- header: my_nodeid + enabler
    setK k { cur with data := mutWritev cur.data p.2.writes p.2.newLength, leases := addOrRenew cur.leases lease } ms

/-- `_collect_mutable_shares_for_storage_index`: some existing share of the slot has another write enabler -/
def enablerMismatch (st : State) (si : String) (enabler : Bytes) : Bool :=
  st.muts.any fun e => e.1.1 = si ∧ e.2.enabler ≠ enabler

/-- `StorageServer.slot_testv_and_readv_and_writev(si, (enabler, renew, cancel), tw_vectors, r_vector)`;
`none` = `BadWriteEnablerError` -/
def ssRtw (st : State) (si : String) (enabler : Bytes) (lease : Lease) (a : RtwArgs) : Option (State × RtwResult) :=
  -- `_collect_mutable_shares_for_storage_index`: the write enabler is checked against *every* existing share
  if enablerMismatch st si enabler then none
  else
    let shares := slotShares st si
    let good := testsPass shares a.tw
    let reads := readAll shares a.rv
    let st' := if good then { st with muts := a.tw.foldl (applyTW enabler lease si st.myNodeid) st.muts } else st
    some (st', ⟨good, reads⟩)

/-- The share directory is served by another node: copied to a server with another nodeid, or the node's identity
was regenerated in place.  Uploads in progress do not survive (`StorageServer.__init__` empties `incoming/`, the
`BucketWriter`s and the HTTP layer's upload table lived in the old process); finished shares, mutable shares with
their recorded write enabler *and recorded nodeid*, and advisories are what is on disk. -/
def migrate (st : State) (nodeid : Bytes) : State := { st with up := [], myNodeid := nodeid }

/-- `BucketWriter._abort_due_to_timeout` (30 minutes without a write) and `BucketWriter.disconnected`: not a request,
no secret involved — the writer aborts itself: the incoming file is removed and the close handler makes the HTTP
layer forget the upload and its secret.  Nothing else is touched; without such an upload it is a no-op. -/
def expire (st : State) (k : Key) : State := { st with up := eraseK k st.up }

def hRtw (st : State) (sec : SecretsDict) (si : String) (a : RtwArgs) : State × Response :=
  match ssRtw st si (getS sec .writeEnabler) (getS sec .leaseRenew, getS sec .leaseCancel) a with
  | none => (st, ⟨401, .empty⟩)
  | some r => (r.1, ⟨200, .rtwResult r.2⟩)

/-! projections of the payload, written out per constructor (no overlapping patterns) -/

def bodyIsBadType : Body → Bool
  | .badType => true
  | .none => false | .invalid => false | .allocate _ _ => false | .write _ _ => false | .range _ => false
  | .rtw _ => false | .reason => false

/-- a CBOR route that did not get a valid CBOR body: 415 for a wrong Content-Type, else the CDDL error 400 -/
def rejectBody (b : Body) : Response := if bodyIsBadType b then ⟨415, .empty⟩ else ⟨400, .text "cddl"⟩

def asAllocate : Body → Option (List Nat × Nat)
  | .allocate ns size => some (ns, size)
  | .none => none | .invalid => none | .badType => none | .write _ _ => none | .range _ => none
  | .rtw _ => none | .reason => none

def asWrite : Body → Option (Option ContentRange × Bytes)
  | .write cr d => some (cr, d)
  | .none => none | .invalid => none | .badType => none | .allocate _ _ => none | .range _ => none
  | .rtw _ => none | .reason => none

def asRtw : Body → Option RtwArgs
  | .rtw a => some a
  | .none => none | .invalid => none | .badType => none | .allocate _ _ => none | .range _ => none
  | .write _ _ => none | .reason => none

def isReason : Body → Bool
  | .reason => true
  | .none => false | .invalid => false | .badType => false | .allocate _ _ => false | .range _ => false
  | .write _ _ => false | .rtw _ => false

def hCorrupt (st : State) (body : Body) : State × Response :=
  if isReason body then ({ st with advisories := st.advisories + 1 }, ⟨200, .empty⟩) else (st, rejectBody body)

def handle (st : State) (m : Matched) (sec : SecretsDict) (body : Body) : State × Response :=
  let si := m.args.si
  let n := m.args.shnum
  match m.route with
  | .version => (st, ⟨200, .version⟩)
  | .allocate =>
    match asAllocate body with
    | some p => hAllocate st sec si p.1 p.2
    | none => (st, rejectBody body)
  | .abort => hAbort st sec si n
  | .write =>
    match asWrite body with
    | some p => hWrite st sec si n p.1 p.2
    | none => hWrite st sec si n none []                 -- no Content-Range header
  | .listImm => (st, ⟨200, .shares (immNums st si)⟩)
  | .readImm =>
    match lookupK (si, n) st.imm with
    | none => (st, ⟨404, .empty⟩)
    | some s => (st, readResp (readRange (rangeOfBody body) s.data))
  | .lease =>
    if (immNums st si).isEmpty && (mutNums st si).isEmpty then (st, ⟨404, .empty⟩)
    else (leaseAll st si (getS sec .leaseRenew, getS sec .leaseCancel), ⟨204, .empty⟩)
  | .corruptImm =>
    match lookupK (si, n) st.imm with
    | none => (st, ⟨404, .empty⟩)
    | some _ => hCorrupt st body
  | .rtw =>
    match asRtw body with
    | some a => hRtw st sec si a
    | none => (st, rejectBody body)
  | .readMut =>
    match lookupK (si, n) st.muts with
    | none => (st, ⟨404, .empty⟩)
    | some s => (st, readResp (readRange (rangeOfBody body) s.data))
  | .listMut => (st, ⟨200, .shares (mutNums st si)⟩)
  | .corruptMut =>
    -- `get_shares`: any share file of the storage index, whatever its type
    if (lookupK (si, n) st.muts).isNone && (lookupK (si, n) st.imm).isNone then (st, ⟨404, .empty⟩)
    else hCorrupt st body

def secretsMessage : SecretsError → String
  | .badHeader => "Bad header value(s)"
  | .emptySecret => "Failed to decode secret"
  | .leaseLength => "Lease secrets must be 32 bytes long"
  | .wrongSet => "Expected"

/-- everything between route matching and the handler: the body of `_authorization_decorator.route`. -/
inductive Gate
  | noRoute
  | authBadUnicode (m : Matched)
  | authWrong (m : Matched)
  | xauthUndecodable (m : Matched)          -- `getRawHeaders("X-Tahoe-Authorization")` raises: 500
  | badSecrets (m : Matched) (e : SecretsError)
  | pass (m : Matched) (sec : SecretsDict)

def gate (swissnum : Bytes) (rq : Request) : Gate :=
  match matchRoute rq.method rq.path with
  | none => .noRoute
  | some m =>
    match authCheck swissnum rq.auth with
    | .badUnicode => .authBadUnicode m
    | .wrong => .authWrong m
    | .ok =>
      match rq.xauth.mapM utf8Decode with
      | none => .xauthUndecodable m
      | some vals =>
        match extractSecrets vals m.required with
        | .error e => .badSecrets m e
        | .ok sec => .pass m sec

/-- one request against the server whose swissnum is `swissnum` -/
def step (swissnum : Bytes) (st : State) (rq : Request) : State × Response :=
  match gate swissnum rq with
  | .noRoute => (st, ⟨404, .html⟩)
  | .authBadUnicode _ => (st, ⟨400, .text "Bad Authorization header"⟩)
  | .authWrong _ => (st, ⟨401, .text "Wrong Authorization header"⟩)
  | .xauthUndecodable _ => (st, ⟨500, .html⟩)
  | .badSecrets _ e => (st, ⟨400, .text (secretsMessage e)⟩)
  | .pass m sec => handle st m sec rq.body

def run (swissnum : Bytes) (st : State) : List Request → State × List Response
  | [] => (st, [])
  | rq :: rest =>
    let r := step swissnum st rq
    let rr := run swissnum r.1 rest
    (rr.1, r.2 :: rr.2)

/-- what happens to a server: requests, and uploads timing out / their client disconnecting -/
inductive Event
  | request (rq : Request)
  | expire (k : Key)

def stepEvent (swissnum : Bytes) (st : State) : Event → State
  | .request rq => (step swissnum st rq).1
  | .expire k => expire st k

def runEvents (swissnum : Bytes) (st : State) : List Event → State
  | [] => st
  | e :: rest => runEvents swissnum (stepEvent swissnum st e) rest

end Tahoe.Http
