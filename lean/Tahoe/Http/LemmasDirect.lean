/-
Helper lemmas for `Tahoe/Props/C31.lean`: behind the authorization gate, the HTTP path (`handledStep`) is the
direct path (`directStep`).
-/
import Tahoe.Http.Direct
import Tahoe.Http.LemmasServer
namespace Tahoe.Http

/-- what the statement of C31 takes for granted about an operation: a client writes to / aborts an upload with the
upload secret it was created with (authorization is C30), and a read-test-write stays within the documented bounds
of the CDDL schema (the direct call has none) -/
def OpOk (st : State) : Op → Prop
  | .write si n u _ _ => ∀ up, lookupK (si, n) st.up = some up → up.secret = u
  | .abort si n u => ∀ up, lookupK (si, n) st.up = some up → up.secret = u
  | .rtw _ _ _ _ a => a.tw.length ≤ 256 ∧ a.rv.length ≤ 30 ∧ ∀ p ∈ a.tw, p.2.tests.length ≤ 30
  | _ => True

/-- running a history on the HTTP path behind the gate -/
def handledRun (st : State) : List Op → State × List Res
  | [] => (st, [])
  | op :: rest =>
    let r := handledStep st op
    let rr := handledRun r.1 rest
    (rr.1, r.2 :: rr.2)

/-- every operation of the history is `OpOk` in the state the direct path has reached when it is issued -/
def HistoryOk (st : State) : List Op → Prop
  | [] => True
  | op :: rest => OpOk st op ∧ HistoryOk (directStep st op).1 rest

theorem getWriteBucket_of_lookup (ups : List (Key × Upload)) (si : String) (n : Nat) (u : Bytes) :
    getWriteBucket Upload.secret ups si n u =
      match lookupK (si, n) ups with
      | none => .notFound
      | some up => if up.secret = u then .found up else .unauthorized := by
  unfold getWriteBucket lookupK
  cases ups.find? (fun e => e.1 = (si, n)) <;> rfl

/-- the client's reading of the server's answer to a range request for `reqLen > 0` bytes, of which it keeps `len` -/
theorem read_answer (op : Op) (d : Bytes) (off reqLen len : Nat) (hr : 0 < reqLen)
    (hop : (∃ si n, op = .read si n off len) ∨ (∃ si n, op = .mread si n off len)) (hs : sentLength op = reqLen)
    (hq : requestedLength op = len) :
    opResult op (readResp (readRange (some (some (rangeFor off reqLen))) d)) = .data ((readShareData d off reqLen).take len) := by
  have hneg : ¬ ((off : Int) < 0) := by omega
  simp only [readRange, rangeFor, List.length_cons, List.length_nil, ne_eq, not_true_eq_false, if_false, Nat.lt_irrefl, hneg,
    Int.toNat_natCast]
  by_cases hge : off ≥ min (off + reqLen) d.length
  · rw [if_pos hge]
    have : d.length ≤ off := by omega
    rcases hop with ⟨si, n, rfl⟩ | ⟨si, n, rfl⟩ <;>
      simp [readResp, opResult, readShareData, List.drop_eq_nil_of_le this]
  · rw [if_neg hge]
    have hlen : (readShareData d off (min (off + reqLen) d.length - off)).length = min (off + reqLen) d.length - off := by
      simp [readShareData]; omega
    have heq : readShareData d off (min (off + reqLen) d.length - off) = readShareData d off reqLen := by
      unfold readShareData
      rw [List.take_eq_take_iff]
      simp; omega
    have hle : ¬ (readShareData d off reqLen).length > reqLen := by simp [readShareData]; omega
    rcases hop with ⟨si, n, rfl⟩ | ⟨si, n, rfl⟩ <;>
      · simp only [readResp, opResult, heq, hs, hq]
        rw [if_neg hle]

theorem handled_create (st : State) (si : String) (ns : List Nat) (size : Nat) (u r c : Bytes) :
    handledStep st (.create si ns size u r c) = directStep st (.create si ns size u r c) := by
  simp [handledStep, clientBody, clientMatched, clientSecrets, handle, asAllocate, hAllocate, opResult, directStep, getS,
    dictGet]

theorem handled_list (st : State) (si : String) : handledStep st (.list si) = directStep st (.list si) := by
  simp [handledStep, clientBody, clientMatched, handle, opResult, directStep]

theorem handled_mlist (st : State) (si : String) : handledStep st (.mlist si) = directStep st (.mlist si) := by
  simp [handledStep, clientBody, clientMatched, handle, opResult, directStep]

theorem handled_lease (st : State) (si : String) (r c : Bytes) :
    handledStep st (.lease si r c) = directStep st (.lease si r c) := by
  simp only [handledStep, clientBody, clientMatched, clientSecrets, handle, directStep, getS, dictGet]
  by_cases hc : ((immNums st si).isEmpty && (mutNums st si).isEmpty) = true
  · simp [hc, opResult]
  · simp [hc, opResult]

theorem handled_abort (st : State) (si : String) (n : Nat) (u : Bytes) (h : OpOk st (.abort si n u)) :
    handledStep st (.abort si n u) = directStep st (.abort si n u) := by
  simp only [handledStep, clientBody, clientMatched, clientSecrets, handle, hAbort, directStep, getS, dictGet,
    getWriteBucket_of_lookup]
  cases hl : lookupK (si, n) st.up with
  | none =>
    by_cases hc : (lookupK (si, n) st.imm).isSome = true
    · simp [hc, opResult]
    · simp [hc, opResult]
  | some up =>
    have := h up hl
    simp [this, opResult]

theorem handled_write (st : State) (si : String) (n : Nat) (u : Bytes) (off : Nat) (d : Bytes)
    (h : OpOk st (.write si n u off d)) :
    handledStep st (.write si n u off d) = directStep st (.write si n u off d) := by
  by_cases hd : d = []
  · subst hd
    simp [handledStep, clientBody, clientContentRange, opLocal, directStep]
  · have hlen : d.length ≠ 0 := fun hc => hd (List.length_eq_zero_iff.mp hc)
    simp only [handledStep, clientBody, clientContentRange, hlen, if_false, Option.map, clientMatched, clientSecrets,
      handle, asWrite, directStep, hd]
    cases hl : lookupK (si, n) st.up with
    | none =>
      simp [hWrite, getWriteBucket_of_lookup, hl, opResult, getS, dictGet]
    | some up =>
      have hs : up.secret = getS [(Secret.upload, u)] .upload := by simpa [getS, dictGet] using h up hl
      have := write_handler_is_upStep_aux st [(Secret.upload, u)] si n up off d hl hs hd
      simp only [clientContentRange, hlen, if_false] at this
      rw [this]
      unfold upStep
      cases hb : bucketWrite up.cells off d with
      | conflict => simp [hb, writeOutcome, opResult]
      | tooLarge => simp [hb, writeOutcome, opResult]
      | ok c =>
        by_cases hf : finished c = true <;> simp [hb, hf, writeOutcome, opResult]

theorem handled_read (hz : zeroRead = .probe) (st : State) (si : String) (n off len : Nat) :
    handledStep st (.read si n off len) = directStep st (.read si n off len) := by
  simp only [handledStep, clientBody, hz, clientReadPlan, directStep, clientMatched, handle]
  by_cases h0 : len = 0
  · subst h0
    simp only [if_true]
    cases hl : lookupK (si, n) st.imm with
    | none => simp [opResult]
    | some s =>
      simp only [rangeOfBody]
      rw [read_answer (.read si n off 0) s.data off 1 0 (by omega) (.inl ⟨si, n, rfl⟩) (by simp [sentLength, requestedLength])
        (by simp [requestedLength])]
      simp [readShareData]
  · rw [if_neg h0]
    cases hl : lookupK (si, n) st.imm with
    | none => simp [opResult]
    | some s =>
      simp only [rangeOfBody]
      rw [read_answer (.read si n off len) s.data off len len (by omega) (.inl ⟨si, n, rfl⟩)
        (by simp [sentLength, requestedLength]; omega) (by simp [requestedLength])]
      have : (readShareData s.data off len).length ≤ len := by simp [readShareData]; omega
      rw [List.take_of_length_le this]

theorem handled_mread (hz : zeroRead = .probe) (st : State) (si : String) (n off len : Nat) :
    handledStep st (.mread si n off len) = directStep st (.mread si n off len) := by
  simp only [handledStep, clientBody, hz, clientReadPlan, directStep, clientMatched, handle]
  by_cases h0 : len = 0
  · subst h0
    simp only [if_true]
    cases hl : lookupK (si, n) st.muts with
    | none => simp [opResult]
    | some s =>
      simp only [rangeOfBody]
      rw [read_answer (.mread si n off 0) s.data off 1 0 (by omega) (.inr ⟨si, n, rfl⟩) (by simp [sentLength, requestedLength])
        (by simp [requestedLength])]
      simp [readShareData]
  · rw [if_neg h0]
    cases hl : lookupK (si, n) st.muts with
    | none => simp [opResult]
    | some s =>
      simp only [rangeOfBody]
      rw [read_answer (.mread si n off len) s.data off len len (by omega) (.inr ⟨si, n, rfl⟩)
        (by simp [sentLength, requestedLength]; omega) (by simp [requestedLength])]
      have : (readShareData s.data off len).length ≤ len := by simp [readShareData]; omega
      rw [List.take_of_length_le this]

theorem handled_rtw (st : State) (si : String) (we r c : Bytes) (a : RtwArgs) (h : OpOk st (.rtw si we r c a)) :
    handledStep st (.rtw si we r c a) = directStep st (.rtw si we r c a) := by
  obtain ⟨h1, h2, h3⟩ := h
  have hdec := decRtw_enc a h1 h2 h3
  have g1 : getS [(Secret.leaseRenew, r), (Secret.leaseCancel, c), (Secret.writeEnabler, we)] .writeEnabler = we := rfl
  have g2 : getS [(Secret.leaseRenew, r), (Secret.leaseCancel, c), (Secret.writeEnabler, we)] .leaseRenew = r := rfl
  have g3 : getS [(Secret.leaseRenew, r), (Secret.leaseCancel, c), (Secret.writeEnabler, we)] .leaseCancel = c := rfl
  simp only [handledStep, clientBody, hdec, clientMatched, clientSecrets, handle, asRtw, hRtw, directStep, g1, g2, g3]
  cases hr : ssRtw st si we (r, c) a with
  | none => simp [hr, opResult]
  | some x => simp [hr, opResult, decRtwResult_enc]

end Tahoe.Http
