/-
Authorization layer of the HTTP storage server (C30): `storage/http_server.py`
`_authorization_decorator`, `_extract_secrets`, `UploadsInProgress`, and the klein/werkzeug route table
(generated from the live app into `Tahoe.Generated.Http`).  Mathlib-free, executable.

A request is what the handler sees: method, path segments, the raw values of the `Authorization` and
`X-Tahoe-Authorization` headers (bytes, after Twisted's HTTP parser removed optional whitespace around them),
and an already decoded payload (`Body`, defined in `Server.lean`).

`timing_safe_compare` is modelled as equality of byte strings (it compares SHA-256d tags under a fresh random
key; a collision is the only way the two differ — listed as an assumption).
-/
import Tahoe.Http.Codec
namespace Tahoe.Http
open Tahoe.Generated

/-! ### secrets -/

inductive Secret
  | leaseRenew | leaseCancel | upload | writeEnabler
deriving Repr, DecidableEq

def Secret.all : List Secret := [.leaseRenew, .leaseCancel, .upload, .writeEnabler]

/-- `Secrets.<X>.value`, by position in the generated enum listing -/
def Secret.name (s : Secret) : String :=
  Http.secretNames.getD (match s with | .leaseRenew => 0 | .leaseCancel => 1 | .upload => 2 | .writeEnabler => 3) ""

/-- `string_key_to_enum[string_key]` (`none` = `KeyError`) -/
def Secret.ofName (n : String) : Option Secret := Secret.all.find? (fun s => s.name == n)

inductive SecretsError
  | badHeader          -- "Bad header value(s): …"   (`ValueError` / `KeyError` in the loop)
  | emptySecret        -- "Failed to decode secret …"
  | leaseLength        -- "Lease secrets must be 32 bytes long"
  | wrongSet           -- "Expected … in X-Tahoe-Authorization headers, got …"
deriving Repr, DecidableEq

abbrev SecretsDict := List (Secret × Bytes)

/-- `result[key] = value` on a dict kept in insertion order -/
def dictSet (d : SecretsDict) (k : Secret) (v : Bytes) : SecretsDict :=
  if d.any (·.1 == k) then d.map (fun p => if p.1 == k then (k, v) else p) else d ++ [(k, v)]

def dictGet (d : SecretsDict) (k : Secret) : Option Bytes := (d.find? (·.1 == k)).map (·.2)

/-- one iteration of the loop in `_extract_secrets` -/
def parseSecretHeader (value : List Nat) : Except SecretsError (Secret × Bytes) :=
  match splitFirstSpace (pyStrip value) with
  | none => .error .badHeader                               -- cannot unpack into (key, value)
  | some (k, v) =>
    match Secret.ofName (strOfCodes k) with
    | none => .error .badHeader                             -- KeyError
    | some key =>
      match b64decodeStr v with
      | none => .error .badHeader                           -- binascii.Error / non-ASCII: ValueError
      | some b =>
        if b = [] then .error .emptySecret
        else if (key = .leaseCancel ∨ key = .leaseRenew) ∧ b.length ≠ 32 then .error .leaseLength
        else .ok (key, b)

def extractLoop (acc : SecretsDict) : List (List Nat) → Except SecretsError SecretsDict
  | [] => .ok acc
  | v :: rest =>
    match parseSecretHeader v with
    | .error e => .error e                                   -- the first offending header decides
    | .ok (k, b) => extractLoop (dictSet acc k b) rest

/-- `result.keys() != required_secrets` (set comparison) -/
def sameKeySet (d : SecretsDict) (required : List Secret) : Bool :=
  d.all (fun p => required.contains p.1) && required.all (fun r => d.any (·.1 == r))

/-- `_extract_secrets(header_values, required_secrets)` -/
def extractSecrets (values : List (List Nat)) (required : List Secret) : Except SecretsError SecretsDict :=
  match extractLoop [] values with
  | .error e => .error e
  | .ok d => if sameKeySet d required then .ok d else .error .wrongSet

/-! ### swissnum -/

/-- `swissnum_auth_header(swissnum)` (`.strip()` of a `b64encode` output is the identity) -/
def authHeader (swissnum : Bytes) : Bytes :=
  Http.authPrefix.toList.map (fun c => UInt8.ofNat c.toNat) ++ b64encode swissnum   -- the prefix is ASCII

inductive AuthResult
  | ok
  | badUnicode         -- 400 "Bad Authorization header"
  | wrong              -- 401 "Wrong Authorization header"
deriving Repr, DecidableEq

/-- the `Authorization` check: only the *first* value is looked at; no header = empty string. -/
def authCheck (swissnum : Bytes) (authValues : List Bytes) : AuthResult :=
  match authValues with
  | [] => if ([] : Bytes) = authHeader swissnum then .ok else .wrong
  | v :: _ =>
    -- `getRawHeaders("Authorization")` decodes *every* value before `[0]` is taken
    if authValues.any (fun x => (utf8Decode x).isNone) then .badUnicode
    else if v = authHeader swissnum then .ok else .wrong

/-! ### routes -/

inductive Route
  | version | allocate | abort | write | listImm | readImm | lease | corruptImm
  | rtw | readMut | listMut | corruptMut
deriving Repr, DecidableEq

/-- endpoint (function) name → route -/
def Route.ofEndpoint : String → Option Route
  | "version" => some .version
  | "allocate_buckets" => some .allocate
  | "abort_share_upload" => some .abort
  | "write_share_data" => some .write
  | "list_shares" => some .listImm
  | "read_share_chunk" => some .readImm
  | "add_or_renew_lease" => some .lease
  | "advise_corrupt_share_immutable" => some .corruptImm
  | "mutable_read_test_write" => some .rtw
  | "read_mutable_chunk" => some .readMut
  | "enumerate_mutable_shares" => some .listMut
  | "advise_corrupt_share_mutable" => some .corruptMut
  | _ => none

structure PathArgs where
  si : String := ""          -- canonical storage index string
  shnum : Nat := 0
deriving Repr, DecidableEq

/-- match path segments against one generated pattern -/
def matchSegs : List String → List String → PathArgs → Option PathArgs
  | [], [], a => some a
  | p :: ps, s :: ss, a =>
    if p = "<si>" then (canonSI s).bind (fun c => matchSegs ps ss { a with si := c })
    else if p = "<int>" then (parseShnum s).bind (fun n => matchSegs ps ss { a with shnum := n })
    else if p = s then matchSegs ps ss a else none
  | _, _, _ => none

structure Matched where
  route : Route
  args : PathArgs
  required : List Secret
deriving Repr, DecidableEq

/-- werkzeug `MapAdapter.match`: the rule whose pattern and method both match.  No pattern match → 404,
pattern but not method → 405; both are answered by klein before any application code runs and are reported
by the model as "no route". -/
def matchRoute (method : String) (path : List String) : Option Matched :=
  Http.routes.findSome? fun (ep, methods, pat, req) =>
    if methods.contains method then
      match matchSegs pat path {}, Route.ofEndpoint ep with
      | some a, some r => some ⟨r, a, req.filterMap Secret.ofName⟩
      | _, _ => none
    else none

/-! ### uploads in progress -/

/-- outcome of `UploadsInProgress.get_write_bucket` -/
inductive BucketLookup (α : Type)
  | unauthorized       -- 401: an upload for this share exists with another secret
  | notFound           -- 404
  | found (b : α)

/-- `validate_upload_secret` + lookup, over an association list keyed by (storage index, share number);
the entry carries the upload secret it was created with. -/
def getWriteBucket {α : Type} (secretOf : α → Bytes) (ups : List ((String × Nat) × α)) (si : String) (n : Nat)
    (presented : Bytes) : BucketLookup α :=
  match ups.find? (fun e => e.1 = (si, n)) with
  | none => .notFound
  | some e => if secretOf e.2 = presented then .found e.2 else .unauthorized

end Tahoe.Http
