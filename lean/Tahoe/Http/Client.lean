/-
The HTTP storage *client* (`storage/http_client.py`: `StorageClient.request`, `StorageClientImmutables`,
`StorageClientMutables`, `StorageClientGeneral`) as functions from a client-level operation to a request, and
from the response back to the client-level result; `clientStep` composes them with the server model.
Mathlib-free, executable.  Used by `Drv/C31.lean` and `Props/C31.lean`.
-/
import Tahoe.Http.Server
namespace Tahoe.Http

/-- a client-level storage operation (the vocabulary shared by the direct and the HTTP path) -/
inductive Op
  | create (si : String) (shnums : List Nat) (size : Nat) (upload renew cancel : Bytes)
  | write (si : String) (n : Nat) (upload : Bytes) (offset : Nat) (data : Bytes)
  | abort (si : String) (n : Nat) (upload : Bytes)
  | read (si : String) (n : Nat) (offset length : Nat)            -- immutable
  | mread (si : String) (n : Nat) (offset length : Nat)           -- mutable
  | list (si : String)
  | mlist (si : String)
  | lease (si : String) (renew cancel : Bytes)
  | rtw (si : String) (enabler renew cancel : Bytes) (a : RtwArgs)
deriving Repr

/-- what the client API returns / raises -/
inductive Res
  | created (already alloc : List Nat)
  | progress (finished : Bool) (required : List (Nat × Nat))
  | done                                   -- abort / lease succeeded
  | data (b : Bytes)
  | shares (l : List Nat)
  | rtw (r : RtwResult)
  | httpError (code : Nat)                 -- `ClientException(code)`
  | clientError                            -- `ValueError` / `AssertionError` raised in the client, nothing sent
deriving Repr, DecidableEq

def asciiBytes (s : String) : Bytes := s.toList.map (fun c => UInt8.ofNat c.toNat)

/-- `StorageClient._request`: one `X-Tahoe-Authorization: <name> <base64>` header per secret given -/
def secretHeader (k : Secret) (v : Bytes) : Bytes := asciiBytes k.name ++ [32] ++ b64encode v

def mkRequest (sw : Bytes) (method : String) (path : List String) (secrets : List (Secret × Bytes)) (body : Body) :
    Request :=
  ⟨method, path, [authHeader sw], secrets.map (fun p => secretHeader p.1 p.2), body⟩

def immPath (si : String) (rest : List String) : List String := ["storage", "v1", "immutable", si] ++ rest
def mutPath (si : String) (rest : List String) : List String := ["storage", "v1", "mutable", si] ++ rest

/-- the request a read sends, per `clientReadPlan`; `none` = nothing is sent (`opLocal` says what happens instead) -/
def readRequest (sw : Bytes) (path : List String) (off len : Nat) : Option Request :=
  match clientReadPlan zeroRead off len with
  | .send h _ => some (mkRequest sw "GET" path [] (.range (some h)))
  | .raise => none
  | .localEmpty => none

/-- the request an operation sends; `none` = nothing is sent (the client raises, or answers locally: `opLocal`) -/
def opRequest (sw : Bytes) : Op → Option Request
  | .create si ns size u r c =>
    some (mkRequest sw "POST" (immPath si []) [(.leaseRenew, r), (.leaseCancel, c), (.upload, u)] (.allocate ns size))
  | .write si n u off d =>
    (clientContentRange off d).map fun cr =>
      mkRequest sw "PATCH" (immPath si [toString n]) [(.upload, u)] (.write (some cr) d)
  | .abort si n u => some (mkRequest sw "PUT" (immPath si [toString n, "abort"]) [(.upload, u)] .none)
  | .read si n off len => readRequest sw (immPath si [toString n]) off len
  | .mread si n off len => readRequest sw (mutPath si [toString n]) off len
  | .list si => some (mkRequest sw "GET" (immPath si ["shares"]) [] .none)
  | .mlist si => some (mkRequest sw "GET" (mutPath si ["shares"]) [] .none)
  | .lease si r c => some (mkRequest sw "PUT" ["storage", "v1", "lease", si] [(.leaseRenew, r), (.leaseCancel, c)] .none)
  | .rtw si we r c a =>
    -- the message goes through `encRtw` on the client and `decRtw` on the server (`rtw_marshal_roundtrip`)
    match decRtw (encRtw a) with
    | some a' => some (mkRequest sw "POST" (mutPath si ["read-test-write"])
        [(.leaseRenew, r), (.leaseCancel, c), (.writeEnabler, we)] (.rtw a'))
    | none => some (mkRequest sw "POST" (mutPath si ["read-test-write"])
        [(.leaseRenew, r), (.leaseCancel, c), (.writeEnabler, we)] .invalid)

def requestedLength : Op → Nat
  | .read _ _ _ len => len
  | .mread _ _ _ len => len
  | _ => 0

/-- the number of bytes actually asked for (1 for the probe of a zero-length read) -/
def sentLength (op : Op) : Nat := max (requestedLength op) 1

/-- the result when nothing was sent -/
def opLocal : Op → Res
  | .read _ _ off len => if clientReadPlan zeroRead off len = .localEmpty then .data [] else .clientError
  | .mread _ _ off len => if clientReadPlan zeroRead off len = .localEmpty then .data [] else .clientError
  | _ => .clientError

/-- how each client method turns the response into its result -/
def opResult (op : Op) (r : Response) : Res :=
  match op, r.status, r.body with
  | .create .., 200, .allocated h a => .created h a
  | .write .., 200, .required q => .progress false q
  | .write .., 201, .required q => .progress true q
  | .abort .., 200, _ => .done
  | .read .., 204, _ => .data []
  | .mread .., 204, _ => .data []
  | .read .., 206, .share b => if b.length > sentLength op then .clientError else .data (b.take (requestedLength op))
  | .mread .., 206, .share b => if b.length > sentLength op then .clientError else .data (b.take (requestedLength op))
  | .list .., 200, .shares l => .shares l
  | .mlist .., 200, .shares l => .shares l
  | .lease .., 204, _ => .done
  | .rtw .., 200, .rtwResult x =>
    match decRtwResult (encRtwResult x) with
    | some y => .rtw y
    | none => .clientError
  | _, code, _ => .httpError code

/-- one client operation against the server -/
def clientStep (sw : Bytes) (st : State) (op : Op) : State × Res :=
  match opRequest sw op with
  | none => (st, opLocal op)
  | some rq =>
    let r := step sw st rq
    (r.1, opResult op r.2)

end Tahoe.Http
