/-
Helper lemmas for `Tahoe/Props/C30.lean`: the authorization decision as a declarative specification
(`Authorized`) and its equivalence with the executable gate of `Server.lean`.
-/
import Tahoe.Http.LemmasAuth
namespace Tahoe.Http

/-- one `X-Tahoe-Authorization` value read the way `_extract_secrets` reads it, `none` when it is malformed
(no separator, unknown key, undecodable / empty value, lease secret not 32 bytes long) -/
def parseOne (v : List Nat) : Option (Secret × Bytes) :=
  match parseSecretHeader v with
  | .ok p => some p
  | .error _ => none

/-- **The specification of the authorization decision** for a route requiring the secret kinds `required`:
a function of the swissnum and the request's headers only.
* the first `Authorization` value is `"Tahoe-LAFS " ++ base64(swissnum)` and all of them are UTF-8;
* every `X-Tahoe-Authorization` value is UTF-8 and well formed (`parseOne`);
* the kinds of secrets present are exactly the required ones. -/
def Authorized (sw : Bytes) (required : List Secret) (auth xauth : List Bytes) : Prop :=
  auth.head? = some (authHeader sw) ∧ auth.all (fun x => (utf8Decode x).isSome) = true ∧
  ∃ vals ps, xauth.mapM utf8Decode = some vals ∧ vals.mapM parseOne = some ps ∧
    ∀ k, k ∈ required ↔ ∃ p ∈ ps, p.1 = k

/-- the dict `_extract_secrets` builds from well-formed values: later values replace earlier ones of their kind -/
def collect (acc : SecretsDict) (ps : List (Secret × Bytes)) : SecretsDict := ps.foldl (fun d p => dictSet d p.1 p.2) acc

theorem extractLoop_eq (acc : SecretsDict) (vals : List (List Nat)) (d : SecretsDict) :
    extractLoop acc vals = .ok d ↔ ∃ ps, vals.mapM parseOne = some ps ∧ d = collect acc ps := by
  induction vals generalizing acc with
  | nil => simp [extractLoop, collect]; exact eq_comm
  | cons v rest ih =>
    unfold extractLoop
    cases hp : parseSecretHeader v with
    | error e =>
      simp only [List.mapM_cons, parseOne, hp]
      constructor
      · intro h; cases h
      · rintro ⟨ps, h, _⟩; simp at h
    | ok p =>
      obtain ⟨k, b⟩ := p
      simp only
      rw [ih]
      simp only [List.mapM_cons, parseOne, hp]
      constructor
      · rintro ⟨ps, h1, h2⟩
        exact ⟨(k, b) :: ps, by simp [h1], by simpa [collect] using h2⟩
      · rintro ⟨ps, h1, h2⟩
        cases hr : List.mapM parseOne rest with
        | none => simp [hr] at h1
        | some ps' =>
          simp [hr] at h1
          subst h1
          exact ⟨ps', rfl, by simpa [collect] using h2⟩

theorem dictSet_any (d : SecretsDict) (k : Secret) (b : Bytes) (k' : Secret) :
    (dictSet d k b).any (·.1 == k') = (d.any (·.1 == k') || k == k') := by
  unfold dictSet
  split
  · rename_i h
    rw [List.any_map]
    by_cases hk : k = k'
    · subst hk
      simp only [beq_self_eq_true, Bool.or_true]
      rw [List.any_eq_true] at h ⊢
      obtain ⟨x, hx, hx2⟩ := h
      exact ⟨x, hx, by simp [Function.comp, hx2]⟩
    · have : (k == k') = false := by simpa using hk
      rw [this, Bool.or_false]
      congr 1
      funext p
      by_cases hp : p.1 == k
      · have hpk : p.1 = k := by simpa using hp
        simp [Function.comp, hpk]
      · simp [Function.comp, hp]
  · simp [List.any_append]

theorem collect_any (acc : SecretsDict) (ps : List (Secret × Bytes)) (k' : Secret) :
    (collect acc ps).any (·.1 == k') = (acc.any (·.1 == k') || ps.any (·.1 == k')) := by
  induction ps generalizing acc with
  | nil => simp [collect]
  | cons p rest ih =>
    have : collect acc (p :: rest) = collect (dictSet acc p.1 p.2) rest := rfl
    rw [this, ih, dictSet_any]
    simp [Bool.or_assoc]

theorem sameKeySet_collect (ps : List (Secret × Bytes)) (required : List Secret) :
    sameKeySet (collect [] ps) required = true ↔ ∀ k, k ∈ required ↔ ∃ p ∈ ps, p.1 = k := by
  have hany : ∀ k, (collect [] ps).any (·.1 == k) = ps.any (·.1 == k) := by
    intro k; rw [collect_any]; simp
  have hmem : ∀ k, (collect [] ps).any (·.1 == k) = true ↔ ∃ p ∈ ps, p.1 = k := by
    intro k; rw [hany, List.any_eq_true]; simp
  unfold sameKeySet
  rw [Bool.and_eq_true, List.all_eq_true, List.all_eq_true]
  constructor
  · rintro ⟨h1, h2⟩ k
    constructor
    · intro hk
      exact (hmem k).mp (h2 k hk)
    · intro hk
      have := (hmem k).mpr hk
      rw [List.any_eq_true] at this
      obtain ⟨q, hq, hq2⟩ := this
      have := h1 q hq
      have hqk : q.1 = k := by simpa using hq2
      rw [← hqk]
      simpa using this
  · intro h
    constructor
    · intro q hq
      have : ∃ p ∈ ps, p.1 = q.1 := (hmem q.1).mp (by rw [List.any_eq_true]; exact ⟨q, hq, by simp⟩)
      simpa using (h q.1).mpr this
    · intro k hk
      exact (hmem k).mpr ((h k).mp hk)

/-- `_extract_secrets` succeeds exactly on well-formed values carrying exactly the required kinds, and returns
the collected dict -/
theorem extractSecrets_ok_iff (vals : List (List Nat)) (required : List Secret) (d : SecretsDict) :
    extractSecrets vals required = .ok d ↔
      ∃ ps, vals.mapM parseOne = some ps ∧ d = collect [] ps ∧ ∀ k, k ∈ required ↔ ∃ p ∈ ps, p.1 = k := by
  unfold extractSecrets
  cases hl : extractLoop [] vals with
  | error e =>
    simp only
    constructor
    · intro h; cases h
    · rintro ⟨ps, h1, h2, _⟩
      have := (extractLoop_eq [] vals d).mpr ⟨ps, h1, h2⟩
      rw [hl] at this; cases this
  | ok d' =>
    obtain ⟨ps, hps, hd'⟩ := (extractLoop_eq [] vals d').mp hl
    simp only
    constructor
    · intro h
      split at h
      · rename_i hs
        cases h
        exact ⟨ps, hps, hd', (sameKeySet_collect ps required).mp (hd' ▸ hs)⟩
      · cases h
    · rintro ⟨ps', h1, h2, h3⟩
      rw [hps] at h1
      cases h1
      have hs : sameKeySet d' required = true := hd' ▸ (sameKeySet_collect ps required).mpr h3
      rw [if_pos hs, h2, hd']

/-- the gate lets a request through exactly when it is `Authorized` for the matched route -/
theorem gate_pass_iff (sw : Bytes) (rq : Request) (m : Matched) (hm : matchRoute rq.method rq.path = some m) :
    (∃ sec, gate sw rq = .pass m sec) ↔ Authorized sw m.required rq.auth rq.xauth := by
  constructor
  · rintro ⟨sec, hg⟩
    obtain ⟨_, ha, vals, hv, he⟩ := gate_pass_matched hg
    obtain ⟨h1, h2⟩ := (authCheck_ok_iff sw rq.auth).mp ha
    obtain ⟨ps, hps, _, hk⟩ := (extractSecrets_ok_iff vals m.required sec).mp he
    exact ⟨h1, h2, vals, ps, hv, hps, hk⟩
  · rintro ⟨h1, h2, vals, ps, hv, hps, hk⟩
    have ha := (authCheck_ok_iff sw rq.auth).mpr ⟨h1, h2⟩
    have he := (extractSecrets_ok_iff vals m.required (collect [] ps)).mpr ⟨ps, hps, rfl, hk⟩
    exact ⟨collect [] ps, by simp [gate, hm, ha, hv, he]⟩

/-- every match comes from an entry of the generated route table, with that entry's method list and secrets -/
theorem matchRoute_from_table (method : String) (path : List String) (m : Matched)
    (h : matchRoute method path = some m) :
    ∃ e ∈ Generated.Http.routes, e.2.1.contains method = true ∧ Route.ofEndpoint e.1 = some m.route ∧
      m.required = e.2.2.2.filterMap Secret.ofName := by
  unfold matchRoute at h
  obtain ⟨e, he, hf⟩ := List.exists_of_findSome?_eq_some h
  obtain ⟨ep, methods, pat, req⟩ := e
  refine ⟨(ep, methods, pat, req), he, ?_⟩
  simp only at hf
  split at hf
  · rename_i hc
    split at hf
    · rename_i a r ha hr
      cases hf
      exact ⟨hc, hr, rfl⟩
    · cases hf
  · cases hf

/-- the handler runs for this request (the whole gate is passed) -/
def served (sw : Bytes) (rq : Request) : Bool :=
  match gate sw rq with
  | .pass _ _ => true
  | _ => false

theorem step_not_served (sw : Bytes) (st : State) (rq : Request) (h : served sw rq = false) :
    (step sw st rq).1 = st := by
  unfold served at h
  unfold step
  split <;> simp_all

/-- the answer to a request that is not served does not depend on the server state -/
theorem step_not_served_response (sw : Bytes) (st st' : State) (rq : Request) (h : served sw rq = false) :
    (step sw st rq).2 = (step sw st' rq).2 := by
  unfold served at h
  unfold step
  split <;> simp_all

/-- the answers given to the served requests of a history, in order -/
def servedAnswers (sw : Bytes) : List Request → List Response → List Response
  | rq :: rqs, r :: rs => if served sw rq then r :: servedAnswers sw rqs rs else servedAnswers sw rqs rs
  | _, _ => []

theorem run_filter_served (sw : Bytes) (st : State) (reqs : List Request) :
    (run sw st reqs).1 = (run sw st (reqs.filter (served sw))).1 ∧
    servedAnswers sw reqs (run sw st reqs).2 = (run sw st (reqs.filter (served sw))).2 := by
  induction reqs generalizing st with
  | nil => simp [run, servedAnswers]
  | cons rq rest ih =>
    by_cases hs : served sw rq = true
    · simp only [List.filter_cons, hs, if_true, run, servedAnswers]
      obtain ⟨h1, h2⟩ := ih (step sw st rq).1
      exact ⟨h1, by rw [h2]⟩
    · have hs' : served sw rq = false := by simpa using hs
      simp only [List.filter_cons, hs', run, servedAnswers]
      rw [step_not_served sw st rq hs']
      simpa using ih st

end Tahoe.Http
