/-
Text format shared by the drivers `Drv/C30.lean` and `Drv/C31.lean`: parsing of requests / printing of
responses and states of the HTTP storage model.  Mathlib-free.  Not part of any theorem.

request token   METHOD|/seg/seg|A=hex,hex|X=hex,hex|BODY      (`A=`/`X=` with nothing after `=`: no header;
                a header whose value is empty is written `-`)
BODY            n | i | t | c | a:<n,n,…|->:<size> | w:N:<hex> | w:<units>:*:<hex> | w:<units>:<start>-<stop>:<hex>
                | r:N | r:<units>:<s>~<e|N>;… | q:<rtw>
rtw             <share>;<share>;…@<off>+<size>,…     share = <shnum>/<tests>/<writes>/<newlen|N>
                tests = <off>+<size>+<hex>,… | -      writes = <off>+<hex>,… | -      (`-` alone = no shares / no reads)
-/
import Tahoe.Base.DrvUtil
import Tahoe.Http.Server
namespace Tahoe.Http.Text
open Tahoe.Drv Tahoe.Http

def hex (b : Bytes) : String := hexOfBytes b

def parseHexList (s : String) : Option (List Bytes) :=
  if s == "" then some [] else (s.splitOn ",").mapM bytesOfHex

def parseNats (s : String) : Option (List Nat) :=
  if s == "-" then some [] else (s.splitOn ",").mapM String.toNat?

def showNats (l : List Nat) : String := if l.isEmpty then "-" else ",".intercalate (l.map toString)

def parseOptInt (s : String) : Option (Option Int) :=
  if s == "N" then some none else s.toInt?.map some

def parseRangeHdr (units : String) (rs : String) : Option RangeHdr := do
  let items ← (if rs == "-" then some [] else (rs.splitOn ";").mapM (fun it =>
    match it.splitOn "~" with
    | [a, b] => do pure ((← a.toInt?), (← parseOptInt b))
    | _ => none))
  pure ⟨units, items⟩

def parseTests (s : String) : Option (List TestV) :=
  if s == "-" then some [] else (s.splitOn ",").mapM (fun it =>
    match it.splitOn "+" with
    | [a, b, c] => do pure ⟨← a.toNat?, ← b.toNat?, ← bytesOfHex c⟩
    | _ => none)

def parseWrites (s : String) : Option (List (Nat × Bytes)) :=
  if s == "-" then some [] else (s.splitOn ",").mapM (fun it =>
    match it.splitOn "+" with
    | [a, c] => do pure (← a.toNat?, ← bytesOfHex c)
    | _ => none)

def parseReads (s : String) : Option (List (Nat × Nat)) :=
  if s == "-" then some [] else (s.splitOn ",").mapM (fun it =>
    match it.splitOn "+" with
    | [a, b] => do pure (← a.toNat?, ← b.toNat?)
    | _ => none)

def parseOptNat (s : String) : Option (Option Nat) :=
  if s == "N" then some none else s.toNat?.map some

def parseRtw (s : String) : Option RtwArgs :=
  match s.splitOn "@" with
  | [sh, rv] => do
    let shares ← (if sh == "-" then some [] else (sh.splitOn ";").mapM (fun it =>
      match it.splitOn "/" with
      | [n, t, w, l] => do pure (← n.toNat?, (⟨← parseTests t, ← parseWrites w, ← parseOptNat l⟩ : TWV))
      | _ => none))
    pure ⟨shares, ← parseReads rv⟩
  | _ => none

def parseBody (s : String) : Option Body :=
  match s.splitOn ":" with
  | ["n"] => some .none
  | ["i"] => some .invalid
  | ["t"] => some .badType
  | ["c"] => some .reason
  | ["a", ns, size] => do pure (.allocate (← parseNats ns) (← size.toNat?))
  | ["w", "N", d] => do pure (.write none (← bytesOfHex d))
  | ["w", units, "*", d] => do pure (.write (some ⟨units, none⟩) (← bytesOfHex d))
  | ["w", units, span, d] =>
    match span.splitOn "-" with
    | [a, b] => do pure (.write (some ⟨units, some (← a.toNat?, ← b.toNat?)⟩) (← bytesOfHex d))
    | _ => none
  | ["r", "N"] => some (.range none)
  | ["r", units, rs] => do pure (.range (some (← parseRangeHdr units rs)))
  | ["q", r] => do pure (.rtw (← parseRtw r))
  | _ => none

def parsePath (s : String) : Option (List String) :=
  match s.splitOn "/" with
  | "" :: segs => some segs
  | _ => none

def parseHdr (pfx : String) (s : String) : Option (List Bytes) :=
  match s.splitOn "=" with
  | [p, v] => if p == pfx then parseHexList v else none
  | _ => none

def parseRequest (tok : String) : Option Request :=
  match tok.splitOn "|" with
  | [m, p, a, x, b] => do
    pure ⟨m, ← parsePath p, ← parseHdr "A" a, ← parseHdr "X" x, ← parseBody b⟩
  | _ => none

/-! ### printing -/

def showPairs (l : List (Nat × Nat)) : String :=
  if l.isEmpty then "-" else ",".intercalate (l.map fun p => s!"{p.1}-{p.2}")

def showReads (l : List (Nat × List Bytes)) : String :=
  if l.isEmpty then "-" else ";".intercalate (l.map fun p => s!"{p.1}=" ++ "+".intercalate (p.2.map hex))

def firstWord (s : String) : String := (s.splitOn " ").headD ""

def showBody : RBody → String
  | .empty => "empty"
  | .html => "html"
  | .text s => "text:" ++ firstWord s
  | .share b => "share:" ++ hex b
  | .allocated h a => s!"alloc:{showNats h}/{showNats a}"
  | .required r => "req:" ++ showPairs r
  | .shares l => "shares:" ++ showNats l
  | .rtwResult r => s!"rtw:{if r.success then "T" else "F"}:{showReads r.reads}"
  | .version => "version"

def showResponse (r : Response) : String := s!"{r.status}:{showBody r.body}"

def showLeases (l : List Lease) : String := "[" ++ ",".intercalate (l.map fun x => hex x.1 ++ "." ++ hex x.2) ++ "]"

def showCells (c : Cells) : String :=
  if c.isEmpty then "-" else String.join (c.map fun x => match x with
    | none => ".."
    | some b => hexOfBytes [b])

def insertStr (s : String) : List String → List String
  | [] => [s]
  | x :: xs => if s < x then s :: x :: xs else x :: insertStr s xs

def sortStr (l : List String) : List String := l.foldl (fun acc s => insertStr s acc) []

def showState (st : State) : String :=
  let i := st.imm.map fun e => s!"I{e.1.1}/{e.1.2}={hex e.2.data}{showLeases e.2.leases}"
  let u := st.up.map fun e => s!"U{e.1.1}/{e.1.2}={hex e.2.secret}:{showCells e.2.cells}{showLeases [e.2.lease]}"
  let m := st.muts.map fun e => s!"M{e.1.1}/{e.1.2}={hex e.2.enabler}:{hex e.2.data}{showLeases e.2.leases}@{hex e.2.nodeid}"
  " ".intercalate (sortStr (i ++ u ++ m) ++ [s!"adv={st.advisories}"])

end Tahoe.Http.Text
