/-
The *direct* path of C31: the same client-level operations (`Op`, `Client.lean`) executed by calling the
`StorageServer` itself (`storage/server.py`, `storage/immutable.py`), as the Foolscap front end or a local caller
does, on the same abstract state.  Mathlib-free, executable; compared by `Drv/C31.lean` (`dhist`) with direct calls
on a real `StorageServer`.

Results use the client vocabulary of `Res`; where the direct API reports a condition differently the harness maps
it: no `BucketWriter` held for the share ↦ 404 (405 for an abort of a finished share), `ConflictingWriteError` ↦
409, `DataTooLargeError` ↦ 500, no `BucketReader` / no entry in `slot_readv`'s result ↦ 404, `add_lease` on a
storage index without shares (a silent no-op) ↦ 404, `BadWriteEnablerError` ↦ 401, an empty chunk (refused by
`RangeMap.set`) ↦ client error.
-/
import Tahoe.Http.Client
namespace Tahoe.Http

def directStep (st : State) : Op → State × Res
  | .create si ns size u r c =>
    -- `allocate_buckets(si, r, c, ns, size)`: `renew_leases` defaults to True
    let x := ssAllocate true st si ns size u (r, c)
    (x.1, .created x.2.1 x.2.2)
  | .write si n _ off d =>
    if d = [] then (st, .clientError)
    else match lookupK (si, n) st.up with
      | none => (st, .httpError 404)
      | some u =>
        -- `bw.write(off, d)`, then `bw.close()` as soon as it reports completion
        match bucketWrite u.cells off d with
        | .conflict => (st, .httpError 409)
        | .tooLarge => (st, .httpError 500)
        | .ok c =>
          if finished c then
            ({ st with up := eraseK (si, n) st.up, imm := st.imm ++ [((si, n), ⟨cellsData c, [u.lease]⟩)] },
             .progress true [])
          else ({ st with up := setK (si, n) { u with cells := c } st.up }, .progress false (required c))
  | .abort si n _ =>
    match lookupK (si, n) st.up with
    | none => if (lookupK (si, n) st.imm).isSome then (st, .httpError 405) else (st, .httpError 404)
    | some _ => ({ st with up := eraseK (si, n) st.up }, .done)          -- `bw.abort()`
  | .read si n off len =>
    match lookupK (si, n) st.imm with
    | none => (st, .httpError 404)
    | some s => (st, .data (readShareData s.data off len))                -- `get_buckets(si)[n].read(off, len)`
  | .mread si n off len =>
    match lookupK (si, n) st.muts with
    | none => (st, .httpError 404)
    | some s => (st, .data (readShareData s.data off len))                -- `slot_readv(si, [n], [(off, len)])[n][0]`
  | .list si => (st, .shares (immNums st si))
  | .mlist si => (st, .shares (mutNums st si))
  | .lease si r c =>
    if (immNums st si).isEmpty && (mutNums st si).isEmpty then (st, .httpError 404)
    else (leaseAll st si (r, c), .done)                                   -- `add_lease(si, r, c)`
  | .rtw si we r c a =>
    match ssRtw st si we (r, c) a with
    | none => (st, .httpError 401)
    | some x => (x.1, .rtw x.2)

def directRun (st : State) : List Op → State × List Res
  | [] => (st, [])
  | op :: rest =>
    let r := directStep st op
    let rr := directRun r.1 rest
    (rr.1, r.2 :: rr.2)

/-! ### what the client hands to the server, once the gate is passed -/

def clientMatched : Op → Matched
  | .create si .. => ⟨.allocate, ⟨si, 0⟩, [.leaseCancel, .leaseRenew, .upload]⟩
  | .write si n .. => ⟨.write, ⟨si, n⟩, [.upload]⟩
  | .abort si n _ => ⟨.abort, ⟨si, n⟩, [.upload]⟩
  | .read si n .. => ⟨.readImm, ⟨si, n⟩, []⟩
  | .mread si n .. => ⟨.readMut, ⟨si, n⟩, []⟩
  | .list si => ⟨.listImm, ⟨si, 0⟩, []⟩
  | .mlist si => ⟨.listMut, ⟨si, 0⟩, []⟩
  | .lease si .. => ⟨.lease, ⟨si, 0⟩, [.leaseCancel, .leaseRenew]⟩
  | .rtw si .. => ⟨.rtw, ⟨si, 0⟩, [.leaseCancel, .leaseRenew, .writeEnabler]⟩

/-- the secrets `StorageClient._request` puts into `X-Tahoe-Authorization` headers -/
def clientSecrets : Op → SecretsDict
  | .create _ _ _ u r c => [(.leaseRenew, r), (.leaseCancel, c), (.upload, u)]
  | .write _ _ u .. => [(.upload, u)]
  | .abort _ _ u => [(.upload, u)]
  | .lease _ r c => [(.leaseRenew, r), (.leaseCancel, c)]
  | .rtw _ we r c _ => [(.leaseRenew, r), (.leaseCancel, c), (.writeEnabler, we)]
  | _ => []

/-- the payload of the request `opRequest` builds (`none`: nothing is sent) -/
def clientBody (m : ZeroRead) : Op → Option Body
  | .create _ ns size .. => some (.allocate ns size)
  | .write _ _ _ off d => (clientContentRange off d).map fun cr => .write (some cr) d
  | .read _ _ off len =>
    match clientReadPlan m off len with
    | .send h _ => some (.range (some h))
    | _ => none
  | .mread _ _ off len =>
    match clientReadPlan m off len with
    | .send h _ => some (.range (some h))
    | _ => none
  | .rtw _ _ _ _ a =>
    match decRtw (encRtw a) with
    | some a' => some (.rtw a')
    | none => some .invalid
  | _ => some .none

/-- the HTTP path behind the gate: handler on the client's route, secrets and payload, answer read by the client -/
def handledStep (st : State) (op : Op) : State × Res :=
  match clientBody zeroRead op with
  | none => (st, opLocal op)
  | some body =>
    let r := handle st (clientMatched op) (clientSecrets op) body
    (r.1, opResult op r.2)

end Tahoe.Http
