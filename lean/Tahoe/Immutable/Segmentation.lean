import Tahoe.Immutable.Fetch
import Tahoe.Spans.Model
/-
Model of `allmydata/immutable/downloader/segmentation.py` class `Segmentation` (one `read(offset,
size)` of a file node: which segment to ask the DownloadNode for, what to do with each answer) and
of the composed system `Sys` = one `DownloadNode` (`Tahoe.Fetch.Node`) + the reads running on it.
Mathlib-free, executable; used by `Drv/C46.lean` (`seg` and `sys` lines).

`Seg` events (`SEv`), one per callback of the class:
  * `start`                 = `start()` (`registerProducer`, `_maybe_fetch_next`)
  * `segment st len pause`  = the Deferred of the outstanding `get_segment` fires with
                               `(segment_start, segment, decodetime)`, `len = len(segment)`;
                               `pause` = the consumer calls `pauseProducing()` inside `write()`
  * `failed e`              = that Deferred errbacks (`BadSegmentNumberError` or any other failure)
  * `stop | pause | resume` = `stopProducing() | pauseProducing() | resumeProducing()`
  * `turn`                  = the `eventually(self._maybe_fetch_next)` queued by `resumeProducing`
`known` (argument of `segStep`) = `node.segment_size is not None` at the time of the callback.

Transcribed literally: `_request_retired` runs on *every* outcome (`d.addBoth`) and clears
`_active_segnum`; `_got_segment` raises `WrongSegmentError` when the overlap is empty or does not
start at `_offset`; `_retry_bad_segment` is attached only when the request was made without the
real segment size (`retryArmed`), traps `WrongSegmentError`/`BadSegmentNumberError`, asserts the
segment size is known now and calls `_maybe_fetch_next`; everything else goes to `_error`.
Deviations: `_active_segnum` and `_cancel_segment_request` are one field (`active`; they are set and
cleared together, `_got_segment` clears the handle a second time); the consumer is the list of
`write` lengths; log/status calls are not modelled; `stopProducing` after the Deferred has fired
(`AlreadyCalledError`, never done by a consumer that was unregistered) is a no-op.
-/
namespace Tahoe.Fetch

inductive SegErr | wrongSegment | badSegnum | stopped | assertion | other (code : Nat)
deriving DecidableEq, Repr

/-- calls a Segmentation makes, in order -/
inductive SegOut
  | getSegment (segnum : Nat)   -- `node.get_segment(segnum)`
  | cancel                      -- `self._cancel_segment_request.cancel()`
  | write (start len : Nat)     -- `consumer.write(file[start : start+len])`
  | done                        -- `self._deferred.callback(consumer)`
  | errback (e : SegErr)        -- `self._deferred.errback(f)`
deriving DecidableEq, Repr

structure Seg where
  segsize : Nat                -- the real segment size (`node.segment_size` once known)
  guess : Nat                  -- `node.guessed_segment_size`
  offset : Nat
  size : Nat
  alive : Bool := false
  hungry : Bool := true
  active : Option Nat := none  -- `_active_segnum` (and `_cancel_segment_request is not None`)
  retryArmed : Bool := false   -- `_retry_bad_segment` is in the callback chain of the outstanding request
  turns : Nat := 0             -- queued `eventually(self._maybe_fetch_next)`
  result : Option (Option SegErr) := none   -- `_deferred`: `some none` = callback, `some (some e)` = errback
  out : List SegOut := []
deriving Repr

inductive SEv
  | start
  | segment (st len : Nat) (pause : Bool)
  | failed (e : SegErr)
  | stop | pause | resume | turn
deriving DecidableEq, Repr

/-- `_error(f)` -/
def segError (s : Seg) (e : SegErr) : Seg :=
  { s with alive := false, hungry := false, result := some (some e), out := s.out ++ [.errback e] }

/-- `_fetch_next()` -/
def fetchNext (s : Seg) (known : Bool) : Seg :=
  if s.size = 0 then
    { s with alive := false, hungry := false, result := some none, out := s.out ++ [.done] }
  else
    let ss := if known then s.segsize else s.guess      -- `n.segment_size or n.guessed_segment_size`
    let wanted := if s.offset = 0 then 0 else s.offset / ss
    { s with active := some wanted, retryArmed := !known, out := s.out ++ [.getSegment wanted] }

/-- `_maybe_fetch_next()` -/
def maybeFetchNext (s : Seg) (known : Bool) : Seg :=
  if !s.alive || !s.hungry then s
  else if s.active.isSome then s
  else fetchNext s known

/-- the errback chain after `_request_retired`: `_retry_bad_segment` (if attached) then `_error` -/
def segFailure (s : Seg) (known : Bool) (e : SegErr) (armed : Bool) : Seg :=
  if armed && (e = .wrongSegment || e = .badSegnum) then
    if known then maybeFetchNext s known     -- "we're allowed to retry once"
    else segError s .assertion               -- `assert self._node.segment_size is not None`
  else segError s e

def segStep (s : Seg) (known : Bool) : SEv → Seg
  | .start => maybeFetchNext { s with alive := true } known
  | .segment st len pause =>
    let armed := s.retryArmed
    let s := { s with active := none }                       -- `_request_retired`
    match Tahoe.Spans.overlap st len s.offset s.size with     -- `_got_segment`
    | some (o0, o1) =>
      if o0 ≠ s.offset then segFailure s known .wrongSegment armed
      else
        let s := { s with offset := s.offset + o1, size := s.size - o1, out := s.out ++ [.write o0 o1] }
        let s := if pause then { s with hungry := false } else s
        maybeFetchNext s known
    | none => segFailure s known .wrongSegment armed
  | .failed e =>
    let armed := s.retryArmed
    segFailure { s with active := none } known e armed
  | .stop =>
    if s.result.isSome then s else
    let s := { s with hungry := false, alive := false }
    let s := if s.active.isSome then { s with out := s.out ++ [.cancel] } else s
    { s with result := some (some .stopped), out := s.out ++ [.errback .stopped] }
  | .pause => { s with hungry := false }
  | .resume => { s with hungry := true, turns := s.turns + 1 }
  | .turn => maybeFetchNext { s with turns := s.turns - 1 } known

/-! ### the composed system: reads (`Seg`) on one `DownloadNode` (`Node`)

`DownloadNode.read()` creates one `Segmentation` per call; its `get_segment` calls go to the node's
queue (`NEv.getSegment`, request id = the `(d, c)` pair), `stopProducing` cancels the outstanding
request (`NEv.cancel`), and when the node retires a request (`Node.retired`) a queued
`eventually(self._deliver, d, c, result)` later fires `d`: `SysEv.deliver`.  A successful outcome
carries the genuine segment for the requested number (`segment_start = segnum * segment_size`,
`len = min(segment_size, size - start)`); by then the UEB, hence the segment size, is known. -/

structure RSeg where
  rid : Nat
  seg : Seg
  req : Option Nat := none        -- id of its outstanding `get_segment` request
  off0 : Nat := 0                 -- the range asked for by `read(consumer, off0, size0)` (ghost: never read)
  size0 : Nat := 0
deriving Repr

structure Sys where
  node : Node
  filesize : Nat
  segsize : Nat                   -- real segment size
  guess : Nat                     -- `guessed_segment_size`
  reads : List RSeg := []
  nextReq : Nat := 0
deriving Repr

inductive SysEv
  | startRead (rid off size : Nat)   -- `node.read(consumer, off, size)` → `Segmentation(...).start()`
  | node (e : NEv)                   -- environment of the node: gotShares / noMoreShares / uebKnown / share / loop
  | deliver (req : Nat)              -- the queued `_deliver` of a retired request runs
  | stop (rid : Nat) | pause (rid : Nat) | resume (rid : Nat) | turn (rid : Nat)
deriving DecidableEq, Repr

def newRequest : List SegOut → Option Nat
  | [] => none
  | .getSegment n :: _ => some n
  | _ :: r => newRequest r

def setRead (rs : List RSeg) (r : RSeg) : List RSeg :=
  rs.map (fun x => if x.rid = r.rid then r else x)

/-- run one `Seg` event of read `r` and perform the calls it makes on the node -/
def applySeg (y : Sys) (r : RSeg) (known : Bool) (e : SEv) : Sys :=
  let s' := segStep { r.seg with out := [] } known e
  let node1 := if SegOut.cancel ∈ s'.out then
      (match r.req with
       | some q => nstep y.node (.cancel q)
       | none => y.node)
    else y.node
  match newRequest s'.out with
  | some n =>
    { y with node := nstep node1 (.getSegment n y.nextReq), nextReq := y.nextReq + 1,
             reads := setRead y.reads { r with seg := s', req := some y.nextReq } }
  | none =>
    let req' := if s'.active.isSome && !(SegOut.cancel ∈ s'.out) then r.req else none
    { y with node := node1, reads := setRead y.reads { r with seg := s', req := req' } }

def findRead (y : Sys) (rid : Nat) : Option RSeg := y.reads.find? (fun r => r.rid == rid)

/-- what the read is told when request `q` (retired with outcome `o`) is delivered -/
def answerOf (y : Sys) (r : RSeg) (o : Outcome) : SEv :=
  match o with
  | .ok =>
    let n := r.seg.active.getD 0
    .segment (n * y.segsize) (min y.segsize (y.filesize - n * y.segsize)) false
  | .err .badSegnum => .failed .badSegnum
  | .err .noShares => .failed (.other 1)
  | .err .notEnough => .failed (.other 2)
  | .decodeErr => .failed (.other 3)

def sysStep (y : Sys) : SysEv → Sys
  | .startRead rid off size =>
    let r : RSeg := { rid := rid, seg := { segsize := y.segsize, guess := y.guess, offset := off, size := size },
                      off0 := off, size0 := size }
    applySeg { y with reads := y.reads ++ [r] } r y.node.haveUEB .start
  | .node e => { y with node := nstep y.node e }
  | .deliver q =>
    match y.node.retired.find? (fun p => p.1 == q), y.reads.find? (fun r => r.req == some q) with
    | some (_, o), some r => applySeg y r (y.node.haveUEB || o == .ok) (answerOf y r o)
    | _, _ => y
  | .stop rid => match findRead y rid with
    | some r => applySeg y r y.node.haveUEB .stop
    | none => y
  | .pause rid => match findRead y rid with
    | some r => applySeg y r y.node.haveUEB .pause
    | none => y
  | .resume rid => match findRead y rid with
    | some r => applySeg y r y.node.haveUEB .resume
    | none => y
  | .turn rid => match findRead y rid with
    | some r => applySeg y r y.node.haveUEB .turn
    | none => y

def sysRun (y : Sys) : List SysEv → Sys
  | [] => y
  | e :: es => sysRun (sysStep y e) es

end Tahoe.Fetch
