import Tahoe.Immutable.SegLemmas
import Tahoe.Immutable.Pipeline
/-
Data refinement between the C03/C46 model of `Segmentation` (`Tahoe.Fetch.Seg`, `segStep`: which calls a read
makes, recorded as `write (start, len)` *extents*) and the C04 byte-level reader (`ReaderState.deliver`,
`feed`, `feedAll`: which *bytes* reach the consumer), and the composed system of one node queue and
any number of reads.  Mathlib-free, executable.  Nothing of `Tahoe.Fetch` is copied: `Seg`, `SEv`,
`segStep`, `writesOf`, `Node`, `NEv`, `nstep`, `Outcome` are imported.

  * `bytesOf`, `proj`   — the bytes a `Seg`'s recorded writes stand for, and its data state
  * `REv`, `REv.toSEv`  — the callbacks of one Segmentation, with "the outstanding request fires with a
                          segment" specialised to *genuine* segments `deliver sn` = `(sn*seg, ct[sn*seg : (sn+1)*seg])`
                          (what `DownloadNode.process_blocks` hands to `_deliver` for segment `sn`, C01
                          `getSegment_uploaded`); every other `SEv` is available unchanged
The composed system (node + reads) is `Tahoe.Fetch.Sys` of the C03/C46 builder; its refinement to these
byte-level readers is in `LemmasSysRefine.lean`.
-/
namespace Tahoe.Immutable.ReadSystem
open Tahoe.Immutable Tahoe.Immutable.Pipeline
open Tahoe.Fetch (Seg SEv SegErr SegOut segStep writesOf Node NEv nstep Outcome)

/-- the bytes of ciphertext `ct` that a list of `write (start, len)` extents stands for -/
def bytesOf (ct : Bytes) : List (Nat × Nat) → Bytes
  | [] => []
  | (st, len) :: r => (ct.drop st).take len ++ bytesOf ct r

/-- the data state of a `Seg`: what it still wants and the bytes its consumer has received -/
def proj (ct : Bytes) (s : Seg) : ReaderState :=
  { offset := s.offset, size := s.size, out := bytesOf ct (writesOf s.out) }

/-- callbacks of one read; `deliver sn pause` = its outstanding request fires with the genuine segment `sn` -/
inductive REv
  | start
  | deliver (sn : Nat) (pauseInWrite : Bool)
  | failed (e : SegErr)
  | stop | pause | resume | turn
  deriving DecidableEq, Repr

def REv.toSEv (ct : Bytes) (seg : Nat) : REv → SEv
  | .start => .start
  | .deliver sn p => .segment (sn * seg) ((ct.drop (sn * seg)).take seg).length p
  | .failed e => .failed e
  | .stop => .stop
  | .pause => .pause
  | .resume => .resume
  | .turn => .turn

/-- the segment numbers a reader was handed, in order -/
def deliveries : List (REv × Bool) → List Nat
  | [] => []
  | (.deliver sn _, _) :: r => sn :: deliveries r
  | _ :: r => deliveries r

/-- one read under a history of callbacks, each with `node.segment_size is not None` at that moment -/
def runReader (ct : Bytes) (seg : Nat) (s : Seg) : List (REv × Bool) → Seg
  | [] => s
  | (e, k) :: es => runReader ct seg (segStep s k (e.toSEv ct seg)) es

end Tahoe.Immutable.ReadSystem
