import Tahoe.Immutable.Sizes
import Tahoe.Generated.Immutable
/-
Convergent keys, literal files, cap assembly (Mathlib-free, executable).

  * util/netstring.py `netstring`, Python `b"%d" % n`                          → `netstring`, `decimal`
  * util/hashutil.py `_convergence_hasher_tag` (ValueError checks, `"%d,%d,%d"`) → `convergenceTag`
  * util/hashutil.py `convergence_hasher` = `tagged_hasher(tag, KEYLEN)`: a SHA-256d hasher fed
    `netstring(tag)`; immutable/upload.py `FileHandle._get_encryption_key_convergent`: `f.read(BLOCKSIZE)`
    until an empty read, each chunk fed to the hasher                            → `hashReads`, `convergentKey`
  * `FileHandle._get_encryption_key_random`: `os.urandom(16)` — an *input* of the model → `encryptionKey`
  * immutable/upload.py `Uploader.upload`: `size <= URI_LIT_SIZE_THRESHOLD` → `LiteralUploader`
    (`uri.LiteralFileURI(b"".join(data))`), else CHK with
    `CHKFileURI(key, ueb_hash, k, n, size)`; `storage_index_hash(key)`            → `uploadCap`, `storageIndex`

The hash function is a parameter: an incremental hasher `Hasher` with the law
`update (update s a) b = update s (a ++ b)` (hashlib's documented behaviour), and abstract functions
for the storage index and for the UEB hash of the (deterministic, C01) encoding.
-/
namespace Tahoe.Immutable.Convergence
open Tahoe.Immutable Tahoe.Immutable.Sizes
open Tahoe.Generated

abbrev Bytes := List UInt8

/-- fuel-driven worker for `decimal` (structural recursion, kernel-evaluable); `n < fuel` suffices -/
def decimalAux : Nat → Nat → Bytes
  | 0, _ => []
  | fuel + 1, n => if n < 10 then [UInt8.ofNat (48 + n)] else decimalAux fuel (n / 10) ++ [UInt8.ofNat (48 + n % 10)]

/-- `b"%d" % n` for `n ≥ 0`: ASCII decimal digits, no leading zeros -/
def decimal (n : Nat) : Bytes := decimalAux (n + 1) n

/-- `netstring(s) = b"%d:%s," % (len(s), s)` (58 = ':', 44 = ',') -/
def netstring (s : Bytes) : Bytes := decimal s.length ++ 58 :: (s ++ [44])

/-- `b"%d,%d,%d" % (k, n, segsize)` -/
def paramString (k n segsize : Nat) : Bytes := decimal k ++ 44 :: (decimal n ++ 44 :: decimal segsize)

/-- `_convergence_hasher_tag`: `none` = ValueError (`k > n`, `k < 1`, `n < 1`, `k > 256`, `n > 256`) -/
def convergenceTag (k n segsize : Nat) (secret : Bytes) : Option Bytes :=
  if k > n then none
  else if k < 1 ∨ n < 1 then none
  else if k > 256 ∨ n > 256 then none
  else some (Immutable.CONVERGENT_ENCRYPTION_TAG ++ netstring secret ++ netstring (paramString k n segsize))

/-- an incremental hash (hashlib object + the SHA-256d / truncation finish of `_SHA256d_Hasher.digest`) -/
structure Hasher (S : Type) where
  init : S
  update : S → Bytes → S
  digest : S → Bytes

/-- hashlib's contract: feeding `a` then `b` is feeding `a ++ b` -/
def Hasher.Lawful {S : Type} (h : Hasher S) : Prop := ∀ s a b, h.update (h.update s a) b = h.update s (a ++ b)

/-- the loop `while True: data = f.read(BLOCKSIZE); if not data: break; hasher.update(data)` over the
    successive results of `f.read` -/
def hashReads {S : Type} (h : Hasher S) (st : S) : List Bytes → S
  | [] => st
  | r :: rest => if r.isEmpty then st else hashReads h (h.update st r) rest

/-- the bytes the read loop consumed: everything before the first empty read -/
def consumed : List Bytes → Bytes
  | [] => []
  | r :: rest => if r.isEmpty then [] else r ++ consumed rest

/-- `_get_encryption_key_convergent`: `tagged_hasher(tag, KEYLEN)` (fed `netstring(tag)`), the read loop,
    `digest()` truncated to KEYLEN -/
def convergentKey {S : Type} (h : Hasher S) (k n segsize : Nat) (secret : Bytes) (reads : List Bytes) : Option Bytes :=
  match convergenceTag k n segsize secret with
  | none => none
  | some tag => some ((h.digest (hashReads h (h.update h.init (netstring tag)) reads)).take Immutable.CONVERGENCE_KEY_LEN)

/-- `get_encryption_key`: random (the 16 bytes `os.urandom` returned, an input) unless a convergence secret is set -/
def encryptionKey {S : Type} (h : Hasher S) (convergence : Option Bytes) (urandom : Bytes) (k n segsize : Nat)
    (reads : List Bytes) : Option Bytes :=
  match convergence with
  | none => some urandom
  | some secret => convergentKey h k n segsize secret reads

inductive Cap where
  | lit (data : Bytes)
  | chk (key : Bytes) (uebHash : Bytes) (k n size : Nat)
  deriving DecidableEq, Repr

/-- `size <= self.URI_LIT_SIZE_THRESHOLD` -/
def isLiteral (size : Nat) : Bool := decide (size ≤ Immutable.URI_LIT_SIZE_THRESHOLD)

/-- result of `Uploader.upload`: the cap and the number of shares pushed to servers -/
structure UploadResult where
  cap : Cap
  sharesPushed : Nat
  deriving DecidableEq, Repr

/-- `Uploader.upload` at the level of caps.  `uebHashOf key pt k n segsize` stands for the UEB hash of
    the C01 encoding (a function of exactly these arguments), `reads` for what the uploadable's file
    object returned to the key-hashing loop (`consumed reads` must be the plaintext for a sane file). -/
def uploadCap {S : Type} (h : Hasher S) (uebHashOf : Bytes → Bytes → Nat → Nat → Nat → Bytes)
    (convergence : Option Bytes) (urandom : Bytes) (k n maxSeg : Nat) (pt : Bytes) (reads : List Bytes) :
    Option UploadResult :=
  if isLiteral pt.length then some { cap := .lit pt, sharesPushed := 0 }
  else
    match segSize k maxSeg pt.length with
    | .error _ => none
    | .ok segsize =>
      match encryptionKey h convergence urandom k n segsize reads with
      | none => none
      | some key => some { cap := .chk key (uebHashOf key pt k n segsize) k n pt.length, sharesPushed := n }

/-- outcome of `Uploader.upload` on a client that currently knows `servers` storage servers -/
inductive UploadOutcome where
  | ok (r : UploadResult)
  | noServers          -- `NoServersError("client gave us zero servers")` from `Tahoe2ServerSelector.get_shareholders`
  | error              -- parameter errors (`ValueError` of the convergence tag, ZeroDivisionError for `k = 0`)
  deriving DecidableEq, Repr

/-- `Uploader.upload` with the storage broker's server list as an input.  The order is the code's: the size is
    compared with `URI_LIT_SIZE_THRESHOLD` *first* and `LiteralUploader` never touches the broker; only the CHK
    branch (after the key and storage index exist) asks `storage_broker.get_servers_for_psi` and raises
    NoServersError on an empty answer.  (Placement / happiness with a non-empty server list is C06/C07.) -/
def uploadCapOn {S : Type} (h : Hasher S) (uebHashOf : Bytes → Bytes → Nat → Nat → Nat → Bytes) (servers : Nat)
    (convergence : Option Bytes) (urandom : Bytes) (k n maxSeg : Nat) (pt : Bytes) (reads : List Bytes) : UploadOutcome :=
  if isLiteral pt.length then .ok { cap := .lit pt, sharesPushed := 0 }
  else
    match uploadCap h uebHashOf convergence urandom k n maxSeg pt reads with
    | none => .error
    | some r => if servers = 0 then .noServers else .ok r

/-- `CHKFileURI.storage_index = storage_index_hash(key)`; literal caps have none -/
def storageIndex (siHash : Bytes → Bytes) : Cap → Option Bytes
  | .lit _ => none
  | .chk key _ _ _ _ => some (siHash key)

end Tahoe.Immutable.Convergence
