import Tahoe.Immutable.Integrity
import Tahoe.Crypto.Derive
import Tahoe.Codec.Ueb
/-
The integrity chain instantiated on real bytes (used by the drivers of C02 / C45, Mathlib-free):
  * `realEnv` — SHA-256d tagged hashes of hashutil.py (`uri_extension_hash`, `block_hash`,
    `crypttext_segment_hash`), hashtree.py's `pair_hash` / `empty_leaf_hash` (tags are literals in hashtree.py),
    Python truthiness of `bytes`, and `parseUEB` = `uri.unpack_extension` (Tahoe/Codec/Ueb.lean) + field lookups;
  * `viewOf` / `vviewOf` — what the downloader's / the verifier's reads of a *concrete share byte string*
    return, following immutable/layout.py (v1: 4-byte fields, table at 0x0c; v2: 8-byte fields, table at 0x14)
    and the storage server's read semantics (a read past the end is cut short).
-/
namespace Tahoe.IntegrityBytes
open Tahoe.Integrity Tahoe.Base.Merkle Tahoe.Crypto.Derive Tahoe.Base.Sha256

abbrev B := List UInt8

def pairTag : B := ofAscii "Merkle tree internal node"
def emptyTag : B := ofAscii "Merkle tree empty leaf"

def realOps : HashOps B :=
  { pair := fun a b => taggedPairHash pairTag a b none,
    emptyLeaf := fun i => taggedHash emptyTag (ofAscii (toString i)) none,
    truthy := fun h => !h.isEmpty }

def key (s : String) : B := ofAscii s

def lookupBytes (d : Tahoe.Codec.Ueb.Dict) (k : String) : Option B :=
  match d.lookup (key k) with
  | some (.bytes b) => some b
  | _ => none

def lookupNat (d : Tahoe.Codec.Ueb.Dict) (k : String) : Option (Option Nat) :=
  match d.lookup (key k) with
  | none => some none
  | some (.int n) => if n < 0 then none else some (some n.toNat)
  | some (.bytes _) => none

/-- `codec.parse_params`: three `-`-separated decimal numbers (`int()`; only canonical non-negative decimals are
    produced by uploaders, anything else is reported as an exception) -/
def parseParams (b : B) : Option (Nat × Nat × Nat) :=
  match (String.ofList (b.map (fun c => Char.ofNat c.toNat))).splitOn "-" with
  | [a, k, n] => do pure ((← a.toNat?), (← k.toNat?), (← n.toNat?))
  | _ => none

def parseUEB (data : B) : Option (UEB B) :=
  match Tahoe.Codec.Ueb.unpack Tahoe.Codec.Ueb.strict data with
  | .error _ => none
  | .ok d => do
    let seg ← (← lookupNat d "segment_size")
    let ctRoot ← lookupBytes d "crypttext_root_hash"
    let shRoot ← lookupBytes d "share_root_hash"
    let cp ← match d.lookup (key "codec_params") with
      | none => some none
      | some (.bytes b) => (parseParams b).map some
      | _ => none
    let tcp ← match d.lookup (key "tail_codec_params") with
      | none => some none
      | some (.bytes b) => (parseParams b).map some
      | _ => none
    pure { segmentSize := seg, ctRoot := ctRoot, shareRoot := shRoot,
           ctHashLen := (lookupBytes d "crypttext_hash").map List.length,
           codecName := lookupBytes d "codec_name",
           codecParams := cp, tailCodecParams := tcp,
           numSegments := ← lookupNat d "num_segments", size := ← lookupNat d "size",
           neededShares := ← lookupNat d "needed_shares", totalShares := ← lookupNat d "total_shares" }

def realEnv : Env B :=
  { tagged := fun t d => match t with
      | .ueb => uriExtensionHash d
      | .block => blockHash d
      | .seg => crypttextSegmentHash d,
    ops := realOps, parseUEB := parseUEB }

/-! ## reading a concrete share -/

def beNat (b : B) : Nat := b.foldl (fun acc x => acc * 256 + x.toNat) 0

/-- `read(offset, length)`: cut short at the end of the share -/
def rd (sh : B) (off len : Nat) : B := (sh.drop off).take len

/-- a complete read or nothing (`DataSpans.get` / `pop` return None unless every byte is there) -/
def rdAll (sh : B) (off len : Nat) : Option B :=
  if off + len ≤ sh.length then some (rd sh off len) else none

structure Header where
  version : Nat
  fieldSize : Nat
  offs : Offsets

/-- version + offset table; fields that cannot be read are 0 (the version test / the unavailability is reported
    by the caller) -/
def header (sh : B) : Option Header :=
  match rdAll sh 0 4 with
  | none => none
  | some vb =>
    let ver := beNat vb
    if ver ≠ 1 ∧ ver ≠ 2 then some { version := ver, fieldSize := 0, offs := ⟨0, 0, 0, 0, 0, 0⟩ }
    else
      let fs := if ver = 1 then 4 else 8
      let start := if ver = 1 then 0x0c else 0x14
      match rdAll sh start (6 * fs) with
      | none => none
      | some tb =>
        let f := fun (i : Nat) => beNat ((tb.drop (i * fs)).take fs)
        some { version := ver, fieldSize := fs, offs := ⟨f 0, f 1, f 2, f 3, f 4, f 5⟩ }

def chunk32 : Nat → B → List B
  | 0, _ => []
  | f + 1, b => if b.isEmpty then [] else b.take 32 :: chunk32 f (b.drop 32)

def pairs34 : Nat → B → List (Nat × B)
  | 0, _ => []
  | f + 1, b => if b.isEmpty then [] else (beNat (b.take 2), (b.drop 2).take 32) :: pairs34 f (b.drop 34)

/-- the downloader's view of share bytes `sh` when it wants segment `segnum` (sizes from `cap` and the UEB the
    share carries; when that UEB is unusable the block field is irrelevant) -/
def viewOf (cap : Cap B) (sh : B) (segnum : Nat) : Option (View B) :=
  match header sh with
  | none => none
  | some h =>
    let o := h.offs
    let uebBytes : Option B :=
      match rdAll sh o.uriExtension h.fieldSize with
      | none => none
      | some lb => match rdAll sh (o.uriExtension + h.fieldSize) (beNat lb) with
        | none => none
        | some u => if u.isEmpty then none else some u
    let hashlen := o.uriExtension - o.shareHashes
    let shareHashes := match rdAll sh o.shareHashes hashlen with
      | none => []
      | some d => pairs34 (d.length + 1) d
    let block : B :=
      match uebBytes.bind parseUEB with
      | none => []
      | some u => match calcSizes cap.size cap.k u.segmentSize with
        | none => []
        | some sz =>
          let blen := if segnum + 1 = sz.numSegs then sz.tailBlockSize else sz.blockSize
          (rdAll sh (o.data + segnum * sz.blockSize) blen).getD []
    some { version := h.version, offs := o, uebBytes := uebBytes, shareHashes := shareHashes,
           blockHashes := fun i => rdAll sh (o.blockHashes + i * 32) 32,
           ctHashes := fun i => rdAll sh (o.crypttextHT + i * 32) 32,
           block := block }

/-- the verifier's view (ReadBucketProxy): every read is `rd` (cut short), lists via `_str2l` -/
def vviewOf (cap : Cap B) (sh : B) : VView B :=
  let hdr := rd sh 0 0x44
  let ver := beNat (hdr.take 4)
  let fs := if ver = 1 then 4 else 8
  let start := if ver = 1 then 0x0c else 0x14
  let f := fun (i : Nat) => beNat ((hdr.drop (start + i * fs)).take fs)
  let o : Offsets := ⟨f 0, f 1, f 2, f 3, f 4, f 5⟩
  let lb := rd sh o.uriExtension fs
  let shSize := o.uriExtension - o.shareHashes
  let shData := rd sh o.shareHashes shSize
  let shareHashes : Option (List (Nat × B)) := if shData.length ≠ shSize then none else some (pairs34 (shData.length + 1) shData)
  let bh := rd sh o.blockHashes (o.shareHashes - o.blockHashes)
  let blockHashes := chunk32 (bh.length + 1) bh
  let ch := rd sh o.crypttextHT (o.blockHashes - o.crypttextHT)
  let (blockSize, shareSize, numSegs) :=
    match ((some (rd sh (o.uriExtension + fs) (beNat lb))).bind parseUEB) with
    | none => (0, 0, 0)
    | some u => match veupValidate cap u with
      | some (.ok info) => (info.blockSize, info.shareSize, info.numSegments)
      | _ => (0, 0, 0)
  { headerLen := hdr.length, version := ver, offs := o, uebLenOk := lb.length == fs, uebLen := beNat lb,
    uebBytes := rd sh (o.uriExtension + fs) (beNat lb),
    shareHashes := shareHashes, blockHashes := blockHashes, ctHashes := chunk32 (ch.length + 1) ch,
    shareHashesAgain := fun _ => shareHashes, blockHashesAgain := fun _ => blockHashes,
    block := fun i =>
      let this := if i + 1 < numSegs then blockSize
                  else if shareSize % blockSize = 0 then blockSize else shareSize % blockSize
      rd sh (o.data + i * blockSize) this }

end Tahoe.IntegrityBytes
