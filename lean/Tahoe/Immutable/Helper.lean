import Tahoe.Generated.Immutable
/-!
C44 — helper-assisted immutable upload (Mathlib-free, executable model).

Transcribed from `immutable/offloaded.py` (`Helper.remote_upload_chk`, `_did_chk_check`,
`CHKCheckerAndUEBFetcher._done`, `CHKUploadHelper`, `CHKCiphertextFetcher._start/_start_reading/_loop/
_fetch/_done/_failed`) and `immutable/upload.py` (`RemoteEncryptedUploadable.remote_read_encrypted`,
`AssistedUploader._contacted_helper/_build_verifycap`, `Uploader.upload`).

* The ciphertext fetch: the partial ciphertext lives in `CHK_incoming/<si>` opened in append mode; the
  resume offset `_have` is the current size of that file; chunks of `min(expected - have, CHUNK_SIZE)`
  bytes are requested with `read_encrypted(have, size)` and appended; when nothing is needed the file is
  renamed to `CHK_encoding/<si>`.  A failed call ends the attempt (`_failed`: the file is closed, what
  was written stays).  A later attempt (new `CHKUploadHelper`, new client-side reader at offset 0)
  starts from the file's size; if `CHK_encoding/<si>` exists the fetch is bypassed.
* The client-side reader only moves forward: `precondition(offset >= self._offset)`, skipping ahead
  is allowed.
* Encoding is an abstract function of (ciphertext, parameters) (C01 is about the real one).
* Already-present decision: `found >= total_shares` distinct share numbers and a readable UEB.

Deviations: one reader per attempt (`AskUntilSuccessMixin` with several concurrent clients is not
modelled); failures are "the n-th `read_encrypted` call fails", "the helper dies there and the tail of the partial file is lost"
or "a failure after the fetch completed";
timing, the status objects and the statistics are not modelled.
-/
namespace Tahoe.Helper

/-- the helper's two files for one storage index -/
structure Disk where
  incoming : Option (List UInt8)
  encoding : Option (List UInt8)
  deriving DecidableEq, Repr

/-- how an attempt is disturbed: not at all, the `i`-th `read_encrypted` call of the attempt fails
(0-based), or something fails after the ciphertext is complete (encoding / share push) -/
inductive Fault
  | none
  | read (i : Nat)
  | encode
  /-- the helper process dies at the `i`-th `read_encrypted` call: what was appended but not yet on disk is
  lost, the file keeps only its first `keep` bytes (the file is opened in append mode, so what survives is
  a prefix of what was written) -/
  | crash (i : Nat) (keep : Nat)
  deriving DecidableEq, Repr

def Fault.readAt : Fault → Option Nat
  | .read i => some i
  | .crash i _ => some i
  | _ => Option.none

/-- how much of the partial file survives the failed attempt -/
def Fault.survives : Fault → List UInt8 → List UInt8
  | .crash _ keep, file => file.take keep
  | _, file => file

/-- `CHKCiphertextFetcher._loop/_fetch` against a `RemoteEncryptedUploadable` holding `ct`:
`i` = number of `read_encrypted` calls made so far in this attempt, `roff` = the reader's `_offset`,
`file` = contents of the incoming file (`_have = file.length`).  Returns the file and "finished". -/
def fetchLoop (chunk : Nat) (ct : List UInt8) (failAt : Option Nat) :
    Nat → Nat → Nat → List UInt8 → List UInt8 × Bool
  | 0, _, _, file => (file, false)
  | fuel + 1, i, roff, file =>
    -- `_have` is `file.length`
    if ct.length < file.length then (file, false)   -- fetch_size < 0: the reader's precondition(length >= 0) fails
    else
      if min (ct.length - file.length) chunk == 0 then (file, true)              -- "all done"
      else if failAt == some i then (file, false)
      else if file.length < roff then (file, false)    -- precondition(offset >= self._offset)
      else
        fetchLoop chunk ct failAt fuel (i + 1)
          (file.length + ((ct.drop file.length).take (min (ct.length - file.length) chunk)).length)
          (file ++ (ct.drop file.length).take (min (ct.length - file.length) chunk))

/-- one upload attempt through the helper; the third component is the ciphertext handed to the encoder
when the attempt succeeds -/
def attempt (chunk : Nat) (ct : List UInt8) (d : Disk) (f : Fault) : Disk × Option (List UInt8) :=
  match d.encoding with
  | some e =>                                   -- "ciphertext already present, bypassing fetch"
    if f == .encode then (d, none) else ({ d with encoding := none }, some e)
  | none =>
    let r := fetchLoop chunk ct f.readAt (ct.length + 1) 0 0 (d.incoming.getD [])
    if !r.2 then ({ incoming := some (f.survives r.1), encoding := none }, none)
    else if f == .encode then ({ incoming := none, encoding := some r.1 }, none)   -- renamed, then failure
    else ({ incoming := none, encoding := none }, some r.1)                        -- `_finished` unlinks it

/-- attempts in order until one succeeds; the sizes of the incoming file after each failed attempt are
collected for the correspondence run -/
def runAttempts (chunk : Nat) (ct : List UInt8) : Disk → List Fault → Disk × Option (List UInt8)
  | d, [] => (d, none)
  | d, f :: rest =>
    match attempt chunk ct d f with
    | (d1, some used) => (d1, some used)
    | (d1, none) => runAttempts chunk ct d1 rest

def traceAttempts (chunk : Nat) (ct : List UInt8) : Disk → List Fault → List (Disk × Bool)
  | _, [] => []
  | d, f :: rest =>
    match attempt chunk ct d f with
    | (d1, some _) => [(d1, true)]
    | (d1, none) => (d1, false) :: traceAttempts chunk ct d1 rest

/-! ## caps -/

structure Params where
  k : Nat
  n : Nat
  seg : Nat
  deriving DecidableEq, Repr

structure VerifyCap where
  si : Nat
  uebHash : Nat
  k : Nat
  n : Nat
  size : Nat
  deriving DecidableEq, Repr

structure ReadCap where
  key : Nat
  uebHash : Nat
  k : Nat
  n : Nat
  size : Nat
  deriving DecidableEq, Repr

/-- what the helper sends back (`HelperUploadResults`): UEB hash and the UEB's parameters -/
structure HUR where
  uebHash : Nat
  k : Nat
  n : Nat
  seg : Nat
  size : Nat
  pushed : Nat
  deriving DecidableEq, Repr

/-- result of encoding: the shares (abstract, as a list of byte strings) and the UEB hash -/
structure Encoded where
  shares : List (List UInt8)
  uebHash : Nat
  deriving DecidableEq, Repr

/-- `AssistedUploader._build_verifycap` + `Uploader.upload`'s `turn_verifycap_into_read_cap`: the
client checks the helper's UEB data against its own parameters, then builds the caps from its *own*
storage index, key, k, n, size and the helper's UEB hash -/
def clientCaps (key si : Nat) (p : Params) (size : Nat) (h : HUR) : Option (ReadCap × VerifyCap) :=
  if h.k = p.k ∧ h.n = p.n ∧ h.seg = p.seg ∧ h.size = size then
    some (⟨key, h.uebHash, p.k, p.n, size⟩, ⟨si, h.uebHash, p.k, p.n, size⟩)
  else none

/-- direct upload (`CHKUploader`): encode the ciphertext, caps from the UEB hash -/
def directUpload (encode : List UInt8 → Params → Encoded) (key si : Nat) (ct : List UInt8) (p : Params) :
    List (List UInt8) × ReadCap × VerifyCap :=
  let e := encode ct p
  (e.shares, ⟨key, e.uebHash, p.k, p.n, ct.length⟩, ⟨si, e.uebHash, p.k, p.n, ct.length⟩)

/-- upload through the helper under a list of disturbances: the helper encodes whatever ciphertext
file the first successful attempt hands over, with the parameters the reader reports -/
def helperUpload (encode : List UInt8 → Params → Encoded) (chunk : Nat) (key si : Nat) (ct : List UInt8)
    (p : Params) (faults : List Fault) : Option (List (List UInt8) × ReadCap × VerifyCap) :=
  match (runAttempts chunk ct ⟨none, none⟩ faults).2 with
  | none => none
  | some used =>
    let e := encode used p
    match clientCaps key si p ct.length ⟨e.uebHash, p.k, p.n, p.seg, used.length, p.n⟩ with
    | none => none
    | some (r, v) => some (e.shares, r, v)

/-! ## the client's choice of uploader (`Uploader.upload`) -/

/-- what an upload returns: a LIT cap holding the data itself, or CHK caps -/
inductive UploadCap
  | lit (data : List UInt8)
  | chk (r : ReadCap) (v : VerifyCap)
  deriving DecidableEq, Repr

/-- which uploader `Uploader.upload` picks: the literal test comes **first** (`size <= URI_LIT_SIZE_THRESHOLD`,
the largest size that fits a LIT cap), only then the helper is considered -/
inductive Picked | literal | assisted | direct
  deriving DecidableEq, Repr

def pickUploader (hasHelper : Bool) (size : Nat) : Picked :=
  if size ≤ Tahoe.Generated.Immutable.URI_LIT_SIZE_THRESHOLD then .literal
  else if hasHelper then .assisted else .direct

/-- the whole client-side upload of plaintext `pt` (ciphertext `ct`): shares pushed to the grid and the cap returned -/
def clientUpload (encode : List UInt8 → Params → Encoded) (hasHelper : Bool) (chunk : Nat) (key si : Nat)
    (pt ct : List UInt8) (p : Params) (faults : List Fault) : Option (List (List UInt8) × UploadCap) :=
  match pickUploader hasHelper pt.length with
  | .literal => some ([], .lit pt)          -- LiteralUploader: neither helper nor servers are contacted
  | .assisted =>
    match helperUpload encode chunk key si ct p faults with
    | none => none
    | some (sh, r, v) => some (sh, .chk r v)
  | .direct =>
    let d := directUpload encode key si ct p
    some (d.1, .chk d.2.1 d.2.2)

/-! ## already-present decision -/

def dedup : List Nat → List Nat
  | [] => []
  | x :: rest => if rest.contains x then dedup rest else x :: dedup rest

/-- `CHKCheckerAndUEBFetcher._done`: `shnums` = every share number reported by any server (with
repetitions), `uebTotal` = `total_shares` of the UEB if one could be fetched -/
def alreadyPresent (shnums : List Nat) (uebTotal : Option Nat) : Bool :=
  match uebTotal with
  | none => false
  | some total => !((dedup shnums).length < total)

/-- the same decision as a function of the servers' `get_buckets` answers, one (server, share number)
pair per share file found: `_found_shares` is a *set of share numbers*, so a share number held by
several servers counts once -/
def presentOf (answers : List (Nat × Nat)) (uebTotal : Option Nat) : Bool :=
  alreadyPresent (answers.map (·.2)) uebTotal

/-- what happens on a grid over time, as far as the helper's question is concerned: a share file
appears on a server, a share file disappears (server lost, disk failure, deletion), a client asks the
helper about the file -/
inductive GridEvent
  | placed (srv shnum : Nat)
  | lost (srv shnum : Nat)
  | query
  deriving DecidableEq, Repr

/-- the share files on the servers after a history (what `get_buckets` would answer now) -/
def gridAfter : List (Nat × Nat) → List GridEvent → List (Nat × Nat)
  | g, [] => g
  | g, .placed s n :: rest => gridAfter (if g.contains (s, n) then g else g ++ [(s, n)]) rest
  | g, .lost s n :: rest => gridAfter (g.filter (fun x => !(x == (s, n)))) rest
  | g, .query :: rest => gridAfter g rest

/-- the helper's answers to the queries of a history: `_check_chk` asks the servers **each time**
(`CHKCheckerAndUEBFetcher`); the helper keeps no memory of earlier uploads of the storage index -/
def answersOver (total : Nat) : List (Nat × Nat) → List GridEvent → List Bool
  | _, [] => []
  | g, .query :: rest => presentOf g (if g.isEmpty then none else some total) :: answersOver total g rest
  | g, e :: rest => answersOver total (gridAfter g [e]) rest

/-- `Helper.remote_upload_chk` / `_did_chk_check`: either results and no upload helper (nothing will be
written), or an upload helper (existing active one, or a new one) -/
inductive Answer
  | present (h : HUR)
  | needUpload (newHelper : Bool)
  deriving DecidableEq, Repr

def uploadChk (active : Bool) (shnums : List Nat) (ueb : Option HUR) : Answer :=
  if active then .needUpload false
  else match ueb with
    | none => .needUpload true
    | some u =>
      if alreadyPresent shnums (some u.n) then .present { u with pushed := 0 } else .needUpload true

/-- share writes issued by the helper for an answer: none when the file is reported present -/
def writesFor (encode : List UInt8 → Params → Encoded) (ct : List UInt8) (p : Params) : Answer → List (List UInt8)
  | .present _ => []
  | .needUpload _ => (encode ct p).shares

end Tahoe.Helper
