/-!
C44 — the client side of a helper-assisted upload (Mathlib-free, executable model).

Transcribed from `immutable/upload.py`: `EncryptAnUploadable.read_encrypted / _read_encrypted /
_hash_and_encrypt_plaintext` and `RemoteEncryptedUploadable.remote_read_encrypted / _read_encrypted`.

The AES-CTR encryptor object is a *position in a keystream*: byte `i` of the ciphertext is
`plaintext[i] xor keystream[i]` only if the encryptor has consumed exactly `i` keystream bytes when
plaintext byte `i` is fed to it.  The code keeps the two positions equal by encrypting every plaintext
byte it reads, also the ones it only skips over when the helper resumes (`hash_only=True`: "we have to
encrypt the data (even if hash_only==True) because the AES-CTR implementation doesn't offer a way to
change the counter value").  The skip is carried out as a loop of reads of at most `CHUNKSIZE` bytes.
-/
namespace Tahoe.Helper

/-- `EncryptAnUploadable`: plaintext bytes consumed so far and keystream bytes consumed so far -/
structure Enc where
  pos : Nat
  kpos : Nat
  deriving DecidableEq, Repr

def xorAt (pt ks : List UInt8) (p k : Nat) : UInt8 := (pt.getD p 0) ^^^ (ks.getD k 0)

/-- the ciphertext bytes `[a, a+n)` of a correct encryption -/
def ctSlice (pt ks : List UInt8) (a n : Nat) : List UInt8 :=
  (List.range n).map (fun i => xorAt pt ks (a + i) (a + i))

/-- `_hash_and_encrypt_plaintext` on `n` plaintext bytes: every byte goes through the encryptor, whether
or not the result is kept -/
def encPiece (pt ks : List UInt8) (e : Enc) (n : Nat) : List UInt8 × Enc :=
  ((List.range n).map (fun i => xorAt pt ks (e.pos + i) (e.kpos + i)), ⟨e.pos + n, e.kpos + n⟩)

/-- `read_encrypted(length, hash_only)`: `until(action, condition)` over `_read_encrypted`; each round asks
the file for `min(remaining, CHUNKSIZE)` bytes (fewer arrive at end of file) and `remaining` drops by the
size *asked for* -/
def readEncrypted (chunk : Nat) (pt ks : List UInt8) (hashOnly : Bool) :
    Nat → Enc → Nat → List UInt8 × Enc
  | 0, e, _ => ([], e)
  | fuel + 1, e, remaining =>
    if remaining == 0 then ([], e)
    else
      let r1 := encPiece pt ks e (min (min remaining chunk) (pt.length - e.pos))
      let r2 := readEncrypted chunk pt ks hashOnly fuel r1.2 (remaining - min remaining chunk)
      ((if hashOnly then [] else r1.1) ++ r2.1, r2.2)

/-- `RemoteEncryptedUploadable`: the encryptor state and `_offset` -/
structure Remote where
  enc : Enc
  offset : Nat
  deriving DecidableEq, Repr

/-- `remote_read_encrypted(offset, length)`: no seeking backwards; skipping forwards reads (and hashes)
the skipped part with `hash_only=True`, `_offset += skip`; then the real read, `_offset += bytes returned` -/
def remoteRead (chunk : Nat) (pt ks : List UInt8) (s : Remote) (off len : Nat) : Option (List UInt8 × Remote) :=
  if off < s.offset then none
  else
    let sk := readEncrypted chunk pt ks true (off - s.offset + 1) s.enc (off - s.offset)
    let rd := readEncrypted chunk pt ks false (len + 1) sk.2 len
    some (rd.1, ⟨rd.2, off + rd.1.length⟩)

/-- a sequence of `remote_read_encrypted` calls; `none` for a refused (backward) call, which leaves the state -/
def remoteReads (chunk : Nat) (pt ks : List UInt8) : Remote → List (Nat × Nat) → List (Option (List UInt8))
  | _, [] => []
  | s, (off, len) :: rest =>
    match remoteRead chunk pt ks s off len with
    | none => none :: remoteReads chunk pt ks s rest
    | some (out, s1) => some out :: remoteReads chunk pt ks s1 rest

end Tahoe.Helper
