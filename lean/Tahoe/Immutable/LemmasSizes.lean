import Tahoe.Immutable.Sizes
/-! Helper lemmas for the size arithmetic (C01 `sizes_agree`, and the block-location facts used by
    `offsets_wellformed` and `upload_download`). -/
namespace Tahoe.Immutable.Sizes

theorem divCeil_mul_self (b : Nat) {k : Nat} (hk : 0 < k) : divCeil (b * k) k = b := by
  simp [divCeil, Nat.mul_div_cancel _ hk]

theorem divCeil_of_dvd {n k : Nat} (h : n % k = 0) : divCeil n k = n / k := by
  simp [divCeil, h]

theorem nextMultiple_mod (n k : Nat) : nextMultiple n k % k = 0 := by
  simp [nextMultiple]

theorem nextMultiple_div (n : Nat) {k : Nat} (hk : 0 < k) : nextMultiple n k / k = divCeil n k := by
  simp [nextMultiple, Nat.mul_div_cancel _ hk]

theorem divCeil_nextMultiple (n : Nat) {k : Nat} (hk : 0 < k) : divCeil (nextMultiple n k) k = divCeil n k := by
  rw [divCeil_of_dvd (nextMultiple_mod n k), nextMultiple_div n hk]

theorem le_nextMultiple (n : Nat) {k : Nat} (hk : 0 < k) : n ≤ nextMultiple n k := by
  unfold nextMultiple divCeil
  have h := Nat.div_add_mod n k
  have hm := Nat.mod_lt n hk
  split
  · rename_i h0; rw [h0] at h; simp at h; rw [Nat.mul_comm] at h; simp only [Nat.add_zero]; omega
  · rw [Nat.add_mul, Nat.mul_comm (n / k) k]; omega

theorem nextMultiple_lt (n : Nat) {k : Nat} (hk : 0 < k) : nextMultiple n k < n + k := by
  unfold nextMultiple divCeil
  have h := Nat.div_add_mod n k
  have hm := Nat.mod_lt n hk
  split
  · rename_i h0; rw [h0] at h; simp at h; rw [Nat.mul_comm] at h; simp only [Nat.add_zero]; omega
  · rename_i h0; rw [Nat.add_mul, Nat.mul_comm (n / k) k]; omega

theorem nextMultiple_pos {n k : Nat} (hn : 0 < n) (hk : 0 < k) : 0 < nextMultiple n k :=
  Nat.lt_of_lt_of_le hn (le_nextMultiple n hk)

theorem nextMultiple_of_dvd {n k : Nat} (h : n % k = 0) : nextMultiple n k = n := by
  unfold nextMultiple
  rw [divCeil_of_dvd h]
  exact Nat.div_mul_cancel (Nat.dvd_of_mod_eq_zero h)

/-- the segment size chosen by the uploader is a positive multiple of `k` -/
theorem segSize_ok {k maxSeg size : Nat} (hk : 0 < k) (hm : 0 < maxSeg) (hs : 0 < size) :
    ∃ s, segSize k maxSeg size = .ok s ∧ 0 < s ∧ s % k = 0 ∧ min maxSeg size ≤ s ∧ s < min maxSeg size + k := by
  refine ⟨nextMultiple (min maxSeg size) k, ?_, ?_, nextMultiple_mod _ _, le_nextMultiple _ hk, nextMultiple_lt _ hk⟩
  · simp [segSize, Nat.ne_of_gt hk]
  · exact nextMultiple_pos (by omega) hk

theorem encoderSizes_ok {size k segsize : Nat} (hk : 0 < k) (hs : 0 < segsize) (hd : segsize % k = 0) :
    encoderSizes size k segsize = .ok
      { segmentSize := segsize
        numSegments := divCeil size segsize
        shareSize := divCeil size k
        tailSize := if size % segsize = 0 then segsize else size % segsize
        paddedTailSize := nextMultiple (if size % segsize = 0 then segsize else size % segsize) k
        blockSize := divCeil segsize k
        tailBlockSize := divCeil (nextMultiple (if size % segsize = 0 then segsize else size % segsize) k) k } := by
  simp [encoderSizes, Nat.ne_of_gt hk, Nat.ne_of_gt hs, hd]

theorem calculateSizes_ok {size k segsize : Nat} (hk : 0 < k) (hs : 0 < segsize) (hd : segsize % k = 0) :
    calculateSizes size k segsize = .ok
      { tailSegmentSize := if size % segsize = 0 then segsize else size % segsize
        tailSegmentPadded := nextMultiple (if size % segsize = 0 then segsize else size % segsize) k
        numSegments := divCeil size segsize
        blockSize := segsize / k
        tailBlockSize := nextMultiple (if size % segsize = 0 then segsize else size % segsize) k / k } := by
  simp [calculateSizes, Nat.ne_of_gt hk, Nat.ne_of_gt hs, hd]

/-- the facts about an encoder size record that the layout and the pipeline rely on -/
structure Consistent (size k : Nat) (e : EncSizes) : Prop where
  seg_pos : 0 < e.segmentSize
  block_mul : e.blockSize * k = e.segmentSize
  tail_block_mul : e.tailBlockSize * k = e.paddedTailSize
  tail_pos : 0 < e.tailSize
  tail_le_seg : e.tailSize ≤ e.segmentSize
  tail_le_padded : e.tailSize ≤ e.paddedTailSize
  padded_lt : e.paddedTailSize < e.tailSize + k
  padded_le_seg : e.paddedTailSize ≤ e.segmentSize
  nseg_pos : 0 < e.numSegments
  size_split : (e.numSegments - 1) * e.segmentSize + e.tailSize = size
  share_split : (e.numSegments - 1) * e.blockSize + e.tailBlockSize = e.shareSize

theorem divCeil_split {size seg : Nat} (hseg : 0 < seg) (hsize : 0 < size) :
    0 < divCeil size seg ∧
    (divCeil size seg - 1) * seg + (if size % seg = 0 then seg else size % seg) = size := by
  unfold divCeil
  have h := Nat.div_add_mod size seg
  by_cases h0 : size % seg = 0
  · simp only [h0, if_true, Nat.add_zero]
    rw [h0] at h
    have hq : 0 < size / seg := by
      rcases Nat.eq_zero_or_pos (size / seg) with hz | hp
      · rw [hz] at h; simp at h; omega
      · exact hp
    refine ⟨hq, ?_⟩
    have : (size / seg - 1) * seg + seg = (size / seg) * seg := by
      have : size / seg = (size / seg - 1) + 1 := by omega
      rw [this, Nat.add_mul]; simp
    rw [this, Nat.mul_comm]; omega
  · simp only [h0, if_false]
    refine ⟨Nat.succ_pos _, ?_⟩
    simp only [Nat.add_sub_cancel]
    rw [Nat.mul_comm]; omega

theorem consistent_of_ok {size k segsize : Nat} {e : EncSizes} (hsize : 0 < size)
    (h : encoderSizes size k segsize = .ok e) : Consistent size k e ∧ e.segmentSize = segsize ∧ 0 < k ∧ segsize % k = 0 := by
  have hk : 0 < k := by
    rcases Nat.eq_zero_or_pos k with hz | hp
    · simp [encoderSizes, hz] at h
    · exact hp
  have hd : segsize % k = 0 := by
    by_cases hd : segsize % k = 0
    · exact hd
    · simp [encoderSizes, Nat.ne_of_gt hk, hd] at h
  have hs : 0 < segsize := by
    rcases Nat.eq_zero_or_pos segsize with hz | hp
    · simp [encoderSizes, Nat.ne_of_gt hk, hz] at h
    · exact hp
  rw [encoderSizes_ok hk hs hd] at h
  injection h with h
  subst h
  refine ⟨?_, rfl, hk, hd⟩
  obtain ⟨hnpos, hsplit⟩ := divCeil_split hs hsize
  -- abbreviations
  generalize htail : (if size % segsize = 0 then segsize else size % segsize) = tail at *
  have htpos : 0 < tail := by
    subst htail; split <;> omega
  have htle : tail ≤ segsize := by
    subst htail; split
    · omega
    · exact Nat.le_of_lt (Nat.mod_lt _ hs)
  have hbm : divCeil segsize k * k = segsize := by
    rw [divCeil_of_dvd hd]; exact Nat.div_mul_cancel (Nat.dvd_of_mod_eq_zero hd)
  have hple : nextMultiple tail k ≤ segsize := by
    -- segsize is a multiple of k that is ≥ tail, nextMultiple is the least such
    have h1 := nextMultiple_lt tail hk
    have h2 : nextMultiple tail k % k = 0 := nextMultiple_mod _ _
    -- write both as multiples
    obtain ⟨a, ha⟩ := Nat.dvd_of_mod_eq_zero h2
    obtain ⟨b, hb⟩ := Nat.dvd_of_mod_eq_zero hd
    rw [ha] at h1 ⊢
    rw [hb] at htle ⊢
    have : a ≤ b := by
      by_cases hab : a ≤ b
      · exact hab
      · have : b + 1 ≤ a := by omega
        have := Nat.mul_le_mul_left k this
        rw [Nat.mul_add] at this
        omega
    exact Nat.mul_le_mul_left k this
  refine ⟨hs, hbm, ?_, htpos, htle, le_nextMultiple _ hk, nextMultiple_lt _ hk, hple, hnpos, hsplit, ?_⟩
  · show divCeil (nextMultiple tail k) k * k = nextMultiple tail k
    rw [divCeil_nextMultiple _ hk]; rfl
  · -- share size: ceil(size/k) = (nseg-1)*block + ceil(tail/k)
    show (divCeil size segsize - 1) * divCeil segsize k + divCeil (nextMultiple tail k) k = divCeil size k
    rw [divCeil_nextMultiple _ hk]
    have hsz : size = ((divCeil size segsize - 1) * divCeil segsize k) * k + tail := by
      rw [Nat.mul_assoc, hbm]; omega
    generalize (divCeil size segsize - 1) * divCeil segsize k = m at hsz
    rw [hsz]
    unfold divCeil
    rw [Nat.mul_comm m k, Nat.mul_add_div hk, Nat.mul_add_mod]
    omega

end Tahoe.Immutable.Sizes

namespace Tahoe.Immutable.Sizes

/-- the downloader's `_calculate_sizes` is the encoder's derivation projected on five numbers, for
    every `(size, k, segsize)` — including which exception is raised -/
theorem calculateSizes_eq_encoder (size k segsize : Nat) :
    calculateSizes size k segsize = (encoderSizes size k segsize).map EncSizes.toDl := by
  unfold calculateSizes encoderSizes
  by_cases hk : k = 0
  · simp [hk, Except.map]
  · by_cases hd : segsize % k = 0
    · by_cases hs : segsize = 0
      · simp [hk, hs, Except.map]
      · simp only [hk, hd, hs, if_false, ne_eq, not_true_eq_false, Except.map, EncSizes.toDl]
        have hk' : 0 < k := Nat.pos_of_ne_zero hk
        rw [divCeil_of_dvd hd, divCeil_of_dvd (nextMultiple_mod _ _)]
    · simp [hk, hd, Except.map]

end Tahoe.Immutable.Sizes
