import Tahoe.Base.Merkle
/-
Integrity chain of the immutable downloader and of the verifier (Mathlib-free), over an abstract hash.

Mirrors, in the order the code runs them:
  * immutable/downloader/share.py  `Share._get_satisfaction`  (`satisfy`): `_satisfy_offsets`, `_satisfy_UEB`
    (→ node.py `validate_and_store_UEB` / `_parse_and_store_UEB`), BADSEGNUM test, `_satisfy_share_hash_tree`
    (→ `process_share_hashes`), `need_block_hash_root` / `set_block_hash_root`, `_satisfy_block_hash_tree`,
    `_satisfy_ciphertext_hash_tree`, `_satisfy_data_block` (→ `CommonShare.check_block`);
  * immutable/downloader/node.py  `_calculate_sizes`, `process_blocks` (`_decode_blocks` trim of the tail
    segment, `_check_ciphertext_hash`);
  * immutable/downloader/fetcher.py  (only: blocks collected per share number, bad-segnum test, k blocks →
    `process_blocks`) (`fetchSegment`);
  * immutable/downloader/segmentation.py  `_fetch_next` / `_got_segment` (`readLoop`, `gotSegment`);
  * immutable/checker.py  `ValidatedExtendedURIProxy._parse_and_validate` (`veupValidate`),
    `Checker._download_and_verify` with `ValidatedReadBucketProxy` (`verifyShare`), `_format_results`
    (`formatResults`);
  * the uploader's hash trees and UEB (encode.py) as the *specification* of a genuine publication (`upload`).

Hash trees are `Tahoe.Base.Merkle` (hashtree.py, C35).  Hashes are abstract: `Env.tagged` stands for
`uri_extension_hash` / `block_hash` / `crypttext_segment_hash`, `Env.ops` for `pair_hash`, `empty_leaf_hash`
and Python truthiness.  `Env.parseUEB` is `uri.unpack_extension` followed by the field lookups
(`d['segment_size']` …); `none` = any exception (KeyError, ValueError, AssertionError).

The adversary: every field a share answers with is an argument (`View`, `VView`): arbitrary version, arbitrary
offset table, arbitrary UEB bytes, arbitrary hash values, arbitrary block bytes, and every call of `satisfy`
takes a fresh `View` (answers may change between reads, and between the shares of one file).

Deviations
  * `Share` keeps `actual_offsets` and the received-data cache per Share instance; here each pass gets a whole
    `View` (what each read returned). A later pass of the same Share re-reads nothing it already consumed; in
    the model it simply is handed (and ignores) the fields whose stage is already satisfied.
  * "data not yet there" (`return False`) is `Res.wait`; the request bookkeeping (`_desire`, Spans) is C37.
  * `set_hashes({0: root})` on a fresh tree is modelled as a direct store of the root (`seed`).
  * `set_block_hash_root(None)` (the share hash chain validated but did not produce this share's leaf) trips
    `assert isinstance(h, bytes)` in `set_hashes`: the share is abandoned with an exception.
  * a failure inside `_parse_and_store_UEB` leaves the node untouched (in the code `segment_size` may already
    be assigned when a later assertion fails — only reachable with an authentic but malformed UEB).
  * fetcher/finder scheduling (which share is asked, timers) is not modelled: `Script` is the sequence of
    share passes that happened (C03/C46 model the scheduling).
-/
namespace Tahoe.Integrity
open Tahoe.Base.Merkle

abbrev Bytes := List UInt8

inductive Tag
  | ueb      -- hashutil.uri_extension_hash
  | block    -- hashutil.block_hash
  | seg      -- hashutil.crypttext_segment_hash
  deriving DecidableEq, Repr

/-- the fields of the URI extension block the reader / verifier look at -/
structure UEB (H : Type) where
  segmentSize : Nat
  ctRoot : H                                   -- crypttext_root_hash
  shareRoot : H                                -- share_root_hash
  ctHashLen : Option Nat                       -- len(d['crypttext_hash']) if present
  codecName : Option Bytes
  codecParams : Option (Nat × Nat × Nat)       -- codec.parse_params(d['codec_params'])
  tailCodecParams : Option (Nat × Nat × Nat)
  numSegments : Option Nat
  size : Option Nat
  neededShares : Option Nat
  totalShares : Option Nat

structure Env (H : Type) where
  tagged : Tag → Bytes → H
  ops : HashOps H
  parseUEB : Bytes → Option (UEB H)

/-- collision-freeness of the tagged hashes (hypothesis of the theorems) -/
def CollisionFree {H : Type} (E : Env H) : Prop := ∀ t a b, E.tagged t a = E.tagged t b → a = b

/-- CHK verify-cap fields (uri.CHKFileVerifierURI) -/
structure Cap (H : Type) where
  uebHash : H
  k : Nat
  n : Nat
  size : Nat

/-! ## sizes (node.py `_calculate_sizes`) -/

structure Sizes where
  tailSegSize : Nat
  tailPadded : Nat
  numSegs : Nat
  blockSize : Nat
  tailBlockSize : Nat
  deriving DecidableEq, Repr

/-- mathutil.div_ceil -/
def divCeil (n d : Nat) : Nat := n / d + (if n % d = 0 then 0 else 1)
/-- mathutil.next_multiple -/
def nextMultiple (n k : Nat) : Nat := divCeil n k * k

/-- `_calculate_sizes(segment_size)`; `none` = AssertionError (`segment_size % k`) or ZeroDivisionError -/
def calcSizes (size k segSize : Nat) : Option Sizes :=
  if k = 0 ∨ segSize = 0 ∨ segSize % k ≠ 0 then none
  else
    let tail := if size % segSize = 0 then segSize else size % segSize
    let padded := nextMultiple tail k
    some { tailSegSize := tail, tailPadded := padded, numSegs := divCeil size segSize,
           blockSize := segSize / k, tailBlockSize := padded / k }

/-! ## offset table (share.py `_satisfy_offsets`) -/

structure Offsets where
  data : Nat
  plaintextHT : Nat
  crypttextHT : Nat
  blockHashes : Nat
  shareHashes : Nat
  uriExtension : Nat
  deriving DecidableEq, Repr

def HASH_SIZE : Nat := 32

inductive Why
  | layout       -- LayoutInvalid
  | badHash      -- BadHashError
  | notEnough    -- NotEnoughHashesError
  | unavailable  -- DataUnavailable (only produced by drivers that read a concrete byte string)
  | exception    -- anything else (`except BaseException: self._fail(Failure()); raise`)
  deriving DecidableEq, Repr

/-- the checks of `_satisfy_offsets` once version and table have been read: `none` = accepted -/
def satisfyOffsets (version : Nat) (o : Offsets) : Option Why :=
  if version ≠ 1 ∧ version ≠ 2 then some .layout
  else if o.uriExtension < o.shareHashes ∨ (o.uriExtension - o.shareHashes) % (2 + HASH_SIZE) ≠ 0 then some .layout
  else if o.shareHashes < o.blockHashes ∨ (o.shareHashes - o.blockHashes) % HASH_SIZE ≠ 0 then some .layout
  else none

/-! ## download node state -/

structure Node (H : Type) where
  /-- `have_UEB` with the stored fields and the sizes derived from them -/
  known : Option (UEB H × Sizes)
  /-- `share_hash_tree` -/
  shareTree : Tree H
  /-- `ciphertext_hash_tree` (the authoritative one; before the UEB is known the code holds a guess-sized stub) -/
  ctTree : Tree H
  /-- `CommonShare._block_hash_tree` per share number (created with the authoritative segment count) -/
  blockTrees : List (Nat × Tree H)

/-- `DownloadNode.__init__` -/
def Node.init (H : Type) (cap : Cap H) : Node H :=
  { known := none, shareTree := newTree H cap.n, ctTree := [], blockTrees := [] }

/-- `set_hashes({0: root})` on a tree that holds nothing -/
def seed {H : Type} (t : Tree H) (root : H) : Tree H := t.set 0 (some root)

def Node.blockTree {H : Type} (nd : Node H) (shnum numSegs : Nat) : Tree H :=
  (nd.blockTrees.lookup shnum).getD (newTree H numSegs)

def Node.setBlockTree {H : Type} (nd : Node H) (shnum : Nat) (t : Tree H) : Node H :=
  { nd with blockTrees := (shnum, t) :: nd.blockTrees.filter (fun e => e.1 != shnum) }

/-- what the reads of one pass of one share returned -/
structure View (H : Type) where
  version : Nat
  offs : Offsets
  /-- the UEB as read; `none` = length field or body not (yet) there, or empty (`if not UEB_s: return False`) -/
  uebBytes : Option Bytes
  /-- the share hash chain, `(hashnum, hash)` pairs in stored order; `[]` = nothing there (`if not hashdata`) -/
  shareHashes : List (Nat × H)
  blockHashes : Nat → Option H
  ctHashes : Nat → Option H
  block : Bytes

/-- Python dict assignment -/
def dictSet {H : Type} (d : List (Nat × H)) (k : Nat) (v : H) : List (Nat × H) :=
  if d.any (fun e => e.1 == k) then d.map (fun e => if e.1 = k then (k, v) else e) else d ++ [(k, v)]

/-- `share_hashes[hashnum] = hashvalue` over the stored pairs -/
def dictOf {H : Type} (l : List (Nat × H)) : List (Nat × H) := l.foldl (fun d e => dictSet d e.1 e.2) []

/-- `{hashnum: received.get(...)}` for the needed hash numbers; `none` = some hash missing -/
def collect {H : Type} : List Nat → (Nat → Option H) → Option (List (Nat × H))
  | [], _ => some []
  | i :: rest, f =>
    match f i, collect rest f with
    | some h, some l => some ((i, h) :: l)
    | _, _ => none

def whyOf : Outcome → Why
  | .badHash => .badHash
  | .notEnough => .notEnough
  | _ => .exception

inductive Res
  | block (b : Bytes)    -- state=COMPLETE
  | corrupt              -- state=CORRUPT (this block only; the share stays alive)
  | dead (w : Why)       -- the share is abandoned (`_fail`)
  | badSegnum            -- state=BADSEGNUM
  | wait                 -- `return False`: needs data it does not have
  deriving DecidableEq, Repr

section chain
variable {H : Type} [DecidableEq H]

/-- `_satisfy_UEB` → `validate_and_store_UEB` (skipped when `have_UEB`) -/
def stageUEB (E : Env H) (cap : Cap H) (v : View H) (nd : Node H) : Option Res × Node H :=
  match nd.known with
  | some _ => (none, nd)
  | none =>
    match v.uebBytes with
    | none => (some .wait, nd)
    | some uebS =>
    if E.tagged .ueb uebS ≠ cap.uebHash then (some (.dead .badHash), nd)
    else match E.parseUEB uebS with
      | none => (some (.dead .exception), nd)
      | some u =>
        match calcSizes cap.size cap.k u.segmentSize with
        | none => (some (.dead .exception), nd)
        | some sz =>
          (none, { nd with known := some (u, sz),
                           ctTree := seed (newTree H sz.numSegs) u.ctRoot,
                           shareTree := seed nd.shareTree u.shareRoot })

/-- `if segnum >= self._node.num_segments: notify(BADSEGNUM)` -/
def stageSegnum (segnum : Nat) (nd : Node H) : Option Res × Node H :=
  match nd.known with
  | none => (some (.dead .exception), nd)
  | some (_, sz) => if segnum ≥ sz.numSegs then (some .badSegnum, nd) else (none, nd)

/-- `_satisfy_share_hash_tree` → `process_share_hashes` -/
def stageShareTree (E : Env H) (cfg : Cfg) (pick : List Nat → Nat) (cap : Cap H) (shnum : Nat) (v : View H)
    (nd : Node H) : Option Res × Node H :=
  if firstLeafNum cap.n + shnum ≥ nd.shareTree.length then (some (.dead .exception), nd)   -- IndexError in needed_for
  else if (neededHashes nd.shareTree (firstLeafNum cap.n + shnum)).isEmpty then (none, nd)
  else if v.shareHashes.isEmpty then (some .wait, nd)
  else
    let d := dictOf v.shareHashes
    if d.any (fun e => e.1 ≥ nd.shareTree.length) then (some (.dead .badHash), nd)
    else match setHashes E.ops cfg pick (firstLeafNum cap.n) nd.shareTree d [] with
      | (.ok, t') => (none, { nd with shareTree := t' })
      | (o, t') => (some (.dead (whyOf o)), { nd with shareTree := t' })

/-- `if self._commonshare.need_block_hash_root(): set_block_hash_root(share_hash_tree.get_leaf(shnum))` -/
def stageBlockRoot (E : Env H) (cfg : Cfg) (pick : List Nat → Nat) (cap : Cap H) (shnum : Nat)
    (nd : Node H) : Option Res × Node H :=
  match nd.known with
  | none => (some (.dead .exception), nd)
  | some (_, sz) =>
    let bt := nd.blockTree shnum sz.numSegs
    if truthyOpt E.ops (get bt 0) then (none, nd)
    else match get nd.shareTree (firstLeafNum cap.n + shnum) with
      | none => (some (.dead .exception), nd)        -- `assert isinstance(h, bytes)` in set_hashes({0: None})
      | some r =>
        -- `set_hashes({0: r})`: on an empty root slot this is a plain store (`seed`, as for the UEB roots); a
        -- stored-but-falsy root (`b""`) goes through the comparison of `set_hashes`
        if get bt 0 = none then (none, nd.setBlockTree shnum (seed bt r))
        else match setHashes E.ops cfg pick (firstLeafNum sz.numSegs) bt [(0, r)] [] with
        | (.ok, t') => (none, nd.setBlockTree shnum t')
        | (o, t') => (some (.dead (whyOf o)), nd.setBlockTree shnum t')

/-- `_satisfy_block_hash_tree(get_needed_block_hashes(segnum))` -/
def stageBlockHashes (E : Env H) (cfg : Cfg) (pick : List Nat → Nat) (shnum segnum : Nat) (v : View H)
    (nd : Node H) : Option Res × Node H :=
  match nd.known with
  | none => (some (.dead .exception), nd)
  | some (_, sz) =>
    let bt := nd.blockTree shnum sz.numSegs
    match neededHashes? bt (firstLeafNum sz.numSegs) segnum true with
    | none => (some (.dead .exception), nd)
    | some [] => (none, nd)
    | some needed =>
      match collect needed v.blockHashes with
      | none => (some .wait, nd)
      | some hs =>
        match setHashes E.ops cfg pick (firstLeafNum sz.numSegs) bt hs [] with
        | (.ok, t') => (none, nd.setBlockTree shnum t')
        | (o, t') => (some (.dead (whyOf o)), nd.setBlockTree shnum t')

/-- `_satisfy_ciphertext_hash_tree(get_needed_ciphertext_hashes(segnum))` -/
def stageCtHashes (E : Env H) (cfg : Cfg) (pick : List Nat → Nat) (segnum : Nat) (v : View H)
    (nd : Node H) : Option Res × Node H :=
  match nd.known with
  | none => (some (.dead .exception), nd)
  | some (_, sz) =>
    match neededHashes? nd.ctTree (firstLeafNum sz.numSegs) segnum true with
    | none => (some (.dead .exception), nd)
    | some [] => (none, nd)
    | some needed =>
      match collect needed v.ctHashes with
      | none => (some .wait, nd)
      | some hs =>
        match setHashes E.ops cfg pick (firstLeafNum sz.numSegs) nd.ctTree hs [] with
        | (.ok, t') => (none, { nd with ctTree := t' })
        | (o, t') => (some (.dead (whyOf o)), { nd with ctTree := t' })

/-- `_satisfy_data_block` → `check_block` -/
def stageData (E : Env H) (cfg : Cfg) (pick : List Nat → Nat) (shnum segnum : Nat) (v : View H)
    (nd : Node H) : Option Res × Node H :=
  match nd.known with
  | none => (some (.dead .exception), nd)
  | some (_, sz) =>
    let blocklen := if segnum + 1 = sz.numSegs then sz.tailBlockSize else sz.blockSize
    if v.block.isEmpty ∨ v.block.length ≠ blocklen then (some .wait, nd)
    else
      let bt := nd.blockTree shnum sz.numSegs
      match setHashes E.ops cfg pick (firstLeafNum sz.numSegs) bt [] [(segnum, E.tagged .block v.block)] with
      | (.ok, t') => (some (.block v.block), nd.setBlockTree shnum t')
      | (.badHash, t') => (some .corrupt, nd.setBlockTree shnum t')
      | (.notEnough, t') => (some .corrupt, nd.setBlockTree shnum t')
      | (_, t') => (some (.dead .exception), nd.setBlockTree shnum t')

/-- run the stages in order until one produces a result -/
def runStages : List (Node H → Option Res × Node H) → Node H → Res × Node H
  | [], nd => (.wait, nd)
  | f :: rest, nd =>
    match f nd with
    | (some r, nd') => (r, nd')
    | (none, nd') => runStages rest nd'

/-- the stages of `_get_satisfaction`, in the order the code runs them -/
def stages (E : Env H) (cfg : Cfg) (pick : List Nat → Nat) (cap : Cap H) (shnum segnum : Nat) (v : View H) :
    List (Node H → Option Res × Node H) :=
  [ fun nd => match satisfyOffsets v.version v.offs with
              | some w => (some (.dead w), nd)
              | none => (none, nd),
    stageUEB E cap v,
    stageSegnum segnum,
    stageShareTree E cfg pick cap shnum v,
    stageBlockRoot E cfg pick cap shnum,
    stageBlockHashes E cfg pick shnum segnum v,
    stageCtHashes E cfg pick segnum v,
    stageData E cfg pick shnum segnum v ]

/-- one pass of `Share._get_satisfaction` for share number `shnum`, wanting segment `segnum`, the reads
    having returned `v` -/
def satisfy (E : Env H) (cfg : Cfg) (pick : List Nat → Nat) (cap : Cap H) (nd : Node H) (shnum segnum : Nat)
    (v : View H) : Res × Node H :=
  runStages (stages E cfg pick cap shnum segnum v) nd

/-! ## node.py `process_blocks` -/

inductive FetchErr
  | noShares       -- NoSharesError / NotEnoughSharesError before any UEB was validated
  | badSegnum      -- BadSegmentNumberError
  | notEnough      -- NotEnoughSharesError
  | badCtHash      -- BadCiphertextHashError
  deriving DecidableEq, Repr

/-- `_decode_blocks` (the codec is a parameter: any function) then `_check_ciphertext_hash`.
    `.ok (offset, segment)` = delivered to the segment requests -/
def processBlocks (E : Env H) (cfg : Cfg) (pick : List Nat → Nat) (decode : Nat → List (Nat × Bytes) → Bytes)
    (nd : Node H) (segnum : Nat) (blocks : List (Nat × Bytes)) : Except FetchErr (Nat × Bytes) × Node H :=
  match nd.known with
  | none => (.error .noShares, nd)
  | some (u, sz) =>
    let raw := decode segnum blocks
    let segment := if segnum + 1 = sz.numSegs then raw.take sz.tailSegSize else raw
    match setHashes E.ops cfg pick (firstLeafNum sz.numSegs) nd.ctTree [] [(segnum, E.tagged .seg segment)] with
    | (.ok, t') => (.ok (segnum * u.segmentSize, segment), { nd with ctTree := t' })
    | (_, t') => (.error .badCtHash, { nd with ctTree := t' })

/-- the share passes that happened while one segment was being fetched: (share number, answers) -/
abbrev Script (H : Type) := List (Nat × View H)

/-- SegmentFetcher: blocks are kept per share number (`self._blocks[shnum] = block`) -/
def runViews (E : Env H) (cfg : Cfg) (pick : List Nat → Nat) (cap : Cap H) (segnum : Nat) :
    Script H → Node H → List (Nat × Bytes) → List (Nat × Bytes) × Node H
  | [], nd, acc => (acc, nd)
  | (shnum, v) :: rest, nd, acc =>
    match satisfy E cfg pick cap nd shnum segnum v with
    | (.block b, nd') =>
      runViews E cfg pick cap segnum rest nd' (if acc.any (fun e => e.1 == shnum) then acc else acc ++ [(shnum, b)])
    | (_, nd') => runViews E cfg pick cap segnum rest nd' acc

/-- `DownloadNode.get_segment(segnum)` as seen from outside: the delivered `(offset, segment)` or an error -/
def fetchSegment (E : Env H) (cfg : Cfg) (pick : List Nat → Nat) (decode : Nat → List (Nat × Bytes) → Bytes)
    (cap : Cap H) (nd : Node H) (segnum : Nat) (sc : Script H) : Except FetchErr (Nat × Bytes) × Node H :=
  match runViews E cfg pick cap segnum sc nd [] with
  | (blocks, nd1) =>
    match nd1.known with
    | none => (.error .noShares, nd1)
    | some (_, sz) =>
      if segnum ≥ sz.numSegs then (.error .badSegnum, nd1)
      else if blocks.length < cap.k then (.error .notEnough, nd1)
      else processBlocks E cfg pick decode nd1 segnum (blocks.take cap.k)

/-! ## segmentation.py -/

/-- `Segmentation._got_segment`: the bytes handed to `consumer.write`, `none` = WrongSegmentError -/
def gotSegment (off size segStart : Nat) (seg : Bytes) : Option Bytes :=
  let left := max segStart off
  let right := min (segStart + seg.length) (off + size)
  if left < right ∧ left = off then some ((seg.drop (off - segStart)).take (right - left)) else none

inductive ReadEnd
  | done       -- the Deferred fired with the consumer
  | error      -- errback
  | pending    -- still waiting (the script ran out)
  deriving DecidableEq, Repr

/-- the loop `_fetch_next` → `get_segment` → `_got_segment` for one `read(consumer, offset, size)`;
    one `Script` per segment request.  `guess` is `guessed_segment_size` (used for the first request when the
    UEB is not yet known; a wrong guess is retried once the real size is known).
    Returns everything written to the consumer, and how the read ended. -/
def readLoop (E : Env H) (cfg : Cfg) (pick : List Nat → Nat) (decode : Nat → List (Nat × Bytes) → Bytes)
    (cap : Cap H) (guess : Nat) : List (Script H) → Node H → Nat → Nat → Bytes → Bytes × ReadEnd
  | [], _, _, size, w => (w, if size = 0 then .done else .pending)
  | sc :: rest, nd, off, size, w =>
    if size = 0 then (w, .done)
    else
      let segSize := match nd.known with
        | some (u, _) => u.segmentSize
        | none => guess
      let wanted := off / segSize
      match fetchSegment E cfg pick decode cap nd wanted sc with
      | (.error e, nd') =>
        -- `_retry_bad_segment`: BadSegmentNumberError on a guessed segment number is retried once the real
        -- size is known; every other error ends the read
        if nd.known.isNone ∧ e = .badSegnum then readLoop E cfg pick decode cap guess rest nd' off size w
        else (w, .error)
      | (.ok (start, seg), nd') =>
        match gotSegment off size start seg with
        | none =>
          if nd.known.isNone then readLoop E cfg pick decode cap guess rest nd' off size w else (w, .error)
        | some d => readLoop E cfg pick decode cap guess rest nd' (off + d.length) (size - d.length) (w ++ d)

/-- `DownloadNode.read(consumer, offset, size)`: the size is clipped to the cap's file size -/
def read (E : Env H) (cfg : Cfg) (pick : List Nat → Nat) (decode : Nat → List (Nat × Bytes) → Bytes)
    (cap : Cap H) (guess : Nat) (scripts : List (Script H)) (nd : Node H) (off size : Nat) : Bytes × ReadEnd :=
  readLoop E cfg pick decode cap guess scripts nd off (min size (cap.size - off)) []

end chain

/-! ## a genuine publication (what encode.py / upload.py compute) -/

/-- ciphertext segment `i` for segment size `s` -/
def ctSeg (ct : Bytes) (s i : Nat) : Bytes := (ct.drop (i * s)).take s

def segments (ct : Bytes) (s : Nat) : List Bytes := (List.range (divCeil ct.length s)).map (ctSeg ct s)

structure Params where
  k : Nat
  n : Nat
  segSize : Nat
  deriving DecidableEq, Repr

/-- root of `HashTree(L)` -/
def rootOf {H : Type} (ops : HashOps H) (L : List H) : H := (buildList ops L).headD (ops.emptyLeaf 0)

structure Published (H : Type) where
  cap : Cap H
  ueb : UEB H
  uebBytes : Bytes
  /-- crypttext hash tree, share hash tree, block hash tree of each share number (all nodes) -/
  ctT : Tree H
  shareT : Tree H
  blockT : Nat → Tree H
  /-- block of share `shnum` for segment `segnum` -/
  block : Nat → Nat → Bytes

/-- what a correct uploader publishes for ciphertext `ct`: `encode segnum segment shnum` is the erasure coder
    (any function), `ser` is `uri.pack_extension` (any function) -/
def upload {H : Type} (E : Env H) (prm : Params) (encode : Nat → Bytes → Nat → Bytes) (ser : UEB H → Bytes)
    (ct : Bytes) : Published H :=
  let segs := segments ct prm.segSize
  let block := fun (shnum segnum : Nat) => encode segnum (ctSeg ct prm.segSize segnum) shnum
  let blockLeaves := fun (shnum : Nat) => (List.range segs.length).map (fun i => E.tagged .block (block shnum i))
  let ctLeaves := segs.map (E.tagged .seg)
  let shareLeaves := (List.range prm.n).map (fun sh => rootOf E.ops (blockLeaves sh))
  let tail := if ct.length % prm.segSize = 0 then prm.segSize else ct.length % prm.segSize
  let u : UEB H :=
    { segmentSize := prm.segSize, ctRoot := rootOf E.ops ctLeaves, shareRoot := rootOf E.ops shareLeaves,
      ctHashLen := some 32, codecName := some [99, 114, 115],
      codecParams := some (prm.segSize, prm.k, prm.n),
      tailCodecParams := some (nextMultiple tail prm.k, prm.k, prm.n),
      numSegments := some segs.length, size := some ct.length,
      neededShares := some prm.k, totalShares := some prm.n }
  { cap := { uebHash := E.tagged .ueb (ser u), k := prm.k, n := prm.n, size := ct.length },
    ueb := u, uebBytes := ser u,
    ctT := build E.ops ctLeaves, shareT := build E.ops shareLeaves,
    blockT := fun sh => build E.ops (blockLeaves sh), block := block }

/-! ## checker.py: the verifier -/

inductive VErr
  | badURIExtension
  | unsupportedCodec
  deriving DecidableEq, Repr

structure VInfo where
  blockSize : Nat
  shareSize : Nat
  numSegments : Nat
  tailSegSize : Nat
  deriving DecidableEq, Repr

/-- `ValidatedExtendedURIProxy._parse_and_validate` after `unpack_extension` (the UEB already passed
    `_check_integrity`).  Division by zero (`segment_size = 0`, `k = 0`) is an exception: `none`. -/
def veupValidate {H : Type} (cap : Cap H) (u : UEB H) : Option (Except VErr VInfo) :=
  if cap.k = 0 ∨ u.segmentSize = 0 then none
  else
    let shareSize := divCeil cap.size cap.k
    let blockSize := divCeil u.segmentSize cap.k
    let numSegs := divCeil cap.size u.segmentSize
    let tailData := if cap.size % u.segmentSize = 0 then u.segmentSize else cap.size % u.segmentSize
    let tailSeg := nextMultiple tailData cap.k
    let bad : Option VErr :=
      if u.ctHashLen.any (fun l => l ≠ 32) then some .badURIExtension
      else if u.codecName.any (fun nm => nm ≠ [99, 114, 115]) then some .unsupportedCodec
      else if u.codecParams.any (fun p => p.1 ≠ u.segmentSize ∨ p.2.1 ≠ cap.k ∨ p.2.2 ≠ cap.n) then some .badURIExtension
      else if u.tailCodecParams.any (fun p => p.1 ≠ tailSeg ∨ p.2.1 ≠ cap.k ∨ p.2.2 ≠ cap.n) then some .badURIExtension
      else if u.numSegments.any (fun x => x ≠ numSegs) then some .badURIExtension
      else if u.size.any (fun x => x ≠ cap.size) then some .badURIExtension
      else if u.neededShares.any (fun x => x ≠ cap.k) then some .badURIExtension
      else if u.totalShares.any (fun x => x ≠ cap.n) then some .badURIExtension
      else none
    match bad with
    | some e => some (.error e)
    | none => some (.ok { blockSize := blockSize, shareSize := shareSize, numSegments := numSegs, tailSegSize := tailSeg })

/-- the verifier as it is (`checkRoot = false`: `get_all_blockhashes` fills a block hash tree that has no
    root yet, so the root the server sends is never compared with the share hash tree) or with
    fixes/C45-verify-block-root.diff (`checkRoot = true`: the root is first taken from the validated share
    hash leaf, a share whose chain does not produce that leaf is corrupt) -/
structure VCfg where
  checkRoot : Bool
def VCfg.asIs : VCfg := { checkRoot := false }
def VCfg.repaired : VCfg := { checkRoot := true }

inductive Verdict
  | good
  | corrupt
  | incompatible
  | raised        -- an exception `_errb` re-raises (the check itself fails)
  deriving DecidableEq, Repr

/-- what one share answers to the verifier's reads -/
structure VView (H : Type) where
  /-- how many of the 0x44 header bytes the server returned -/
  headerLen : Nat
  version : Nat
  offs : Offsets
  /-- the length field at the UEB offset was read completely -/
  uebLenOk : Bool
  uebLen : Nat
  uebBytes : Bytes
  /-- first read of the share hash chain (`get_all_sharehashes`); `none` = short read -/
  shareHashes : Option (List (Nat × H))
  /-- all block hashes / crypttext hashes as returned (`_str2l` of whatever was read) -/
  blockHashes : List H
  ctHashes : List H
  /-- per block: the share hash chain read again if `needed_hashes(sharenum)` is still non-empty, the block
      hashes read again, the block data -/
  shareHashesAgain : Nat → Option (List (Nat × H))
  blockHashesAgain : Nat → List H
  block : Nat → Bytes

def enumFrom {α : Type} : Nat → List α → List (Nat × α)
  | _, [] => []
  | i, a :: l => (i, a) :: enumFrom (i + 1) l

section verifier
variable {H : Type} [DecidableEq H]

/-- `set_hashes` with the verifier's exception mapping: IndexError, BadHashError, NotEnoughHashesError →
    BadOrMissingHash (`corrupt`) -/
def vSet (E : Env H) (cfg : Cfg) (pick : List Nat → Nat) (first : Nat) (t : Tree H) (hashes leaves : List (Nat × H))
    (indexCaught : Bool := true) : Except Verdict (Tree H) :=
  match setHashes E.ops cfg pick first t hashes leaves with
  | (.ok, t') => .ok t'
  | (.internal, _) => .error .raised
  | (.indexError, _) => .error (if indexCaught then .corrupt else .raised)
  | (_, _) => .error .corrupt

/-- `ValidatedReadBucketProxy.get_block(blocknum)` + `_got_data` for blocks `i, i+1, …` (`fuel` of them) -/
def verifyBlocks (E : Env H) (cfg : Cfg) (pick : List Nat → Nat) (cap : Cap H) (shnum : Nat) (info : VInfo)
    (v : VView H) : Nat → Nat → Tree H → Tree H → Verdict
  | 0, _, _, _ => .good
  | fuel + 1, i, st, bt =>
    -- share hashes again, only when still needed
    let stR : Except Verdict (Tree H) :=
      if (neededHashes st (firstLeafNum cap.n + shnum)).isEmpty then .ok st
      else match v.shareHashesAgain i with
        | none => .error .corrupt                 -- LayoutInvalid: short read
        | some sh => vSet E cfg pick (firstLeafNum cap.n) st (dictOf sh) []
    match stR with
    | .error e => e
    | .ok st1 =>
      -- `if not self.block_hash_tree[0]:` take the share hash
      let btR : Except Verdict (Tree H) :=
        if truthyOpt E.ops (get bt 0) then .ok bt
        else match get st1 (firstLeafNum cap.n + shnum) with
          | none => .error .corrupt               -- `if not share_hash: raise NotEnoughHashesError`
          | some r => if E.ops.truthy r then vSet E cfg pick (firstLeafNum info.numSegments) bt [(0, r)] []
                      else .error .corrupt
      match btR with
      | .error e => e
      | .ok bt1 =>
        let bt2R : Except Verdict (Tree H) :=
          if (neededHashes bt1 (firstLeafNum info.numSegments + i)).isEmpty then .ok bt1
          else vSet E cfg pick (firstLeafNum info.numSegments) bt1 (enumFrom 0 (v.blockHashesAgain i)) [] false
        match bt2R with
        | .error e => e
        | .ok bt2 =>
          match vSet E cfg pick (firstLeafNum info.numSegments) bt2 [] [(i, E.tagged .block (v.block i))] with
          | .error e => e
          | .ok bt3 => verifyBlocks E cfg pick cap shnum info v fuel (i + 1) st1 bt3

/-- `Checker._download_and_verify(server, sharenum, bucket)` with the classification of `_errb` -/
def verifyShare (E : Env H) (cfg : Cfg) (vc : VCfg) (pick : List Nat → Nat) (cap : Cap H) (shnum : Nat)
    (v : VView H) : Verdict :=
  -- ReadBucketProxy._parse_offsets (`precondition` = AssertionError, which `_errb` re-raises)
  if v.headerLen < 4 then .raised
  else if v.version ≠ 1 ∧ v.version ≠ 2 then .incompatible
  else if (v.version = 1 ∧ v.headerLen < 0x24) ∨ (v.version ≠ 1 ∧ v.headerLen < 0x44) then .raised
  -- get_uri_extension
  else if !v.uebLenOk then .corrupt                                     -- LayoutInvalid
  else if v.uebLen ≥ 2000 then .corrupt                                 -- RidiculouslyLargeURIExtensionBlock
  else if E.tagged .ueb v.uebBytes ≠ cap.uebHash then .corrupt          -- BadURIExtensionHashValue
  else match E.parseUEB v.uebBytes with
    | none => .raised
    | some u =>
      match veupValidate cap u with
      | none => .raised
      | some (.error _) => .raised            -- BadURIExtension is not in `_errb`'s list
      | some (.ok info) =>
        let st0 := seed (newTree H cap.n) u.shareRoot
        -- get_all_sharehashes
        if ((v.offs.uriExtension : Int) - (v.offs.shareHashes : Int)) % 34 ≠ 0 then .corrupt    -- LayoutInvalid
        else match v.shareHashes with
          | none => .corrupt
          | some sh =>
            match vSet E cfg pick (firstLeafNum cap.n) st0 (dictOf sh) [] with
            | .error e => e
            | .ok st1 =>
              -- get_all_blockhashes
              let bt0 := newTree H info.numSegments
              if v.blockHashes.length < bt0.length then .corrupt
              else
                let btSeeded : Except Verdict (Tree H) :=
                  if vc.checkRoot then
                    match get st1 (firstLeafNum cap.n + shnum) with
                    | none => .error .corrupt
                    | some r => .ok (seed bt0 r)
                  else .ok bt0
                match btSeeded with
                | .error e => e
                | .ok btS =>
                  match vSet E cfg pick (firstLeafNum info.numSegments) btS (enumFrom 0 v.blockHashes) [] with
                  | .error e => e
                  | .ok bt1 =>
                    -- get_all_crypttext_hashes
                    let cht := seed (newTree H info.numSegments) u.ctRoot
                    if v.ctHashes.length < cht.length then .corrupt
                    else match vSet E cfg pick (firstLeafNum info.numSegments) cht (enumFrom 0 v.ctHashes) [] with
                      | .error e => e
                      | .ok _ => verifyBlocks E cfg pick cap shnum info v info.numSegments 0 st1 bt1

end verifier

/-! ## `Checker._format_results` -/

/-- one element of `results`: (verified, server, corrupt, incompatible, responded) -/
structure ServerResult where
  server : Nat
  verified : List Nat
  corrupt : List Nat
  incompatible : List Nat
  responded : Bool
  deriving DecidableEq, Repr

/-- `verifiedshares.setdefault(sharenum, set()).add(server)` over all results: the keys in insertion order -/
def verifiedKeys (rs : List ServerResult) : List Nat :=
  rs.foldl (fun keys r => r.verified.foldl (fun ks sh => if sh ∈ ks then ks else ks ++ [sh]) keys) []

structure CheckSummary where
  healthy : Bool
  recoverable : Bool
  countGood : Nat
  countCorrupt : Nat
  countIncompatible : Nat
  deriving DecidableEq, Repr

def formatResults (k n : Nat) (rs : List ServerResult) : CheckSummary :=
  let good := (verifiedKeys rs).length
  { healthy := good == n, recoverable := decide (good ≥ k), countGood := good,
    countCorrupt := (rs.map (fun r => r.corrupt.eraseDups.length)).sum,
    countIncompatible := (rs.map (fun r => r.incompatible.eraseDups.length)).sum }

/-- `Checker._check_server_shares(s)` (check WITHOUT verification): whatever share numbers the server's `get_buckets`
    answer lists are taken as good, nothing is ever classified corrupt or incompatible; a failing / disconnected
    server (`none`) contributes nothing and is marked as not responding -/
def checkServerShares (server : Nat) (answer : Option (List Nat)) : ServerResult :=
  match answer with
  | some buckets => { server := server, verified := buckets, corrupt := [], incompatible := [], responded := true }
  | none => { server := server, verified := [], corrupt := [], incompatible := [], responded := false }

/-- `Checker.start` with verify=False followed by `_format_results` -/
def checkNoVerify (k n : Nat) (answers : List (Nat × Option (List Nat))) : CheckSummary :=
  formatResults k n (answers.map (fun a => checkServerShares a.1 a.2))

/-- `corruptshare_locators` / `incompatibleshare_locators` of `_format_results`: (server, sharenum) for every share a
    server's result set lists as corrupt / incompatible, in result order -/
def corruptLocators (rs : List ServerResult) : List (Nat × Nat) :=
  rs.flatMap (fun r => r.corrupt.eraseDups.map (fun sh => (r.server, sh)))

def incompatibleLocators (rs : List ServerResult) : List (Nat × Nat) :=
  rs.flatMap (fun r => r.incompatible.eraseDups.map (fun sh => (r.server, sh)))

/-! ## filenode.py `CiphertextFileNode._maybe_repair` -/

/-- `if cr.is_healthy(): (no repair) else: (start the Repairer)`: a repair is attempted exactly when the check is
    not healthy — a function of the distinct good share NUMBERS only (not of how many servers hold them) -/
def repairDecision (k n : Nat) (rs : List ServerResult) : Bool := !(formatResults k n rs).healthy

/-! ## filenode.py `CiphertextFileNode._gather_repair_results` -/

/-- the keys of `sm`: the pre-repair check's sharemap (`cr.get_sharemap()`, i.e. the verified shares when
    verify=True) to which every `(shnum, server)` of the upload results' sharemap is added -/
def postRepairKeys (pre : List ServerResult) (ur : List (Nat × Nat)) : List Nat :=
  (ur.map (·.1)).foldl (fun ks sh => if sh ∈ ks then ks else ks ++ [sh]) (verifiedKeys pre)

structure PostRepair where
  healthy : Bool          -- also `crr.repair_successful`
  recoverable : Bool
  countGood : Nat
  deriving DecidableEq, Repr

/-- `is_healthy = len(sm) >= N`, `is_recoverable = len(sm) >= k`, `count_shares_good = len(sm)` -/
def gatherRepairResults (k n : Nat) (pre : List ServerResult) (ur : List (Nat × Nat)) : PostRepair :=
  let good := (postRepairKeys pre ur).length
  { healthy := decide (good ≥ n), recoverable := decide (good ≥ k), countGood := good }

/-! ## repairer.py `Repairer.start` / `_got_segsize` -/

/-- the encoding parameters the repairer hands to `CHKUploader`: k and N from the verify cap, the segment size
    from `get_segment_size()` = `DownloadNode.get_segsize()`, i.e. the `segment_size` of the *validated* UEB
    (known only after segment 0 has been fetched; `none` = not known / the fetch failed) -/
def repairParams {H : Type} (cap : Cap H) (nd : Node H) : Option Params :=
  match nd.known with
  | none => none
  | some (u, _) => some { k := cap.k, n := cap.n, segSize := u.segmentSize }

/-! ## abstract storage spec used by repair (refined by the storage server: C22) -/

/-- complete shares a server holds for one storage index -/
abbrev Store := List (Nat × Bytes)

/-- `allocate_buckets(si, …, sharenums, …)`: (alreadygot, share numbers a writer was handed out for) -/
def allocate (st : Store) (req : List Nat) : List Nat × List Nat :=
  (req.filter (fun sh => (st.lookup sh).isSome), req.filter (fun sh => (st.lookup sh).isNone))

/-- closing a writer makes the share visible — unless a complete share already sits there (a write to an
    existing final share never happens: no writer is handed out; a racing close is rejected) -/
def closeWriter (st : Store) (sh : Nat) (data : Bytes) : Store :=
  if (st.lookup sh).isSome then st else st ++ [(sh, data)]

/-- one server's part of a repair upload: ask for `req`, write `gen sh` to every writer obtained -/
def repairOn (st : Store) (req : List Nat) (gen : Nat → Bytes) : Store :=
  (allocate st req).2.foldl (fun s sh => closeWriter s sh (gen sh)) st

/-! ## a free hash: everything injective by construction -/

inductive SymH
  | tagged (t : Tag) (b : List UInt8)
  | emptyLeaf (i : Nat)
  | pair (a b : SymH)
  | raw (n : Nat)            -- an arbitrary (forged) 32-byte value
  deriving DecidableEq, Repr

def symOpsH : HashOps SymH := { pair := SymH.pair, emptyLeaf := SymH.emptyLeaf, truthy := fun _ => true }

end Tahoe.Integrity
