import Tahoe.Immutable.UploadSelection
import Tahoe.Immutable.UploadDecisionMatching
/-! What server selection hands to the uploader, for every history of answers (helper lemmas for C06). -/
namespace Tahoe.UploadDecision
open Tahoe.Happiness

theorem nodup_subset_length (l L : List Nat) (h : l.Nodup) (hs : ∀ x ∈ l, x ∈ L) : l.length ≤ L.length := by
  induction l generalizing L with
  | nil => simp
  | cons a t ih =>
    have ha : a ∈ L := hs a (by simp)
    have hn := List.nodup_cons.mp h
    have hsub : ∀ x ∈ t, x ∈ L.erase a := by
      intro x hx
      have hne : x ≠ a := fun hxa => hn.1 (by rw [← hxa]; exact hx)
      exact (List.mem_erase_of_ne hne).mpr (hs x (List.mem_cons_of_mem _ hx))
    have := ih (L.erase a) hn.2 hsub
    have hl := List.length_erase_of_mem ha
    have : 0 < L.length := List.length_pos_of_mem ha
    simp only [List.length_cons]; omega

theorem addExisting_eq' (p sh : Nat) (d : SetMap) : addExisting p sh d = addToSet p sh d := by
  induction d with
  | nil => rfl
  | cons e rest ih =>
    obtain ⟨k, s⟩ := e
    simp only [addExisting, addToSet, ih]

/-- `add_peer_with_share` for each share of one answer -/
theorem existing_foldl (srv : Nat) (shares : List Nat) (s : SelState) (p x : Nat) :
    (p, x) ∈ relOfServermap (shares.foldl (fun s sh => s.next (.addPeerWithShare srv sh)) s).existing ↔
      (p, x) ∈ relOfServermap s.existing ∨ (p = srv ∧ x ∈ shares) := by
  induction shares generalizing s with
  | nil => simp
  | cons a rest ih =>
    simp only [List.foldl_cons]
    rw [ih]
    simp only [SelState.next, addExisting_eq', addToSet_rel, List.mem_cons]
    constructor
    · rintro ((⟨h1, h2⟩ | h) | ⟨h1, h2⟩)
      · exact Or.inr ⟨h1, Or.inl h2⟩
      · exact Or.inl h
      · exact Or.inr ⟨h1, Or.inr h2⟩
    · rintro (h | ⟨h1, h2 | h2⟩)
      · exact Or.inl (Or.inr h)
      · exact Or.inl (Or.inl ⟨h1, h2⟩)
      · exact Or.inr ⟨h1, h2⟩

theorem existing_markBad (s : SelState) (p : Nat) : (s.next (.markBad p)).existing = s.existing := by
  simp only [SelState.next]; split
  · rfl
  · split <;> rfl

/-- what one answer adds to the peer selector's existing shares -/
theorem existing_step (st : SelSt) (ev : SelEv) (p x : Nat) :
    (p, x) ∈ relOfServermap (st.step ev).sel.existing ↔
      (p, x) ∈ relOfServermap st.sel.existing ∨ ∃ shares, ev = .gotBuckets p shares ∧ x ∈ shares := by
  cases ev with
  | gotBuckets srv shares =>
    simp only [SelSt.step, existing_foldl]
    constructor
    · rintro (h | ⟨rfl, h⟩)
      · exact Or.inl h
      · exact Or.inr ⟨shares, rfl, h⟩
    · rintro (h | ⟨sh', he, h⟩)
      · exact Or.inl h
      · cases he; exact Or.inr ⟨rfl, h⟩
  | gotBucketsErr srv => simp [SelSt.step, existing_markBad]
  | allocated srv a b c => simp [SelSt.step]
  | allocErr srv a => simp [SelSt.step, SelState.next]

theorem rel_foldl_addPeer_key (srv : Nat) (allocd : List Nat) (m : Sharemap) (sh p : Nat) :
    (sh, p) ∈ rel (allocd.foldl (fun m sh => addPeer m srv sh) m) ↔ (sh, p) ∈ rel m ∨ (p = srv ∧ sh ∈ allocd) := by
  induction allocd generalizing m with
  | nil => simp
  | cons a rest ih =>
    simp only [List.foldl_cons]
    rw [ih, rel_addPeer]
    simp only [List.mem_cons]
    constructor
    · rintro ((h | ⟨h1, h2⟩) | ⟨h1, h2⟩)
      · exact Or.inl h
      · exact Or.inr ⟨h2, Or.inl h1⟩
      · exact Or.inr ⟨h1, Or.inr h2⟩
    · rintro (h | ⟨h1, h2 | h2⟩)
      · exact Or.inl (Or.inl h)
      · exact Or.inl (Or.inr ⟨h2, h1⟩)
      · exact Or.inr ⟨h1, h2⟩

theorem keys_foldl_addPeer (srv : Nat) (allocd : List Nat) (m : Sharemap) (k : Nat)
    (hk : k ∈ (allocd.foldl (fun m sh => addPeer m srv sh) m).map (·.1)) :
    k ∈ m.map (·.1) ∨ (k = srv ∧ allocd ≠ []) := by
  induction allocd generalizing m with
  | nil => exact Or.inl hk
  | cons a rest ih =>
    simp only [List.foldl_cons] at hk
    rcases ih _ hk with h | ⟨h, _⟩
    · rw [keys_addPeer] at h
      split at h
      · exact Or.inl h
      · simp only [List.mem_append, List.mem_singleton] at h
        rcases h with h | h
        · exact Or.inl h
        · exact Or.inr ⟨h, by simp⟩
    · exact Or.inr ⟨h, by simp⟩

theorem mem_insNew (l : List Nat) (x y : Nat) : y ∈ insNew l x ↔ y ∈ l ∨ y = x := by
  unfold insNew; split
  · constructor
    · exact Or.inl
    · rintro (h | rfl)
      · exact h
      · assumption
  · simp

/-- every tracker that holds a bucket is in `use_trackers` -/
def UseInv (st : SelSt) : Prop := ∀ k ∈ st.trackers.map (·.1), k ∈ st.use

theorem useInv_step (st : SelSt) (ev : SelEv) (h : UseInv st) : UseInv (st.step ev) := by
  cases ev with
  | gotBuckets srv shares => exact h
  | gotBucketsErr srv => exact h
  | allocErr srv a => exact h
  | allocated srv a b allocd =>
    intro k hk
    simp only [SelSt.step] at hk ⊢
    rcases keys_foldl_addPeer srv allocd st.trackers k hk with h1 | ⟨h1, h2⟩
    · have := h k h1
      split
      · exact this
      · exact (mem_insNew _ _ _).mpr (Or.inl this)
    · have : allocd.isEmpty = false := by cases allocd <;> simp_all
      simp only [this]
      exact (mem_insNew _ _ _).mpr (Or.inr h1)

theorem trackers_step (st : SelSt) (ev : SelEv) (sh p : Nat) :
    (sh, p) ∈ rel (st.step ev).trackers ↔
      (sh, p) ∈ rel st.trackers ∨ ∃ asked ag allocd, ev = .allocated p asked ag allocd ∧ sh ∈ allocd := by
  cases ev with
  | gotBuckets srv shares => simp [SelSt.step]
  | gotBucketsErr srv => simp [SelSt.step]
  | allocErr srv a => simp [SelSt.step]
  | allocated srv a b allocd =>
    simp only [SelSt.step, rel_foldl_addPeer_key]
    constructor
    · rintro (h | ⟨rfl, h⟩)
      · exact Or.inl h
      · exact Or.inr ⟨a, b, allocd, rfl, h⟩
    · rintro (h | ⟨a', b', c', he, h⟩)
      · exact Or.inl h
      · cases he; exact Or.inr ⟨rfl, h⟩

theorem foldl_spec (evs : List SelEv) : ∀ st : SelSt, UseInv st →
    UseInv (evs.foldl SelSt.step st) ∧
    (∀ sh p, (sh, p) ∈ rel (evs.foldl SelSt.step st).trackers ↔
      (sh, p) ∈ rel st.trackers ∨ ∃ asked ag allocd, SelEv.allocated p asked ag allocd ∈ evs ∧ sh ∈ allocd) ∧
    (∀ p x, (p, x) ∈ relOfServermap (evs.foldl SelSt.step st).sel.existing ↔
      (p, x) ∈ relOfServermap st.sel.existing ∨ ∃ shares, SelEv.gotBuckets p shares ∈ evs ∧ x ∈ shares) := by
  induction evs with
  | nil => intro st h; simp [h]
  | cons ev rest ih =>
    intro st h
    obtain ⟨i1, i2, i3⟩ := ih (st.step ev) (useInv_step st ev h)
    simp only [List.foldl_cons]
    refine ⟨i1, ?_, ?_⟩
    · intro sh p
      rw [i2, trackers_step]
      simp only [List.mem_cons]
      constructor
      · rintro ((h1 | ⟨a, b, c, he, hm⟩) | ⟨a, b, c, he, hm⟩)
        · exact Or.inl h1
        · exact Or.inr ⟨a, b, c, Or.inl he.symm, hm⟩
        · exact Or.inr ⟨a, b, c, Or.inr he, hm⟩
      · rintro (h1 | ⟨a, b, c, he | he, hm⟩)
        · exact Or.inl (Or.inl h1)
        · exact Or.inl (Or.inr ⟨a, b, c, he.symm, hm⟩)
        · exact Or.inr ⟨a, b, c, he, hm⟩
    · intro p x
      rw [i3, existing_step]
      simp only [List.mem_cons]
      constructor
      · rintro ((h1 | ⟨s, he, hm⟩) | ⟨s, he, hm⟩)
        · exact Or.inl h1
        · exact Or.inr ⟨s, Or.inl he.symm, hm⟩
        · exact Or.inr ⟨s, Or.inr he, hm⟩
      · rintro (h1 | ⟨s, he | he, hm⟩)
        · exact Or.inl (Or.inl h1)
        · exact Or.inl (Or.inr ⟨s, he.symm, hm⟩)
        · exact Or.inr ⟨s, he, hm⟩

theorem wf_preOf (ex : SetMap) : WFmap (preOf ex) :=
  wf_mergeTrackers _ [] ⟨by simp, by simp⟩

theorem rel_preOf (ex : SetMap) (p x : Nat) : (p, x) ∈ rel (preOf ex) ↔ (p, x) ∈ relOfServermap ex := by
  unfold preOf
  rw [rel_mergeTrackers]
  simp only [rel, relOfServermap, List.flatMap_nil, List.not_mem_nil, false_or, List.mem_flatMap, List.mem_map,
    Prod.mk.injEq]
  constructor
  · rintro ⟨e, he, s, hs, rfl, rfl⟩; exact ⟨e, he, s, hs, rfl, rfl⟩
  · rintro ⟨e, he, s, hs, rfl, rfl⟩; exact ⟨e, he, s, hs, rfl, rfl⟩

/-- **what selection hands over**: the allocation is every bucket any server granted in any round, the
pre-existing map is every share reported by a successful `get_buckets` answer (and nothing else) -/
theorem select_spec (total : Nat) (evs : List SelEv) :
    (∀ sh p, (sh, p) ∈ allocOf (select total evs) ↔
      ∃ asked ag allocd, SelEv.allocated p asked ag allocd ∈ evs ∧ sh ∈ allocd) ∧
    (∀ p x, (p, x) ∈ rel (preOf (select total evs).sel.existing) ↔
      ∃ shares, SelEv.gotBuckets p shares ∈ evs ∧ x ∈ shares) ∧
    WFmap (preOf (select total evs).sel.existing) := by
  have h0 : UseInv ⟨SelState.init total, [], []⟩ := by intro k hk; simp at hk
  obtain ⟨i1, i2, i3⟩ := foldl_spec evs _ h0
  refine ⟨?_, ?_, wf_preOf _⟩
  · intro sh p
    have hf : (select total evs).trackers.filter (fun t => t.1 ∈ (select total evs).use) = (select total evs).trackers := by
      apply List.filter_eq_self.mpr
      intro t ht
      have := i1 t.1 (List.mem_map.mpr ⟨t, ht, rfl⟩)
      exact decide_eq_true this
    unfold allocOf
    rw [hf]
    have := i2 sh p
    simpa [select, rel] using this
  · intro p x
    rw [rel_preOf]
    have := i3 p x
    simpa [select, SelState.init, relOfServermap] using this

/-- the happiness of a layout is at most the number of servers occurring in it -/
theorem soh_le_servers (m : Sharemap) (servers : List Nat) (h : ∀ p s, (p, s) ∈ rel m → p ∈ servers) :
    soh m ≤ servers.length := by
  obtain ⟨⟨M, hM, hl⟩, _⟩ := soh_spec m
  rw [← hl]
  have hnd : (M.map (·.1)).Nodup := by
    rw [List.Nodup, List.pairwise_map]
    exact hM.2.imp (fun hab => hab.1)
  have := nodup_subset_length (M.map (·.1)) servers hnd (by
    intro x hx
    obtain ⟨e, he, rfl⟩ := List.mem_map.mp hx
    exact h e.1 e.2 (hM.1 e he))
  simpa using this

end Tahoe.UploadDecision
