import Tahoe.Immutable.LemmasReadSystem
/-! Refinement of the C03/C46 composed system `Tahoe.Fetch.Sys` (reads on one `DownloadNode`; imported, not
    copied) to the byte-level readers of C04: an observer collects, for every read, the bytes its consumer
    receives (the `write (start, len)` extents of each step, read off the ciphertext); the invariant says
    they are always the next bytes of that read's own range. -/
namespace Tahoe.Immutable.SysRefine
open Tahoe.Immutable Tahoe.Immutable.Pipeline Tahoe.Immutable.ReadSystem
open Tahoe.Fetch (Seg SEv SegErr SegOut segStep writesOf RSeg applySeg findRead answerOf setRead newRequest nstep)

/-- the read an event of `Tahoe.Fetch.Sys` steps: the read before the step, the `known` flag and the
    `Seg` callback `sysStep` applies to it (`none`: the event touches no read) -/
def stepped (y : Tahoe.Fetch.Sys) : Tahoe.Fetch.SysEv → Option (RSeg × Bool × SEv)
  | .startRead rid off size =>
    some ({ rid := rid, seg := { segsize := y.segsize, guess := y.guess, offset := off, size := size },
            off0 := off, size0 := size }, y.node.haveUEB, .start)
  | .node _ => none
  | .deliver q =>
    match y.node.retired.find? (fun p => p.1 == q), y.reads.find? (fun r => r.req == some q) with
    | some (_, o), some r => some (r, y.node.haveUEB || o == .ok, answerOf y r o)
    | _, _ => none
  | .stop rid => (findRead y rid).map (fun r => (r, y.node.haveUEB, SEv.stop))
  | .pause rid => (findRead y rid).map (fun r => (r, y.node.haveUEB, SEv.pause))
  | .resume rid => (findRead y rid).map (fun r => (r, y.node.haveUEB, SEv.resume))
  | .turn rid => (findRead y rid).map (fun r => (r, y.node.haveUEB, SEv.turn))

/-- the `Seg` state of the stepped read after the step -/
def steppedSeg (r : RSeg) (k : Bool) (ev : SEv) : Seg := segStep { r.seg with out := [] } k ev

/-- bytes the consumers have received so far, per read id -/
abbrev Received := Nat → Bytes

def observe (ct : Bytes) (y : Tahoe.Fetch.Sys) (e : Tahoe.Fetch.SysEv) (W : Received) : Received :=
  match stepped y e with
  | none => W
  | some (r, k, ev) => fun x => if x = r.rid then W x ++ bytesOf ct (writesOf (steppedSeg r k ev).out) else W x

/-- run a history, observing -/
def observeRun (ct : Bytes) : Tahoe.Fetch.Sys → List Tahoe.Fetch.SysEv → Received → Tahoe.Fetch.Sys × Received
  | y, [], W => (y, W)
  | y, e :: es, W => observeRun ct (Tahoe.Fetch.sysStep y e) es (observe ct y e W)

/-- `DownloadNode.read` creates a new `Segmentation` (fresh identity) for a range clipped to the file -/
def EvOk (ct : Bytes) (y : Tahoe.Fetch.Sys) : Tahoe.Fetch.SysEv → Prop
  | .startRead rid off size => rid ∉ y.reads.map (·.rid) ∧ off + size ≤ ct.length
  | _ => True

def HistOk (ct : Bytes) : Tahoe.Fetch.Sys → List Tahoe.Fetch.SysEv → Prop
  | _, [] => True
  | y, e :: es => EvOk ct y e ∧ HistOk ct (Tahoe.Fetch.sysStep y e) es

structure Inv (ct : Bytes) (seg : Nat) (y : Tahoe.Fetch.Sys) (W : Received) : Prop where
  fs : y.filesize = ct.length
  ss : y.segsize = seg
  nodup : (y.reads.map (·.rid)).Nodup
  good : ∀ r ∈ y.reads, r.seg.offset + r.seg.size ≤ ct.length ∧
           W r.rid ++ (ct.drop r.seg.offset).take r.seg.size = (ct.drop r.off0).take r.size0
  fresh : ∀ rid, rid ∉ y.reads.map (·.rid) → W rid = []

theorem applySeg_shape (y : Tahoe.Fetch.Sys) (r : RSeg) (k : Bool) (ev : SEv) :
    (∃ req', (applySeg y r k ev).reads = setRead y.reads { r with seg := steppedSeg r k ev, req := req' }) ∧
    (applySeg y r k ev).filesize = y.filesize ∧ (applySeg y r k ev).segsize = y.segsize := by
  unfold applySeg steppedSeg
  refine ⟨?_, ?_, ?_⟩
  · simp only
    split
    · exact Exists.intro _ rfl
    · exact Exists.intro _ rfl
  · simp only; split <;> rfl
  · simp only; split <;> rfl

theorem mem_of_find? {α : Type} {p : α → Bool} {l : List α} {a : α} (h : l.find? p = some a) : a ∈ l :=
  List.mem_of_find?_eq_some h

theorem findRead_mem {y : Tahoe.Fetch.Sys} {rid : Nat} {r : RSeg} (h : findRead y rid = some r) : r ∈ y.reads :=
  mem_of_find? h

/-- an event that steps no read leaves all reads alone -/
theorem sysStep_none (y : Tahoe.Fetch.Sys) (e : Tahoe.Fetch.SysEv) (h : stepped y e = none) :
    (Tahoe.Fetch.sysStep y e).reads = y.reads ∧ (Tahoe.Fetch.sysStep y e).filesize = y.filesize ∧
    (Tahoe.Fetch.sysStep y e).segsize = y.segsize := by
  cases e with
  | startRead rid off size => simp [stepped] at h
  | node e => exact ⟨rfl, rfl, rfl⟩
  | deliver q =>
    simp only [stepped] at h
    simp only [Tahoe.Fetch.sysStep]
    split at h
    · cases h
    · rename_i hne
      split
      · rename_i o r h1 h2
        exact (hne _ _ _ h1 h2).elim
      · exact ⟨rfl, rfl, rfl⟩
  | stop rid => simp only [stepped, Option.map_eq_none_iff] at h; simp [Tahoe.Fetch.sysStep, h]
  | pause rid => simp only [stepped, Option.map_eq_none_iff] at h; simp [Tahoe.Fetch.sysStep, h]
  | resume rid => simp only [stepped, Option.map_eq_none_iff] at h; simp [Tahoe.Fetch.sysStep, h]
  | turn rid => simp only [stepped, Option.map_eq_none_iff] at h; simp [Tahoe.Fetch.sysStep, h]

/-- an event that steps read `r` replaces exactly the entries with `r`'s id by the stepped read -/
theorem sysStep_some (y : Tahoe.Fetch.Sys) (e : Tahoe.Fetch.SysEv) (r : RSeg) (k : Bool) (ev : SEv)
    (h : stepped y e = some (r, k, ev)) :
    (Tahoe.Fetch.sysStep y e).filesize = y.filesize ∧ (Tahoe.Fetch.sysStep y e).segsize = y.segsize ∧
    ∃ req' base, (Tahoe.Fetch.sysStep y e).reads = setRead base { r with seg := steppedSeg r k ev, req := req' } ∧
      ((base = y.reads ∧ r ∈ y.reads) ∨
       (∃ off size, e = .startRead r.rid off size ∧ base = y.reads ++ [r] ∧ ev = .start ∧
          r.seg.offset = off ∧ r.seg.size = size ∧ r.off0 = off ∧ r.size0 = size)) := by
  cases e with
  | node e => simp [stepped] at h
  | startRead rid off size =>
    simp only [stepped, Option.some.injEq, Prod.mk.injEq] at h
    obtain ⟨hr, hk, hev⟩ := h
    subst hr hk hev
    have hs := applySeg_shape { y with reads := y.reads ++ [{ rid := rid, seg := { segsize := y.segsize, guess := y.guess, offset := off, size := size }, off0 := off, size0 := size }] }
      { rid := rid, seg := { segsize := y.segsize, guess := y.guess, offset := off, size := size }, off0 := off, size0 := size } y.node.haveUEB .start
    obtain ⟨⟨req', hreads⟩, hf, hsz⟩ := hs
    exact ⟨hf.trans rfl, hsz.trans rfl, req', _, hreads, Or.inr ⟨off, size, rfl, rfl, rfl, rfl, rfl, rfl, rfl⟩⟩
  | deliver q =>
    simp only [stepped] at h
    split at h
    · rename_i o r0 h1 h2
      simp only [Option.some.injEq, Prod.mk.injEq] at h
      obtain ⟨hr, hk, hev⟩ := h
      subst hr hk hev
      simp only [Tahoe.Fetch.sysStep, h1, h2]
      obtain ⟨⟨req', hreads⟩, hf, hsz⟩ := applySeg_shape y r0 (y.node.haveUEB || o == .ok) (answerOf y r0 o)
      exact ⟨hf, hsz, req', _, hreads, Or.inl ⟨rfl, mem_of_find? h2⟩⟩
    · cases h
  | stop rid =>
    simp only [stepped, Option.map_eq_some_iff] at h
    obtain ⟨r0, hfind, heq⟩ := h
    simp only [Prod.mk.injEq] at heq
    obtain ⟨hr, hk, hev⟩ := heq
    subst hr hk hev
    simp only [Tahoe.Fetch.sysStep, hfind]
    obtain ⟨⟨req', hreads⟩, hf, hsz⟩ := applySeg_shape y r0 y.node.haveUEB .stop
    exact ⟨hf, hsz, req', _, hreads, Or.inl ⟨rfl, findRead_mem hfind⟩⟩
  | pause rid =>
    simp only [stepped, Option.map_eq_some_iff] at h
    obtain ⟨r0, hfind, heq⟩ := h
    simp only [Prod.mk.injEq] at heq
    obtain ⟨hr, hk, hev⟩ := heq
    subst hr hk hev
    simp only [Tahoe.Fetch.sysStep, hfind]
    obtain ⟨⟨req', hreads⟩, hf, hsz⟩ := applySeg_shape y r0 y.node.haveUEB .pause
    exact ⟨hf, hsz, req', _, hreads, Or.inl ⟨rfl, findRead_mem hfind⟩⟩
  | resume rid =>
    simp only [stepped, Option.map_eq_some_iff] at h
    obtain ⟨r0, hfind, heq⟩ := h
    simp only [Prod.mk.injEq] at heq
    obtain ⟨hr, hk, hev⟩ := heq
    subst hr hk hev
    simp only [Tahoe.Fetch.sysStep, hfind]
    obtain ⟨⟨req', hreads⟩, hf, hsz⟩ := applySeg_shape y r0 y.node.haveUEB .resume
    exact ⟨hf, hsz, req', _, hreads, Or.inl ⟨rfl, findRead_mem hfind⟩⟩
  | turn rid =>
    simp only [stepped, Option.map_eq_some_iff] at h
    obtain ⟨r0, hfind, heq⟩ := h
    simp only [Prod.mk.injEq] at heq
    obtain ⟨hr, hk, hev⟩ := heq
    subst hr hk hev
    simp only [Tahoe.Fetch.sysStep, hfind]
    obtain ⟨⟨req', hreads⟩, hf, hsz⟩ := applySeg_shape y r0 y.node.haveUEB .turn
    exact ⟨hf, hsz, req', _, hreads, Or.inl ⟨rfl, findRead_mem hfind⟩⟩

/-- every callback `sysStep` applies to a read is a consumer/reactor callback, a failure, or the delivery of a
    *genuine* segment of the file -/
theorem ev_is_rev (ct : Bytes) (seg : Nat) (y : Tahoe.Fetch.Sys) (e : Tahoe.Fetch.SysEv) (r : RSeg) (k : Bool) (ev : SEv)
    (hfs : y.filesize = ct.length) (hss : y.segsize = seg) (h : stepped y e = some (r, k, ev)) :
    ∃ rev : REv, ev = rev.toSEv ct seg := by
  cases e with
  | node e => simp [stepped] at h
  | startRead rid off size =>
    simp only [stepped, Option.some.injEq, Prod.mk.injEq] at h
    exact ⟨.start, h.2.2.symm⟩
  | stop rid => simp only [stepped, Option.map_eq_some_iff, Prod.mk.injEq] at h; obtain ⟨_, _, _, _, h3⟩ := h; exact ⟨.stop, h3.symm⟩
  | pause rid => simp only [stepped, Option.map_eq_some_iff, Prod.mk.injEq] at h; obtain ⟨_, _, _, _, h3⟩ := h; exact ⟨.pause, h3.symm⟩
  | resume rid => simp only [stepped, Option.map_eq_some_iff, Prod.mk.injEq] at h; obtain ⟨_, _, _, _, h3⟩ := h; exact ⟨.resume, h3.symm⟩
  | turn rid => simp only [stepped, Option.map_eq_some_iff, Prod.mk.injEq] at h; obtain ⟨_, _, _, _, h3⟩ := h; exact ⟨.turn, h3.symm⟩
  | deliver q =>
    simp only [stepped] at h
    split at h
    · rename_i o r0 h1 h2
      simp only [Option.some.injEq, Prod.mk.injEq] at h
      obtain ⟨_, _, hev⟩ := h
      subst hev
      cases o with
      | ok =>
        refine ⟨.deliver (r0.seg.active.getD 0) false, ?_⟩
        simp only [answerOf, REv.toSEv, hss, hfs, List.length_take, List.length_drop]
      | decodeErr => exact ⟨.failed (.other 3), rfl⟩
      | err er => cases er <;> exact ⟨.failed _, rfl⟩
    · cases h

/-- the data effect of one step on the stepped read: the new bytes are the next bytes of its own range -/
theorem data_step (ct : Bytes) (seg : Nat) (r : RSeg) (k : Bool) (rev : REv) (Wr target : Bytes)
    (hfit : r.seg.offset + r.seg.size ≤ ct.length)
    (hinv : Wr ++ (ct.drop r.seg.offset).take r.seg.size = target) :
    (steppedSeg r k (rev.toSEv ct seg)).offset + (steppedSeg r k (rev.toSEv ct seg)).size ≤ ct.length ∧
    (Wr ++ bytesOf ct (writesOf (steppedSeg r k (rev.toSEv ct seg)).out)) ++
      (ct.drop (steppedSeg r k (rev.toSEv ct seg)).offset).take (steppedSeg r k (rev.toSEv ct seg)).size = target := by
  have hp := proj_step ct seg { r.seg with out := [] } k rev hfit
  have h0 : proj ct { r.seg with out := [] } = { offset := r.seg.offset, size := r.seg.size, out := [] } := rfl
  rw [h0] at hp
  have hri : ReaderInv ct r.seg.offset r.seg.size { offset := r.seg.offset, size := r.seg.size, out := [] } :=
    ⟨hfit, by simp⟩
  have hf := feed_inv ct seg r.seg.offset r.seg.size (deliveries [(rev, k)]) _ hri
  rw [← hp] at hf
  obtain ⟨hf1, hf2⟩ := hf
  refine ⟨hf1, ?_⟩
  have hf2' : bytesOf ct (writesOf (steppedSeg r k (rev.toSEv ct seg)).out) ++
      (ct.drop (steppedSeg r k (rev.toSEv ct seg)).offset).take (steppedSeg r k (rev.toSEv ct seg)).size
      = (ct.drop r.seg.offset).take r.seg.size := hf2
  rw [List.append_assoc, hf2', hinv]

theorem setRead_rids' (rs : List RSeg) (r : RSeg) : (setRead rs r).map (·.rid) = rs.map (·.rid) := by
  unfold setRead
  induction rs with
  | nil => rfl
  | cons a l ih =>
    simp only [List.map_cons, List.map_map] at ih ⊢
    by_cases h : a.rid = r.rid
    · simp [h, ih]
    · simp [h, ih]

theorem mem_setRead' {rs : List RSeg} {r x : RSeg} (h : x ∈ setRead rs r) :
    x = r ∨ (x ∈ rs ∧ x.rid ≠ r.rid) := by
  unfold setRead at h
  simp only [List.mem_map] at h
  obtain ⟨z, hz, rfl⟩ := h
  by_cases hh : z.rid = r.rid
  · left; simp [hh]
  · right; simp only [hh, if_false]; exact ⟨hz, hh⟩

/-- the invariant is preserved by every event of the composed system -/
theorem inv_step (ct : Bytes) (seg : Nat) (y : Tahoe.Fetch.Sys) (W : Received) (e : Tahoe.Fetch.SysEv)
    (hinv : Inv ct seg y W) (hok : EvOk ct y e) : Inv ct seg (Tahoe.Fetch.sysStep y e) (observe ct y e W) := by
  cases hst : stepped y e with
  | none =>
    obtain ⟨hr, hf, hs⟩ := sysStep_none y e hst
    have hW : observe ct y e W = W := by simp [observe, hst]
    rw [hW]
    exact ⟨hf.trans hinv.fs, hs.trans hinv.ss, by rw [hr]; exact hinv.nodup, by rw [hr]; exact hinv.good,
      by rw [hr]; exact hinv.fresh⟩
  | some t =>
    obtain ⟨r, k, ev⟩ := t
    obtain ⟨hf, hs, req', base, hreads, hbase⟩ := sysStep_some y e r k ev hst
    obtain ⟨rev, hrev⟩ := ev_is_rev ct seg y e r k ev hinv.fs hinv.ss hst
    subst hrev
    have hW : observe ct y e W = fun x => if x = r.rid then W x ++ bytesOf ct (writesOf (steppedSeg r k (rev.toSEv ct seg)).out) else W x := by
      simp [observe, hst]
    rw [hW]
    -- facts about the stepped read before the step, and about the base list
    have hpre : r.seg.offset + r.seg.size ≤ ct.length ∧ W r.rid ++ (ct.drop r.seg.offset).take r.seg.size = (ct.drop r.off0).take r.size0 ∧
        (base.map (·.rid)).Nodup ∧ (∀ x ∈ base, x.rid ≠ r.rid → x ∈ y.reads) ∧
        (∀ rid, rid ∉ base.map (·.rid) → rid ∉ y.reads.map (·.rid)) ∧ (∃ z ∈ base, z.rid = r.rid) := by
      rcases hbase with ⟨hb, hmem⟩ | ⟨off, size, he, hb, _, ho, hsz, ho0, hs0⟩
      · subst hb
        exact ⟨(hinv.good r hmem).1, (hinv.good r hmem).2, hinv.nodup, fun x hx _ => hx, fun _ h => h, r, hmem, rfl⟩
      · subst he hb
        obtain ⟨hfresh, hfit⟩ := hok
        have hW0 := hinv.fresh r.rid hfresh
        refine ⟨by rw [ho, hsz]; exact hfit, by rw [hW0, ho, hsz, ho0, hs0]; simp, ?_, ?_, ?_, r, by simp, rfl⟩
        · rw [List.map_append, List.nodup_append]
          refine ⟨hinv.nodup, by simp, ?_⟩
          intro a ha b hb
          simp only [List.map_cons, List.map_nil, List.mem_singleton] at hb
          subst hb
          intro hab; subst hab; exact hfresh ha
        · intro x hx hne
          rcases List.mem_append.mp hx with h | h
          · exact h
          · simp only [List.mem_singleton] at h; subst h; exact absurd rfl hne
        · intro rid h hh
          apply h
          rw [List.map_append]; exact List.mem_append_left _ hh
    obtain ⟨hfit, hdata, hnd, hsub, hfr, hz⟩ := hpre
    obtain ⟨hfit', hdata'⟩ := data_step ct seg r k rev (W r.rid) _ hfit hdata
    refine ⟨hf.trans hinv.fs, hs.trans hinv.ss, by rw [hreads, setRead_rids']; exact hnd, ?_, ?_⟩
    · intro x hx
      rw [hreads] at hx
      rcases mem_setRead' hx with hxr | ⟨hxb, hne⟩
      · subst hxr
        simp only [if_true]
        exact ⟨hfit', hdata'⟩
      · have hxy := hsub x hxb hne
        simp only [hne, if_false]
        exact hinv.good x hxy
    · intro rid hrid
      rw [hreads, setRead_rids'] at hrid
      have hne : rid ≠ r.rid := by
        intro h; subst h
        obtain ⟨z, hz1, hz2⟩ := hz
        exact hrid (List.mem_map.mpr ⟨z, hz1, hz2⟩)
      simp only [hne, if_false]
      exact hinv.fresh rid (hfr rid hrid)

theorem inv_run (ct : Bytes) (seg : Nat) (es : List Tahoe.Fetch.SysEv) (y : Tahoe.Fetch.Sys) (W : Received)
    (hinv : Inv ct seg y W) (hok : HistOk ct y es) :
    Inv ct seg (observeRun ct y es W).1 (observeRun ct y es W).2 := by
  induction es generalizing y W with
  | nil => exact hinv
  | cons e rest ih => exact ih _ _ (inv_step ct seg y W e hinv hok.1) hok.2

/-- pausing, resuming or stopping a read (and the queued turn after a resume) delivers no byte to anybody -/
theorem observe_quiet (ct : Bytes) (y : Tahoe.Fetch.Sys) (W : Received) (rid : Nat) :
    observe ct y (.stop rid) W = W ∧ observe ct y (.pause rid) W = W ∧ observe ct y (.resume rid) W = W ∧
    observe ct y (.turn rid) W = W := by
  have key : ∀ (r : RSeg) (k : Bool) (rev : REv), (∀ sn p, rev ≠ .deliver sn p) →
      bytesOf ct (writesOf (steppedSeg r k (rev.toSEv ct 0)).out) = [] := by
    intro r k rev h
    have := proj_step_other ct 0 { r.seg with out := [] } k rev h
    have h2 : (proj ct (steppedSeg r k (rev.toSEv ct 0))).out = (proj ct { r.seg with out := [] }).out := by
      unfold steppedSeg; rw [this]
    exact h2
  have q : ∀ (ev : Tahoe.Fetch.SysEv) (rev : REv), (∀ sn p, rev ≠ .deliver sn p) →
      stepped y ev = (findRead y rid).map (fun r => (r, y.node.haveUEB, rev.toSEv ct 0)) → observe ct y ev W = W := by
    intro ev rev hrev hst
    unfold observe
    rw [hst]
    cases findRead y rid with
    | none => rfl
    | some r =>
      simp only [Option.map_some]
      funext x
      by_cases hx : x = r.rid
      · simp [hx, key r _ rev hrev]
      · simp [hx]
  exact ⟨q _ .stop (by intro _ _ h; cases h) rfl, q _ .pause (by intro _ _ h; cases h) rfl,
         q _ .resume (by intro _ _ h; cases h) rfl, q _ .turn (by intro _ _ h; cases h) rfl⟩

theorem inv_init (ct : Bytes) (y0 : Tahoe.Fetch.Sys) (hreads : y0.reads = []) (hfs : y0.filesize = ct.length) :
    Inv ct y0.segsize y0 (fun _ => []) :=
  ⟨hfs, rfl, by rw [hreads]; exact List.nodup_nil, by rw [hreads]; intro r hr; exact absurd hr (by simp), fun _ _ => rfl⟩

theorem prefix_of_append {α : Type} {a b t : List α} (h : a ++ b = t) : a = t.take a.length := by
  rw [← h, List.take_left]

instance (ct : Bytes) (y : Tahoe.Fetch.Sys) (e : Tahoe.Fetch.SysEv) : Decidable (EvOk ct y e) := by
  cases e <;> unfold EvOk <;> infer_instance

instance decHistOk (ct : Bytes) : (y : Tahoe.Fetch.Sys) → (es : List Tahoe.Fetch.SysEv) → Decidable (HistOk ct y es)
  | _, [] => isTrue trivial
  | y, e :: es =>
    match (inferInstance : Decidable (EvOk ct y e)), decHistOk ct (Tahoe.Fetch.sysStep y e) es with
    | isTrue h1, isTrue h2 => isTrue ⟨h1, h2⟩
    | isFalse h1, _ => isFalse (fun h => h1 h.1)
    | _, isFalse h2 => isFalse (fun h => h2 h.2)

/-- instances for the non-vacuity example of C04 `reads_refine`: a 10-byte file in 4-byte segments, one share;
    read 0 wants [1,7), read 1 wants [5,10) with a wrong guess (12) and is paused from outside while its
    request is queued -/
def exCt : Bytes := [0, 1, 2, 3, 4, 5, 6, 7, 8, 9]
def exShare : Tahoe.Fetch.Share := { id := 0, shnum := 0, server := 0, rtt := 1 }
def exSys : Tahoe.Fetch.Sys := { node := { k := 1, numSegs := 3 }, filesize := 10, segsize := 4, guess := 12 }
def exHist : List Tahoe.Fetch.SysEv :=
  [.startRead 0 1 6, .startRead 1 5 5, .pause 1, .node (.gotShares [exShare]), .node .uebKnown, .node (.loop 0),
   .node (.share 0 exShare .complete), .node (.loop 0), .deliver 0, .deliver 1, .resume 1, .turn 1]

end Tahoe.Immutable.SysRefine
