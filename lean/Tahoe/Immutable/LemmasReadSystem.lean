import Tahoe.Immutable.ReadSystem
import Tahoe.Immutable.LemmasReaders
/-! Helper lemmas for C04 `reads_refine_feed` / `concurrent_reads_refined`: every callback of the C03/C46
    `Segmentation` model acts on the data state exactly like the byte-level reader of C04. -/
namespace Tahoe.Immutable.ReadSystem
open Tahoe.Immutable Tahoe.Immutable.Pipeline
open Tahoe.Fetch (Seg SEv SegErr SegOut segStep writesOf segError fetchNext maybeFetchNext segFailure writesOf_append)

theorem bytesOf_append (ct : Bytes) (a b : List (Nat × Nat)) : bytesOf ct (a ++ b) = bytesOf ct a ++ bytesOf ct b := by
  induction a with
  | nil => rfl
  | cons x xs ih => obtain ⟨st, len⟩ := x; simp [bytesOf, ih]

theorem proj_of_eq (ct : Bytes) (s s' : Seg) (h1 : s'.offset = s.offset) (h2 : s'.size = s.size)
    (h3 : writesOf s'.out = writesOf s.out) : proj ct s' = proj ct s := by
  simp [proj, h1, h2, h3]

theorem proj_segError (ct : Bytes) (s : Seg) (e : SegErr) : proj ct (segError s e) = proj ct s :=
  proj_of_eq ct _ _ rfl rfl (by simp [segError, writesOf_append, writesOf])

theorem proj_mfn (ct : Bytes) (s : Seg) (k : Bool) : proj ct (maybeFetchNext s k) = proj ct s := by
  unfold maybeFetchNext
  split
  · rfl
  · split
    · rfl
    · unfold fetchNext
      split
      · exact proj_of_eq ct _ _ rfl rfl (by simp [writesOf_append, writesOf])
      · exact proj_of_eq ct _ _ rfl rfl (by simp [writesOf_append, writesOf])

theorem proj_failure (ct : Bytes) (s : Seg) (k : Bool) (e : SegErr) (armed : Bool) :
    proj ct (segFailure s k e armed) = proj ct s := by
  unfold segFailure
  split
  · split
    · exact proj_mfn ct s k
    · exact proj_segError ct s _
  · exact proj_segError ct s e

/-- callbacks other than a segment delivery write nothing and leave `(offset, size)` alone -/
theorem proj_step_other (ct : Bytes) (seg : Nat) (s : Seg) (k : Bool) (e : REv) (h : ∀ sn p, e ≠ .deliver sn p) :
    proj ct (segStep s k (e.toSEv ct seg)) = proj ct s := by
  cases e with
  | deliver sn p => exact absurd rfl (h sn p)
  | start => simp only [REv.toSEv, segStep]; rw [proj_mfn]; exact proj_of_eq ct _ _ rfl rfl rfl
  | failed e => simp only [REv.toSEv, segStep]; rw [proj_failure]; exact proj_of_eq ct _ _ rfl rfl rfl
  | pause => exact proj_of_eq ct _ _ rfl rfl rfl
  | resume => exact proj_of_eq ct _ _ rfl rfl rfl
  | turn => simp only [REv.toSEv, segStep]; rw [proj_mfn]; exact proj_of_eq ct _ _ rfl rfl rfl
  | stop =>
    simp only [REv.toSEv, segStep]
    split
    · rfl
    · split
      · exact proj_of_eq ct _ _ rfl rfl (by simp [writesOf_append, writesOf])
      · exact proj_of_eq ct _ _ rfl rfl (by simp [writesOf_append, writesOf])

theorem overlap_eq (a b c d : Nat) : Tahoe.Spans.overlap a b c d = Pipeline.overlap a b c d := rfl

/-- a genuine segment delivery acts on the data state exactly like `ReaderState.deliver` -/
theorem proj_step_deliver (ct : Bytes) (seg : Nat) (s : Seg) (k : Bool) (sn : Nat) (p : Bool)
    (hfit : s.offset + s.size ≤ ct.length) :
    proj ct (segStep s k ((REv.deliver sn p).toSEv ct seg))
      = (proj ct s).deliver (sn * seg) ((ct.drop (sn * seg)).take seg) := by
  simp only [REv.toSEv, segStep, ReaderState.deliver, gotSegment, overlap_eq]
  have hproj : (proj ct s).offset = s.offset ∧ (proj ct s).size = s.size := ⟨rfl, rfl⟩
  rw [hproj.1, hproj.2]
  cases hov : Pipeline.overlap (sn * seg) ((ct.drop (sn * seg)).take seg).length s.offset s.size with
  | none =>
    simp only
    rw [proj_failure]; exact proj_of_eq ct _ _ rfl rfl rfl
  | some o =>
    obtain ⟨o0, o1⟩ := o
    simp only
    by_cases h0 : o0 = s.offset
    · subst h0
      simp only [ne_eq, not_true_eq_false, if_false]
      -- what `_got_segment` writes is ct[offset : offset+o1]
      have hg : gotSegment (sn * seg) ((ct.drop (sn * seg)).take seg) s.offset s.size
          = some ((((ct.drop (sn * seg)).take seg).drop (s.offset - sn * seg)).take o1) := by
        unfold gotSegment
        rw [hov]
        simp
      have hsz : 0 < s.size := by
        rcases Nat.eq_zero_or_pos s.size with hz | hp
        · rw [hz, gotSegment_size_zero] at hg; cases hg
        · exact hp
      obtain ⟨hd, hpos, hle⟩ := gotSegment_sound ct (sn * seg) seg s.offset s.size _ hsz hfit hg
      -- its length is o1
      have hlen : ((((ct.drop (sn * seg)).take seg).drop (s.offset - sn * seg)).take o1).length = o1 := by
        unfold Pipeline.overlap at hov
        simp only at hov
        split at hov
        · injection hov with hov
          injection hov with h1 h2
          simp only [List.length_take, List.length_drop] at h1 h2 ⊢
          omega
        · cases hov
      rw [hlen] at hd
      have hstate : ∀ s' : Seg, s'.offset = s.offset + o1 → s'.size = s.size - o1 →
          writesOf s'.out = writesOf s.out ++ [(s.offset, o1)] →
          proj ct s' = { offset := s.offset + o1, size := s.size - o1,
                         out := (proj ct s).out ++ (((ct.drop (sn * seg)).take seg).drop (s.offset - sn * seg)).take o1 } := by
        intro s' e1 e2 e3
        simp only [proj, e1, e2, e3, bytesOf_append, bytesOf, List.append_nil]
        rw [hd]
      rw [hlen]
      cases p
      · simp only [Bool.false_eq_true, if_false]
        rw [proj_mfn]
        exact hstate _ rfl rfl (by simp [writesOf_append, writesOf])
      · simp only [if_true]
        rw [proj_mfn]
        exact hstate _ rfl rfl (by simp [writesOf_append, writesOf])
    · simp only [ne_eq, h0, not_false_eq_true, if_true]
      rw [proj_failure]; exact proj_of_eq ct _ _ rfl rfl rfl

theorem deliver_fit (ct : Bytes) (st : ReaderState) (S seg : Nat) (h : st.offset + st.size ≤ ct.length) :
    (st.deliver S ((ct.drop S).take seg)).offset + (st.deliver S ((ct.drop S).take seg)).size ≤ ct.length := by
  unfold ReaderState.deliver
  cases hg : gotSegment S ((ct.drop S).take seg) st.offset st.size with
  | none => exact h
  | some d =>
    have hsz : 0 < st.size := by
      rcases Nat.eq_zero_or_pos st.size with hz | hp
      · rw [hz, gotSegment_size_zero] at hg; cases hg
      · exact hp
    obtain ⟨_, _, hle⟩ := gotSegment_sound ct S seg st.offset st.size d hsz h hg
    simp only; omega

/-- one callback, any kind: the data state moves as under `feed` with this callback's delivery (if any) -/
theorem proj_step (ct : Bytes) (seg : Nat) (s : Seg) (k : Bool) (e : REv) (hfit : s.offset + s.size ≤ ct.length) :
    proj ct (segStep s k (e.toSEv ct seg)) = feed ct seg (proj ct s) (deliveries [(e, k)]) := by
  cases e with
  | deliver sn p => rw [proj_step_deliver ct seg s k sn p hfit]; rfl
  | start => rw [proj_step_other ct seg s k _ (by intro _ _ h; cases h)]; rfl
  | failed e => rw [proj_step_other ct seg s k _ (by intro _ _ h; cases h)]; rfl
  | stop => rw [proj_step_other ct seg s k _ (by intro _ _ h; cases h)]; rfl
  | pause => rw [proj_step_other ct seg s k _ (by intro _ _ h; cases h)]; rfl
  | resume => rw [proj_step_other ct seg s k _ (by intro _ _ h; cases h)]; rfl
  | turn => rw [proj_step_other ct seg s k _ (by intro _ _ h; cases h)]; rfl

theorem feed_append (ct : Bytes) (seg : Nat) (st : ReaderState) (a b : List Nat) :
    feed ct seg st (a ++ b) = feed ct seg (feed ct seg st a) b := by
  simp [feed, List.foldl_append]

theorem feed_fit (ct : Bytes) (seg : Nat) (sns : List Nat) (st : ReaderState) (h : st.offset + st.size ≤ ct.length) :
    (feed ct seg st sns).offset + (feed ct seg st sns).size ≤ ct.length := by
  induction sns generalizing st with
  | nil => exact h
  | cons sn rest ih => exact ih _ (deliver_fit ct st (sn * seg) seg h)

theorem deliveries_cons (e : REv) (k : Bool) (es : List (REv × Bool)) :
    deliveries ((e, k) :: es) = deliveries [(e, k)] ++ deliveries es := by
  cases e <;> simp [deliveries]

/-- a whole history of one read: its data state is `feed` of the genuine segments it was handed -/
theorem runReader_refines (ct : Bytes) (seg : Nat) (es : List (REv × Bool)) (s : Seg)
    (hfit : s.offset + s.size ≤ ct.length) :
    proj ct (runReader ct seg s es) = feed ct seg (proj ct s) (deliveries es) := by
  induction es generalizing s with
  | nil => rfl
  | cons ev rest ih =>
    obtain ⟨e, k⟩ := ev
    have hstep := proj_step ct seg s k e hfit
    have hfit' : (segStep s k (e.toSEv ct seg)).offset + (segStep s k (e.toSEv ct seg)).size ≤ ct.length := by
      have := feed_fit ct seg (deliveries [(e, k)]) (proj ct s) hfit
      rw [← hstep] at this
      exact this
    simp only [runReader]
    rw [ih _ hfit', hstep, deliveries_cons e k rest, feed_append]

theorem runReader_eq_segRun (ct : Bytes) (seg : Nat) (es : List (REv × Bool)) (s : Seg) :
    runReader ct seg s es = Tahoe.Fetch.segRun s (es.map (fun ev => (ev.1.toSEv ct seg, ev.2))) := by
  induction es generalizing s with
  | nil => rfl
  | cons ev rest ih => obtain ⟨e, k⟩ := ev; simp only [runReader, List.map_cons, Tahoe.Fetch.segRun]; exact ih _

end Tahoe.Immutable.ReadSystem
