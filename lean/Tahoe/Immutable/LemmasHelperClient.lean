import Tahoe.Immutable.HelperClient
/-! Lemmas for the client-side reader of C44: while the keystream position equals the plaintext position,
every read returns the ciphertext of the bytes it covers and keeps the two positions equal. -/
namespace Tahoe.Helper

theorem ctSlice_length (pt ks : List UInt8) (a n : Nat) : (ctSlice pt ks a n).length = n := by
  simp [ctSlice]

theorem ctSlice_add (pt ks : List UInt8) (a m n : Nat) :
    ctSlice pt ks a (m + n) = ctSlice pt ks a m ++ ctSlice pt ks (a + m) n := by
  simp only [ctSlice, List.range_add, List.map_append, List.map_map]
  congr 1
  apply List.map_congr_left
  intro i _
  simp [Function.comp, Nat.add_assoc]

theorem encPiece_sync (pt ks : List UInt8) (e : Enc) (n : Nat) (h : e.kpos = e.pos) :
    (encPiece pt ks e n).1 = ctSlice pt ks e.pos n ∧ (encPiece pt ks e n).2 = ⟨e.pos + n, e.pos + n⟩ := by
  simp [encPiece, ctSlice, h]

/-- `read_encrypted` from a synchronised state, with enough fuel and a positive chunk size: returns (when not
`hash_only`) the ciphertext of the next `min remaining (size - pos)` bytes and stays synchronised -/
theorem readEncrypted_sync (chunk : Nat) (hc : 0 < chunk) (pt ks : List UInt8) (ho : Bool) :
    ∀ (fuel : Nat) (e : Enc) (remaining : Nat), e.kpos = e.pos → remaining < fuel →
    (readEncrypted chunk pt ks ho fuel e remaining).1 =
      (if ho then [] else ctSlice pt ks e.pos (min remaining (pt.length - e.pos))) ∧
    (readEncrypted chunk pt ks ho fuel e remaining).2 =
      ⟨e.pos + min remaining (pt.length - e.pos), e.pos + min remaining (pt.length - e.pos)⟩ := by
  intro fuel
  induction fuel with
  | zero => intro e remaining _ hf; omega
  | succ k ih =>
    intro e remaining hs hf
    unfold readEncrypted
    by_cases hr : remaining = 0
    · subst hr
      cases e
      simp at hs
      cases ho <;> simp [ctSlice, hs]
    · have hr' : (remaining == 0) = false := by simpa using hr
      simp only [hr', Bool.false_eq_true, if_false]
      have hp := encPiece_sync pt ks e (min (min remaining chunk) (pt.length - e.pos)) hs
      rw [hp.1, hp.2]
      have hstep : 0 < min remaining chunk := by omega
      have := ih ⟨e.pos + min (min remaining chunk) (pt.length - e.pos), e.pos + min (min remaining chunk) (pt.length - e.pos)⟩
        (remaining - min remaining chunk) rfl (by omega)
      rw [this.1, this.2]
      simp only
      have hsum : min (min remaining chunk) (pt.length - e.pos) +
          min (remaining - min remaining chunk) (pt.length - (e.pos + min (min remaining chunk) (pt.length - e.pos)))
          = min remaining (pt.length - e.pos) := by omega
      refine ⟨?_, ?_⟩
      · cases ho
        · simp only [Bool.false_eq_true, if_false]
          rw [← hsum, ctSlice_add]
        · simp
      · rw [Nat.add_assoc, hsum]

/-- the reader is synchronised: keystream position = plaintext position = `_offset` -/
def Sync (s : Remote) : Prop := s.enc.kpos = s.enc.pos ∧ s.offset = s.enc.pos

/-- one forward `remote_read_encrypted(off, len)` inside the file from a synchronised reader -/
theorem remoteRead_sync (chunk : Nat) (hc : 0 < chunk) (pt ks : List UInt8) (s : Remote) (off len : Nat)
    (hs : Sync s) (hfw : s.offset ≤ off) (hin : off + len ≤ pt.length) :
    remoteRead chunk pt ks s off len = some (ctSlice pt ks off len, ⟨⟨off + len, off + len⟩, off + len⟩) := by
  obtain ⟨hk, ho⟩ := hs
  unfold remoteRead
  have hnb : ¬ off < s.offset := by omega
  simp only [hnb, if_false]
  have h1 := readEncrypted_sync chunk hc pt ks true (off - s.offset + 1) s.enc (off - s.offset) hk (by omega)
  have hm1 : s.enc.pos + min (off - s.offset) (pt.length - s.enc.pos) = off := by omega
  rw [hm1] at h1
  rw [h1.2]
  have h2 := readEncrypted_sync chunk hc pt ks false (len + 1) ⟨off, off⟩ len rfl (by omega)
  have hm2 : min len (pt.length - off) = len := by omega
  simp only [hm2, Bool.false_eq_true, if_false] at h2
  rw [h2.1, h2.2, ctSlice_length]

end Tahoe.Helper
