import Tahoe.Immutable.Fetch
/-! Environment predicates for C03 / C46 (definitions only): which event sequences a well-behaved
environment (ShareFinder, Share objects, foolscap's eventual-send queue) can produce. -/
namespace Tahoe.Fetch

/-- distinct share numbers of the good shares among `A` -/
def goodShnums (good : Nat → Bool) (A : List Share) : List Nat :=
  dedup ((A.filter (fun x => good x.id)).map (·.shnum))

/-- One step of the environment.  `good id` = the share answers COMPLETE when asked (intact share
on an answering server); every other share answers CORRUPT / DEAD / BADSEGNUM.  `A` = shares
announced so far.
  * the finder reports each share once, and only before `no_more_shares`;
  * OVERDUE / terminal events come only from shares whose `get_block` is outstanding (so every
    started share gets at most one terminal event), OVERDUE only while the share is active;
  * a good share answers COMPLETE (possibly after OVERDUE); only good shares answer COMPLETE;
  * a `loop` runs only if one was queued by `eventually(self.loop)`;
  * the segment number is valid and the read is not cancelled (`segKnownBad`, `stop` do not occur). -/
def EvOk (good : Nat → Bool) (A : List Share) (s : Fetcher) : Ev → Prop
  | .addShares l => s.running = true ∧ s.noMore = false ∧ l.Nodup ∧ ∀ sh ∈ l, sh ∉ A
  | .noMoreShares => s.running = true
  | .share sh st => sh ∈ s.outstanding ∧ (st = .overdue → sh ∈ s.active) ∧
      (good sh.id = true → st = .overdue ∨ st = .complete) ∧ (st = .complete → good sh.id = true)
  | .segKnownBad => False
  | .loop => 0 < s.pending
  | .stop => False

def ValidFrom (good : Nat → Bool) : List Share → Fetcher → List Ev → Prop
  | _, _, [] => True
  | A, s, e :: es => EvOk good A s e ∧ ValidFrom good (A ++ announcedOf e) (step s e) es

/-- nothing is pending any more: the fetcher has finished, or every queued loop has run, the finder
has reported all shares and said `no_more_shares`, and every started share has sent its terminal
event -/
def Complete (s : Fetcher) : Prop :=
  s.running = false ∨ (s.pending = 0 ∧ s.noMore = true ∧ s.outstanding = [])

/-- `Fair good k es`: `es` is a complete run of a well-behaved environment against a fresh fetcher
for a `k`-of-N file -/
def Fair (good : Nat → Bool) (k : Nat) (es : List Ev) : Prop :=
  ValidFrom good [] (init k) es ∧ Complete (run (init k) es)

/-! ### node level -/

/-- request ids submitted / cancelled by an event list -/
def submitted : List NEv → List Nat
  | [] => []
  | .getSegment _ r :: es => r :: submitted es
  | _ :: es => submitted es

def cancelled : List NEv → List Nat
  | [] => []
  | .cancel r :: es => r :: cancelled es
  | _ :: es => cancelled es

/-- what the environment of a node may not do: OVERDUE from a share that is not outstanding in the
fetcher it belongs to (everything else — any order of requests, cancels, announcements, answers,
stale events of finished fetchers, spurious loops — is allowed) -/
def NEvOk (n : Node) : NEv → Prop
  | .share g sh .overdue => ∀ a, n.active = some a → a.gen = g → a.f.running = true → sh ∈ a.f.outstanding
  | _ => True

def NValidFrom : Node → List NEv → Prop
  | _, [] => True
  | n, e :: es => NEvOk n e ∧ NValidFrom (nstep n e) es

/-- the node is quiescent: there is no active fetcher, or `_active_segment` is a stopped fetcher
(possible only in the unfixed code), or the active fetcher has nothing pending (no queued loop, told
`no_more_shares`, no outstanding block request) -/
def NQuiescent (n : Node) : Prop :=
  match n.active with
  | none => True
  | some a => a.f.running = false ∨ (a.f.pending = 0 ∧ a.f.noMore = true ∧ a.f.outstanding = [])

/-- a fresh node (code with the fix) / a fresh node of the unchanged tree -/
def initNode (k numSegs : Nat) (badSegs : List Nat) : Node := { k := k, numSegs := numSegs, badSegs := badSegs }

def unfixedNode (k numSegs : Nat) (badSegs : List Nat) : Node :=
  { fixed := false, k := k, numSegs := numSegs, badSegs := badSegs }

end Tahoe.Fetch
