import Tahoe.Immutable.Layout
import Tahoe.Immutable.LemmasSizes
/-! Helper lemmas for C01 `offsets_wellformed`: big-endian round trip, field extraction from a packed
    struct, contiguity of the write sequence. -/
namespace Tahoe.Immutable.Layout
open Tahoe.Immutable Tahoe.Immutable.Sizes

@[simp] theorem length_beBytes (w n : Nat) : (beBytes w n).length = w := by
  induction w generalizing n with
  | zero => rfl
  | succ w ih => simp [beBytes, ih]

theorem beVal_append_single (b : Bytes) (x : UInt8) : beVal (b ++ [x]) = beVal b * 256 + x.toNat := by
  simp [beVal, List.foldl_append]

theorem beVal_beBytes {w n : Nat} (h : n < 256 ^ w) : beVal (beBytes w n) = n := by
  induction w generalizing n with
  | zero => simp [beBytes, beVal] at *; omega
  | succ w ih =>
    have h' : n / 256 < 256 ^ w := by
      rw [Nat.pow_succ] at h
      exact Nat.div_lt_of_lt_mul (by rw [Nat.mul_comm]; exact h)
    rw [beBytes, beVal_append_single, ih h']
    have : (UInt8.ofNat (n % 256)).toNat = n % 256 := by
      simp only [UInt8.toNat_ofNat']
      omega
    rw [this]; omega

def fieldsLen (fs : List (Nat × Nat)) : Nat := (fs.map (·.1)).sum

@[simp] theorem length_encodeFields (fs : List (Nat × Nat)) : (encodeFields fs).length = fieldsLen fs := by
  induction fs with
  | nil => rfl
  | cons f fs ih =>
    simp only [encodeFields, List.flatMap_cons, List.length_append, length_beBytes, fieldsLen,
      List.map_cons, List.sum_cons] at *
    rw [ih]

theorem encodeFields_append (a b : List (Nat × Nat)) : encodeFields (a ++ b) = encodeFields a ++ encodeFields b := by
  simp [encodeFields]

/-- unpacking the field that was packed at its position returns the packed value -/
theorem fieldAt_encodeFields (pre : List (Nat × Nat)) (w v : Nat) (post : List (Nat × Nat)) (rest : Bytes)
    (h : v < 256 ^ w) :
    fieldAt (encodeFields (pre ++ (w, v) :: post) ++ rest) (fieldsLen pre) w = v := by
  unfold fieldAt
  rw [encodeFields_append, List.append_assoc]
  have hl : (encodeFields pre).length = fieldsLen pre := length_encodeFields pre
  rw [← hl, List.drop_left]
  have : encodeFields ((w, v) :: post) = beBytes w v ++ encodeFields post := by
    simp [encodeFields]
  rw [this, List.append_assoc]
  have hw : (beBytes w v).length = w := length_beBytes w v
  conv => lhs; arg 1; arg 1; rw [← hw]
  rw [List.take_left, beVal_beBytes h]

theorem contiguousFrom_append (t : Nat) (a b : List (Nat × Nat)) :
    contiguousFrom t (a ++ b) = (contiguousFrom t a).bind (fun t' => contiguousFrom t' b) := by
  induction a generalizing t with
  | nil => rfl
  | cons x a ih =>
    obtain ⟨off, len⟩ := x
    simp only [List.cons_append, contiguousFrom]
    split
    · exact ih _
    · rfl

/-- blocks `from … from+cnt-1`, each of length `bs`, written back to back starting at `d + from*bs` -/
theorem contiguous_blocks (d bs : Nat) (cnt from_ : Nat) :
    contiguousFrom (d + from_ * bs) ((List.range' from_ cnt).map (fun i => (d + i * bs, bs)))
      = some (d + (from_ + cnt) * bs) := by
  induction cnt generalizing from_ with
  | zero => simp [contiguousFrom]
  | succ cnt ih =>
    simp only [List.range'_succ, List.map_cons, contiguousFrom, if_true]
    have : d + from_ * bs + bs = d + (from_ + 1) * bs := by rw [Nat.add_mul]; omega
    rw [this, ih (from_ + 1)]
    have : from_ + 1 + cnt = from_ + (cnt + 1) := by omega
    rw [this]

end Tahoe.Immutable.Layout

namespace Tahoe.Immutable.Layout
open Tahoe.Immutable Tahoe.Immutable.Sizes

/-- the nine-field header: every field is recovered at its offset -/
theorem nine_fields (w a0 a1 a2 a3 a4 a5 a6 a7 a8 : Nat) (rest : Bytes)
    (h0 : a0 < 256 ^ 4) (h3 : a3 < 256 ^ w) (h4 : a4 < 256 ^ w) (h5 : a5 < 256 ^ w)
    (h6 : a6 < 256 ^ w) (h7 : a7 < 256 ^ w) (h8 : a8 < 256 ^ w) :
    let data := encodeFields [(4, a0), (w, a1), (w, a2), (w, a3), (w, a4), (w, a5), (w, a6), (w, a7), (w, a8)] ++ rest
    fieldAt data 0 4 = a0 ∧
    fieldAt data (4 + 2 * w) w = a3 ∧ fieldAt data (4 + 2 * w + w) w = a4 ∧
    fieldAt data (4 + 2 * w + 2 * w) w = a5 ∧ fieldAt data (4 + 2 * w + 3 * w) w = a6 ∧
    fieldAt data (4 + 2 * w + 4 * w) w = a7 ∧ fieldAt data (4 + 2 * w + 5 * w) w = a8 := by
  intro data
  have e0 := fieldAt_encodeFields [] 4 a0 [(w, a1), (w, a2), (w, a3), (w, a4), (w, a5), (w, a6), (w, a7), (w, a8)] rest h0
  have e3 := fieldAt_encodeFields [(4, a0), (w, a1), (w, a2)] w a3 [(w, a4), (w, a5), (w, a6), (w, a7), (w, a8)] rest h3
  have e4 := fieldAt_encodeFields [(4, a0), (w, a1), (w, a2), (w, a3)] w a4 [(w, a5), (w, a6), (w, a7), (w, a8)] rest h4
  have e5 := fieldAt_encodeFields [(4, a0), (w, a1), (w, a2), (w, a3), (w, a4)] w a5 [(w, a6), (w, a7), (w, a8)] rest h5
  have e6 := fieldAt_encodeFields [(4, a0), (w, a1), (w, a2), (w, a3), (w, a4), (w, a5)] w a6 [(w, a7), (w, a8)] rest h6
  have e7 := fieldAt_encodeFields [(4, a0), (w, a1), (w, a2), (w, a3), (w, a4), (w, a5), (w, a6)] w a7 [(w, a8)] rest h7
  have e8 := fieldAt_encodeFields [(4, a0), (w, a1), (w, a2), (w, a3), (w, a4), (w, a5), (w, a6), (w, a7)] w a8 [] rest h8
  simp only [fieldsLen, List.map_cons, List.map_nil, List.sum_cons, List.sum_nil, List.nil_append,
    List.cons_append, Nat.add_zero] at e0 e3 e4 e5 e6 e7 e8
  refine ⟨e0, ?_, ?_, ?_, ?_, ?_, ?_⟩
  · rw [← e3]; congr 1; omega
  · rw [← e4]; congr 1; omega
  · rw [← e5]; congr 1; omega
  · rw [← e6]; congr 1; omega
  · rw [← e7]; congr 1; omega
  · rw [← e8]; congr 1; omega

theorem limit_le_pow (v : Ver) : v.limit ≤ 256 ^ v.fieldSize := by
  cases v <;> decide

theorem num_lt (v : Ver) : v.num < 256 ^ 4 := by cases v <;> decide

theorem headerLen (v : Ver) (p : Params) (o : Offsets) :
    (encodeFields (headerFields v p o)).length = v.dataStart := by
  rw [length_encodeFields]
  cases v <;> rfl

theorem createOffsets_ok {v : Ver} {p : Params} {o : Offsets} {hdr : Bytes}
    (h : createOffsets v p = .ok (o, hdr)) :
    o = offsetsOf v p ∧ hdr = encodeFields (headerFields v p o) ∧
    p.blockSize < v.limit ∧ p.dataSize < v.limit ∧ o.uriExtension < v.limit := by
  unfold createOffsets at h
  split at h
  · cases h
  · rename_i h1
    dsimp only at h
    split at h
    · cases h
    · rename_i h2
      injection h with h
      injection h with ho hh
      subst ho
      refine ⟨rfl, hh.symm, ?_, ?_, ?_⟩ <;> omega

/-- what the reader parses from a share that starts with the writer's header is the writer's table -/
theorem parse_written {v : Ver} {p : Params} {o : Offsets} {hdr : Bytes}
    (h : createOffsets v p = .ok (o, hdr)) (rest : Bytes) :
    parseOffsets (hdr ++ rest) = .ok (v, o) := by
  obtain ⟨ho, hh, _, _, hu⟩ := createOffsets_ok h
  have hlim := limit_le_pow v
  have hmono : o.data ≤ o.plaintextHashTree ∧ o.plaintextHashTree ≤ o.crypttextHashTree ∧
      o.crypttextHashTree ≤ o.blockHashes ∧ o.blockHashes ≤ o.shareHashes ∧ o.shareHashes ≤ o.uriExtension := by
    subst ho; simp only [offsetsOf]; omega
  have hf := nine_fields v.fieldSize v.num p.blockSize p.dataSize o.data o.plaintextHashTree
    o.crypttextHashTree o.blockHashes o.shareHashes o.uriExtension rest (num_lt v)
    (by omega) (by omega) (by omega) (by omega) (by omega) (by omega)
  have hlen : (hdr ++ rest).length ≥ v.dataStart := by
    rw [hh, List.length_append, headerLen]; omega
  have hds : 4 ≤ v.dataStart := by cases v <;> decide
  subst hh
  simp only at hf
  obtain ⟨f0, f3, f4, f5, f6, f7, f8⟩ := hf
  have hlen4 : ¬ (encodeFields (headerFields v p o) ++ rest).length < 4 := by omega
  have hlenD : ¬ (encodeFields (headerFields v p o) ++ rest).length < v.dataStart := by omega
  simp only [headerFields] at *
  generalize encodeFields _ ++ rest = data at *
  clear h hlen
  unfold parseOffsets
  cases v
  · have hn : Ver.num .v1 = 1 := rfl
    rw [hn] at f0
    simp only [if_neg hlen4, f0, if_true, if_neg hlenD, Ver.tableStart, f3, f4, f5, f6, f7, f8]
  · have hn : Ver.num .v2 = 2 := rfl
    rw [hn] at f0
    have h21 : ¬ (2 = 1) := by decide
    simp only [if_neg hlen4, f0, if_neg h21, if_true, if_neg hlenD, Ver.tableStart, f3, f4, f5, f6, f7, f8]

/-- the `put_*` calls of one share are back to back (every `_queue_write` assertion holds) and end
    exactly at `get_allocated_size()` -/
theorem write_contiguous {v : Ver} {p : Params} {o : Offsets} {hdr : Bytes}
    (h : createOffsets v p = .ok (o, hdr)) (hn : 0 < p.numSegments)
    (hd : p.blockSize * (p.numSegments - 1) ≤ p.dataSize) :
    contiguousFrom 0 (writeSequence v p o hdr) = some (allocatedSize v p o) := by
  obtain ⟨ho, hh, _, _, _⟩ := createOffsets_ok h
  have hl : hdr.length = v.dataStart := by rw [hh, headerLen]
  have hdata : o.data = v.dataStart := by subst ho; rfl
  unfold writeSequence
  simp only
  rw [contiguousFrom_append, contiguousFrom_append]
  simp only [contiguousFrom, if_true, Nat.zero_add, Option.bind_some, Option.bind_eq_bind]
  -- split the blocks into the first numSegments-1 full blocks and the tail block
  obtain ⟨m, hm⟩ : ∃ m, p.numSegments = m + 1 := ⟨p.numSegments - 1, by omega⟩
  rw [hm, List.range_succ, List.map_append, contiguousFrom_append]
  have hfull : (List.range m).map (fun i => (putBlockOffset p o i, putBlockLen p i))
      = (List.range' 0 m).map (fun i => (o.data + i * p.blockSize, p.blockSize)) := by
    rw [← List.range_eq_range']
    apply List.map_congr_left
    intro i hi
    rw [List.mem_range] at hi
    simp only [putBlockOffset, putBlockLen, hm, Nat.add_sub_cancel, if_pos hi]
  rw [hfull]
  have hb := contiguous_blocks o.data p.blockSize m 0
  simp only [Nat.zero_mul, Nat.add_zero, Nat.zero_add] at hb
  rw [hl, ← hdata, hb]
  simp only [Option.bind_some, List.map_cons, List.map_nil, contiguousFrom, putBlockOffset, putBlockLen,
    hm, Nat.add_sub_cancel, Nat.lt_irrefl, if_false, if_true]
  rw [hm] at hd
  simp only [Nat.add_sub_cancel] at hd
  have e1 : o.data + m * p.blockSize + (p.dataSize - p.blockSize * m) = o.plaintextHashTree := by
    subst ho; simp only [offsetsOf]; rw [Nat.mul_comm m]; omega
  rw [e1]
  subst ho
  simp only [offsetsOf, allocatedSize, if_true, hm, Option.bind_some]
  simp [contiguousFrom]
  omega

end Tahoe.Immutable.Layout
