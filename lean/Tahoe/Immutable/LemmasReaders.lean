import Tahoe.Immutable.LemmasRead
/-! Helper lemmas for C04 `concurrent_reads_safe`: the per-reader invariant under arbitrary deliveries and
    the independence of readers under arbitrary schedules. -/
namespace Tahoe.Immutable.Pipeline
open Tahoe.Immutable

/-- reader invariant w.r.t. the range `[off0, off0+sz0)` of ciphertext `ct` it was started for -/
def ReaderInv (ct : Bytes) (off0 sz0 : Nat) (st : ReaderState) : Prop :=
  st.offset + st.size ≤ ct.length ∧ st.out ++ (ct.drop st.offset).take st.size = (ct.drop off0).take sz0

theorem gotSegment_size_zero (S : Nat) (segment : Bytes) (off : Nat) : gotSegment S segment off 0 = none := by
  unfold gotSegment overlap
  have : ¬ (max S off < min (S + segment.length) off) := by omega
  simp [this]

theorem deliver_inv (ct : Bytes) (seg off0 sz0 : Nat) (st : ReaderState) (h : ReaderInv ct off0 sz0 st) (s : Nat) :
    ReaderInv ct off0 sz0 (st.deliver (s * seg) ((ct.drop (s * seg)).take seg)) := by
  unfold ReaderState.deliver
  cases hg : gotSegment (s * seg) ((ct.drop (s * seg)).take seg) st.offset st.size with
  | none => exact h
  | some d =>
    have hsz : 0 < st.size := by
      rcases Nat.eq_zero_or_pos st.size with h0 | hp
      · rw [h0, gotSegment_size_zero] at hg; cases hg
      · exact hp
    obtain ⟨hd, hpos, hle⟩ := gotSegment_sound ct (s * seg) seg st.offset st.size d hsz h.1 hg
    have h1 := h.1
    refine ⟨by simp only; omega, ?_⟩
    simp only
    rw [List.append_assoc, ← h.2]
    congr 1
    conv => lhs; arg 1; rw [hd]
    rw [← List.drop_drop]
    have : st.size = d.length + (st.size - d.length) := by omega
    conv => rhs; rw [this, List.take_add]

theorem feed_inv (ct : Bytes) (seg off0 sz0 : Nat) (segnums : List Nat) (st : ReaderState)
    (h : ReaderInv ct off0 sz0 st) : ReaderInv ct off0 sz0 (feed ct seg st segnums) := by
  induction segnums generalizing st with
  | nil => exact h
  | cons s rest ih => exact ih _ (deliver_inv ct seg off0 sz0 st h s)

theorem getElem?_updateAt {α : Type} (l : List α) (j : Nat) (f : α → α) (i : Nat) :
    (updateAt l j f)[i]? = if i = j then (l[i]?).map f else l[i]? := by
  induction l generalizing i j with
  | nil => simp [updateAt]
  | cons x xs ih =>
    cases j with
    | zero => cases i <;> simp [updateAt]
    | succ j =>
      cases i with
      | zero => simp [updateAt]
      | succ i => simp only [updateAt, List.getElem?_cons_succ, ih]; simp

theorem length_updateAt {α : Type} (l : List α) (j : Nat) (f : α → α) : (updateAt l j f).length = l.length := by
  induction l generalizing j with
  | nil => rfl
  | cons x xs ih => cases j <;> simp [updateAt, ih]

/-- reader `i`'s state after any schedule is what it would be had it alone received its own deliveries -/
theorem feedAll_getElem? (ct : Bytes) (seg : Nat) (events : List (Nat × Nat)) (sts : List ReaderState) (i : Nat) :
    (feedAll ct seg sts events)[i]? =
      (sts[i]?).map (fun st => feed ct seg st ((events.filter (fun ev => ev.1 == i)).map (·.2))) := by
  induction events generalizing sts with
  | nil => simp [feedAll, feed]
  | cons ev rest ih =>
    have hstep : feedAll ct seg sts (ev :: rest)
        = feedAll ct seg (updateAt sts ev.1 (fun st => st.deliver (ev.2 * seg) ((ct.drop (ev.2 * seg)).take seg))) rest := rfl
    rw [hstep, ih, getElem?_updateAt]
    by_cases h : i = ev.1
    · subst h
      simp only [if_true, List.filter_cons, beq_self_eq_true, List.map_cons, Option.map_map]
      cases sts[ev.1]? <;> simp [feed]
    · have hne : (ev.1 == i) = false := by
        simp only [beq_eq_false_iff_ne, ne_eq]; exact fun h' => h h'.symm
      simp only [h, if_false, List.filter_cons, hne, Bool.false_eq_true, if_false]

end Tahoe.Immutable.Pipeline
