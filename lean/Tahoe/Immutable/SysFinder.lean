import Tahoe.Immutable.Segmentation
import Tahoe.Immutable.Finder
/-
The composed system with the real share finder: `SysF` = `Sys` (reads + DownloadNode + its fetchers) +
`Finder` (ShareFinder).  Routing as in node.py / finder.py:
  * `DownloadNode.want_more_shares()` (a `wantMore` call of the active fetcher) → `ShareFinder.hungry()`;
  * the finder's `eventually(share_consumer.got_shares, shares)` / `eventually(share_consumer.no_more_shares)`
    are queued (`mail`) and reach the node in a later turn (`SysFEv.mail`), which forwards them to the
    active fetcher (`NEv.gotShares` / `NEv.noMoreShares`);
  * the finder's own environment: queued loop turns, get_buckets answers / failures, overdue timers.
Shares created by `_got_response` get consecutive ids; their `_dyhb_rtt` is modelled as the server
number (the harness creates its fake shares the same way).  Mathlib-free; used by `Drv/C46.lean` (`sysf`).
-/
namespace Tahoe.Fetch
open Tahoe.Finder

structure SysF where
  sys : Sys
  finder : Finder
  mail : List NEv := []
  nextShare : Nat := 0
deriving Repr

inductive SysFEv
  | sys (e : SysEv)
  | fturn
  | fresponse (req : Nat) (shnums : List Nat)
  | ferror (req : Nat)
  | foverdue (req : Nat)
  | mail
deriving DecidableEq, Repr

def countWant : List (Nat × Out) → Nat
  | [] => 0
  | (_, .wantMore) :: r => countWant r + 1
  | _ :: r => countWant r

def hungryTimes (f : Finder) : Nat → Finder
  | 0 => f
  | n + 1 => hungryTimes (Finder.step f .hungry) n

/-- a `Sys` step, then every `want_more_shares()` it made becomes a `hungry()` -/
def sysPart (z : SysF) (e : SysEv) : SysF :=
  let y' := sysStep { z.sys with node := { z.sys.node with log := [] } } e
  { z with sys := y', finder := hungryTimes z.finder (countWant y'.node.log) }

def mkShares (srv first : Nat) : List Nat → List Share
  | [] => []
  | n :: r => { id := first, shnum := n, server := srv, rtt := srv } :: mkShares srv (first + 1) r

/-- queue what the finder handed to `eventually` for the node -/
def postOuts (z : SysF) : List FOut → SysF
  | [] => z
  | .gotShares srv shnums :: r =>
    postOuts { z with mail := z.mail ++ [.gotShares (mkShares srv z.nextShare shnums)],
                      nextShare := z.nextShare + shnums.length } r
  | .noMoreShares :: r => postOuts { z with mail := z.mail ++ [.noMoreShares] } r
  | _ :: r => postOuts z r

def finderPart (z : SysF) (fe : FEv) : SysF :=
  let f' := Finder.step { z.finder with out := [] } fe
  postOuts { z with finder := f' } f'.out

def sysfStep (z : SysF) : SysFEv → SysF
  | .sys e => sysPart z e
  | .fturn => finderPart z .turn
  | .fresponse q l => finderPart z (.response q l)
  | .ferror q => finderPart z (.error q)
  | .foverdue q => finderPart z (.overdue q)
  | .mail =>
    match z.mail with
    | [] => z
    | m :: rest => sysPart { z with mail := rest } (.node m)

def sysfRun (z : SysF) : List SysFEv → SysF
  | [] => z
  | e :: es => sysfRun (sysfStep z e) es

end Tahoe.Fetch
