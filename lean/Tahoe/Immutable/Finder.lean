/-
Model of `allmydata/immutable/downloader/finder.py` class `ShareFinder` as an event system.
Mathlib-free, executable; used by `Drv/C03.lean` (`finder` lines).

Events (`FEv`), one per entry point / callback:
  * `hungry`              = `hungry()` (called through `DownloadNode.want_more_shares`)
  * `turn`                = one queued `eventually(self.loop)` runs
  * `response req shnums` = the `get_buckets` Deferred of request `req` fires with buckets for `shnums`
                            (`_request_retired`, `_got_response`, then `eventually(self.loop)`)
  * `error req`           = it errbacks (`_request_retired`, `_got_error`, then `eventually(self.loop)`)
  * `overdue req`         = the `OVERDUE_TIMEOUT` timer of `req` fires (`overdue(req)`)
  * `stop`                = `stop()`
Transcribed: `loop()` returns when not running / not hungry / `len(pending - overdue) >= max`; otherwise
takes the next server (`self._servers` is an iterator, set to `None` on `StopIteration`), sends a
request and queues another `loop`; with no server left it returns while requests are pending and
otherwise queues `share_consumer.no_more_shares()`.  `_got_response` with buckets clears `_hungry` and
queues `got_shares`.  Deviations: servers are numbers, a request is numbered by the order of
`send_request`; Share creation, logging and status events are not modelled; `told` is a ghost flag
("`no_more_shares` was queued since the last `hungry()`"), never read by the transitions.
-/
namespace Tahoe.Finder

inductive FOut
  | send (server req : Nat)                   -- `send_request(server)`: get_buckets on that server
  | gotShares (server : Nat) (shnums : List Nat)   -- `eventually(share_consumer.got_shares, shares)`
  | noMoreShares                              -- `eventually(share_consumer.no_more_shares)`
  | exc                                       -- `assert req in self.pending_requests` failed / KeyError
deriving DecidableEq, Repr

structure Finder where
  maxOutstanding : Nat := 10
  running : Bool := true
  hungry : Bool := false
  servers : List Nat                 -- what `self._servers` will still yield
  exhausted : Bool := false          -- `self._servers is None`
  pending : List (Nat × Nat) := []   -- `pending_requests`: (request, server)
  overdue : List Nat := []           -- `overdue_requests`
  timers : List Nat := []            -- `overdue_timers` keys
  nextReq : Nat := 0
  loops : Nat := 0                   -- queued `eventually(self.loop)`
  told : Bool := false               -- ghost
  out : List FOut := []
deriving Repr

inductive FEv
  | hungry | turn
  | response (req : Nat) (shnums : List Nat)
  | error (req : Nat)
  | overdue (req : Nat)
  | stop
deriving DecidableEq, Repr

/-- `loop()` -/
def loop (s : Finder) : Finder :=
  if !s.running then s
  else if !s.hungry then s
  else if s.maxOutstanding ≤ (s.pending.filter (fun p => !(s.overdue.contains p.1))).length then s
  else
    match s.exhausted, s.servers with
    | false, srv :: rest =>          -- `server = next(self._servers)`; `send_request(server)`; `eventually(self.loop)`
      { s with servers := rest, pending := s.pending ++ [(s.nextReq, srv)], timers := s.timers ++ [s.nextReq],
               nextReq := s.nextReq + 1, loops := s.loops + 1, out := s.out ++ [.send srv s.nextReq] }
    | _, _ =>                        -- `self._servers` is None already, or StopIteration sets it to None now
      if !s.pending.isEmpty then { s with exhausted := true }     -- "maybe one of them will make progress"
      else { s with exhausted := true, told := true, out := s.out ++ [.noMoreShares] }

/-- `_request_retired(req)` -/
def retired (s : Finder) (req : Nat) : Finder :=
  { s with pending := s.pending.filter (fun p => p.1 != req), overdue := s.overdue.filter (· != req),
           timers := s.timers.filter (· != req) }

def step (s : Finder) : FEv → Finder
  | .hungry => { s with hungry := true, told := false, loops := s.loops + 1 }
  | .turn => if s.loops = 0 then s else loop { s with loops := s.loops - 1 }     -- only queued turns run
  | .response req shnums =>
    let srv := ((s.pending.find? (fun p => p.1 == req)).map (·.2)).getD 0
    let s := retired s req
    let s := if shnums.isEmpty then s
             else { s with hungry := false, out := s.out ++ [.gotShares srv shnums] }    -- `_deliver_shares`
    { s with loops := s.loops + 1 }
  | .error req => { retired s req with loops := s.loops + 1 }
  | .overdue req =>
    let s := { s with timers := s.timers.filter (· != req) }       -- `del self.overdue_timers[req]`
    if s.pending.any (fun p => p.1 == req) then
      { s with overdue := if s.overdue.contains req then s.overdue else s.overdue ++ [req], loops := s.loops + 1 }
    else { s with out := s.out ++ [.exc] }                         -- the paranoia assert
  | .stop => { s with running := false, timers := [] }

def run (s : Finder) : List FEv → Finder
  | [] => s
  | e :: es => run (step s e) es

end Tahoe.Finder
