import Tahoe.Immutable.Pipeline
import Tahoe.Immutable.LemmasSizes
/-! Helper lemmas for C01 `upload_download` and C04 `ctr_offset` / `read_slice`. -/
namespace Tahoe.Immutable.Pipeline
open Tahoe.Immutable Tahoe.Immutable.Sizes

/-! ### keystream algebra -/

@[simp] theorem length_keystream {Key : Type} (ks : Key → Nat → Block16) (key : Key) (s l : Nat) :
    (keystream ks key s l).length = l := by simp [keystream]

theorem getElem_keystream {Key : Type} (ks : Key → Nat → Block16) (key : Key) (s l i : Nat)
    (h : i < (keystream ks key s l).length) : (keystream ks key s l)[i] = ksByte ks key (s + i) := by
  simp [keystream]

theorem keystream_drop {Key : Type} (ks : Key → Nat → Block16) (key : Key) (s l d : Nat) :
    (keystream ks key s l).drop d = keystream ks key (s + d) (l - d) := by
  apply List.ext_getElem
  · simp
  · intro i h1 h2
    simp only [List.getElem_drop, getElem_keystream]
    congr 1; omega

theorem keystream_take {Key : Type} (ks : Key → Nat → Block16) (key : Key) (s l t : Nat) :
    (keystream ks key s l).take t = keystream ks key s (min t l) := by
  apply List.ext_getElem
  · simp
  · intro i h1 h2
    simp only [List.getElem_take, getElem_keystream]

@[simp] theorem length_xorBytes (a b : Bytes) : (xorBytes a b).length = min a.length b.length := by
  simp [xorBytes]

/-- xor with the same keystream (started at the same position) twice is the identity -/
theorem xor_keystream_cancel {Key : Type} (ks : Key → Nat → Block16) (key : Key) (P : Bytes) (s l1 l2 : Nat)
    (h1 : P.length ≤ l1) (h2 : P.length ≤ l2) :
    xorBytes (xorBytes P (keystream ks key s l1)) (keystream ks key s l2) = P := by
  apply List.ext_getElem
  · simp; omega
  · intro i hi1 hi2
    simp only [xorBytes, List.getElem_zipWith, getElem_keystream]
    rw [UInt8.xor_assoc, UInt8.xor_self, UInt8.xor_zero]

theorem xorBytes_drop (a b : Bytes) (d : Nat) : (xorBytes a b).drop d = xorBytes (a.drop d) (b.drop d) := by
  simp [xorBytes, List.drop_zipWith]

theorem xorBytes_take (a b : Bytes) (t : Nat) : (xorBytes a b).take t = xorBytes (a.take t) (b.take t) := by
  simp [xorBytes, List.take_zipWith]

/-- `DecryptingConsumer` positioned at `off` uses the keystream from absolute position `off` -/
theorem decryptAt_eq {Key : Type} (ks : Key → Nat → Block16) (key : Key) (off : Nat) (ct : Bytes) :
    decryptAt ks key off ct = xorBytes ct (keystream ks key off ct.length) := by
  simp only [decryptAt, keystream_drop]
  have h1 : off / 16 * 16 + off % 16 = off := by omega
  have h2 : off % 16 + ct.length - off % 16 = ct.length := by omega
  rw [h1, h2]

/-- the slice `[off, off+n)` of the ciphertext is the plaintext slice xor the keystream from `off` -/
theorem encrypt_slice {Key : Type} (ks : Key → Nat → Block16) (key : Key) (pt : Bytes) (off n : Nat) :
    ((encrypt ks key pt).drop off).take n
      = xorBytes ((pt.drop off).take n) (keystream ks key off (min n (pt.length - off))) := by
  simp only [encrypt, xorBytes_drop, xorBytes_take, keystream_drop, keystream_take, Nat.zero_add]

theorem decrypt_slice {Key : Type} (ks : Key → Nat → Block16) (key : Key) (pt : Bytes) (off n : Nat) :
    decryptAt ks key off (((encrypt ks key pt).drop off).take n) = (pt.drop off).take n := by
  rw [decryptAt_eq, encrypt_slice]
  apply xor_keystream_cancel
  · simp
  · simp

@[simp] theorem length_encrypt {Key : Type} (ks : Key → Nat → Block16) (key : Key) (pt : Bytes) :
    (encrypt ks key pt).length = pt.length := by simp [encrypt]

/-! ### slicing a byte string into consecutive pieces -/

theorem flatten_slices (sz m : Nat) (data : Bytes) (h : data.length ≤ m * sz) :
    ((List.range m).map (fun j => (data.drop (j * sz)).take sz)).flatten = data := by
  induction m generalizing data with
  | zero => simp at h; simp [h]
  | succ m ih =>
    rw [List.range_succ_eq_map, List.map_cons, List.map_map, List.flatten_cons]
    have : ((fun j => List.take sz (List.drop (j * sz) data)) ∘ Nat.succ)
        = fun j => ((data.drop sz).drop (j * sz)).take sz := by
      funext j
      simp only [Function.comp, List.drop_drop, Nat.succ_eq_add_one]
      congr 2; rw [Nat.add_mul]; omega
    rw [this, ih (data.drop sz) (by simp; rw [Nat.add_mul] at h; omega)]
    simp

theorem chop_eq {sz k : Nat} {data : Bytes} (hsz : 0 < sz) (h : data.length = k * sz) :
    chop sz data = (List.range k).map (fun j => (data.drop (j * sz)).take sz) := by
  simp [chop, h, divCeil_mul_self k hsz]

theorem chop_length {sz k : Nat} {data : Bytes} (hsz : 0 < sz) (h : data.length = k * sz) :
    (chop sz data).length = k := by
  rw [chop_eq hsz h]; simp

theorem chop_piece_length {sz k : Nat} {data : Bytes} (hsz : 0 < sz) (h : data.length = k * sz) :
    ∀ p ∈ chop sz data, p.length = sz := by
  rw [chop_eq hsz h]
  intro p hp
  simp only [List.mem_map, List.mem_range] at hp
  obtain ⟨j, hj, rfl⟩ := hp
  simp only [List.length_take, List.length_drop, h]
  have : (j + 1) * sz ≤ k * sz := Nat.mul_le_mul_right sz hj
  rw [Nat.add_mul] at this
  omega

theorem chop_flatten {sz k : Nat} {data : Bytes} (hsz : 0 < sz) (h : data.length = k * sz) :
    (chop sz data).flatten = data := by
  rw [chop_eq hsz h]; exact flatten_slices sz k data (by omega)

/-- in a concatenation whose first `s` parts all have length `L`, the `s`-th part sits at `s*L` -/
theorem flatten_index (ls : List Bytes) (s L M : Nat) (hs : s < ls.length)
    (hL : ∀ i, i < s → (ls.getD i []).length = L) (hM : (ls.getD s []).length = M) :
    (ls.flatten.drop (s * L)).take M = ls.getD s [] := by
  induction ls generalizing s with
  | nil => simp at hs
  | cons x xs ih =>
    cases s with
    | zero =>
      simp only [List.getD_cons_zero] at hM
      simp [← hM]
    | succ s =>
      have hx : x.length = L := by simpa using hL 0 (by omega)
      simp only [List.flatten_cons, List.getD_cons_succ]
      have : (s + 1) * L = x.length + s * L := by rw [Nat.add_mul, hx]; omega
      rw [this, ← List.drop_drop, List.drop_left]
      apply ih s (by simpa using hs)
      · intro i hi
        have := hL (i + 1) (by omega)
        simpa using this
      · simpa using hM

theorem mapE_ok {α β : Type} (f : α → Except Err β) (g : α → β) (l : List α) (h : ∀ x ∈ l, f x = .ok (g x)) :
    mapE f l = .ok (l.map g) := by
  induction l with
  | nil => rfl
  | cons x xs ih =>
    simp only [mapE, h x List.mem_cons_self, ih (fun y hy => h y (List.mem_cons_of_mem _ hy)), List.map_cons]

end Tahoe.Immutable.Pipeline

namespace Tahoe.Immutable.Pipeline
open Tahoe.Immutable Tahoe.Immutable.Sizes

theorem getD_map_range {α : Type} (f : Nat → α) (i m : Nat) (h : i < m) (d : α) :
    ((List.range m).map f).getD i d = f i := by
  simp [List.getD_eq_getElem?_getD, h]

/-! ### what the encoder feeds to the codec, segment by segment -/

/-- the `k` pieces of segment `i` when `m` full segments precede the tail -/
def pcs (e : EncSizes) (m : Nat) (rest : Bytes) (i : Nat) : List Bytes :=
  if i < m then chop e.blockSize ((rest.drop (i * e.segmentSize)).take e.segmentSize)
  else chop e.tailBlockSize (rest.drop (i * e.segmentSize) ++ List.replicate (e.paddedTailSize - e.tailSize) (0 : UInt8))

section
variable {c : Codec} {k n size : Nat} {e : EncSizes}

theorem block_pos (hc : Consistent size k e) : 0 < e.blockSize := by
  have h1 := hc.block_mul; have h2 := hc.seg_pos
  rcases Nat.eq_zero_or_pos e.blockSize with h | h
  · rw [h, Nat.zero_mul] at h1; omega
  · exact h

theorem tail_block_pos (hc : Consistent size k e) : 0 < e.tailBlockSize := by
  have h1 := hc.tail_block_mul; have h2 := hc.tail_pos; have h3 := hc.tail_le_padded
  rcases Nat.eq_zero_or_pos e.tailBlockSize with h | h
  · rw [h, Nat.zero_mul] at h1; omega
  · exact h

theorem encodeSegment_full (hc : Consistent size k e) (rest : Bytes) (h : e.segmentSize ≤ rest.length) :
    encodeSegment c k n rest e.blockSize false
      = .ok (c.encode k n (chop e.blockSize (rest.take e.segmentSize)), rest.drop e.segmentSize) := by
  have hkb : k * e.blockSize = e.segmentSize := by rw [Nat.mul_comm]; exact hc.block_mul
  have hlen : (rest.take e.segmentSize).length = k * e.blockSize := by simp [hkb]; omega
  have hp := chop_piece_length (block_pos hc) hlen
  unfold encodeSegment gatherData
  simp only [hkb, Bool.not_false, Bool.true_and, Bool.false_and]
  have : ((rest.take e.segmentSize).length != e.segmentSize) = false := by simp; omega
  simp only [this, Bool.false_eq_true, if_false]
  have hany : (chop e.blockSize (rest.take e.segmentSize)).any (fun ch => ch.length != e.blockSize) = false := by
    rw [List.any_eq_false]
    intro x hx
    simp [hp x hx]
  simp [hany]

theorem encodeSegment_tail (hc : Consistent size k e) (rest : Bytes) (h : rest.length = e.tailSize) :
    ∃ r, encodeSegment c k n rest e.tailBlockSize true
      = .ok (c.encode k n (chop e.tailBlockSize (rest ++ List.replicate (e.paddedTailSize - e.tailSize) (0 : UInt8))), r) := by
  have hkb : k * e.tailBlockSize = e.paddedTailSize := by rw [Nat.mul_comm]; exact hc.tail_block_mul
  have hle := hc.tail_le_padded
  have htake : rest.take e.paddedTailSize = rest := List.take_of_length_le (by omega)
  have hlen : (rest ++ List.replicate (e.paddedTailSize - e.tailSize) (0 : UInt8)).length = k * e.tailBlockSize := by
    simp [hkb, h]; omega
  have hp := chop_piece_length (tail_block_pos hc) hlen
  have hany : (chop e.tailBlockSize (rest ++ List.replicate (e.paddedTailSize - e.tailSize) (0 : UInt8))).any
      (fun ch => ch.length != e.tailBlockSize) = false := by
    rw [List.any_eq_false]
    intro x hx
    simp [hp x hx]
  refine ⟨rest.drop e.paddedTailSize, ?_⟩
  unfold encodeSegment gatherData
  simp only [hkb, htake, Bool.not_true, Bool.false_and, Bool.false_eq_true, if_false, Bool.true_and]
  rw [h]
  by_cases hlt : e.tailSize < e.paddedTailSize
  · simp only [hlt, decide_true, if_true, hany, Bool.false_eq_true, if_false]
  · have : e.paddedTailSize - e.tailSize = 0 := by omega
    rw [this] at hany ⊢
    simp only [List.replicate_zero, List.append_nil] at hany ⊢
    simp only [hlt, decide_false, Bool.false_eq_true, if_false, hany]

theorem encodeSegments_spec (hc : Consistent size k e) (m : Nat) (rest : Bytes)
    (h : rest.length = m * e.segmentSize + e.tailSize) :
    encodeSegments c k n e m rest = .ok ((List.range (m + 1)).map (fun i => c.encode k n (pcs e m rest i))) := by
  induction m generalizing rest with
  | zero =>
    obtain ⟨r, hr⟩ := encodeSegment_tail (c := c) (n := n) hc rest (by simpa using h)
    simp [encodeSegments, hr, pcs]
  | succ m ih =>
    have hge : e.segmentSize ≤ rest.length := by rw [h, Nat.add_mul]; omega
    have hrest : (rest.drop e.segmentSize).length = m * e.segmentSize + e.tailSize := by
      simp [h, Nat.add_mul]; omega
    simp only [encodeSegments, encodeSegment_full hc rest hge, ih _ hrest]
    rw [List.range_succ_eq_map (n := m + 1), List.map_cons, List.map_map]
    congr 1
    congr 1
    · simp [pcs]
    · apply List.map_congr_left
      intro i _
      simp only [Function.comp, pcs, Nat.succ_eq_add_one, Nat.add_lt_add_iff_right, List.drop_drop]
      have : e.segmentSize + i * e.segmentSize = (i + 1) * e.segmentSize := by rw [Nat.add_mul]; omega
      rw [this]

/-- facts about the pieces of segment `i ≤ m` -/
theorem pcs_facts (hc : Consistent size k e) (m : Nat) (rest : Bytes)
    (h : rest.length = m * e.segmentSize + e.tailSize) (i : Nat) (hi : i ≤ m) :
    (pcs e m rest i).length = k ∧
    (∀ p ∈ pcs e m rest i, p.length = if i < m then e.blockSize else e.tailBlockSize) ∧
    (pcs e m rest i).flatten =
      (if i < m then (rest.drop (i * e.segmentSize)).take e.segmentSize
       else rest.drop (i * e.segmentSize) ++ List.replicate (e.paddedTailSize - e.tailSize) (0 : UInt8)) := by
  have hkb : k * e.blockSize = e.segmentSize := by rw [Nat.mul_comm]; exact hc.block_mul
  have hkt : k * e.tailBlockSize = e.paddedTailSize := by rw [Nat.mul_comm]; exact hc.tail_block_mul
  by_cases him : i < m
  · simp only [pcs, him, if_true]
    have hlen : ((rest.drop (i * e.segmentSize)).take e.segmentSize).length = k * e.blockSize := by
      simp only [List.length_take, List.length_drop, h, hkb]
      have : (i + 1) * e.segmentSize ≤ m * e.segmentSize := Nat.mul_le_mul_right _ him
      rw [Nat.add_mul] at this
      omega
    exact ⟨chop_length (block_pos hc) hlen, chop_piece_length (block_pos hc) hlen, chop_flatten (block_pos hc) hlen⟩
  · have : i = m := by omega
    subst this
    simp only [pcs, Nat.lt_irrefl, if_false]
    have hlen : (rest.drop (i * e.segmentSize) ++ List.replicate (e.paddedTailSize - e.tailSize) (0 : UInt8)).length
        = k * e.tailBlockSize := by
      simp only [List.length_append, List.length_drop, List.length_replicate, h, hkt]
      have := hc.tail_le_padded
      omega
    exact ⟨chop_length (tail_block_pos hc) hlen, chop_piece_length (tail_block_pos hc) hlen,
      chop_flatten (tail_block_pos hc) hlen⟩

end
end Tahoe.Immutable.Pipeline

namespace Tahoe.Immutable.Pipeline
open Tahoe.Immutable Tahoe.Immutable.Sizes

section
variable {c : Codec} {k n size : Nat} {e : EncSizes}

/-- the segment list produced for ciphertext `ct` -/
def segsOf (c : Codec) (k n : Nat) (e : EncSizes) (m : Nat) (ct : Bytes) : List (List Bytes) :=
  (List.range (m + 1)).map (fun i => c.encode k n (pcs e m ct i))

theorem fetchBlock_uploaded (hlaw : c.Lawful k n) (hc : Consistent size k e) (m : Nat) (hm : e.numSegments = m + 1)
    (ct : Bytes) (hct : ct.length = m * e.segmentSize + e.tailSize) (s : Nat) (hs : s ≤ m) (j : Nat) (hj : j < n) :
    fetchBlock (((List.range n).map (shareData (segsOf c k n e m ct))).getD j []) e.toDl s
      = (c.encode k n (pcs e m ct s)).getD j [] := by
  rw [getD_map_range _ _ _ hj]
  unfold fetchBlock shareData
  have hlenblk : ∀ i, i ≤ m → ((c.encode k n (pcs e m ct i)).getD j []).length
      = if i < m then e.blockSize else e.tailBlockSize := by
    intro i hi
    obtain ⟨h1, h2, _⟩ := pcs_facts hc m ct hct i hi
    have hl := hlaw.length_encode _ _ h1 h2
    have hb := hlaw.block_length _ _ h1 h2
    apply hb
    rw [List.getD_eq_getElem?_getD, List.getElem?_eq_getElem (by omega)]
    simp
  have hget : ∀ i, i ≤ m → ((segsOf c k n e m ct).map (fun blocks => blocks.getD j [])).getD i []
      = (c.encode k n (pcs e m ct i)).getD j [] := by
    intro i hi
    unfold segsOf
    rw [List.map_map, getD_map_range _ _ _ (by omega)]
    rfl
  rw [← hget s hs]
  apply flatten_index
  · simp [segsOf]; omega
  · intro i hi
    rw [hget i (by omega), hlenblk i (by omega), if_pos (by omega)]
    rfl
  · rw [hget s hs, hlenblk s hs]
    simp only [Layout.readBlockLen, EncSizes.toDl, hm, Nat.add_sub_cancel]
    by_cases h : s = m
    · simp [h]
    · have : s < m := by omega
      simp [h, this]

theorem decodeSegment_uploaded (hlaw : c.Lawful k n) (hc : Consistent size k e) (m : Nat) (hm : e.numSegments = m + 1)
    (ct : Bytes) (hct : ct.length = m * e.segmentSize + e.tailSize) (s : Nat) (hs : s ≤ m)
    (ids : List Nat) (hv : ValidIds k n ids) :
    decodeSegment c k n e.toDl e.segmentSize ((List.range n).map (shareData (segsOf c k n e m ct))) ids s
      = .ok ((ct.drop (s * e.segmentSize)).take e.segmentSize) := by
  obtain ⟨hidl, hnd, hlt⟩ := hv
  obtain ⟨h1, h2, h3⟩ := pcs_facts hc m ct hct s hs
  have hblocks : ids.map (fun i => (i, fetchBlock (((List.range n).map (shareData (segsOf c k n e m ct))).getD i []) e.toDl s))
      = ids.map (fun i => (i, (c.encode k n (pcs e m ct s)).getD i [])) := by
    apply List.map_congr_left
    intro i hi
    rw [fetchBlock_uploaded hlaw hc m hm ct hct s hs i (hlt i hi)]
  have hl := hlaw.length_encode _ _ h1 h2
  have hb := hlaw.block_length _ _ h1 h2
  have hdec := hlaw.mds _ _ ids h1 h2 hidl hnd hlt
  unfold decodeSegment
  simp only [hblocks, hdec, h3]
  have htail : (s == e.toDl.numSegments - 1) = decide (s = m) := by
    simp only [EncSizes.toDl, hm, Nat.add_sub_cancel]
    by_cases h : s = m <;> simp [h]
  simp only [htail]
  have hany : (ids.map (fun i => (i, (c.encode k n (pcs e m ct s)).getD i []))).any
      (fun b => b.2.length != if decide (s = m) = true then e.toDl.tailBlockSize else e.toDl.blockSize) = false := by
    rw [List.any_eq_false]
    intro x hx
    simp only [List.mem_map] at hx
    obtain ⟨i, hi, rfl⟩ := hx
    have : ((c.encode k n (pcs e m ct s)).getD i []).length = if s < m then e.blockSize else e.tailBlockSize := by
      apply hb
      rw [List.getD_eq_getElem?_getD, List.getElem?_eq_getElem (by have := hlt i hi; omega)]
      simp
    simp only [this, EncSizes.toDl]
    by_cases h : s = m
    · simp [h]
    · have : s < m := by omega
      simp [h, this]
  simp only [hany, Bool.false_eq_true, if_false]
  by_cases h : s = m
  · subst h
    simp only [Nat.lt_irrefl, if_false, decide_true, if_true, EncSizes.toDl]
    have hdl : (ct.drop (s * e.segmentSize)).length = e.tailSize := by simp [hct]
    have hlen : (ct.drop (s * e.segmentSize) ++ List.replicate (e.paddedTailSize - e.tailSize) (0 : UInt8)).length
        = e.paddedTailSize := by
      have := hc.tail_le_padded
      simp [hdl]; omega
    simp only [hlen, bne_self_eq_false, Bool.false_eq_true, if_false]
    congr 1
    rw [← hdl, List.take_left]
    rw [List.take_of_length_le]
    have := hc.tail_le_seg
    omega
  · have hlt' : s < m := by omega
    simp only [hlt', if_true, h, decide_false, Bool.false_eq_true, if_false]
    have hlen : ((ct.drop (s * e.segmentSize)).take e.segmentSize).length = e.segmentSize := by
      simp only [List.length_take, List.length_drop, hct]
      have : (s + 1) * e.segmentSize ≤ m * e.segmentSize := Nat.mul_le_mul_right _ hlt'
      rw [Nat.add_mul] at this
      omega
    simp [hlen]

end
end Tahoe.Immutable.Pipeline

namespace Tahoe.Immutable.Pipeline
open Tahoe.Immutable Tahoe.Immutable.Sizes

/-- the shape of a successful upload -/
theorem upload_ok {Key : Type} (ks : Key → Nat → Block16) (c : Codec) (key : Key) (pt : Bytes) (k n maxSeg : Nat)
    (hk : 0 < k) (hmax : 0 < maxSeg) (hpt : 0 < pt.length) :
    ∃ (e : EncSizes) (m : Nat),
      Consistent pt.length k e ∧ e.numSegments = m + 1 ∧
      segSize k maxSeg pt.length = .ok e.segmentSize ∧
      encoderSizes pt.length k e.segmentSize = .ok e ∧
      calculateSizes pt.length k e.segmentSize = .ok e.toDl ∧
      (encrypt ks key pt).length = m * e.segmentSize + e.tailSize ∧
      upload ks c key pt k n maxSeg = .ok
        { key := key, k := k, n := n, size := pt.length
          ueb := { size := pt.length, segmentSize := e.segmentSize, numSegments := e.numSegments,
                   neededShares := k, totalShares := n, codecSize := e.segmentSize,
                   tailCodecSize := e.paddedTailSize }
          shares := (List.range n).map (shareData (segsOf c k n e m (encrypt ks key pt))) } := by
  obtain ⟨seg, hseg, hsegpos, hsegmod, _, _⟩ := segSize_ok (maxSeg := maxSeg) hk hmax hpt
  obtain ⟨e, henc⟩ : ∃ e, encoderSizes pt.length k seg = .ok e := ⟨_, encoderSizes_ok (size := pt.length) hk hsegpos hsegmod⟩
  obtain ⟨hc, hes, _, _⟩ := consistent_of_ok hpt henc
  have hnp := hc.nseg_pos
  refine ⟨e, e.numSegments - 1, hc, by omega, by rw [hes]; exact hseg, by rw [hes]; exact henc, ?_, ?_, ?_⟩
  · rw [calculateSizes_eq_encoder, hes, henc]; rfl
  · rw [length_encrypt]; exact hc.size_split.symm
  · have hlen : (encrypt ks key pt).length = (e.numSegments - 1) * e.segmentSize + e.tailSize := by
      rw [length_encrypt]; exact hc.size_split.symm
    unfold upload
    simp only [hseg, henc, encodeSegments_spec hc _ _ hlen]
    rfl

end Tahoe.Immutable.Pipeline

namespace Tahoe.Immutable.Pipeline
open Tahoe.Immutable Tahoe.Immutable.Sizes

/-- every segment request on an uploaded file is answered with that segment's ciphertext -/
theorem getSegment_uploaded {Key : Type} (ks : Key → Nat → Block16) (c : Codec) (key : Key) (pt : Bytes)
    (k n : Nat) (e : EncSizes) (m : Nat) (hlaw : c.Lawful k n) (hc : Consistent pt.length k e)
    (hm : e.numSegments = m + 1) (hct : (encrypt ks key pt).length = m * e.segmentSize + e.tailSize)
    (pick : Nat → List Nat) (hpick : ∀ s, ValidIds k n (pick s)) (ueb : UEB) (hueb : ueb.segmentSize = e.segmentSize)
    (s : Nat) :
    getSegment c { key := key, k := k, n := n, size := pt.length, ueb := ueb,
                   shares := (List.range n).map (shareData (segsOf c k n e m (encrypt ks key pt))) }
        e.toDl pick s
      = if s ≤ m then .ok (s * e.segmentSize, ((encrypt ks key pt).drop (s * e.segmentSize)).take e.segmentSize)
        else .error .badSegment := by
  unfold getSegment
  simp only [EncSizes.toDl, hm, hueb]
  by_cases hs : s ≤ m
  · have h1 : ¬ (s ≥ m + 1) := by omega
    have hd := decodeSegment_uploaded hlaw hc m hm _ hct s hs (pick s) (hpick s)
    simp only [EncSizes.toDl, hm] at hd
    simp only [h1, if_false, hs, if_true, hd]
  · have h1 : s ≥ m + 1 := by omega
    simp only [h1, if_true, hs, if_false]

end Tahoe.Immutable.Pipeline
