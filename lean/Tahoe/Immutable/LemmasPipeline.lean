import Tahoe.Immutable.Pipeline
import Tahoe.Immutable.LemmasSizes
/-! Helper lemmas for C01 `upload_download` and C04 `ctr_offset` / `read_slice`. -/
namespace Tahoe.Immutable.Pipeline
open Tahoe.Immutable Tahoe.Immutable.Sizes

/-! ### keystream algebra -/

@[simp] theorem length_keystream {Key : Type} (ks : Key → Nat → Block16) (key : Key) (s l : Nat) :
    (keystream ks key s l).length = l := by simp [keystream]

theorem getElem_keystream {Key : Type} (ks : Key → Nat → Block16) (key : Key) (s l i : Nat)
    (h : i < (keystream ks key s l).length) : (keystream ks key s l)[i] = ksByte ks key (s + i) := by
  simp [keystream]

theorem keystream_drop {Key : Type} (ks : Key → Nat → Block16) (key : Key) (s l d : Nat) :
    (keystream ks key s l).drop d = keystream ks key (s + d) (l - d) := by
  apply List.ext_getElem
  · simp
  · intro i h1 h2
    simp only [List.getElem_drop, getElem_keystream]
    congr 1; omega

theorem keystream_take {Key : Type} (ks : Key → Nat → Block16) (key : Key) (s l t : Nat) :
    (keystream ks key s l).take t = keystream ks key s (min t l) := by
  apply List.ext_getElem
  · simp
  · intro i h1 h2
    simp only [List.getElem_take, getElem_keystream]

@[simp] theorem length_xorBytes (a b : Bytes) : (xorBytes a b).length = min a.length b.length := by
  simp [xorBytes]

/-- xor with the same keystream (started at the same position) twice is the identity -/
theorem xor_keystream_cancel {Key : Type} (ks : Key → Nat → Block16) (key : Key) (P : Bytes) (s l1 l2 : Nat)
    (h1 : P.length ≤ l1) (h2 : P.length ≤ l2) :
    xorBytes (xorBytes P (keystream ks key s l1)) (keystream ks key s l2) = P := by
  apply List.ext_getElem
  · simp; omega
  · intro i hi1 hi2
    simp only [xorBytes, List.getElem_zipWith, getElem_keystream]
    rw [UInt8.xor_assoc, UInt8.xor_self, UInt8.xor_zero]

theorem xorBytes_drop (a b : Bytes) (d : Nat) : (xorBytes a b).drop d = xorBytes (a.drop d) (b.drop d) := by
  simp [xorBytes, List.drop_zipWith]

theorem xorBytes_take (a b : Bytes) (t : Nat) : (xorBytes a b).take t = xorBytes (a.take t) (b.take t) := by
  simp [xorBytes, List.take_zipWith]

/-- `DecryptingConsumer` positioned at `off` uses the keystream from absolute position `off` -/
theorem decryptAt_eq {Key : Type} (ks : Key → Nat → Block16) (key : Key) (off : Nat) (ct : Bytes) :
    decryptAt ks key off ct = xorBytes ct (keystream ks key off ct.length) := by
  simp only [decryptAt, keystream_drop]
  have h1 : off / 16 * 16 + off % 16 = off := by omega
  have h2 : off % 16 + ct.length - off % 16 = ct.length := by omega
  rw [h1, h2]

/-- the slice `[off, off+n)` of the ciphertext is the plaintext slice xor the keystream from `off` -/
theorem encrypt_slice {Key : Type} (ks : Key → Nat → Block16) (key : Key) (pt : Bytes) (off n : Nat) :
    ((encrypt ks key pt).drop off).take n
      = xorBytes ((pt.drop off).take n) (keystream ks key off (min n (pt.length - off))) := by
  simp only [encrypt, xorBytes_drop, xorBytes_take, keystream_drop, keystream_take, Nat.zero_add]

theorem decrypt_slice {Key : Type} (ks : Key → Nat → Block16) (key : Key) (pt : Bytes) (off n : Nat) :
    decryptAt ks key off (((encrypt ks key pt).drop off).take n) = (pt.drop off).take n := by
  rw [decryptAt_eq, encrypt_slice]
  apply xor_keystream_cancel
  · simp; omega
  · simp; omega

@[simp] theorem length_encrypt {Key : Type} (ks : Key → Nat → Block16) (key : Key) (pt : Bytes) :
    (encrypt ks key pt).length = pt.length := by simp [encrypt]

/-! ### slicing a byte string into consecutive pieces -/

theorem flatten_slices (sz m : Nat) (data : Bytes) (h : data.length ≤ m * sz) :
    ((List.range m).map (fun j => (data.drop (j * sz)).take sz)).flatten = data := by
  induction m generalizing data with
  | zero => simp at h; simp [h]
  | succ m ih =>
    rw [List.range_succ_eq_map, List.map_cons, List.map_map, List.flatten_cons]
    have : ((fun j => List.take sz (List.drop (j * sz) data)) ∘ Nat.succ)
        = fun j => ((data.drop sz).drop (j * sz)).take sz := by
      funext j
      simp only [Function.comp, List.drop_drop, Nat.succ_eq_add_one]
      congr 2; rw [Nat.add_mul]; omega
    rw [this, ih (data.drop sz) (by simp; rw [Nat.add_mul] at h; omega)]
    simp

theorem chop_eq {sz k : Nat} {data : Bytes} (hsz : 0 < sz) (h : data.length = k * sz) :
    chop sz data = (List.range k).map (fun j => (data.drop (j * sz)).take sz) := by
  simp [chop, h, divCeil_mul_self k hsz]

theorem chop_length {sz k : Nat} {data : Bytes} (hsz : 0 < sz) (h : data.length = k * sz) :
    (chop sz data).length = k := by
  rw [chop_eq hsz h]; simp

theorem chop_piece_length {sz k : Nat} {data : Bytes} (hsz : 0 < sz) (h : data.length = k * sz) :
    ∀ p ∈ chop sz data, p.length = sz := by
  rw [chop_eq hsz h]
  intro p hp
  simp only [List.mem_map, List.mem_range] at hp
  obtain ⟨j, hj, rfl⟩ := hp
  simp only [List.length_take, List.length_drop, h]
  have : (j + 1) * sz ≤ k * sz := Nat.mul_le_mul_right sz hj
  rw [Nat.add_mul] at this
  omega

theorem chop_flatten {sz k : Nat} {data : Bytes} (hsz : 0 < sz) (h : data.length = k * sz) :
    (chop sz data).flatten = data := by
  rw [chop_eq hsz h]; exact flatten_slices sz k data (by omega)

/-- in a concatenation whose first `s` parts all have length `L`, the `s`-th part sits at `s*L` -/
theorem flatten_index (ls : List Bytes) (s L M : Nat) (hs : s < ls.length)
    (hL : ∀ i, i < s → (ls.getD i []).length = L) (hM : (ls.getD s []).length = M) :
    (ls.flatten.drop (s * L)).take M = ls.getD s [] := by
  induction ls generalizing s with
  | nil => simp at hs
  | cons x xs ih =>
    cases s with
    | zero =>
      simp only [List.getD_cons_zero] at hM
      simp [← hM]
    | succ s =>
      have hx : x.length = L := by simpa using hL 0 (by omega)
      simp only [List.flatten_cons, List.getD_cons_succ]
      have : (s + 1) * L = x.length + s * L := by rw [Nat.add_mul, hx]; omega
      rw [this, ← List.drop_drop, List.drop_left]
      apply ih s (by simpa using hs)
      · intro i hi
        have := hL (i + 1) (by omega)
        simpa using this
      · simpa using hM

theorem mapE_ok {α β : Type} (f : α → Except Err β) (g : α → β) (l : List α) (h : ∀ x ∈ l, f x = .ok (g x)) :
    mapE f l = .ok (l.map g) := by
  induction l with
  | nil => rfl
  | cons x xs ih =>
    simp only [mapE, h x List.mem_cons_self, ih (fun y hy => h y (List.mem_cons_of_mem _ hy)), List.map_cons]

end Tahoe.Immutable.Pipeline
