import Tahoe.Immutable.LemmasIntegrity
/-! Helper lemmas for C45: `_format_results` bookkeeping, the verifier's per-share soundness, the abstract
    storage spec used by repair. -/
namespace Tahoe.Integrity
open Tahoe.Base.Merkle

/-! ## `_format_results` -/

def addKey (ks : List Nat) (sh : Nat) : List Nat := if sh ∈ ks then ks else ks ++ [sh]

theorem addKeys_spec (l ks : List Nat) (hnd : ks.Nodup) :
    (l.foldl addKey ks).Nodup ∧ ∀ sh, sh ∈ l.foldl addKey ks ↔ sh ∈ ks ∨ sh ∈ l := by
  induction l generalizing ks with
  | nil => exact ⟨hnd, fun sh => by simp⟩
  | cons a rest ih =>
    have hnd' : (addKey ks a).Nodup := by
      unfold addKey
      split
      · exact hnd
      · rename_i hn
        rw [List.nodup_append]
        refine ⟨hnd, by simp, ?_⟩
        intro x hx y hy
        simp at hy; subst hy
        intro e; subst e; exact hn hx
    obtain ⟨h1, h2⟩ := ih (addKey ks a) hnd'
    refine ⟨h1, ?_⟩
    intro sh
    simp only [List.foldl_cons]
    rw [h2 sh]
    unfold addKey
    split
    · rename_i hm
      constructor
      · rintro (h | h)
        · exact Or.inl h
        · exact Or.inr (List.mem_cons_of_mem _ h)
      · rintro (h | h)
        · exact Or.inl h
        · cases List.mem_cons.mp h with
          | inl e => subst e; exact Or.inl hm
          | inr e => exact Or.inr e
    · simp only [List.mem_append, List.mem_singleton, List.mem_cons, List.not_mem_nil, or_false]
      constructor
      · rintro ((h | h) | h)
        · exact Or.inl h
        · exact Or.inr (Or.inl h)
        · exact Or.inr (Or.inr h)
      · rintro (h | h | h)
        · exact Or.inl (Or.inl h)
        · exact Or.inl (Or.inr h)
        · exact Or.inr h

theorem verifiedKeys_eq (rs : List ServerResult) (ks : List Nat) :
    rs.foldl (fun keys r => r.verified.foldl (fun ks sh => if sh ∈ ks then ks else ks ++ [sh]) keys) ks
      = rs.foldl (fun keys r => r.verified.foldl addKey keys) ks := rfl

theorem verifiedKeys_spec_aux (rs : List ServerResult) (ks : List Nat) (hnd : ks.Nodup) :
    (rs.foldl (fun keys r => r.verified.foldl addKey keys) ks).Nodup ∧
    ∀ sh, sh ∈ rs.foldl (fun keys r => r.verified.foldl addKey keys) ks ↔ sh ∈ ks ∨ ∃ r ∈ rs, sh ∈ r.verified := by
  induction rs generalizing ks with
  | nil => exact ⟨hnd, fun sh => by simp⟩
  | cons r rest ih =>
    obtain ⟨a1, a2⟩ := addKeys_spec r.verified ks hnd
    obtain ⟨b1, b2⟩ := ih (r.verified.foldl addKey ks) a1
    refine ⟨b1, ?_⟩
    intro sh
    simp only [List.foldl_cons]
    rw [b2 sh, a2 sh]
    constructor
    · rintro ((h | h) | ⟨r', hr', h⟩)
      · exact Or.inl h
      · exact Or.inr ⟨r, by simp, h⟩
      · exact Or.inr ⟨r', List.mem_cons_of_mem _ hr', h⟩
    · rintro (h | ⟨r', hr', h⟩)
      · exact Or.inl (Or.inl h)
      · cases List.mem_cons.mp hr' with
        | inl e => subst e; exact Or.inl (Or.inr h)
        | inr e => exact Or.inr ⟨r', e, h⟩

theorem verifiedKeys_spec (rs : List ServerResult) :
    (verifiedKeys rs).Nodup ∧ ∀ sh, sh ∈ verifiedKeys rs ↔ ∃ r ∈ rs, sh ∈ r.verified := by
  obtain ⟨h1, h2⟩ := verifiedKeys_spec_aux rs [] (by simp)
  refine ⟨h1, fun sh => ?_⟩
  have := h2 sh
  simp only [List.not_mem_nil, false_or] at this
  exact this

theorem postRepairKeys_spec (pre : List ServerResult) (ur : List (Nat × Nat)) :
    (postRepairKeys pre ur).Nodup ∧
    ∀ sh, sh ∈ postRepairKeys pre ur ↔ (∃ r ∈ pre, sh ∈ r.verified) ∨ ∃ srv, (sh, srv) ∈ ur := by
  obtain ⟨h1, h2⟩ := verifiedKeys_spec pre
  obtain ⟨a1, a2⟩ := addKeys_spec (ur.map (·.1)) (verifiedKeys pre) h1
  refine ⟨a1, fun sh => ?_⟩
  have := a2 sh
  unfold postRepairKeys
  show sh ∈ (ur.map (·.1)).foldl addKey (verifiedKeys pre) ↔ _
  rw [this, h2 sh]
  constructor
  · rintro (h | h)
    · exact Or.inl h
    · obtain ⟨e, he, rfl⟩ := List.mem_map.mp h
      exact Or.inr ⟨e.2, he⟩
  · rintro (h | ⟨srv, h⟩)
    · exact Or.inl h
    · exact Or.inr (List.mem_map.mpr ⟨(sh, srv), h, rfl⟩)

theorem corrupt_shares_listed_count (k n : Nat) (rs : List ServerResult) :
    (formatResults k n rs).countCorrupt = (corruptLocators rs).length := by
  simp [formatResults, corruptLocators, List.length_flatMap]

/-! ## storage spec -/

theorem closeWriter_lookup (st : Store) (sh : Nat) (data : Bytes) (x : Nat) (b : Bytes)
    (h : st.lookup x = some b) : (closeWriter st sh data).lookup x = some b := by
  unfold closeWriter
  split
  · exact h
  · rw [List.lookup_append, h]; rfl

theorem repairOn_keeps (st : Store) (req : List Nat) (gen : Nat → Bytes) (x : Nat) (b : Bytes)
    (h : st.lookup x = some b) : (repairOn st req gen).lookup x = some b := by
  unfold repairOn
  generalize (allocate st req).2 = ws
  induction ws generalizing st with
  | nil => exact h
  | cons w rest ih => exact ih _ (closeWriter_lookup st w (gen w) x b h)


/-! ## the verifier -/

variable {H : Type} [DecidableEq H]

/-- `t` is a partial copy of the genuine tree `T` that holds its root -/
def TreeOK (ops : HashOps H) (T t : Tree H) : Prop :=
  Genuine ops T ∧ t.length = T.length ∧ Agree t T ∧ get t 0 ≠ none

theorem vSet_ok {E : Env H} {cfg : Cfg} {pick : List Nat → Nat} {first : Nat} {t : Tree H}
    {hashes leaves : List (Nat × H)} {b : Bool} {t' : Tree H}
    (h : vSet E cfg pick first t hashes leaves b = .ok t') :
    setHashes E.ops cfg pick first t hashes leaves = (.ok, t') := by
  unfold vSet at h
  split at h
  · rename_i heq; injection h with h; subst h; exact heq
  · cases h
  · cases h
  · cases h

theorem vSet_err {E : Env H} {cfg : Cfg} {pick : List Nat → Nat} {first : Nat} {t : Tree H}
    {hashes leaves : List (Nat × H)} {b : Bool} {e : Verdict}
    (h : vSet E cfg pick first t hashes leaves b = .error e) : e ≠ .good := by
  unfold vSet at h
  split at h
  · cases h
  · injection h with h; subst h; decide
  · injection h with h; subst h; split <;> decide
  · injection h with h; subst h; decide

theorem vSet_sound {E : Env H} {cfg : Cfg} (hstrict : StrictPresence E.ops cfg) (hinj : PairInjective E.ops)
    {T t : Tree H} (hok : TreeOK E.ops T t) {pick : List Nat → Nat} {first : Nat}
    {hashes leaves : List (Nat × H)} {b : Bool} {t' : Tree H}
    (h : vSet E cfg pick first t hashes leaves b = .ok t') :
    TreeOK E.ops T t' ∧ (∀ k v, (k, v) ∈ leaves → get T (first + k) = some v) ∧
      (∀ i v, (i, v) ∈ hashes → get T i = some v) := by
  obtain ⟨hT, hlen, hag, hroot⟩ := hok
  obtain ⟨a1, a2, a3, a4, a5⟩ := setHashes_sound hstrict hinj hT hlen hag hroot (vSet_ok h)
  exact ⟨⟨hT, a2, a1, a3⟩, a4, a5⟩

/-- the per-block loop: every block the verifier accepted is the genuine block -/
theorem verifyBlocks_good {E : Env H} {cfg : Cfg} (hstrict : StrictPresence E.ops cfg) (hinj : PairInjective E.ops)
    (hcf : CollisionFree E) (pick : List Nat → Nat) (cap : Cap H) (shnum : Nat) (info : VInfo) (v : VView H)
    {shareT blockT : Tree H} (genuine : Nat → Bytes)
    (hleaf : ∀ i, i < info.numSegments →
      get blockT (firstLeafNum info.numSegments + i) = some (E.tagged .block (genuine i)))
    (fuel i : Nat) (st bt : Tree H) (hst : TreeOK E.ops shareT st) (hbt : TreeOK E.ops blockT bt)
    (hbound : i + fuel ≤ info.numSegments)
    (h : verifyBlocks E cfg pick cap shnum info v fuel i st bt = .good) :
    ∀ j, i ≤ j → j < i + fuel → v.block j = genuine j := by
  induction fuel generalizing i st bt with
  | zero => intro j h1 h2; omega
  | succ fuel ih =>
    unfold verifyBlocks at h
    simp only at h
    split at h
    · -- share hashes stage failed
      rename_i e heq
      exfalso
      split at heq
      · cases heq
      · split at heq
        · injection heq with heq; subst heq; cases h
        · exact vSet_err heq h
    · rename_i st1 heq
      have hst1 : TreeOK E.ops shareT st1 := by
        split at heq
        · injection heq with heq; subst heq; exact hst
        · split at heq
          · cases heq
          · exact (vSet_sound hstrict hinj hst heq).1
      split at h
      · rename_i e heq2
        exfalso
        split at heq2
        · cases heq2
        · split at heq2
          · injection heq2 with heq2; subst heq2; cases h
          · split at heq2
            · exact vSet_err heq2 h
            · injection heq2 with heq2; subst heq2; cases h
      · rename_i bt1 heq2
        have hbt1 : TreeOK E.ops blockT bt1 := by
          split at heq2
          · injection heq2 with heq2; subst heq2; exact hbt
          · split at heq2
            · cases heq2
            · split at heq2
              · exact (vSet_sound hstrict hinj hbt heq2).1
              · cases heq2
        split at h
        · rename_i e heq3
          exfalso
          split at heq3
          · cases heq3
          · exact vSet_err heq3 h
        · rename_i bt2 heq3
          have hbt2 : TreeOK E.ops blockT bt2 := by
            split at heq3
            · injection heq3 with heq3; subst heq3; exact hbt1
            · exact (vSet_sound hstrict hinj hbt1 heq3).1
          split at h
          · rename_i e heq4
            exact absurd h (vSet_err heq4)
          · rename_i bt3 heq4
            obtain ⟨hbt3, hl, _⟩ := vSet_sound hstrict hinj hbt2 heq4
            have hi : i < info.numSegments := by omega
            have := hl i (E.tagged .block (v.block i)) (by simp)
            rw [hleaf i hi] at this
            injection this with this
            have hblk : v.block i = genuine i := (hcf _ _ _ this).symm
            intro j h1 h2
            by_cases e : j = i
            · subst e; exact hblk
            · exact ih (i + 1) st1 bt3 hst1 hbt3 (by omega) h j (by omega) (by omega)


omit [DecidableEq H] in
theorem veup_numSegs {cap : Cap H} {u : UEB H} {info : VInfo} (h : veupValidate cap u = some (.ok info)) :
    info.numSegments = divCeil cap.size u.segmentSize := by
  unfold veupValidate at h
  split at h
  · cases h
  · simp only at h
    split at h
    · cases h
    · injection h with h; injection h with h; subst h; rfl

/-- the genuine block hash leaves of share `shnum` -/
def blockLeaves (E : Env H) (prm : Params) (encode : Nat → Bytes → Nat → Bytes) (ct : Bytes) (shnum : Nat) : List H :=
  (List.range (segments ct prm.segSize).length).map
    (fun i => E.tagged .block (encode i (ctSeg ct prm.segSize i) shnum))

omit [DecidableEq H] in
theorem segments_length (ct : Bytes) (s : Nat) : (segments ct s).length = divCeil ct.length s := by
  simp [segments]

omit [DecidableEq H] in
theorem seed_ok {ops : HashOps H} {L : List H} {n : Nat} (hn : n = L.length) :
    TreeOK ops (build ops L) (seed (newTree H n) (rootOf ops L)) := by
  refine ⟨build_genuine ops L, ?_, seed_agree (get_build_root ops L), seed_root⟩
  rw [seed_length, build_length, hn]

theorem verifyShare_good {E : Env H} {cfg : Cfg} {prm : Params} {ser : UEB H → Bytes}
    {encode : Nat → Bytes → Nat → Bytes} {ct : Bytes} {sz : Sizes} (S : Setup E cfg prm ser encode ct sz)
    (pick : List Nat → Nat) (shnum : Nat) (hsh : shnum < prm.n) (v : VView H)
    (h : verifyShare E cfg VCfg.repaired pick (upload E prm encode ser ct).cap shnum v = .good) :
    v.uebBytes = (upload E prm encode ser ct).uebBytes ∧
    (∀ i, i < divCeil ct.length prm.segSize → v.block i = (upload E prm encode ser ct).block shnum i) ∧
    (∀ sh, v.shareHashes = some sh → ∀ i hh, (i, hh) ∈ dictOf sh → get (upload E prm encode ser ct).shareT i = some hh) ∧
    (∀ i hh, (i, hh) ∈ enumFrom 0 v.blockHashes → get ((upload E prm encode ser ct).blockT shnum) i = some hh) ∧
    (∀ i hh, (i, hh) ∈ enumFrom 0 v.ctHashes → get (upload E prm encode ser ct).ctT i = some hh) := by
  unfold verifyShare at h
  split at h; · cases h
  split at h; · cases h
  split at h; · cases h
  split at h; · cases h
  split at h; · cases h
  split at h; · cases h
  rename_i hhash
  have heq : E.tagged .ueb v.uebBytes = E.tagged .ueb (ser (upload E prm encode ser ct).ueb) :=
    Classical.not_not.mp hhash
  have hb : v.uebBytes = ser (upload E prm encode ser ct).ueb := S.cf _ _ _ heq
  refine ⟨hb, ?_⟩
  have hp : E.parseUEB (ser (upload E prm encode ser ct).ueb) = some (upload E prm encode ser ct).ueb := S.ser_ok
  rw [hb, hp] at h
  simp only at h
  split at h; · cases h
  · cases h
  rename_i info hinfo
  have hns : info.numSegments = divCeil ct.length prm.segSize := veup_numSegs hinfo
  simp only [VCfg.repaired, if_true] at h
  split at h; · cases h
  split at h; · cases h
  rename_i sh hshv
  -- share hash tree
  have hshareLen : ((List.range prm.n).map (fun s => rootOf E.ops (blockLeaves E prm encode ct s))).length = prm.n := by simp
  have hst0 : TreeOK E.ops (upload E prm encode ser ct).shareT
      (seed (newTree H (upload E prm encode ser ct).cap.n) (upload E prm encode ser ct).ueb.shareRoot) := by
    refine ⟨build_genuine E.ops _, ?_, seed_agree (get_build_root E.ops _), seed_root⟩
    show (seed (newTree H prm.n) _).length = (build E.ops ((List.range prm.n).map _)).length
    rw [seed_length, build_length]; simp
  split at h
  · rename_i e he; exact absurd h (vSet_err he)
  rename_i st1 hst1eq
  obtain ⟨hst1, _, hshG⟩ := vSet_sound S.strict S.inj hst0 hst1eq
  split at h; · cases h
  split at h
  · rename_i e he
    exfalso
    split at he
    · injection he with he; subst he; cases h
    · cases he
  rename_i btS hbtS
  -- the seeded block hash tree agrees with the genuine block hash tree of this share
  have hbtS' : TreeOK E.ops ((upload E prm encode ser ct).blockT shnum) btS := by
    split at hbtS
    · cases hbtS
    · rename_i r hr
      injection hbtS with hbtS; subst hbtS
      have hleaf : get (upload E prm encode ser ct).shareT (firstLeafNum prm.n + shnum) = some r :=
        hst1.2.2.1 _ _ hr
      have hbl := build_leaf E.ops ((List.range prm.n).map (fun s => rootOf E.ops (blockLeaves E prm encode ct s)))
        shnum (by rw [hshareLen]; exact hsh)
      rw [hshareLen] at hbl
      have hr' : r = rootOf E.ops (blockLeaves E prm encode ct shnum) := by
        have e1 : get (upload E prm encode ser ct).shareT (firstLeafNum prm.n + shnum)
            = ((List.range prm.n).map (fun s => rootOf E.ops (blockLeaves E prm encode ct s)))[shnum]? := hbl
        rw [hleaf] at e1
        simp [List.getElem?_map, List.getElem?_range hsh] at e1
        exact e1
      subst hr'
      refine ⟨build_genuine E.ops _, ?_, seed_agree (get_build_root E.ops _), seed_root⟩
      show (seed (newTree H info.numSegments) _).length = (build E.ops (blockLeaves E prm encode ct shnum)).length
      rw [seed_length, build_length, hns]
      simp [blockLeaves, segments]
  split at h
  · rename_i e he; exact absurd h (vSet_err he)
  rename_i bt1 hbt1eq
  obtain ⟨hbt1, _, hbhG⟩ := vSet_sound S.strict S.inj hbtS' hbt1eq
  split at h; · cases h
  split at h
  · rename_i e he; exact absurd h (vSet_err he)
  rename_i chtOk hcteq
  have hcht0 : TreeOK E.ops (upload E prm encode ser ct).ctT
      (seed (newTree H info.numSegments) (upload E prm encode ser ct).ueb.ctRoot) :=
    seed_ok (ops := E.ops) (L := ctLeaves E prm ct) (by rw [ctLeaves_length, hns])
  obtain ⟨_, _, hctG⟩ := vSet_sound S.strict S.inj hcht0 hcteq
  refine ⟨?_, fun sh' hsh' => by rw [hshv] at hsh'; injection hsh' with e; subst e; exact hshG, hbhG, hctG⟩
  intro i hi
  have hleafB : ∀ j, j < info.numSegments →
      get ((upload E prm encode ser ct).blockT shnum) (firstLeafNum info.numSegments + j)
        = some (E.tagged .block ((upload E prm encode ser ct).block shnum j)) := by
    intro j hj
    have hlen : (blockLeaves E prm encode ct shnum).length = info.numSegments := by
      rw [hns]; simp [blockLeaves, segments]
    have := build_leaf E.ops (blockLeaves E prm encode ct shnum) j (by rw [hlen]; exact hj)
    rw [hlen] at this
    show get (build E.ops (blockLeaves E prm encode ct shnum)) _ = _
    rw [this]
    have hj' : j < (segments ct prm.segSize).length := by rw [segments_length, ← hns]; exact hj
    simp [blockLeaves, List.getElem?_map, List.getElem?_range hj']
    rfl
  exact verifyBlocks_good S.strict S.inj S.cf pick _ shnum info v _ hleafB info.numSegments 0 st1 bt1 hst1 hbt1
    (by omega) h i (by omega) (by omega)

end Tahoe.Integrity
