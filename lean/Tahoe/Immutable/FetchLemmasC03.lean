import Tahoe.Immutable.FetchLemmas
import Tahoe.Immutable.FetchEnv
/-! Invariant `Inv` behind C03 (coverage of the good shares, justification of both verdicts) and its
preservation by every event a well-behaved environment produces. -/
namespace Tahoe.Fetch

structure Inv (good : Nat → Bool) (k : Nat) (A : List Share) (s : Fetcher) : Prop where
  kEq : s.k = k
  outAO : ∀ x ∈ s.outstanding, x ∈ s.active ∨ x ∈ s.overdue
  uniq : ∀ x ∈ s.active, ∀ y ∈ s.active, x.shnum = y.shnum → x = y
  sub : ∀ x, (x ∈ s.shares ∨ x ∈ s.outstanding) → x ∈ A
  /-- every good share announced so far is unused, outstanding, or its share number has a block -/
  cover : s.running = true → ∀ x ∈ A, good x.id = true →
    x ∈ s.shares ∨ x ∈ s.outstanding ∨ x.shnum ∈ blockKeys s
  blocksGood : ∀ p ∈ s.blocks, ∃ sh ∈ A, sh.shnum = p.1 ∧ sh.id = p.2 ∧ good sh.id = true
  noBad : s.badSeg = false
  verd : s.running = false ↔ s.verdict.isSome = true
  failJust : ∀ e, s.verdict = some (.failed e) →
    e ≠ .badSegnum ∧ s.noMore = true ∧ (goodShnums good A).length < k
  succJust : ∀ bl, s.verdict = some (.blocks bl) → bl = s.blocks ∧ k ≤ distinct (blockKeys s)

theorem inv_init (good : Nat → Bool) (k : Nat) : Inv good k [] (init k) := by
  constructor <;> simp [init]

theorem mem_setBlock_keys {bl : List (Nat × Nat)} {n i m : Nat} :
    m ∈ (setBlock bl n i).map (·.1) ↔ m ∈ bl.map (·.1) ∨ m = n := by
  unfold setBlock
  split
  · rename_i h
    simp only [List.any_eq_true, beq_iff_eq] at h
    obtain ⟨p, hp, hpn⟩ := h
    simp only [List.map_map, List.mem_map, Function.comp]
    constructor
    · rintro ⟨q, hq, rfl⟩
      by_cases hqn : q.1 = n
      · simp [hqn]
      · left; exact ⟨q, hq, by simp [hqn]⟩
    · rintro (⟨q, hq, rfl⟩ | rfl)
      · refine ⟨q, hq, ?_⟩
        by_cases hqn : q.1 = n <;> simp [hqn]
      · exact ⟨p, hp, by simp [hpn]⟩
  · simp

theorem mem_setBlock {bl : List (Nat × Nat)} {n i : Nat} {p : Nat × Nat} (h : p ∈ setBlock bl n i) :
    p ∈ bl ∨ p = (n, i) := by
  unfold setBlock at h
  split at h
  · simp only [List.mem_map] at h
    obtain ⟨q, hq, rfl⟩ := h
    by_cases hqn : q.1 = n
    · right; simp [hqn]
    · left; simpa [hqn] using hq
  · simpa using h

/-- `Inv` only looks at these fields -/
theorem inv_congr {good : Nat → Bool} {k : Nat} {A : List Share} {s s' : Fetcher} (h : Inv good k A s)
    (e1 : s'.k = s.k) (e2 : s'.shares = s.shares) (e3 : s'.outstanding = s.outstanding)
    (e4 : s'.active = s.active) (e5 : s'.overdue = s.overdue) (e6 : s'.blocks = s.blocks)
    (e7 : s'.running = s.running) (e8 : s'.verdict = s.verdict) (e9 : s'.badSeg = s.badSeg)
    (e10 : s'.noMore = s.noMore) : Inv good k A s' := by
  have hb : blockKeys s' = blockKeys s := by simp [blockKeys, e6]
  constructor
  · rw [e1]; exact h.kEq
  · rw [e3, e4, e5]; exact h.outAO
  · rw [e4]; exact h.uniq
  · rw [e2, e3]; exact h.sub
  · rw [e7, e2, e3, hb]; exact h.cover
  · rw [e6]; exact h.blocksGood
  · rw [e9]; exact h.noBad
  · rw [e7, e8]; exact h.verd
  · rw [e8, e10]; exact h.failJust
  · rw [e8, e6, hb]; exact h.succJust

theorem running_verdict_none {good : Nat → Bool} {k : Nat} {A : List Share} {s : Fetcher} (h : Inv good k A s)
    (hr : s.running = true) : s.verdict = none := by
  cases hv : s.verdict with
  | none => rfl
  | some v =>
    have := h.verd.mpr (by simp [hv])
    simp [hr] at this

/-- the state after `stop` with a verdict attached -/
theorem inv_stopped {good : Nat → Bool} {k : Nat} {A : List Share} {s : Fetcher} (h : Inv good k A s)
    (hr : s.running = true) (v : Verdict)
    (hf : ∀ e, v = .failed e → e ≠ .badSegnum ∧ s.noMore = true ∧ (goodShnums good A).length < k)
    (hs : ∀ bl, v = .blocks bl → bl = s.blocks ∧ k ≤ distinct (blockKeys s)) :
    Inv good k A { stop s with verdict := some v } := by
  unfold stop
  simp only [hr, if_true]
  constructor
  · exact h.kEq
  · simp
  · simp
  · simp
  · simp
  · exact h.blocksGood
  · exact h.noBad
  · simp
  · intro e he; simp only [Option.some.injEq] at he; exact hf e he
  · intro bl he; simp only [Option.some.injEq] at he; exact hs bl he

theorem inv_whileLoop {good : Nat → Bool} {k : Nat} {A : List Share} {s : Fetcher} (h : Inv good k A s)
    (hr : s.running = true) (fuel : Nat) (hf : mu s < fuel) : Inv good k A (whileLoop fuel s) := by
  have key : ∀ fuel s, mu s < fuel → (Inv good k A s ∧ s.running = true) → Inv good k A (whileLoop fuel s) := by
    apply whileLoop_ind
    · -- use a share
      intro s sh w ⟨h, hr⟩ _ heq
      obtain ⟨hsh, hnb, hna⟩ := findShare_some heq
      have hv := running_verdict_none h hr
      refine ⟨?_, hr⟩
      constructor
      · exact h.kEq
      · intro x hx
        simp only [useShare] at hx ⊢
        rcases mem_insertSet.mp hx with hx | hx
        · rcases h.outAO x hx with h1 | h1
          · left; simp [h1]
          · right; exact h1
        · left; simp [hx]
      · intro x hx y hy hxy
        simp only [useShare, List.mem_append, List.mem_singleton] at hx hy
        rcases hx with hx | hx <;> rcases hy with hy | hy
        · exact h.uniq x hx y hy hxy
        · subst hy; exfalso; apply hna; rw [← hxy]; simp only [activeKeys, List.mem_map]; exact ⟨x, hx, rfl⟩
        · subst hx; exfalso; apply hna; rw [hxy]; simp only [activeKeys, List.mem_map]; exact ⟨y, hy, rfl⟩
        · rw [hx, hy]
      · intro x hx
        simp only [useShare] at hx
        rcases hx with hx | hx
        · exact h.sub x (Or.inl (List.mem_of_mem_erase hx))
        · rcases mem_insertSet.mp hx with hx | hx
          · exact h.sub x (Or.inr hx)
          · subst hx; exact h.sub x (Or.inl hsh)
      · intro _ x hx hg
        have hb : blockKeys (useShare s sh) = blockKeys s := rfl
        rw [hb]
        simp only [useShare]
        rcases h.cover hr x hx hg with h1 | h1 | h1
        · by_cases hxs : x = sh
          · right; left; exact mem_insertSet.mpr (Or.inr hxs)
          · left; exact (List.mem_erase_of_ne hxs).mpr h1
        · right; left; exact mem_insertSet.mpr (Or.inl h1)
        · right; right; exact h1
      · exact h.blocksGood
      · exact h.noBad
      · simp only [useShare]; exact h.verd
      · intro e he; simp only [useShare] at he; rw [hv] at he; simp at he
      · intro bl he; simp only [useShare] at he; rw [hv] at he; simp at he
    · -- diversity bump
      intro s ⟨h, hr⟩ _
      have e := askMore_eq { s with maxPerServer := s.maxPerServer + 1 }
      refine ⟨inv_congr h e.2.2.2.2.2.2.2.2.2.2.2 e.1 e.2.1 e.2.2.2.1 e.2.2.2.2.1 e.2.2.2.2.2.1
        e.2.2.2.2.2.2.2.1 e.2.2.2.2.2.2.2.2.2.2.1 e.2.2.2.2.2.2.2.2.1 e.2.2.2.2.2.2.1, ?_⟩
      rw [e.2.2.2.2.2.2.2.1]; exact hr
    · -- no shares error
      intro s ⟨h, hr⟩ _ heq hnm hshort
      unfold noSharesError
      apply inv_stopped h hr
      · intro e he
        simp only [Verdict.failed.injEq] at he
        refine ⟨?_, hnm, ?_⟩
        · rw [← he]; split <;> simp
        · have hfs := ((findShare_none heq).1 rfl).2
          have : distinct ((A.filter (fun x => good x.id)).map (·.shnum)) ≤
              distinct (blockKeys s ++ activeKeys s ++ overdueKeys s) := by
            apply distinct_le_of_subset
            intro n hn
            simp only [List.mem_map, List.mem_filter] at hn
            obtain ⟨x, ⟨hxA, hxg⟩, rfl⟩ := hn
            simp only [List.mem_append]
            rcases h.cover hr x hxA hxg with h1 | h1 | h1
            · rcases hfs x h1 with h2 | h2
              · left; left; exact h2
              · left; right; exact h2
            · rcases h.outAO x h1 with h2 | h2
              · left; right; simp only [activeKeys, List.mem_map]; exact ⟨x, h2, rfl⟩
              · right; simp only [overdueKeys, List.mem_map]; exact ⟨x, h2, rfl⟩
            · left; left; exact h1
          have hk := h.kEq
          unfold goodShnums
          unfold distinct at this hshort
          omega
      · intro bl he; simp at he
    · -- wait
      intro s ⟨h, hr⟩ _ _ _
      have e := askMore_eq s
      exact inv_congr h e.2.2.2.2.2.2.2.2.2.2.2 e.1 e.2.1 e.2.2.2.1 e.2.2.2.2.1 e.2.2.2.2.2.1
        e.2.2.2.2.2.2.2.1 e.2.2.2.2.2.2.2.2.2.2.1 e.2.2.2.2.2.2.2.2.1 e.2.2.2.2.2.2.1
    · -- deliver
      intro s ⟨h, hr⟩ _ hk
      unfold deliver
      apply inv_stopped h hr
      · intro e he; simp at he
      · intro bl he
        simp only [Verdict.blocks.injEq] at he
        refine ⟨he.symm, ?_⟩
        rw [← h.kEq]; exact hk
    · -- idle
      intro s ⟨h, _⟩ _ _
      exact h
  exact key fuel s hf ⟨h, hr⟩

theorem inv_doLoop {good : Nat → Bool} {k : Nat} {A : List Share} {s : Fetcher} (h : Inv good k A s) :
    Inv good k A (doLoop s) := by
  unfold doLoop
  split
  · exact h
  · rename_i hr
    simp only [Bool.not_eq_true, Bool.not_eq_false'] at hr
    simp only [h.noBad, Bool.false_eq_true, if_false]
    exact inv_whileLoop h hr _ (mu_lt_fuelFor s)

theorem goodShnums_mono {good : Nat → Bool} {A B : List Share} (h : ∀ x ∈ A, x ∈ B) :
    (goodShnums good A).length ≤ (goodShnums good B).length := by
  unfold goodShnums
  apply distinct_le_of_subset
  intro n hn
  simp only [List.mem_map, List.mem_filter] at hn ⊢
  obtain ⟨x, ⟨hx, hg⟩, rfl⟩ := hn
  exact ⟨x, ⟨h x hx, hg⟩, rfl⟩

theorem inv_step {good : Nat → Bool} {k : Nat} {A : List Share} {s : Fetcher} (h : Inv good k A s)
    (e : Ev) (hok : EvOk good A s e) : Inv good k (A ++ announcedOf e) (step s e) := by
  cases e with
  | segKnownBad => exact absurd hok (by simp [EvOk])
  | stop => exact absurd hok (by simp [EvOk])
  | noMoreShares =>
    simp only [announcedOf, List.append_nil, step, noMoreShares]
    have hr : s.running = true := hok
    have hv := running_verdict_none h hr
    constructor
    · exact h.kEq
    · exact h.outAO
    · exact h.uniq
    · exact h.sub
    · exact h.cover
    · exact h.blocksGood
    · exact h.noBad
    · exact h.verd
    · intro e he; simp only at he; rw [hv] at he; simp at he
    · exact h.succJust
  | loop =>
    simp only [announcedOf, List.append_nil, step]
    apply inv_doLoop
    exact inv_congr h rfl rfl rfl rfl rfl rfl rfl rfl rfl rfl
  | addShares l =>
    obtain ⟨hr, _, _, _⟩ := hok
    have hv := running_verdict_none h hr
    simp only [announcedOf, step]
    unfold addShares
    rw [if_pos hr]
    constructor
    · exact h.kEq
    · exact h.outAO
    · exact h.uniq
    · intro x hx
      simp only [mem_sortShares, List.mem_append] at hx ⊢
      rcases hx with (hx | hx) | hx
      · left; exact h.sub x (Or.inl hx)
      · right; exact hx
      · left; exact h.sub x (Or.inr hx)
    · intro _ x hx hg
      simp only [List.mem_append] at hx
      simp only [blockKeys, mem_sortShares, List.mem_append]
      rcases hx with hx | hx
      · have hc := h.cover hr x hx hg
        simp only [blockKeys] at hc
        rcases hc with h1 | h1 | h1
        · left; left; exact h1
        · right; left; exact h1
        · right; right; exact h1
      · left; right; exact hx
    · intro p hp
      obtain ⟨sh, h1, h2⟩ := h.blocksGood p hp
      exact ⟨sh, by simp [h1], h2⟩
    · exact h.noBad
    · exact h.verd
    · intro e he; simp only at he; rw [hv] at he; simp at he
    · exact h.succJust
  | share sh st =>
    obtain ⟨hout, hovd, hgood, hcomp⟩ := hok
    simp only [announcedOf, List.append_nil, step, blockActivity]
    split
    · exact h
    · rename_i hr
      simp only [Bool.not_eq_true, Bool.not_eq_false'] at hr
      have hv := running_verdict_none h hr
      cases st with
      | overdue =>
        have hact := hovd rfl
        have hin : sh.shnum ∈ activeKeys s := by
          simp only [activeKeys, List.mem_map]; exact ⟨sh, hact, rfl⟩
        simp only [isTerminal, Bool.false_eq_true, if_false, reduceCtorEq, hin, if_true]
        constructor
        · exact h.kEq
        · intro x hx
          simp only at hx ⊢
          rcases h.outAO x hx with h1 | h1
          · by_cases hxs : x.shnum = sh.shnum
            · right; exact mem_insertSet.mpr (Or.inr (h.uniq x h1 sh hact hxs))
            · left; simp [h1, hxs]
          · right; exact mem_insertSet.mpr (Or.inl h1)
        · intro x hx y hy hxy
          simp only [List.mem_filter] at hx hy
          exact h.uniq x hx.1 y hy.1 hxy
        · exact h.sub
        · exact h.cover
        · exact h.blocksGood
        · exact h.noBad
        · exact h.verd
        · intro e he; simp only at he; rw [hv] at he; simp at he
        · exact h.succJust
      | complete =>
        have hg := hcomp rfl
        simp only [isTerminal, if_true, reduceCtorEq, if_false]
        constructor
        · exact h.kEq
        · intro x hx
          simp only [List.mem_filter] at hx ⊢
          rcases h.outAO x hx.1 with h1 | h1
          · left; exact ⟨h1, hx.2⟩
          · right; exact ⟨h1, hx.2⟩
        · intro x hx y hy hxy
          simp only [List.mem_filter] at hx hy
          exact h.uniq x hx.1 y hy.1 hxy
        · intro x hx
          simp only [List.mem_filter] at hx
          rcases hx with hx | hx
          · exact h.sub x (Or.inl hx)
          · exact h.sub x (Or.inr hx.1)
        · intro _ x hx hgx
          simp only [blockKeys, mem_setBlock_keys, List.mem_filter]
          rcases h.cover hr x hx hgx with h1 | h1 | h1
          · left; exact h1
          · by_cases hxs : x = sh
            · right; right; right; rw [hxs]
            · right; left; exact ⟨h1, by simpa using hxs⟩
          · right; right; left; exact h1
        · intro p hp
          rcases mem_setBlock hp with h1 | h1
          · exact h.blocksGood p h1
          · subst h1
            exact ⟨sh, h.sub sh (Or.inr hout), rfl, rfl, hg⟩
        · exact h.noBad
        · exact h.verd
        · intro e he; simp only at he; rw [hv] at he; simp at he
        · intro bl he; simp only at he; rw [hv] at he; simp at he
      | corrupt =>
        have hng : ¬ good sh.id = true := by intro hg; rcases hgood hg with h1 | h1 <;> simp at h1
        simp only [isTerminal, if_true, reduceCtorEq, if_false]
        constructor
        · exact h.kEq
        · intro x hx
          simp only [List.mem_filter] at hx ⊢
          rcases h.outAO x hx.1 with h1 | h1
          · left; exact ⟨h1, hx.2⟩
          · right; exact ⟨h1, hx.2⟩
        · intro x hx y hy hxy
          simp only [List.mem_filter] at hx hy
          exact h.uniq x hx.1 y hy.1 hxy
        · intro x hx
          simp only [List.mem_filter] at hx
          rcases hx with hx | hx
          · exact h.sub x (Or.inl hx)
          · exact h.sub x (Or.inr hx.1)
        · intro _ x hx hgx
          simp only [List.mem_filter]
          rcases h.cover hr x hx hgx with h1 | h1 | h1
          · left; exact h1
          · right; left
            refine ⟨h1, ?_⟩
            have : x ≠ sh := by intro hxs; rw [hxs] at hgx; exact hng hgx
            simpa using this
          · right; right; exact h1
        · exact h.blocksGood
        · exact h.noBad
        · exact h.verd
        · intro e he; simp only at he; rw [hv] at he; simp at he
        · exact h.succJust
      | dead =>
        have hng : ¬ good sh.id = true := by intro hg; rcases hgood hg with h1 | h1 <;> simp at h1
        simp only [isTerminal, if_true, reduceCtorEq, if_false]
        constructor
        · exact h.kEq
        · intro x hx
          simp only [List.mem_filter] at hx ⊢
          rcases h.outAO x hx.1 with h1 | h1
          · left; exact ⟨h1, hx.2⟩
          · right; exact ⟨h1, hx.2⟩
        · intro x hx y hy hxy
          simp only [List.mem_filter] at hx hy
          exact h.uniq x hx.1 y hy.1 hxy
        · intro x hx
          simp only [List.mem_filter] at hx
          rcases hx with hx | hx
          · exact h.sub x (Or.inl hx)
          · exact h.sub x (Or.inr hx.1)
        · intro _ x hx hgx
          simp only [List.mem_filter]
          rcases h.cover hr x hx hgx with h1 | h1 | h1
          · left; exact h1
          · right; left
            refine ⟨h1, ?_⟩
            have : x ≠ sh := by intro hxs; rw [hxs] at hgx; exact hng hgx
            simpa using this
          · right; right; exact h1
        · exact h.blocksGood
        · exact h.noBad
        · exact h.verd
        · intro e he; simp only at he; rw [hv] at he; simp at he
        · exact h.succJust
      | badsegnum =>
        have hng : ¬ good sh.id = true := by intro hg; rcases hgood hg with h1 | h1 <;> simp at h1
        simp only [isTerminal, if_true, reduceCtorEq, if_false]
        constructor
        · exact h.kEq
        · intro x hx
          simp only [List.mem_filter] at hx ⊢
          rcases h.outAO x hx.1 with h1 | h1
          · left; exact ⟨h1, hx.2⟩
          · right; exact ⟨h1, hx.2⟩
        · intro x hx y hy hxy
          simp only [List.mem_filter] at hx hy
          exact h.uniq x hx.1 y hy.1 hxy
        · intro x hx
          simp only [List.mem_filter] at hx
          rcases hx with hx | hx
          · exact h.sub x (Or.inl hx)
          · exact h.sub x (Or.inr hx.1)
        · intro _ x hx hgx
          simp only [List.mem_filter]
          rcases h.cover hr x hx hgx with h1 | h1 | h1
          · left; exact h1
          · right; left
            refine ⟨h1, ?_⟩
            have : x ≠ sh := by intro hxs; rw [hxs] at hgx; exact hng hgx
            simpa using this
          · right; right; exact h1
        · exact h.blocksGood
        · exact h.noBad
        · exact h.verd
        · intro e he; simp only at he; rw [hv] at he; simp at he
        · exact h.succJust

/-- widening the announced set keeps `Inv` only when nothing is announced; used for `A ++ []` -/
theorem evOk_evOkS {good : Nat → Bool} {A : List Share} {s : Fetcher} {e : Ev} (h : EvOk good A s e) :
    EvOkS s e := by
  cases e with
  | share sh st => cases st <;> simp only [EvOkS] ; intro _; exact h.1
  | _ => simp [EvOkS]

theorem announced_append (es₁ es₂ : List Ev) : announced (es₁ ++ es₂) = announced es₁ ++ announced es₂ := by
  induction es₁ with
  | nil => simp [announced]
  | cons e es ih => simp [announced, ih]

theorem run_append (s : Fetcher) (es₁ es₂ : List Ev) : run s (es₁ ++ es₂) = run (run s es₁) es₂ := by
  induction es₁ generalizing s with
  | nil => rfl
  | cons e es ih => simp [run, ih]

theorem valid_prefix {good : Nat → Bool} : ∀ (es₁ es₂ : List Ev) (A : List Share) (s : Fetcher),
    ValidFrom good A s (es₁ ++ es₂) → ValidFrom good A s es₁ := by
  intro es₁
  induction es₁ with
  | nil => intros; trivial
  | cons e es ih =>
    intro es₂ A s h
    exact ⟨h.1, ih es₂ _ _ h.2⟩

/-- both invariants hold along every valid run -/
theorem valid_inv {good : Nat → Bool} {k : Nat} : ∀ (es : List Ev) (A : List Share) (s : Fetcher),
    Struct s → Inv good k A s → ValidFrom good A s es →
    Struct (run s es) ∧ Inv good k (A ++ announced es) (run s es) := by
  intro es
  induction es with
  | nil => intro A s hs hi _; simpa [run, announced] using ⟨hs, hi⟩
  | cons e es ih =>
    intro A s hs hi hv
    have h1 := struct_step hs e (evOk_evOkS hv.1)
    have h2 := inv_step hi e hv.1
    have := ih _ _ h1 h2 hv.2
    simpa [run, announced, List.append_assoc] using this

/-- at the end of a fair complete run the fetcher has stopped and `Inv` holds -/
theorem fair_finished {good : Nat → Bool} {k : Nat} {es : List Ev} (hfair : Fair good k es) :
    Inv good k (announced es) (run (init k) es) ∧ (run (init k) es).running = false := by
  obtain ⟨hs, hi⟩ := valid_inv es [] (init k) (struct_init k) (inv_init good k) hfair.1
  simp only [List.nil_append] at hi
  refine ⟨hi, ?_⟩
  rcases hfair.2 with h | ⟨h1, h2, h3⟩
  · exact h
  · cases hr : (run (init k) es).running with
    | false => rfl
    | true => exact absurd h3 (hs.quiet hr h1 h2)

end Tahoe.Fetch
