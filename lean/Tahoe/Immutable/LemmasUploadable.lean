import Tahoe.Immutable.Uploadable
import Tahoe.Immutable.LemmasPipeline
/-! Helper lemmas for the uploadable-source theorems of C01 (`upload_download_any_source`) and C05
    (`cap_source_independent`, `literal_any_source`). -/
namespace Tahoe.Immutable.Uploadable
open Tahoe.Immutable Tahoe.Immutable.Sizes
open Tahoe.Immutable.Pipeline hiding Bytes
open Tahoe.Immutable.Convergence hiding Bytes

theorem take_take_drop (data : Bytes) (pos a b : Nat) :
    (data.drop pos).take a ++ (data.drop (pos + ((data.drop pos).take a).length)).take b = (data.drop pos).take (a + b) := by
  simp only [List.length_take, List.length_drop]
  by_cases h : a ≤ data.length - pos
  · rw [Nat.min_eq_left h, ← List.drop_drop, List.take_add]
  · have h' : data.length - pos ≤ a := by omega
    rw [Nat.min_eq_right h']
    have e1 : data.drop (pos + (data.length - pos)) = [] := List.drop_of_length_le (by omega)
    rw [e1, List.take_nil, List.append_nil, List.take_of_length_le (by simp; omega), List.take_of_length_le (by simp; omega)]

theorem readEncrypted_supplies {s : Source} {data : Bytes} (hs : Supplies s data) {chunk : Nat} (hc : 0 < chunk) :
    ∀ (fuel pos remaining : Nat), remaining ≤ fuel →
      (readEncrypted s chunk fuel pos remaining).2 = (data.drop pos).take remaining := by
  intro fuel
  induction fuel with
  | zero => intro pos remaining h; have : remaining = 0 := by omega
            subst this; simp [readEncrypted]
  | succ fuel ih =>
    intro pos remaining h
    unfold readEncrypted
    by_cases hz : remaining = 0
    · simp [hz]
    · simp only [hz, if_false]
      rw [hs.2 pos (min remaining chunk)]
      rw [ih _ _ (by omega)]
      have := take_take_drop data pos (min remaining chunk) (remaining - min remaining chunk)
      rw [this]
      congr 1; omega

theorem seenFrom_supplies {s : Source} {data : Bytes} (hs : Supplies s data) {chunk : Nat} (hc : 0 < chunk) :
    ∀ (reqs : List Nat) (pos : Nat), (seenFrom s chunk pos reqs).2 = (data.drop pos).take reqs.sum := by
  intro reqs
  induction reqs with
  | nil => intro pos; simp [seenFrom]
  | cons r rest ih =>
    intro pos
    simp only [seenFrom, List.sum_cons]
    rw [readEncrypted_supplies hs hc r pos r (Nat.le_refl _), ih]
    exact take_take_drop data pos r rest.sum

theorem sum_replicate_nat (n a : Nat) : (List.replicate n a).sum = n * a := by
  induction n with
  | zero => simp
  | succ n ih => rw [List.replicate_succ, List.sum_cons, ih, Nat.add_mul]; omega

theorem sum_encoderRequests {size k : Nat} {e : EncSizes} (hc : Consistent size k e) :
    (encoderRequests k e).sum = (e.numSegments - 1) * e.segmentSize + e.paddedTailSize := by
  have h1 : k * e.blockSize = e.segmentSize := by rw [Nat.mul_comm]; exact hc.block_mul
  have h2 : k * e.tailBlockSize = e.paddedTailSize := by rw [Nat.mul_comm]; exact hc.tail_block_mul
  simp [encoderRequests, h1, h2, sum_replicate_nat]

theorem plaintextSeen_supplies {s : Source} {data : Bytes} (hs : Supplies s data) {chunk : Nat} (hch : 0 < chunk)
    {k : Nat} {e : EncSizes} (hc : Consistent data.length k e) : plaintextSeen s chunk k e = data := by
  unfold plaintextSeen
  rw [seenFrom_supplies hs hch, sum_encoderRequests hc, List.drop_zero]
  apply List.take_of_length_le
  have := hc.size_split; have := hc.tail_le_padded
  omega

/-- under the IUploadable contract an upload through the source is the upload of its bytes under its key -/
theorem uploadVia_eq (ks : Bytes → Nat → Block16) (c : Codec) (s : Source) (data : Bytes) (k n maxSeg chunk : Nat)
    (hs : Supplies s data) (hkey : StableKey s) (hch : 0 < chunk) (hk : 0 < k) (hmax : 0 < maxSeg) (hd : 0 < data.length) :
    uploadVia ks c s k n maxSeg chunk = upload ks c (s.key 0) data k n maxSeg := by
  obtain ⟨e, m, hc, hm, hseg, henc, _, _, hup⟩ := upload_ok ks c (s.key 0) data k n maxSeg hk hmax hd
  unfold uploadVia
  rw [hs.1, hseg]
  simp only [henc, plaintextSeen_supplies hs hch hc, hkey 1]
  unfold upload
  simp only [hseg, henc]
  cases encodeSegments c k n e (e.numSegments - 1) (encrypt ks (s.key 0) data) <;> rfl

theorem supplies_short {s : Source} {data : Bytes} (hs : Supplies s data) : SuppliesShort s data := by
  refine ⟨hs.1, fun pos len hl hp => ?_⟩
  refine ⟨min len (data.length - pos), by omega, Nat.min_le_left _ _, ?_, by omega⟩
  rw [hs.2]
  by_cases h : len ≤ data.length - pos
  · rw [Nat.min_eq_left h]
  · rw [Nat.min_eq_right (by omega), List.take_of_length_le (by simp; omega), List.take_of_length_le (by simp)]

theorem readThisMany_short {s : Source} {data : Bytes} (hs : SuppliesShort s data) :
    ∀ (fuel pos size : Nat), size ≤ fuel → pos + size ≤ data.length →
      readThisMany s fuel pos size = some ((data.drop pos).take size) := by
  intro fuel
  induction fuel with
  | zero => intro pos size h _; have : size = 0 := by omega
            subst this; simp [readThisMany]
  | succ fuel ih =>
    intro pos size h hle
    cases size with
    | zero => simp [readThisMany]
    | succ size =>
      obtain ⟨m, hm0, hml, hread, hend⟩ := hs.2 pos (size + 1) (by omega) (by omega)
      have hlen : ((data.drop pos).take m).length = m := by simp; omega
      simp only [readThisMany, hread, hlen]
      rw [if_neg (by omega), ih (pos + m) (size + 1 - m) (by omega) (by omega)]
      simp only
      congr 1
      have := take_take_drop data pos m (size + 1 - m)
      rw [hlen] at this
      rw [this]
      congr 1; omega

/-- what `Uploader.upload` returns for a source that keeps the IUploadable contract -/
def capSpec (uebHashOf : Bytes → Bytes → Nat → Nat → Nat → Bytes) (key0 key1 data : Bytes) (k n maxSeg : Nat) :
    Option UploadResult :=
  if isLiteral data.length then some { cap := .lit data, sharesPushed := 0 }
  else match segSize k maxSeg data.length with
    | .error _ => none
    | .ok seg =>
      match encoderSizes data.length k seg with
      | .error _ => none
      | .ok _ => some { cap := .chk key1 (uebHashOf key0 data k n seg) k n data.length, sharesPushed := n }

theorem uploadCapVia_supplies (uebHashOf : Bytes → Bytes → Nat → Nat → Nat → Bytes) (s : Source) (data : Bytes)
    (k n maxSeg chunk : Nat) (hs : Supplies s data) (hch : 0 < chunk) :
    (uploadCapVia uebHashOf s k n maxSeg chunk).2 = capSpec uebHashOf (s.key 0) (s.key 1) data k n maxSeg := by
  unfold uploadCapVia capSpec
  rw [hs.1]
  cases hl : isLiteral data.length with
  | true =>
    simp only [if_true]
    have := readThisMany_short (supplies_short hs) data.length 0 data.length (Nat.le_refl _) (by omega)
    rw [this]
    simp
  | false =>
    simp only [Bool.false_eq_true, if_false]
    cases hseg : segSize k maxSeg data.length with
    | error e => rfl
    | ok seg =>
      simp only
      cases henc : encoderSizes data.length k seg with
      | error e => rfl
      | ok e =>
        simp only
        have hpos : 0 < data.length := by
          rcases Nat.eq_zero_or_pos data.length with h0 | h
          · rw [h0] at hl; simp [isLiteral] at hl
          · exact h
        obtain ⟨hc, _⟩ := consistent_of_ok hpos henc
        have hseen := plaintextSeen_supplies hs hch hc
        unfold plaintextSeen at hseen
        rw [hseen]

theorem uploadCapVia_literal (uebHashOf : Bytes → Bytes → Nat → Nat → Nat → Bytes) (s : Source) (data : Bytes)
    (k n maxSeg chunk : Nat) (hs : SuppliesShort s data) (hl : isLiteral data.length = true) :
    (uploadCapVia uebHashOf s k n maxSeg chunk).2 = some { cap := .lit data, sharesPushed := 0 } := by
  unfold uploadCapVia
  rw [hs.1, hl]
  simp only [if_true]
  have := readThisMany_short hs data.length 0 data.length (Nat.le_refl _) (by omega)
  rw [this]
  simp

end Tahoe.Immutable.Uploadable
