import Tahoe.Immutable.Convergence
/-! Helper lemmas for C05: decimal rendering is injective and comma/colon-free, netstrings are uniquely
    decodable from the front, the convergence tag is injective in (secret, k, n, segsize), the read loop
    is a fold. -/
namespace Tahoe.Immutable.Convergence
open Tahoe.Immutable Tahoe.Generated

theorem decimalAux_fuel : ∀ (f1 f2 n : Nat), n < f1 → n < f2 → decimalAux f1 n = decimalAux f2 n
  | 0, _, _, h, _ => by omega
  | _ + 1, 0, _, _, h => by omega
  | f1 + 1, f2 + 1, n, h1, h2 => by
    simp only [decimalAux]
    split
    · rfl
    · rw [decimalAux_fuel f1 f2 (n / 10) (by omega) (by omega)]

/-- the defining equation of `decimal` -/
theorem decimal_eq (n : Nat) :
    decimal n = if n < 10 then [UInt8.ofNat (48 + n)] else decimal (n / 10) ++ [UInt8.ofNat (48 + n % 10)] := by
  show decimalAux (n + 1) n = _
  rw [decimalAux]
  by_cases h : n < 10
  · simp only [h, if_true]
  · simp only [h, if_false]
    rw [decimal, decimalAux_fuel n (n / 10 + 1) (n / 10) (by omega) (by omega)]

theorem decimal_digit (n : Nat) : ∀ d ∈ decimal n, 48 ≤ d.toNat ∧ d.toNat ≤ 57 := by
  induction n using Nat.strongRecOn with
  | _ n ih =>
    intro d hd
    rw [decimal_eq] at hd
    split at hd
    · simp only [List.mem_singleton] at hd
      subst hd
      simp only [UInt8.toNat_ofNat']
      omega
    · rcases List.mem_append.mp hd with h | h
      · exact ih (n / 10) (by omega) d h
      · simp only [List.mem_singleton] at h
        subst h
        simp only [UInt8.toNat_ofNat']
        omega

theorem colon_not_mem_decimal (n : Nat) : (58 : UInt8) ∉ decimal n := by
  intro h
  have := decimal_digit n 58 h
  simp at this

theorem comma_not_mem_decimal (n : Nat) : (44 : UInt8) ∉ decimal n := by
  intro h
  have := decimal_digit n 44 h
  simp at this

/-- value of a digit string (left inverse of `decimal`; proofs only) -/
def decVal (ds : Bytes) : Nat := ds.foldl (fun a d => 10 * a + (d.toNat - 48)) 0

theorem decVal_append_single (ds : Bytes) (d : UInt8) : decVal (ds ++ [d]) = 10 * decVal ds + (d.toNat - 48) := by
  simp [decVal, List.foldl_append]

theorem decVal_decimal (n : Nat) : decVal (decimal n) = n := by
  induction n using Nat.strongRecOn with
  | _ n ih =>
    rw [decimal_eq]
    split
    · simp only [decVal, List.foldl_cons, List.foldl_nil, UInt8.toNat_ofNat']
      omega
    · rw [decVal_append_single, ih (n / 10) (by omega)]
      simp only [UInt8.toNat_ofNat']
      omega

/-- decimal rendering is injective -/
theorem decimal_inj {a b : Nat} (h : decimal a = decimal b) : a = b := by
  have := congrArg decVal h
  rwa [decVal_decimal, decVal_decimal] at this

/-- splitting at the first occurrence of a separator is unique -/
theorem split_at_sep {α} (c : α) :
    ∀ (l1 l2 r1 r2 : List α), c ∉ l1 → c ∉ l2 → l1 ++ c :: r1 = l2 ++ c :: r2 → l1 = l2 ∧ r1 = r2
  | [], [], _, _, _, _, h => by simpa using h
  | [], y :: l2, _, _, _, h2, h => by
      simp only [List.nil_append, List.cons_append, List.cons.injEq] at h
      exact absurd (h.1 ▸ List.mem_cons_self) h2
  | x :: l1, [], _, _, h1, _, h => by
      simp only [List.nil_append, List.cons_append, List.cons.injEq] at h
      exact absurd (h.1 ▸ List.mem_cons_self) h1
  | x :: l1, y :: l2, r1, r2, h1, h2, h => by
      simp only [List.cons_append, List.cons.injEq] at h
      have := split_at_sep c l1 l2 r1 r2 (fun m => h1 (List.mem_cons_of_mem _ m))
        (fun m => h2 (List.mem_cons_of_mem _ m)) h.2
      exact ⟨by rw [h.1, this.1], this.2⟩

/-- unique decodability from the front: a netstring followed by anything determines payload and rest -/
theorem netstring_append_inj {a b x y : Bytes} (h : netstring a ++ x = netstring b ++ y) : a = b ∧ x = y := by
  simp only [netstring, List.append_assoc, List.cons_append] at h
  obtain ⟨hd, hr⟩ := split_at_sep 58 _ _ _ _ (colon_not_mem_decimal _) (colon_not_mem_decimal _) h
  have hl : a.length = b.length := decimal_inj hd
  obtain ⟨hab, hxy⟩ := List.append_inj hr hl
  simp only [List.nil_append, List.cons.injEq, true_and] at hxy
  exact ⟨hab, hxy⟩

theorem netstring_inj {a b : Bytes} (h : netstring a = netstring b) : a = b :=
  (@netstring_append_inj a b [] [] (by simpa using h)).1

/-- `"%d,%d,%d"` is injective on triples of naturals -/
theorem paramString_inj {k n s k' n' s' : Nat} (h : paramString k n s = paramString k' n' s') :
    k = k' ∧ n = n' ∧ s = s' := by
  unfold paramString at h
  obtain ⟨h1, h2⟩ := split_at_sep 44 _ _ _ _ (comma_not_mem_decimal _) (comma_not_mem_decimal _) h
  obtain ⟨h3, h4⟩ := split_at_sep 44 _ _ _ _ (comma_not_mem_decimal _) (comma_not_mem_decimal _) h2
  exact ⟨decimal_inj h1, decimal_inj h3, decimal_inj h4⟩

theorem convergenceTag_isSome {k n segsize : Nat} {secret : Bytes} (h1 : 1 ≤ k) (h2 : k ≤ n) (h3 : n ≤ 256) :
    convergenceTag k n segsize secret
      = some (Immutable.CONVERGENT_ENCRYPTION_TAG ++ netstring secret ++ netstring (paramString k n segsize)) := by
  unfold convergenceTag
  rw [if_neg (by omega), if_neg (by omega), if_neg (by omega)]

/-- the tag is injective in (secret, k, n, segsize) -/
theorem convergenceTag_inj {k n s k' n' s' : Nat} {secret secret' t : Bytes}
    (h : convergenceTag k n s secret = some t) (h' : convergenceTag k' n' s' secret' = some t) :
    secret = secret' ∧ k = k' ∧ n = n' ∧ s = s' := by
  unfold convergenceTag at h h'
  split at h; · cases h
  split at h; · cases h
  split at h; · cases h
  split at h'; · cases h'
  split at h'; · cases h'
  split at h'; · cases h'
  injection h with h
  injection h' with h'
  rw [← h'] at h
  rw [List.append_assoc, List.append_assoc] at h
  have h2 := List.append_cancel_left h
  obtain ⟨hs, hp⟩ := netstring_append_inj h2
  exact ⟨hs, paramString_inj (netstring_inj hp)⟩

/-- the read loop feeds exactly `consumed reads`, whatever the chunking -/
theorem hashReads_eq {S : Type} (h : Hasher S) (hl : h.Lawful) (st : S) (pre : Bytes) (reads : List Bytes) :
    hashReads h (h.update st pre) reads = h.update st (pre ++ consumed reads) := by
  induction reads generalizing pre with
  | nil => simp [hashReads, consumed]
  | cons r rest ih =>
    simp only [hashReads, consumed]
    split
    · simp
    · rw [hl, ih, List.append_assoc]

/-- non-empty chunks are all consumed -/
theorem consumed_of_nonempty (reads : List Bytes) (hne : ∀ c ∈ reads, c ≠ []) : consumed reads = reads.flatten := by
  induction reads with
  | nil => rfl
  | cons r rest ih =>
    have hr : r ≠ [] := hne r List.mem_cons_self
    have : r.isEmpty = false := by cases r <;> simp_all
    simp only [consumed, this, Bool.false_eq_true, if_false, List.flatten_cons]
    rw [ih (fun c hc => hne c (List.mem_cons_of_mem _ hc))]

end Tahoe.Immutable.Convergence
