import Tahoe.Immutable.Sizes
import Tahoe.Generated.Immutable
/-
Immutable share layout (immutable/layout.py), Mathlib-free and executable.

  * `WriteBucketProxy.__init__` section sizes                         → `segmentHashSize`, `shareHashtreeSize`
  * `WriteBucketProxy._create_offsets` / `WriteBucketProxy_v2._create_offsets`
        (limit checks, running offset `x`, `struct.pack` of the header) → `createOffsets`
  * `make_write_bucket_proxy` (v1, falling back to v2 on FileTooLargeError) → `makeWriteBucketProxy`
  * `get_allocated_size`                                               → `allocatedSize`
  * `put_block` offset and the length its precondition demands         → `putBlockOffset`, `putBlockLen`
  * the order of the `put_*` calls made by `Encoder.start` with the `_queue_write`
    assertion `offset == bytes written so far`                         → `writeSequence`, `contiguousFrom`
  * `ReadBucketProxy._parse_offsets` and `downloader/share.py Share._satisfy_offsets`
        (same table walk: version, table start 0x0c / 0x14, six fields)  → `parseOffsets`
  * `Share._satisfy_data_block` / `ReadBucketProxy._get_block_data` block location → `readBlockStart`, `readBlockLen`
  * reader section extents (`_get_crypttext_hashes`, `_get_block_hashes`, `_get_share_hashes`,
    `_get_uri_extension`)                                               → `reader*`

Deviation: `struct.pack` range errors are not modelled separately — every packed value is below the
limit already checked by `_create_offsets` (proved: `createOffsets_fields_lt`).  The constants come
from `Tahoe.Generated.Immutable` (observed on the live classes).
-/
namespace Tahoe.Immutable.Layout
open Tahoe.Immutable Tahoe.Immutable.Sizes
open Tahoe.Generated

abbrev Bytes := List UInt8

inductive Ver where
  | v1 | v2
  deriving DecidableEq, Repr

def Ver.num : Ver → Nat
  | .v1 => Immutable.V1_VERSION
  | .v2 => Immutable.V2_VERSION

def Ver.fieldSize : Ver → Nat
  | .v1 => Immutable.V1_FIELDSIZE
  | .v2 => Immutable.V2_FIELDSIZE

/-- `x = 0x24` / `x = 0x44` at the top of `_create_offsets` -/
def Ver.dataStart : Ver → Nat
  | .v1 => Immutable.V1_DATA_START
  | .v2 => Immutable.V2_DATA_START

/-- `2**32` / `2**64` -/
def Ver.limit : Ver → Nat
  | .v1 => 2 ^ Immutable.V1_LIMIT_EXP_DATA
  | .v2 => 2 ^ Immutable.V2_LIMIT_EXP_DATA

/-- where the reader starts walking the six-entry offset table: after version, block size, data size -/
def Ver.tableStart (v : Ver) : Nat := 4 + 2 * v.fieldSize

structure Offsets where
  data : Nat
  plaintextHashTree : Nat
  crypttextHashTree : Nat
  blockHashes : Nat
  shareHashes : Nat
  uriExtension : Nat
  deriving DecidableEq, Repr

/-- constructor arguments of `WriteBucketProxy` -/
structure Params where
  dataSize : Nat
  blockSize : Nat
  numSegments : Nat
  numShareHashes : Nat
  uriExtensionSize : Nat
  deriving DecidableEq, Repr

/-- `(2*effective_segments - 1) * HASH_SIZE` with `effective_segments = next_power_of_k(num_segments, 2)` -/
def segmentHashSize (numSegments : Nat) : Nat := (2 * nextPow2 numSegments - 1) * Immutable.HASH_SIZE

/-- `num_share_hashes * (2 + HASH_SIZE)` -/
def shareHashtreeSize (numShareHashes : Nat) : Nat := numShareHashes * Immutable.SHARE_HASH_ENTRY_SIZE

/-- `w`-byte big-endian encoding (`struct.pack(">L"/">Q", n)` for in-range `n`) -/
def beBytes : Nat → Nat → Bytes
  | 0, _ => []
  | w + 1, n => beBytes w (n / 256) ++ [UInt8.ofNat (n % 256)]

/-- `int.from_bytes(b, "big")` -/
def beVal (b : Bytes) : Nat := b.foldl (fun a x => a * 256 + x.toNat) 0

/-- a struct of unsigned big-endian fields `(width, value)` -/
def encodeFields (fs : List (Nat × Nat)) : Bytes := fs.flatMap (fun f => beBytes f.1 f.2)

/-- `struct.unpack(fieldstruct, data[x:x+w])[0]` -/
def fieldAt (data : Bytes) (x w : Nat) : Nat := beVal ((data.drop x).take w)

def offsetsOf (v : Ver) (p : Params) : Offsets :=
  let shs := segmentHashSize p.numSegments
  let d := v.dataStart
  { data := d
    plaintextHashTree := d + p.dataSize
    crypttextHashTree := d + p.dataSize + shs
    blockHashes := d + p.dataSize + shs + shs
    shareHashes := d + p.dataSize + shs + shs + shs
    uriExtension := d + p.dataSize + shs + shs + shs + shareHashtreeSize p.numShareHashes }

def headerFields (v : Ver) (p : Params) (o : Offsets) : List (Nat × Nat) :=
  let w := v.fieldSize
  [(4, v.num), (w, p.blockSize), (w, p.dataSize), (w, o.data), (w, o.plaintextHashTree),
   (w, o.crypttextHashTree), (w, o.blockHashes), (w, o.shareHashes), (w, o.uriExtension)]

/-- `_create_offsets`: returns the offset dict and `_offset_data` -/
def createOffsets (v : Ver) (p : Params) : Except Err (Offsets × Bytes) :=
  if p.blockSize ≥ v.limit ∨ p.dataSize ≥ v.limit then .error .tooLarge
  else
    let o := offsetsOf v p
    if o.uriExtension ≥ v.limit then .error .tooLarge
    else .ok (o, encodeFields (headerFields v p o))

/-- `make_write_bucket_proxy`: v1 unless it raises FileTooLargeError (FORCE_V2 not modelled) -/
def makeWriteBucketProxy (p : Params) : Except Err (Ver × Offsets × Bytes) :=
  match createOffsets .v1 p with
  | .ok (o, h) => .ok (.v1, o, h)
  | .error .tooLarge =>
      match createOffsets .v2 p with
      | .ok (o, h) => .ok (.v2, o, h)
      | .error e => .error e
  | .error e => .error e

/-- `get_allocated_size` -/
def allocatedSize (v : Ver) (p : Params) (o : Offsets) : Nat := o.uriExtension + v.fieldSize + p.uriExtensionSize

/-- `put_block`: `offset = self._offsets['data'] + segmentnum * self._block_size` -/
def putBlockOffset (p : Params) (o : Offsets) (segnum : Nat) : Nat := o.data + segnum * p.blockSize

/-- the block length `put_block`'s precondition demands -/
def putBlockLen (p : Params) (segnum : Nat) : Nat :=
  if segnum < p.numSegments - 1 then p.blockSize else p.dataSize - p.blockSize * (p.numSegments - 1)

/-- (offset, length) of every `_queue_write` of one share, in the order `Encoder.start` issues them:
    header, blocks 0..numSegments-1, zero-filled plaintext hash tree, crypttext hashes, block hashes,
    share hashes, UEB length field + UEB -/
def writeSequence (v : Ver) (p : Params) (o : Offsets) (hdr : Bytes) : List (Nat × Nat) :=
  let shs := segmentHashSize p.numSegments
  [(0, hdr.length)]
  ++ (List.range p.numSegments).map (fun i => (putBlockOffset p o i, putBlockLen p i))
  ++ [(o.plaintextHashTree, shs), (o.crypttextHashTree, shs), (o.blockHashes, shs),
      (o.shareHashes, shareHashtreeSize p.numShareHashes),
      (o.uriExtension, v.fieldSize + p.uriExtensionSize)]

/-- `_queue_write`'s `assert offset == self._write_buffer.get_total_bytes()` over a whole sequence;
    returns the final total on success -/
def contiguousFrom : Nat → List (Nat × Nat) → Option Nat
  | total, [] => some total
  | total, (off, len) :: rest => if off = total then contiguousFrom (total + len) rest else none

/-- `ReadBucketProxy._parse_offsets` / `Share._satisfy_offsets` (the latter without the length
    preconditions: it waits for the bytes instead) -/
def parseOffsets (data : Bytes) : Except Err (Ver × Offsets) :=
  if data.length < 4 then .error .assertion
  else
    let version := fieldAt data 0 4
    let go (v : Ver) : Except Err (Ver × Offsets) :=
      if data.length < v.dataStart then .error .assertion
      else
        let x := v.tableStart
        let w := v.fieldSize
        .ok (v, { data := fieldAt data x w
                  plaintextHashTree := fieldAt data (x + w) w
                  crypttextHashTree := fieldAt data (x + 2 * w) w
                  blockHashes := fieldAt data (x + 3 * w) w
                  shareHashes := fieldAt data (x + 4 * w) w
                  uriExtension := fieldAt data (x + 5 * w) w })
    if version = 1 then go .v1
    else if version = 2 then go .v2
    else .error .layoutInvalid

/-- `blockstart = datastart + segnum * block_size` -/
def readBlockStart (o : Offsets) (d : DlSizes) (segnum : Nat) : Nat := o.data + segnum * d.blockSize

/-- `blocklen = block_size`, or `tail_block_size` for `segnum == num_segments - 1` -/
def readBlockLen (d : DlSizes) (segnum : Nat) : Nat :=
  if segnum = d.numSegments - 1 then d.tailBlockSize else d.blockSize

/-- `(offset, size)` the reader fetches for the crypttext hash tree, block hashes, share hashes -/
def readerCrypttextHashes (o : Offsets) : Nat × Nat := (o.crypttextHashTree, o.blockHashes - o.crypttextHashTree)
def readerBlockHashes (o : Offsets) : Nat × Nat := (o.blockHashes, o.shareHashes - o.blockHashes)
def readerShareHashes (o : Offsets) : Nat × Nat := (o.shareHashes, o.uriExtension - o.shareHashes)
/-- the UEB length field, then the UEB itself at `offset + fieldsize` -/
def readerUebLenField (v : Ver) (o : Offsets) : Nat × Nat := (o.uriExtension, v.fieldSize)
def readerUebStart (v : Ver) (o : Offsets) : Nat := o.uriExtension + v.fieldSize

/-- the `WriteBucketProxy` arguments `CHKUploader`/`Tahoe2ServerSelector` derive from the encoder -/
def paramsOf (e : EncSizes) (numShareHashes uebSize : Nat) : Params :=
  { dataSize := e.shareSize, blockSize := e.blockSize, numSegments := e.numSegments,
    numShareHashes := numShareHashes, uriExtensionSize := uebSize }

end Tahoe.Immutable.Layout
