import Tahoe.Immutable.Pipeline
import Tahoe.Codec.Model
/-! Concrete instances used by the `example`s of C01/C04 to show that the hypotheses of the theorems are
    satisfiable: a lawful erasure code (1-of-n replication) and a toy keystream. -/
namespace Tahoe.Immutable.Pipeline

/-- 1-of-n replication: every block is the single input piece -/
def repl : Codec :=
  { encode := fun _ n pieces => List.replicate n (pieces.headD [])
    decode := fun _ _ blocks => [(blocks.headD (0, [])).2] }

theorem repl_lawful (n : Nat) : repl.Lawful 1 n := by
  constructor
  · intro pieces _ _ _; simp [repl]
  · intro pieces L hl hp b hb
    simp only [repl, List.mem_replicate] at hb
    obtain ⟨_, rfl⟩ := hb
    match pieces, hl with
    | [p], _ => simpa using hp p (by simp)
  · intro pieces L ids hl _ hidl _ hlt
    match pieces, hl, ids, hidl with
    | [p], _, [i], _ =>
      have : i < n := hlt i (by simp)
      simp [repl, List.getD_eq_getElem?_getD, this]

/-- a keystream that depends on key, counter block and byte position -/
def toyKs : Nat → Nat → Block16 := fun key blk j => UInt8.ofNat (key + 7 * blk + j.val)

/-- the pieces themselves as blocks: what a systematic code (zfec) produces for share numbers `< k`
    (used by the drivers to predict the bytes of the primary shares) -/
def sysCodec : Codec :=
  { encode := fun _ _ pieces => pieces
    decode := fun k _ blocks => (List.range k).map (fun j => ((blocks.find? (fun b => b.1 == j)).map (·.2)).getD []) }

/-- a keystream given as explicit bytes from stream position 0 (the drivers receive the real AES-CTR keystream) -/
def ksOfBytes (stream : Bytes) : Unit → Nat → Block16 :=
  fun _ blk j => stream.getD (16 * blk + j.val) 0

/-- the same from an array (constant-time lookup; what the drivers use) -/
def ksOfArray (stream : Array UInt8) : Unit → Nat → Block16 :=
  fun _ blk j => stream.getD (16 * blk + j.val) 0

/-- zfec's Reed–Solomon code over GF(2^8) as transcribed by C36 (`Tahoe.Codec.rs256`, imported), seen through
    the `Codec` interface of this pipeline: `decode` receives `(share number, block)` pairs -/
def rs256Codec : Codec :=
  { encode := fun k n pieces => (Tahoe.Codec.rs256 k n).enc pieces
    decode := fun k n blocks => (Tahoe.Codec.rs256 k n).dec (blocks.map (·.2)) (blocks.map (·.1)) }

end Tahoe.Immutable.Pipeline
