import Tahoe.Immutable.Segmentation
/-! Lemmas about one `Segmentation` (a read): it never goes idle without firing its Deferred
(`SegLive`), and what it writes is exactly the requested range (`SegRange`). -/
namespace Tahoe.Fetch

/-- A read that has not fired its Deferred is alive, and unless its consumer paused it, it has a
segment request outstanding (or a queued `_maybe_fetch_next` turn).  A read that has fired is dead. -/
def SegLive (s : Seg) : Prop :=
  (s.result = none → s.alive = true ∧ (s.hungry = true → s.active.isSome = true ∨ 0 < s.turns)) ∧
  (s.result.isSome = true → s.alive = false)

/-- what the environment of a started read may do: answer only an outstanding request of a read
that has not fired; run a turn only if one is queued; `start` happens once, first -/
def SEvOk (s : Seg) : SEv → Prop
  | .start => False
  | .segment _ _ _ => s.active.isSome = true ∧ s.result = none
  | .failed _ => s.active.isSome = true ∧ s.result = none
  | .turn => 0 < s.turns
  | _ => True

theorem live_error (s : Seg) (e : SegErr) : SegLive (segError s e) := by
  simp [SegLive, segError]

theorem live_mfn {s : Seg} (k : Bool) (hr : s.result = none) (ha : s.alive = true) :
    SegLive (maybeFetchNext s k) := by
  unfold maybeFetchNext
  split
  · rename_i h
    simp only [ha, Bool.not_true, Bool.false_or, Bool.not_eq_true'] at h
    simp [SegLive, hr, ha, h]
  · split
    · rename_i h
      simp [SegLive, hr, ha, h]
    · unfold fetchNext
      split
      · simp [SegLive]
      · simp [SegLive, hr, ha]

theorem live_failure {s : Seg} (k : Bool) (e : SegErr) (armed : Bool) (hr : s.result = none)
    (ha : s.alive = true) : SegLive (segFailure s k e armed) := by
  unfold segFailure
  split
  · split
    · exact live_mfn k hr ha
    · exact live_error _ _
  · exact live_error _ _

theorem seglive_start (s : Seg) (k : Bool) (hr : s.result = none) : SegLive (segStep s k .start) :=
  live_mfn k hr rfl

theorem seglive_step {s : Seg} (k : Bool) (e : SEv) (h : SegLive s) (hok : SEvOk s e) :
    SegLive (segStep s k e) := by
  cases e with
  | start => exact absurd hok (by simp [SEvOk])
  | segment st len pause =>
    obtain ⟨_, hr⟩ := hok
    have ha := (h.1 hr).1
    simp only [segStep]
    split
    · split
      · exact live_failure k _ _ hr ha
      · cases pause
        · exact live_mfn k hr ha
        · exact live_mfn k hr ha
    · exact live_failure k _ _ hr ha
  | failed e =>
    obtain ⟨_, hr⟩ := hok
    exact live_failure k _ _ hr (h.1 hr).1
  | stop =>
    simp only [segStep]
    split
    · exact h
    · split <;> simp [SegLive]
  | pause =>
    refine ⟨fun hr => ⟨(h.1 hr).1, by simp [segStep]⟩, fun hr => h.2 hr⟩
  | resume =>
    refine ⟨fun hr => ⟨(h.1 hr).1, fun _ => Or.inr (by simp [segStep])⟩, fun hr => h.2 hr⟩
  | turn =>
    simp only [segStep]
    by_cases hr : s.result = none
    · exact live_mfn k hr (h.1 hr).1
    · have hs : s.result.isSome = true := by
        cases hh : s.result with
        | none => exact absurd hh hr
        | some _ => rfl
      have ha : s.alive = false := h.2 hs
      refine ⟨fun hn => ?_, fun _ => ?_⟩
      · simp only [maybeFetchNext, ha, Bool.not_false, Bool.true_or, if_true] at hn
        exact absurd hn hr
      · simp [maybeFetchNext, ha]

/-! ### what is written is the requested range -/

def writesOf : List SegOut → List (Nat × Nat)
  | [] => []
  | .write st len :: r => (st, len) :: writesOf r
  | _ :: r => writesOf r

/-- the writes are contiguous from `a`; result = where they end -/
def contigEnd (a : Nat) : List (Nat × Nat) → Option Nat
  | [] => some a
  | (st, len) :: r => if st = a then contigEnd (a + len) r else none

theorem writesOf_append (l₁ l₂ : List SegOut) : writesOf (l₁ ++ l₂) = writesOf l₁ ++ writesOf l₂ := by
  induction l₁ with
  | nil => rfl
  | cons o l ih => cases o <;> simp [writesOf, ih]

theorem contigEnd_append (a : Nat) (l : List (Nat × Nat)) (st len b : Nat) (h : contigEnd a l = some b) :
    contigEnd a (l ++ [(st, len)]) = if st = b then some (b + len) else none := by
  induction l generalizing a with
  | nil => simp [contigEnd] at h ⊢; subst h; rfl
  | cons p l ih =>
    obtain ⟨s1, l1⟩ := p
    simp only [contigEnd, List.cons_append] at h ⊢
    split at h
    · rename_i hs; simp only [hs, if_true]; exact ih _ h
    · simp at h

/-- the remaining range is the tail of the requested one and everything before it was written, in
order, without gap or overlap; a successful end means nothing remains -/
def SegRange (off0 size0 : Nat) (s : Seg) : Prop :=
  s.offset + s.size = off0 + size0 ∧ contigEnd off0 (writesOf s.out) = some s.offset ∧
  (s.result = some none → s.size = 0)

theorem range_nowrite {off0 size0 : Nat} {s s' : Seg} (h : SegRange off0 size0 s)
    (e1 : s'.offset = s.offset) (e2 : s'.size = s.size) (e3 : writesOf s'.out = writesOf s.out)
    (e4 : s'.result = some none → s.result = some none ∨ s.size = 0) : SegRange off0 size0 s' := by
  refine ⟨by rw [e1, e2]; exact h.1, by rw [e3, e1]; exact h.2.1, ?_⟩
  intro hr
  rw [e2]
  rcases e4 hr with h1 | h1
  · exact h.2.2 h1
  · exact h1

theorem range_error {off0 size0 : Nat} {s : Seg} (h : SegRange off0 size0 s) (e : SegErr) :
    SegRange off0 size0 (segError s e) :=
  range_nowrite h rfl rfl (by simp [segError, writesOf_append, writesOf]) (by simp [segError])

theorem range_mfn {off0 size0 : Nat} {s : Seg} (k : Bool) (h : SegRange off0 size0 s) :
    SegRange off0 size0 (maybeFetchNext s k) := by
  unfold maybeFetchNext
  split
  · exact h
  · split
    · exact h
    · unfold fetchNext
      split
      · rename_i hz
        exact range_nowrite h rfl rfl (by simp [writesOf_append, writesOf]) (fun _ => Or.inr hz)
      · exact range_nowrite h rfl rfl (by simp [writesOf_append, writesOf]) (fun hr => Or.inl hr)

theorem range_failure {off0 size0 : Nat} {s : Seg} (k : Bool) (e : SegErr) (armed : Bool)
    (h : SegRange off0 size0 s) : SegRange off0 size0 (segFailure s k e armed) := by
  unfold segFailure
  split
  · split
    · exact range_mfn k h
    · exact range_error h _
  · exact range_error h _

theorem segrange_step {off0 size0 : Nat} {s : Seg} (k : Bool) (e : SEv) (h : SegRange off0 size0 s) :
    SegRange off0 size0 (segStep s k e) := by
  cases e with
  | start => exact range_mfn k (range_nowrite h rfl rfl rfl (fun hr => Or.inl hr))
  | failed e => exact range_failure k _ _ (range_nowrite h rfl rfl rfl (fun hr => Or.inl hr))
  | pause => exact range_nowrite h rfl rfl rfl (fun hr => Or.inl hr)
  | resume => exact range_nowrite h rfl rfl rfl (fun hr => Or.inl hr)
  | turn => exact range_mfn k (range_nowrite h rfl rfl rfl (fun hr => Or.inl hr))
  | stop =>
    simp only [segStep]
    split
    · exact h
    · split
      · exact range_nowrite h rfl rfl (by simp [writesOf_append, writesOf]) (by simp)
      · exact range_nowrite h rfl rfl (by simp [writesOf_append, writesOf]) (by simp)
  | segment st len pause =>
    have h0 : SegRange off0 size0 { s with active := none } :=
      range_nowrite h rfl rfl rfl (fun hr => Or.inl hr)
    simp only [segStep]
    split
    · rename_i o0 o1 hov
      split
      · exact range_failure k _ _ h0
      · rename_i heq
        simp only [ne_eq, Decidable.not_not] at heq
        -- the accepted part starts at `offset` and is no longer than what remains
        have hle : o1 ≤ s.size := by
          simp only [Tahoe.Spans.overlap] at hov
          split at hov
          · simp only [Option.some.injEq, Prod.mk.injEq] at hov
            obtain ⟨h1, h2⟩ := hov
            have : max st s.offset = s.offset := by rw [h1]; exact heq
            omega
          · simp at hov
        have hpos : 0 < o1 := by
          simp only [Tahoe.Spans.overlap] at hov
          split at hov
          · simp only [Option.some.injEq, Prod.mk.injEq] at hov; omega
          · simp at hov
        have hnd : s.result ≠ some none ∨ True := Or.inr trivial
        have hw : SegRange off0 size0
            { s with active := none, offset := s.offset + o1, size := s.size - o1,
                     out := s.out ++ [.write o0 o1] } := by
          refine ⟨by simp only; have := h.1; omega, ?_, ?_⟩
          · simp only [writesOf_append, writesOf]
            rw [contigEnd_append _ _ _ _ _ h.2.1]
            simp [heq]
          · intro hr
            have := h.2.2 hr
            simp only; omega
        cases pause
        · exact range_mfn k hw
        · exact range_mfn k (range_nowrite hw rfl rfl rfl (fun hr => Or.inl hr))
    · exact range_failure k _ _ h0

/-! ### histories of one read -/

/-- a history: each event with `node.segment_size is not None` at that moment -/
def segRun (s : Seg) : List (SEv × Bool) → Seg
  | [] => s
  | (e, k) :: es => segRun (segStep s k e) es

def SegValid (s : Seg) : List (SEv × Bool) → Prop
  | [] => True
  | (e, k) :: es => SEvOk s e ∧ SegValid (segStep s k e) es

theorem seglive_run : ∀ (es : List (SEv × Bool)) (s : Seg), SegLive s → SegValid s es → SegLive (segRun s es) := by
  intro es
  induction es with
  | nil => intro s h _; exact h
  | cons p es ih =>
    obtain ⟨e, k⟩ := p
    intro s h hv
    exact ih _ (seglive_step k e h hv.1) hv.2

theorem segrange_run {off0 size0 : Nat} : ∀ (es : List (SEv × Bool)) (s : Seg), SegRange off0 size0 s →
    SegRange off0 size0 (segRun s es) := by
  intro es
  induction es with
  | nil => intro s h; exact h
  | cons p es ih =>
    obtain ⟨e, k⟩ := p
    intro s h
    exact ih _ (segrange_step k e h)

/-! ### an honest node answer is accepted -/

theorem mfn_offset (s : Seg) (k : Bool) : (maybeFetchNext s k).offset = s.offset ∧
    (maybeFetchNext s k).size = s.size ∧
    (∀ e, (maybeFetchNext s k).result = some (some e) → s.result = some (some e)) := by
  unfold maybeFetchNext
  split
  · exact ⟨rfl, rfl, fun _ h => h⟩
  · split
    · exact ⟨rfl, rfl, fun _ h => h⟩
    · unfold fetchNext
      split
      · exact ⟨rfl, rfl, fun e h => by simp at h⟩
      · exact ⟨rfl, rfl, fun _ h => h⟩

/-- the genuine segment `offset / segsize` of a file of `filesize` bytes overlaps the wanted range at
its first byte -/
theorem honest_overlap (ss off size fs : Nat) (hss : 0 < ss) (hsz : 0 < size) (hfit : off + size ≤ fs) :
    Tahoe.Spans.overlap (off / ss * ss) (min ss (fs - off / ss * ss)) off size =
      some (off, min (off / ss * ss + min ss (fs - off / ss * ss)) (off + size) - off) ∧
    off < min (off / ss * ss + min ss (fs - off / ss * ss)) (off + size) := by
  have h1 : ss * (off / ss) + off % ss = off := Nat.div_add_mod off ss
  have h2 : off % ss < ss := Nat.mod_lt off hss
  have h3 : off / ss * ss = ss * (off / ss) := Nat.mul_comm _ _
  generalize off / ss * ss = st at h3 ⊢
  generalize ss * (off / ss) = q at h1 h3
  subst h3
  have hlt : max st off < min (st + min ss (fs - st)) (off + size) := by omega
  have hmax : max st off = off := by omega
  refine ⟨?_, by omega⟩
  have hlt' : off < min (st + min ss (fs - st)) (off + size) := by omega
  simp only [Tahoe.Spans.overlap, hmax, hlt', if_true]

/-- an answer whose overlap with the wanted range starts at the read's offset is accepted -/
theorem accept_step (s : Seg) (k pause : Bool) (st len o1 : Nat)
    (hov : Tahoe.Spans.overlap st len s.offset s.size = some (s.offset, o1)) :
    (segStep s k (.segment st len pause)).offset = s.offset + o1 ∧
    (segStep s k (.segment st len pause)).size = s.size - o1 ∧
    ∀ e, (segStep s k (.segment st len pause)).result = some (some e) → s.result = some (some e) := by
  simp only [segStep, hov, ne_eq, not_true_eq_false, if_false]
  cases pause
  · simp only [Bool.false_eq_true, if_false]
    refine ⟨(mfn_offset _ k).1, (mfn_offset _ k).2.1, fun e he => ?_⟩
    have h4 := (mfn_offset _ k).2.2 e he
    exact h4
  · simp only [if_true]
    refine ⟨(mfn_offset _ k).1, (mfn_offset _ k).2.1, fun e he => ?_⟩
    have h4 := (mfn_offset _ k).2.2 e he
    exact h4

end Tahoe.Fetch
