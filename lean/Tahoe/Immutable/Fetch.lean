/-
Model of the immutable segment fetcher and the download node's segment queue
(`allmydata/immutable/downloader/fetcher.py` class `SegmentFetcher`,
 `allmydata/immutable/downloader/node.py` class `DownloadNode`: `_segment_requests`,
 `_active_segment`, `get_segment`, `_start_new_segment`, `got_shares`, `no_more_shares`,
 `fetch_failed`, `process_blocks`, `_cancel_request`).  Mathlib-free, executable; used by the
drivers `Drv/C03.lean` and `Drv/C46.lean`.

Layer 1 — `Fetcher` is an event system.  Events (`Ev`):
  * `addShares l`      = `SegmentFetcher.add_shares(l)`            (ShareFinder / node)
  * `noMoreShares`     = `SegmentFetcher.no_more_shares()`
  * `share sh st`      = `_block_request_activity(share=sh, shnum=sh.shnum, state=st)` for a share
                          whose `get_block` was called (`OVERDUE | COMPLETE | CORRUPT | DEAD | BADSEGNUM`)
  * `segKnownBad`      = the node learns the authoritative number of segments and `segnum` is
                          beyond it (what `node.get_num_segments()` answers at the top of `_do_loop`)
  * `loop`             = one queued `eventually(self.loop)` runs
  * `stop`             = `SegmentFetcher.stop()` called by the node (cancel path)
Every handler is transcribed branch by branch; `pending` counts the queued `eventually(self.loop)`.

Deviations (all compared by the correspondence run):
  * Python objects are compared by identity; `Share` values carry a unique `id`, and sets of
    shares (`DictOfSets` values) are lists with set-insert (`insertSet`) / `filter (· ≠ sh)`.
    `_shares_from_server` is kept flattened (`outstanding`); the per-server count is
    `serverCount` (= `len(sfs.get(server, set()))`).
  * `_active_share_map` (dict shnum → share) is the list of its values; keys are `sh.shnum`.
    `if self._active_share_map.get(shnum) is share: del …` is `filter (· ≠ share)` (a dict has at
    most one value per key — invariant `Inv.uniq` in FetchLemmasC03.lean, proved); `del self._active_share_map[shnum]`
    (OVERDUE) removes by share number and is a `KeyError` when the key is absent.
  * `_blocks` (dict shnum → block) is an association list shnum ↦ id of the share whose block is
    stored (`setBlock` = dict assignment).
  * `self._shares.extend(l); self._shares.sort(key=(rtt, shnum))` is a stable insertion sort.
  * the `while` loop of `_do_loop` runs on fuel `fuelFor s`; `Tahoe.Fetch.whileLoop_fuel` proves the
    fuel is never exhausted (measure: a share is sent, or the diversity limit grows up to the
    number of outstanding shares).
  * `stop()` deletes `_shares`, `_shares_from_server`, `_active_share_map`: modelled as emptied;
    `add_shares` on a stopped fetcher is the `AttributeError` (`Exc.attrError`).
  * log messages, status events, the text of error messages and `_last_failure` are not modelled.

Layer 2 — `Node`: the segment queue.  `decode`/ciphertext-hash check are one atomic step whose
outcome is given by the environment (`badSegs`), as it is when `cputhreadpool` is disabled; the
production thread-pool makes `process_blocks` asynchronous — that interleaving is not modelled.
`Node.fixed = true` is the code with `fixes/C46-active-segment.diff` applied (the failure branch of
`process_blocks._deliver` clears `_active_segment`); `fixed = false` is the code as it is in the
unchanged tree (used for the counterexample theorem and by the driver's `unfixed` mode).
-/
namespace Tahoe.Fetch

structure Share where
  id : Nat
  shnum : Nat
  server : Nat
  rtt : Nat
deriving DecidableEq, Repr, Inhabited

inductive St | overdue | complete | corrupt | dead | badsegnum
deriving DecidableEq, Repr

inductive Err | noShares | notEnough | badSegnum
deriving DecidableEq, Repr

inductive Exc | keyError | attrError | fuel
deriving DecidableEq, Repr

/-- calls the fetcher makes on its environment, in order -/
inductive Out
  | start (sh : Share)      -- `share.get_block(segnum)`
  | wantMore                -- `node.want_more_shares()`
  | exc (e : Exc)           -- the handler raised
deriving DecidableEq, Repr

inductive Verdict
  | blocks (bl : List (Nat × Nat))   -- `node.process_blocks(segnum, blocks)`: shnum ↦ providing share id
  | failed (e : Err)                 -- `node.fetch_failed(self, f)`
deriving DecidableEq, Repr

structure Fetcher where
  k : Nat
  shares : List Share := []          -- `_shares` (unused shares, sorted)
  outstanding : List Share := []     -- `_shares_from_server`, flattened
  maxPerServer : Nat := 1            -- `_max_shares_per_server`
  active : List Share := []          -- `_active_share_map` values
  overdue : List Share := []         -- `_overdue_share_map` values, flattened
  blocks : List (Nat × Nat) := []    -- `_blocks`
  noMore : Bool := false             -- `_no_more_shares`
  running : Bool := true             -- `_running`
  badSeg : Bool := false             -- `get_num_segments()` = (n, True) with segnum ≥ n
  pending : Nat := 0                 -- queued `eventually(self.loop)`
  out : List Out := []
  verdict : Option Verdict := none
deriving Repr

def init (k : Nat) : Fetcher := { k := k }

/-! ### small list utilities -/

def insertSet (x : Share) (l : List Share) : List Share := if x ∈ l then l else l ++ [x]

/-- distinct elements (`set(...)`) -/
def dedup : List Nat → List Nat
  | [] => []
  | a :: l => if a ∈ l then dedup l else a :: dedup l

/-- `len(set(l))` -/
def distinct (l : List Nat) : Nat := (dedup l).length

/-- sort key `(s._dyhb_rtt, s._shnum)`, `x ≤ y` -/
def keyLe (x y : Share) : Bool := x.rtt < y.rtt || (x.rtt == y.rtt && x.shnum ≤ y.shnum)

def insertSorted (x : Share) : List Share → List Share
  | [] => [x]
  | y :: ys => if keyLe x y then x :: y :: ys else y :: insertSorted x ys

/-- stable sort by `(rtt, shnum)` -/
def sortShares : List Share → List Share
  | [] => []
  | x :: xs => insertSorted x (sortShares xs)

def setBlock (bl : List (Nat × Nat)) (shnum id : Nat) : List (Nat × Nat) :=
  if bl.any (fun p => p.1 == shnum) then bl.map (fun p => if p.1 == shnum then (shnum, id) else p)
  else bl ++ [(shnum, id)]

def blockKeys (s : Fetcher) : List Nat := s.blocks.map (·.1)
def activeKeys (s : Fetcher) : List Nat := s.active.map (·.shnum)
def overdueKeys (s : Fetcher) : List Nat := s.overdue.map (·.shnum)

/-- `len(self._shares_from_server.get(server, set()))` -/
def serverCount (s : Fetcher) (srv : Nat) : Nat := (s.outstanding.filter (fun x => x.server == srv)).length

/-! ### SegmentFetcher methods -/

/-- `stop()` -/
def stop (s : Fetcher) : Fetcher :=
  if s.running then { s with running := false, shares := [], outstanding := [], active := [] } else s

/-- `add_shares(l)` -/
def addShares (s : Fetcher) (l : List Share) : Fetcher :=
  if s.running then { s with shares := sortShares (s.shares ++ l), pending := s.pending + 1 }
  else { s with out := s.out ++ [.exc .attrError] }

/-- `no_more_shares()` -/
def noMoreShares (s : Fetcher) : Fetcher := { s with noMore := true, pending := s.pending + 1 }

/-- the `for sh in self._shares` scan of `_find_and_use_share`: the share to use (if any) and
`want_more_diversity` -/
def findShare (s : Fetcher) : List Share → Bool → Option Share × Bool
  | [], w => (none, w)
  | sh :: rest, w =>
    if sh.shnum ∈ blockKeys s then findShare s rest w
    else if sh.shnum ∈ activeKeys s then findShare s rest w
    else if s.maxPerServer ≤ serverCount s sh.server then findShare s rest true
    else (some sh, w)

/-- the body of the `for` after "ok, we can use this share" (incl. `_start_share`) -/
def useShare (s : Fetcher) (sh : Share) : Fetcher :=
  { s with shares := s.shares.erase sh, active := s.active ++ [sh],
           outstanding := insertSet sh s.outstanding, out := s.out ++ [.start sh] }

/-- `_ask_for_more_shares()` -/
def askMore (s : Fetcher) : Fetcher := if s.noMore then s else { s with out := s.out ++ [.wantMore] }

/-- `_no_shares_error()` (chooses the error class, `stop()`, `fetch_failed`) -/
def noSharesError (s : Fetcher) : Fetcher :=
  let e := if s.shares.isEmpty && s.active.isEmpty && s.overdue.isEmpty && s.blocks.isEmpty
           then Err.noShares else Err.notEnough
  { stop s with verdict := some (.failed e) }

/-- "yay!": `stop()`, `process_blocks(segnum, self._blocks)` -/
def deliver (s : Fetcher) : Fetcher := { stop s with verdict := some (.blocks s.blocks) }

/-- the `while` loop of `_do_loop` and the "are we done?" test after it -/
def whileLoop : Nat → Fetcher → Fetcher
  | 0, s => { s with out := s.out ++ [.exc .fuel] }
  | fuel + 1, s =>
    if distinct (blockKeys s ++ activeKeys s) < s.k then
      match findShare s s.shares false with
      | (some sh, _) => whileLoop fuel (useShare s sh)
      | (none, true) => whileLoop fuel (askMore { s with maxPerServer := s.maxPerServer + 1 })
      | (none, false) =>
        let s := askMore s
        if s.noMore then
          if distinct (blockKeys s ++ activeKeys s ++ overdueKeys s) < s.k then noSharesError s
          else s
        else s
    else if s.k ≤ distinct (blockKeys s) then deliver s
    else s

def fuelFor (s : Fetcher) : Nat := 3 * s.shares.length + s.outstanding.length + 2

/-- `_do_loop()` -/
def doLoop (s : Fetcher) : Fetcher :=
  if !s.running then s
  else if s.badSeg then { stop s with verdict := some (.failed .badSegnum) }
  else whileLoop (fuelFor s) s

def isTerminal : St → Bool
  | .overdue => false
  | _ => true

/-- `_block_request_activity(share, shnum, state)` -/
def blockActivity (s : Fetcher) (sh : Share) (st : St) : Fetcher :=
  if !s.running then s else
  let s1 := if isTerminal st then
      { s with outstanding := s.outstanding.filter (· ≠ sh), active := s.active.filter (· ≠ sh),
               overdue := s.overdue.filter (· ≠ sh) }
    else s
  let s2 := if st = .complete then { s1 with blocks := setBlock s1.blocks sh.shnum sh.id } else s1
  if st = .overdue then
    if sh.shnum ∈ activeKeys s2 then
      { s2 with active := s2.active.filter (fun x => x.shnum ≠ sh.shnum), overdue := insertSet sh s2.overdue,
                pending := s2.pending + 1 }
    else { s2 with out := s2.out ++ [.exc .keyError] }
  else { s2 with pending := s2.pending + 1 }

inductive Ev
  | addShares (l : List Share)
  | noMoreShares
  | share (sh : Share) (st : St)
  | segKnownBad
  | loop
  | stop
deriving DecidableEq, Repr

def step (s : Fetcher) : Ev → Fetcher
  | .addShares l => addShares s l
  | .noMoreShares => noMoreShares s
  | .share sh st => blockActivity s sh st
  | .segKnownBad => { s with badSeg := true }
  | .loop => doLoop { s with pending := s.pending - 1 }
  | .stop => stop s

def run (s : Fetcher) : List Ev → Fetcher
  | [] => s
  | e :: es => run (step s e) es

/-- the shares announced by an event / an event list -/
def announcedOf : Ev → List Share
  | .addShares l => l
  | _ => []

def announced : List Ev → List Share
  | [] => []
  | e :: es => announcedOf e ++ announced es

/-! ### DownloadNode segment queue -/

inductive Outcome | ok | err (e : Err) | decodeErr
deriving DecidableEq, Repr

structure ActiveSeg where
  gen : Nat            -- which SegmentFetcher object
  segnum : Nat
  f : Fetcher
deriving Repr

structure Node where
  fixed : Bool := true
  k : Nat
  numSegs : Nat                       -- real number of segments
  badSegs : List Nat := []            -- segments whose decode / ciphertext hash check fails
  haveUEB : Bool := false             -- `num_segments is not None`
  requests : List (Nat × Nat) := []   -- `_segment_requests`: (segnum, request id)
  active : Option ActiveSeg := none   -- `_active_segment`
  gen : Nat := 0
  known : List Share := []            -- `_shares`
  dead : List Share := []             -- shares with `is_alive() == False`
  retired : List (Nat × Outcome) := []  -- requests handed to `eventually(self._deliver, …)`
  log : List (Nat × Out) := []        -- (fetcher generation, call) for the correspondence
deriving Repr

inductive NEv
  | getSegment (segnum req : Nat)     -- `get_segment(segnum)`; `req` names the returned (d, c)
  | cancel (req : Nat)                -- `c.cancel()` → `_cancel_request`
  | gotShares (l : List Share)        -- `got_shares(l)` (ShareFinder)
  | noMoreShares                      -- `no_more_shares()` (ShareFinder)
  | uebKnown                          -- a share validated the UEB: `num_segments` is now authoritative
  | share (gen : Nat) (sh : Share) (st : St)   -- an observer of fetcher `gen` fires
  | loop (gen : Nat)                  -- a queued `loop` of fetcher `gen` runs
deriving DecidableEq, Repr

/-- `_extract_requests(segnum)` + the retirement loop -/
def retire (n : Node) (segnum : Nat) (o : Outcome) : Node :=
  { n with retired := n.retired ++ ((n.requests.filter (·.1 == segnum)).map (fun r => (r.2, o))),
           requests := n.requests.filter (·.1 != segnum) }

/-- `_start_new_segment()` -/
def startNewSegment (n : Node) : Node :=
  match n.active, n.requests with
  | none, (segnum, _) :: _ =>
    let alive := n.known.filter (fun sh => !(n.dead.contains sh))
    let f := addShares { init n.k with badSeg := n.haveUEB && n.numSegs ≤ segnum } alive
    { n with active := some { gen := n.gen, segnum := segnum, f := f }, gen := n.gen + 1 }
  | _, _ => n

/-- `fetch_failed(sf, f)` -/
def fetchFailed (n : Node) (segnum : Nat) (e : Err) : Node :=
  startNewSegment (retire { n with active := none } segnum (.err e))

/-- `process_blocks(segnum, blocks)` with its `_deliver` callback (decode is atomic) -/
def processBlocks (n : Node) (a : ActiveSeg) : Node :=
  if a.segnum ∈ n.badSegs then
    -- failure branch: requests are retired with the Failure; `_active_segment` is cleared only by the fix
    let n1 := if n.fixed then { n with active := none } else { n with active := some a }
    startNewSegment (retire n1 a.segnum .decodeErr)
  else
    startNewSegment (retire { n with active := none } a.segnum .ok)

/-- the active fetcher as it sees the node during this event: `get_num_segments()` is read at the
top of every `_do_loop`; the call log is per event -/
def viewOf (n : Node) (a : ActiveSeg) : Fetcher :=
  { a.f with badSeg := n.haveUEB && n.numSegs ≤ a.segnum, out := [] }

/-- run one event of the active fetcher and let the node react to a verdict -/
def fetcherEv (n : Node) (g : Nat) (e : Ev) : Node :=
  match n.active with
  | none => n
  | some a =>
    if a.gen ≠ g then n else
    let f' := step (viewOf n a) e
    let n := { n with log := n.log ++ f'.out.map (fun o => (g, o)) }
    let a' := { a with f := f' }
    match a.f.verdict, f'.verdict with
    | none, some (.failed err) => fetchFailed n a.segnum err
    | none, some (.blocks _) => processBlocks n a'
    | _, _ => { n with active := some a' }

def nstep (n : Node) : NEv → Node
  | .getSegment segnum req => startNewSegment { n with requests := n.requests ++ [(segnum, req)] }
  | .cancel req =>
    -- `Cancel.cancel()` is a no-op once the request was retired or cancelled (`c.active` is False)
    if !(n.requests.any (·.2 == req)) then n else
    let n := { n with requests := n.requests.filter (·.2 != req) }
    match n.active with
    | some a =>
      if (n.requests.map (·.1)).contains a.segnum then n
      else startNewSegment { n with active := none }     -- `seg.stop()`: the stopped fetcher is dropped
    | none => n
  | .gotShares l =>
    let n := { n with known := n.known ++ l.filter (fun sh => !(n.known.contains sh)) }
    match n.active with
    | some a => fetcherEv n a.gen (.addShares l)
    | none => n
  | .noMoreShares =>
    match n.active with
    | some a => fetcherEv n a.gen .noMoreShares
    | none => n
  | .uebKnown => { n with haveUEB := true }
  | .share g sh st =>
    let n := if st = .dead then { n with dead := n.dead ++ [sh] } else n
    fetcherEv n g (.share sh st)
  | .loop g => fetcherEv n g .loop

def nrun (n : Node) : List NEv → Node
  | [] => n
  | e :: es => nrun (nstep n e) es

end Tahoe.Fetch
