import Tahoe.Immutable.LemmasVerify
/-! Stage-by-stage soundness of the downloader's share-level validation (C02): share hash chain, block hash root,
    block hash tree, data block — each stage, run on a node whose trees are sound, keeps them sound whatever the
    share answers, and what it accepts is genuine. -/
namespace Tahoe.Integrity
open Tahoe.Base.Merkle

variable {H : Type} [DecidableEq H]

omit [DecidableEq H] in
theorem blockTree_set_same (nd : Node H) (sh m : Nat) (t : Tree H) : (nd.setBlockTree sh t).blockTree sh m = t := by
  simp [Node.blockTree, Node.setBlockTree]

omit [DecidableEq H] in
theorem setBlockTree_known (nd : Node H) (sh : Nat) (t : Tree H) :
    (nd.setBlockTree sh t).known = nd.known ∧ (nd.setBlockTree sh t).shareTree = nd.shareTree ∧
    (nd.setBlockTree sh t).ctTree = nd.ctTree := ⟨rfl, rfl, rfl⟩

/-- the genuine share hash leaves -/
def shareLeaves (E : Env H) (prm : Params) (encode : Nat → Bytes → Nat → Bytes) (ct : Bytes) : List H :=
  (List.range prm.n).map (fun s => rootOf E.ops (blockLeaves E prm encode ct s))

omit [DecidableEq H] in
theorem upload_shareT (E : Env H) (prm : Params) (ser : UEB H → Bytes) (encode : Nat → Bytes → Nat → Bytes) (ct : Bytes) :
    (upload E prm encode ser ct).shareT = build E.ops (shareLeaves E prm encode ct) := rfl

omit [DecidableEq H] in
theorem upload_blockT (E : Env H) (prm : Params) (ser : UEB H → Bytes) (encode : Nat → Bytes → Nat → Bytes) (ct : Bytes)
    (sh : Nat) : (upload E prm encode ser ct).blockT sh = build E.ops (blockLeaves E prm encode ct sh) := rfl

omit [DecidableEq H] in
/-- leaf `sh` of the genuine share hash tree is the root of the genuine block hash tree of share `sh` -/
theorem share_leaf (E : Env H) (prm : Params) (encode : Nat → Bytes → Nat → Bytes) (ct : Bytes) (sh : Nat) (hsh : sh < prm.n) :
    get (build E.ops (shareLeaves E prm encode ct)) (firstLeafNum prm.n + sh)
      = some (rootOf E.ops (blockLeaves E prm encode ct sh)) := by
  have hl : (shareLeaves E prm encode ct).length = prm.n := by simp [shareLeaves]
  have := build_leaf E.ops (shareLeaves E prm encode ct) sh (by rw [hl]; exact hsh)
  rw [hl] at this
  rw [this]
  simp [shareLeaves, List.getElem?_map, List.getElem?_range hsh]

section stages
variable {E : Env H} {cfg : Cfg}

/-- a `set_hashes` call on a sound tree, accepted or not, leaves a sound tree (indices in range) -/
theorem set_keeps_ok (hstrict : StrictPresence E.ops cfg) (hinj : PairInjective E.ops) {T t : Tree H}
    (hok : TreeOK E.ops T t) {pick : List Nat → Nat} {first : Nat} {hashes leaves : List (Nat × H)} {o : Outcome} {t' : Tree H}
    (hrange : ∀ new, mergeLeaves first hashes leaves = some new → ∀ e ∈ new, e.1 < t.length)
    (hs : setHashes E.ops cfg pick first t hashes leaves = (o, t')) :
    TreeOK E.ops T t' ∧ (o = .ok → ∀ k v, (k, v) ∈ leaves → get T (first + k) = some v) := by
  obtain ⟨hT, hlen, hag, hroot⟩ := hok
  by_cases ho : o = .ok
  · subst ho
    obtain ⟨a1, a2, a3, a4, _⟩ := setHashes_sound hstrict hinj hT hlen hag hroot hs
    exact ⟨⟨hT, a2, a1, a3⟩, fun _ => a4⟩
  · have := setHashes_fail_same hstrict hrange hs ho
    subst this
    exact ⟨⟨hT, hlen, hag, hroot⟩, fun e => absurd e ho⟩

/-- **share hash chain**: whatever chain the share supplies, the node's share hash tree stays a partial copy of
    the published one (a forged chain is rejected and rolled back, or consistent with it) -/
theorem stageShareTree_sound (hstrict : StrictPresence E.ops cfg) (hinj : PairInjective E.ops)
    (pick : List Nat → Nat) (cap : Cap H) (shnum : Nat) (v : View H) (nd : Node H) {T : Tree H}
    (hok : TreeOK E.ops T nd.shareTree) :
    TreeOK E.ops T (stageShareTree E cfg pick cap shnum v nd).2.shareTree := by
  unfold stageShareTree
  split; · exact hok
  split; · exact hok
  split; · exact hok
  simp only
  split; · exact hok
  rename_i hany
  have hrange : ∀ new, mergeLeaves (firstLeafNum cap.n) (dictOf v.shareHashes) [] = some new →
      ∀ e ∈ new, e.1 < nd.shareTree.length := by
    intro new hm e he
    have : new = dictOf v.shareHashes := by simp [mergeLeaves] at hm; exact hm.symm
    subst this
    have hn : ¬ ((dictOf v.shareHashes).any (fun e => decide (e.1 ≥ nd.shareTree.length)) = true) := hany
    rw [List.any_eq_true] at hn
    by_cases hlt : e.1 < nd.shareTree.length
    · exact hlt
    · exact absurd ⟨e, he, by simp; omega⟩ hn
  cases hs : setHashes E.ops cfg pick (firstLeafNum cap.n) nd.shareTree (dictOf v.shareHashes) [] with
  | mk o t' =>
    have := (set_keeps_ok hstrict hinj hok hrange hs).1
    cases o <;> exact this

omit [DecidableEq H] in
theorem treeOK_odd {ops : HashOps H} {T t : Tree H} (h : TreeOK ops T t) : t.length % 2 = 1 := by
  rw [h.2.1]; exact h.1.odd

/-- **block hash tree**: the hashes a share supplies for its block hash tree are accepted only if consistent with
    the (already anchored) tree; either way the tree stays a partial copy of the published block hash tree -/
theorem stageBlockHashes_sound (hstrict : StrictPresence E.ops cfg) (hinj : PairInjective E.ops)
    (pick : List Nat → Nat) (shnum segnum : Nat) (v : View H) (nd : Node H) {T : Tree H} {u : UEB H} {sz : Sizes}
    (hk : nd.known = some (u, sz)) (hok : TreeOK E.ops T (nd.blockTree shnum sz.numSegs)) :
    (stageBlockHashes E cfg pick shnum segnum v nd).2.known = nd.known ∧
    TreeOK E.ops T ((stageBlockHashes E cfg pick shnum segnum v nd).2.blockTree shnum sz.numSegs) := by
  unfold stageBlockHashes
  rw [hk]
  simp only
  cases hn : neededHashes? (nd.blockTree shnum sz.numSegs) (firstLeafNum sz.numSegs) segnum true with
  | none => simp only; exact ⟨hk, hok⟩
  | some needed =>
    cases needed with
    | nil => simp only; exact ⟨hk, hok⟩
    | cons a rest =>
      simp only
      cases hc : collect (a :: rest) v.blockHashes with
      | none => simp only; exact ⟨hk, hok⟩
      | some hs =>
        simp only
        have hrange : ∀ new, mergeLeaves (firstLeafNum sz.numSegs) hs [] = some new →
            ∀ e ∈ new, e.1 < (nd.blockTree shnum sz.numSegs).length := by
          intro new hm e he
          have : new = hs := by simp [mergeLeaves] at hm; exact hm.symm
          subst this
          exact neededHashes?_lt (treeOK_odd hok) hn _ (collect_keys hc e he)
        cases hsr : setHashes E.ops cfg pick (firstLeafNum sz.numSegs) (nd.blockTree shnum sz.numSegs) hs [] with
        | mk o t' =>
          have := (set_keeps_ok hstrict hinj hok hrange hsr).1
          cases o <;> exact ⟨hk, by rw [blockTree_set_same]; exact this⟩

/-- **data block**: a block is accepted (`state=COMPLETE`) only if its hash is the genuine leaf of the block hash
    tree; a rejected block leaves the tree as it was -/
theorem stageData_sound (hstrict : StrictPresence E.ops cfg) (hinj : PairInjective E.ops) (hcf : CollisionFree E)
    (pick : List Nat → Nat) (shnum segnum : Nat) (v : View H) (nd : Node H) {T : Tree H} {u : UEB H} {sz : Sizes}
    (genuine : Bytes) (hk : nd.known = some (u, sz)) (hok : TreeOK E.ops T (nd.blockTree shnum sz.numSegs))
    (hseg : segnum < sz.numSegs) (hlen : T.length = 2 * roundupPow2 sz.numSegs - 1)
    (hleaf : get T (firstLeafNum sz.numSegs + segnum) = some (E.tagged .block genuine)) :
    TreeOK E.ops T ((stageData E cfg pick shnum segnum v nd).2.blockTree shnum sz.numSegs) ∧
    ∀ b, (stageData E cfg pick shnum segnum v nd).1 = some (.block b) → b = genuine := by
  unfold stageData
  rw [hk]
  simp only
  generalize (if segnum + 1 = sz.numSegs then sz.tailBlockSize else sz.blockSize) = blocklen
  split
  · exact ⟨hok, fun b e => by simp at e⟩
  · have hrange : ∀ new, mergeLeaves (firstLeafNum sz.numSegs) [] [(segnum, E.tagged .block v.block)] = some new →
        ∀ e ∈ new, e.1 < (nd.blockTree shnum sz.numSegs).length := by
      intro new hm e he
      simp [mergeLeaves] at hm
      subst hm
      simp at he
      subst he
      have := roundupPow2_ge sz.numSegs
      have := roundupPow2_pos sz.numSegs
      rw [hok.2.1, hlen]
      show firstLeafNum sz.numSegs + segnum < _
      unfold firstLeafNum
      omega
    cases hsr : setHashes E.ops cfg pick (firstLeafNum sz.numSegs) (nd.blockTree shnum sz.numSegs) []
        [(segnum, E.tagged .block v.block)] with
    | mk o t' =>
      obtain ⟨h1, h2⟩ := set_keeps_ok hstrict hinj hok hrange hsr
      cases o with
      | ok =>
        simp only
        refine ⟨by rw [blockTree_set_same]; exact h1, ?_⟩
        intro b e
        injection e with e; injection e with e
        have := h2 rfl segnum (E.tagged .block v.block) (by simp)
        rw [hleaf] at this
        injection this with this
        rw [← e]; exact (hcf _ _ _ this).symm
      | badHash => exact ⟨by simp only; rw [blockTree_set_same]; exact h1, fun b e => by simp at e⟩
      | notEnough => exact ⟨by simp only; rw [blockTree_set_same]; exact h1, fun b e => by simp at e⟩
      | indexError => exact ⟨by simp only; rw [blockTree_set_same]; exact h1, fun b e => by simp at e⟩
      | internal => exact ⟨by simp only; rw [blockTree_set_same]; exact h1, fun b e => by simp at e⟩

/-- **block hash root**: the root of a share's block hash tree is taken only from the validated share hash tree
    leaf of that share number; when the stage lets the share continue, the block hash tree is anchored at the
    published block hash root of that share -/
theorem stageBlockRoot_sound (hstrict : StrictPresence E.ops cfg) (hinj : PairInjective E.ops)
    (pick : List Nat → Nat) {prm : Params} {ser : UEB H → Bytes} {encode : Nat → Bytes → Nat → Bytes} {ct : Bytes}
    (shnum : Nat) (hsh : shnum < prm.n) (nd : Node H) {u : UEB H} {sz : Sizes}
    (hk : nd.known = some (u, sz)) (hns : sz.numSegs = divCeil ct.length prm.segSize)
    (hshare : TreeOK E.ops (upload E prm encode ser ct).shareT nd.shareTree)
    (hbt : nd.blockTree shnum sz.numSegs = newTree H sz.numSegs ∨
      TreeOK E.ops ((upload E prm encode ser ct).blockT shnum) (nd.blockTree shnum sz.numSegs))
    (nd1 : Node H) (h : stageBlockRoot E cfg pick (upload E prm encode ser ct).cap shnum nd = (none, nd1)) :
    nd1.known = nd.known ∧ nd1.shareTree = nd.shareTree ∧
    TreeOK E.ops ((upload E prm encode ser ct).blockT shnum) (nd1.blockTree shnum sz.numSegs) := by
  unfold stageBlockRoot at h
  rw [hk] at h
  simp only at h
  split at h
  · rename_i htr
    injection h with _ h2; subst h2
    refine ⟨rfl, rfl, ?_⟩
    rcases hbt with hb | hb
    · rw [hb, get_newTree] at htr; simp [truthyOpt] at htr
    · exact hb
  · split at h
    · cases h
    · rename_i r hr
      have hleaf : get (upload E prm encode ser ct).shareT (firstLeafNum prm.n + shnum) = some r := hshare.2.2.1 _ _ hr
      rw [upload_shareT, share_leaf E prm encode ct shnum hsh] at hleaf
      injection hleaf with hleaf
      have hlenL : sz.numSegs = (blockLeaves E prm encode ct shnum).length := by
        rw [hns]; simp [blockLeaves, segments]
      split at h
      · rename_i hnone
        injection h with _ h2; subst h2
        refine ⟨rfl, rfl, ?_⟩
        rw [blockTree_set_same, upload_blockT]
        rcases hbt with hb | hb
        · rw [hb, ← hleaf]; exact seed_ok hlenL
        · exact absurd hnone hb.2.2.2
      · rename_i hsome
        have hb : TreeOK E.ops ((upload E prm encode ser ct).blockT shnum) (nd.blockTree shnum sz.numSegs) := by
          rcases hbt with hb | hb
          · rw [hb, get_newTree] at hsome; exact absurd rfl hsome
          · exact hb
        have hrange : ∀ new, mergeLeaves (firstLeafNum sz.numSegs) [(0, r)] [] = some new →
            ∀ e ∈ new, e.1 < (nd.blockTree shnum sz.numSegs).length := by
          intro new hm e he
          simp [mergeLeaves] at hm
          subst hm
          simp at he; subst he
          exact lt_of_get_ne_none hb.2.2.2
        cases hsr : setHashes E.ops cfg pick (firstLeafNum sz.numSegs) (nd.blockTree shnum sz.numSegs) [(0, r)] [] with
        | mk o t' =>
          rw [hsr] at h
          have h1 := (set_keeps_ok hstrict hinj hb hrange hsr).1
          cases o with
          | ok =>
            simp only at h
            injection h with _ h2; subst h2
            exact ⟨rfl, rfl, by rw [blockTree_set_same]; exact h1⟩
          | badHash => simp at h
          | notEnough => simp at h
          | indexError => simp at h
          | internal => simp at h

end stages

end Tahoe.Integrity
