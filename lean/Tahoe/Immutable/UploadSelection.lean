import Tahoe.Immutable.UploadDecision
import Tahoe.Happiness.Selector
/-
Model of the bookkeeping of `Tahoe2ServerSelector.get_shareholders` (immutable/upload.py) over its query
rounds, composed with the upload decision of `UploadDecision.lean`:
    answers of the servers  →  (use_trackers, peer_selector.get_sharemap_of_preexisting_shares())
                            →  CHKUploader.set_shareholders  →  Encoder  →  verdict.
The answers arrive as a history of events, in any order and any number of rounds:
  * `gotBuckets srv shares`  — `_handle_existing_response` / `_handle_existing_write_response` with a
      successful `get_buckets` answer: `peer_selector.add_peer_with_share(srv, sh)` for every share;
  * `gotBucketsErr srv`      — the same handlers with a Failure: `peer_selector.mark_bad_peer(srv)`;
  * `allocated srv asked alreadygot allocd` — `_buckets_allocated` with an `allocate_buckets` answer:
      `ServerTracker._buckets_allocated` has done `self.buckets.update(allocd)` (buckets ACCUMULATE over the
      rounds: a share re-homed in a later round keeps its first writer, DESIGN 8.9); the tracker joins
      `use_trackers` iff `allocd` is non-empty.  `alreadygot` only goes to `self.preexisting_shares`, a dict
      used for the progress message: it is NOT part of what get_shareholders returns, and not counted
      by the happiness test (the code as it is; seeded change C06-d altered exactly this);
  * `allocErr srv asked`     — `_buckets_allocated` with a Failure: `peer_selector.mark_readonly_peer(srv)`.
The peer selector is C07/C08's `Tahoe.Happiness.SelState` (reused, not copied); `preOf` is
`PeerSelector.get_sharemap_of_preexisting_shares()`.
Not modelled here: which shares are asked of which server (`get_share_placements`, C07), the loop's stopping
rule, `homeless_shares` and the query statistics (they only feed messages) — the history is arbitrary, which
covers every behaviour of that control code.  Mathlib-free, executable.
-/
namespace Tahoe.UploadDecision
open Tahoe.Happiness (SelState SelOp SetMap rel)

inductive SelEv
  | gotBuckets (srv : Nat) (shares : List Nat)
  | gotBucketsErr (srv : Nat)
  | allocated (srv : Nat) (asked alreadygot allocd : List Nat)
  | allocErr (srv : Nat) (asked : List Nat)
  deriving Repr

structure SelSt where
  sel : SelState                       -- self.peer_selector
  trackers : List (Nat × List Nat)     -- serverid ↦ keys of ServerTracker.buckets (only servers that allocated something)
  use : List Nat                       -- self.use_trackers (server ids)
  deriving Repr

def insNew (l : List Nat) (x : Nat) : List Nat := if x ∈ l then l else l ++ [x]

def SelSt.step (st : SelSt) : SelEv → SelSt
  | .gotBuckets srv shares =>
    { st with sel := shares.foldl (fun s sh => s.next (.addPeerWithShare srv sh)) st.sel }
  | .gotBucketsErr srv => { st with sel := st.sel.next (.markBad srv) }
  | .allocated srv _ _ allocd =>
    { st with trackers := allocd.foldl (fun m sh => addPeer m srv sh) st.trackers,
              use := if allocd.isEmpty then st.use else insNew st.use srv }
  | .allocErr srv _ => { st with sel := st.sel.next (.markReadonly srv) }

def select (total : Nat) (evs : List SelEv) : SelSt := evs.foldl SelSt.step ⟨SelState.init total, [], []⟩

/-- `PeerSelector.get_sharemap_of_preexisting_shares()`: a DictOfSets shnum ↦ servers built from
`existing_shares` (server ↦ shnums) -/
def preOf (existing : SetMap) : Sharemap :=
  mergeTrackers [] (existing.flatMap (fun e => e.2.map (fun sh => (sh, e.1))))

/-- the (shnum, server) pairs of `use_trackers`, as `CHKUploader.set_shareholders` walks them -/
def allocOf (st : SelSt) : List (Nat × Nat) := rel (st.trackers.filter (fun t => t.1 ∈ st.use))

/-- server selection over any history of answers, then the upload decision on its result -/
def selectThenUpload (hp : Sharemap → Nat) (happy total : Nat) (evs : List SelEv)
    (phases : List (List Nat)) (closeEvs : List CloseEv) : Result :=
  let st := select total evs
  upload hp happy (preOf st.sel.existing) (allocOf st) phases closeEvs

end Tahoe.UploadDecision
