import Tahoe.Immutable.Sizes
import Tahoe.Immutable.Layout
/-
The immutable data path as a pure pipeline (Mathlib-free, executable).

Upload  (immutable/upload.py, immutable/encode.py):
  * `EncryptAnUploadable._hash_and_encrypt_plaintext`: one AES-CTR encryptor (counter 0) fed every
    plaintext chunk in order                                                    → `encrypt`
  * `Encoder._gather_data` (read `num_chunks*chunk_size` bytes, precondition on short reads unless
    `allow_short`, zero padding, chopping into `input_chunk_size` pieces)         → `gatherData`, `chop`
  * `Encoder._encode_segment` + the loop in `Encoder.start` (`num_segments-1` full segments with
    `_codec`, then the tail with `_tail_codec`, reading the uploadable sequentially) → `encodeSegments`
  * `Encoder.send_block` → `WriteBucketProxy.put_block`: block `segnum` of share `j` is appended to
    share `j`'s data section                                                     → `shareData`
  * the UEB fields the downloader uses, the cap fields                            → `UEB`, `Uploaded`
Download (immutable/downloader/{node,share,segmentation}.py, immutable/filenode.py):
  * `Share._satisfy_data_block`: `data + segnum*block_size`, `tail_block_size` for the last → `fetchBlock`
  * `DownloadNode._decode_blocks` (tail codec, length assertions, trim to `tail_segment_size`) → `decodeSegment`
  * `DownloadNode.read` clipping, `Segmentation._fetch_next/_got_segment/_retry_bad_segment`
    (guessed vs actual segment size, overlap trimming, one retry)                 → `clipRead`, `segLoop`, `readCiphertext`
  * `DecryptingConsumer` (`offset // 16` counter blocks, discard `offset % 16` keystream bytes) → `decryptAt`
  * `LiteralFileNode.read`                                                        → `litRead`

Parameters, not models: the erasure code (`Codec`, with the MDS law `Codec.Lawful` as a hypothesis —
zfec is exercised, not verified) and AES (`ks : Key → Nat → Block16`, the keystream block for a
counter value; encryption = xor).  Hashes / hash trees / the UEB hash are C02's subject and are not
in this model.  The asynchronous machinery (which servers answer first) enters through
`pick : segnum → list of k share numbers`.
-/
namespace Tahoe.Immutable.Pipeline
open Tahoe.Immutable Tahoe.Immutable.Sizes

abbrev Bytes := List UInt8
abbrev Block16 := Fin 16 → UInt8

/-! ### AES-CTR as a keystream -/

/-- keystream byte at absolute stream position `p` (counter block `p / 16`, byte `p % 16`) -/
def ksByte {Key : Type} (ks : Key → Nat → Block16) (key : Key) (p : Nat) : UInt8 :=
  ks key (p / 16) ⟨p % 16, Nat.mod_lt _ (by decide)⟩

def keystream {Key : Type} (ks : Key → Nat → Block16) (key : Key) (start len : Nat) : Bytes :=
  (List.range len).map (fun i => ksByte ks key (start + i))

def xorBytes (a b : Bytes) : Bytes := List.zipWith (· ^^^ ·) a b

/-- the uploader's encryptor: counter starts at 0, all chunks pass through the same stream -/
def encrypt {Key : Type} (ks : Key → Nat → Block16) (key : Key) (pt : Bytes) : Bytes :=
  xorBytes pt (keystream ks key 0 pt.length)

/-- `DecryptingConsumer(consumer, readkey, offset)`: iv = `offset // 16`, then `offset % 16` keystream
    bytes are thrown away by decrypting that many zero bytes; every later `write` continues the stream -/
def decryptAt {Key : Type} (ks : Key → Nat → Block16) (key : Key) (offset : Nat) (ct : Bytes) : Bytes :=
  let offsetBig := offset / 16
  let offsetSmall := offset % 16
  xorBytes ct ((keystream ks key (offsetBig * 16) (offsetSmall + ct.length)).drop offsetSmall)

/-! ### the erasure code as a parameter -/

structure Codec where
  /-- `zfec.Encoder(k, n).encode(inshares)` for all `n` share ids: `n` blocks -/
  encode : (k n : Nat) → List Bytes → List Bytes
  /-- `zfec.Decoder(k, n).decode(blocks, ids)`: the `k` primary pieces -/
  decode : (k n : Nat) → List (Nat × Bytes) → List Bytes

/-- the MDS law (any `k` distinct blocks recover the input) plus the block-length facts of zfec -/
structure Codec.Lawful (c : Codec) (k n : Nat) : Prop where
  length_encode : ∀ (pieces : List Bytes) (L : Nat), pieces.length = k → (∀ p ∈ pieces, p.length = L) →
      (c.encode k n pieces).length = n
  block_length : ∀ (pieces : List Bytes) (L : Nat), pieces.length = k → (∀ p ∈ pieces, p.length = L) →
      ∀ b ∈ c.encode k n pieces, b.length = L
  mds : ∀ (pieces : List Bytes) (L : Nat) (ids : List Nat), pieces.length = k → (∀ p ∈ pieces, p.length = L) →
      ids.length = k → ids.Nodup → (∀ i ∈ ids, i < n) →
      c.decode k n (ids.map (fun i => (i, (c.encode k n pieces).getD i []))) = pieces

/-- what a schedule may hand to `_decode_blocks` for one segment: `k` distinct share numbers below `n` -/
def ValidIds (k n : Nat) (ids : List Nat) : Prop := ids.length = k ∧ ids.Nodup ∧ ∀ i ∈ ids, i < n

/-! ### upload -/

/-- `[data[i:i+sz] for i in range(0, len(data), sz)]` (`sz = 0` would be a ValueError; callers have `sz > 0`) -/
def chop (sz : Nat) (data : Bytes) : List Bytes :=
  (List.range (divCeil data.length sz)).map (fun j => (data.drop (j * sz)).take sz)

/-- `Encoder._gather_data` on the remaining ciphertext of the uploadable: returns the pieces and the
    ciphertext left for the next call -/
def gatherData (rest : Bytes) (numChunks chunkSize : Nat) (allowShort : Bool) : Except Err (List Bytes × Bytes) :=
  let readSize := numChunks * chunkSize
  let data := rest.take readSize                   -- read_encrypted: exactly read_size bytes unless EOF
  if !allowShort && data.length != readSize then .error .assertion     -- precondition(len(data) == read_size)
  else
    let data := if allowShort && data.length < readSize
                then data ++ List.replicate (readSize - data.length) (0 : UInt8) else data
    .ok (chop chunkSize data, rest.drop readSize)

/-- `_encode_segment`: gather, `assert len(c) == input_piece_size` for every piece, `codec.encode` -/
def encodeSegment (c : Codec) (k n : Nat) (rest : Bytes) (pieceSize : Nat) (isTail : Bool) :
    Except Err (List Bytes × Bytes) :=
  match gatherData rest k pieceSize isTail with
  | .error e => .error e
  | .ok (chunks, rest') =>
    if chunks.any (fun ch => ch.length != pieceSize) then .error .assertion
    else .ok (c.encode k n chunks, rest')

/-- the loop of `Encoder.start`: `m` full segments, then the tail segment -/
def encodeSegments (c : Codec) (k n : Nat) (e : EncSizes) : Nat → Bytes → Except Err (List (List Bytes))
  | 0, rest =>
    match encodeSegment c k n rest e.tailBlockSize true with
    | .error err => .error err
    | .ok (blocks, _) => .ok [blocks]
  | m + 1, rest =>
    match encodeSegment c k n rest e.blockSize false with
    | .error err => .error err
    | .ok (blocks, rest') =>
      match encodeSegments c k n e m rest' with
      | .error err => .error err
      | .ok tl => .ok (blocks :: tl)

/-- data section of share `j`: its block of every segment, in segment order -/
def shareData (segs : List (List Bytes)) (j : Nat) : Bytes := (segs.map (fun blocks => blocks.getD j [])).flatten

/-- the UEB entries written by `_got_all_encoding_parameters` (hash fields omitted) -/
structure UEB where
  size : Nat
  segmentSize : Nat
  numSegments : Nat
  neededShares : Nat
  totalShares : Nat
  codecSize : Nat        -- first number of `codec_params`  "%d-%d-%d"
  tailCodecSize : Nat    -- first number of `tail_codec_params`
  deriving DecidableEq, Repr

/-- what an upload leaves behind: the read-cap fields, the UEB, and `n` share data sections -/
structure Uploaded (Key : Type) where
  key : Key
  k : Nat
  n : Nat
  size : Nat
  ueb : UEB
  shares : List Bytes

def upload {Key : Type} (ks : Key → Nat → Block16) (c : Codec) (key : Key) (pt : Bytes) (k n maxSeg : Nat) :
    Except Err (Uploaded Key) :=
  match segSize k maxSeg pt.length with
  | .error e => .error e
  | .ok seg =>
    match encoderSizes pt.length k seg with
    | .error e => .error e
    | .ok e =>
      match encodeSegments c k n e (e.numSegments - 1) (encrypt ks key pt) with
      | .error err => .error err
      | .ok segs =>
        .ok { key := key, k := k, n := n, size := pt.length
              ueb := { size := pt.length, segmentSize := e.segmentSize, numSegments := e.numSegments,
                       neededShares := k, totalShares := n, codecSize := e.segmentSize,
                       tailCodecSize := e.paddedTailSize }
              shares := (List.range n).map (shareData segs) }

/-! ### download -/

/-- block `segnum` of a share, relative to the start of its data section -/
def fetchBlock (share : Bytes) (d : DlSizes) (segnum : Nat) : Bytes :=
  (share.drop (segnum * d.blockSize)).take (Layout.readBlockLen d segnum)

/-- `_decode_blocks` on the blocks of the shares `ids` -/
def decodeSegment (c : Codec) (k n : Nat) (d : DlSizes) (segsize : Nat) (shares : List Bytes)
    (ids : List Nat) (segnum : Nat) : Except Err Bytes :=
  let tail := segnum == d.numSegments - 1
  let blockSize := if tail then d.tailBlockSize else d.blockSize
  let decodedSize := if tail then d.tailSegmentPadded else segsize
  let blocks := ids.map (fun i => (i, fetchBlock (shares.getD i []) d segnum))
  if blocks.any (fun b => b.2.length != blockSize) then .error .assertion      -- assert len(share) == block_size
  else
    let segment := (c.decode k n blocks).flatten
    if segment.length != decodedSize then .error .assertion                    -- assert len(segment) == decoded_size
    else .ok (if tail then segment.take d.tailSegmentSize else segment)

/-- what `DownloadNode.get_segment(segnum)` eventually fires with: `(offset, segment)`;
    BadSegmentNumberError for `segnum ≥ num_segments` -/
def getSegment {Key : Type} (c : Codec) (u : Uploaded Key) (d : DlSizes) (pick : Nat → List Nat) (segnum : Nat) :
    Except Err (Nat × Bytes) :=
  if segnum ≥ d.numSegments then .error .badSegment
  else match decodeSegment c u.k u.n d u.ueb.segmentSize u.shares (pick segnum) segnum with
    | .error e => .error e
    | .ok seg => .ok (segnum * u.ueb.segmentSize, seg)

/-- `[f x for x in l]` where any exception aborts -/
def mapE {α β : Type} (f : α → Except Err β) : List α → Except Err (List β)
  | [] => .ok []
  | x :: xs =>
    match f x with
    | .error e => .error e
    | .ok y =>
      match mapE f xs with
      | .error e => .error e
      | .ok ys => .ok (y :: ys)

/-- whole-file ciphertext: every segment in order -/
def downloadCiphertext {Key : Type} (c : Codec) (u : Uploaded Key) (pick : Nat → List Nat) : Except Err Bytes :=
  match calculateSizes u.size u.k u.ueb.segmentSize with
  | .error e => .error e
  | .ok d =>
    match mapE (fun s => (getSegment c u d pick s).map (·.2)) (List.range d.numSegments) with
    | .error e => .error e
    | .ok segs => .ok segs.flatten

/-- `download_to_data` with the returned cap -/
def download {Key : Type} (ks : Key → Nat → Block16) (c : Codec) (u : Uploaded Key) (pick : Nat → List Nat) :
    Except Err Bytes :=
  (downloadCiphertext c u pick).map (decryptAt ks u.key 0)

/-! ### random-access reads (C04) -/

/-- `DownloadNode.read`: `size = verifycap.size if size is None`, then
    `max(0, min(size, verifycap.size - offset))` (integer arithmetic; for non-negative arguments the
    truncated subtraction of `Nat` gives the same value) -/
def clipRead (fileSize offset : Nat) (size : Option Nat) : Nat :=
  min (size.getD fileSize) (fileSize - offset)

/-- `allmydata.util.spans.overlap` -/
def overlap (start0 length0 start1 length1 : Nat) : Option (Nat × Nat) :=
  let left := max start0 start1
  let right := min (start0 + length0) (start1 + length1)
  if left < right then some (left, right - left) else none

/-- `Segmentation._got_segment` on one delivered segment: `none` = WrongSegmentError ("I was given the
    wrong data": no overlap, or the overlap does not start at `offset`), otherwise the bytes written
    to the consumer (`segment[offset_in_segment : offset_in_segment + o[1]]`) -/
def gotSegment (segStart : Nat) (segment : Bytes) (offset size : Nat) : Option Bytes :=
  match overlap segStart segment.length offset size with
  | none => none
  | some (o0, o1) => if o0 ≠ offset then none else some ((segment.drop (offset - segStart)).take o1)

/-- The loop `_fetch_next` → `get_segment` → `_got_segment` (→ `_retry_bad_segment`) of one
    `Segmentation`.  `known`: the node already has the real segment size (`n.segment_size is not None`),
    otherwise the guess is used and one WrongSegmentError/BadSegmentNumberError is forgiven; after any
    answered `get_segment` the real size is known.  `fuel` bounds the recursion (each round consumes
    either a byte or the one retry); running out is reported as `assertion`.
    Returns one event per `get_segment` call: the segment number asked for and the chunk handed to
    `consumer.write` (`none` when the answer was unusable and the request is retried). -/
def segLoop (getSeg : Nat → Except Err (Nat × Bytes)) (segsize guessed : Nat) :
    Nat → Bool → Nat → Nat → Except Err (List (Nat × Option Bytes))
  | 0, _, _, size => if size = 0 then .ok [] else .error .assertion
  | fuel + 1, known, offset, size =>
    if size = 0 then .ok []
    else
      let segmentSize := if known then segsize else guessed     -- `n.segment_size or n.guessed_segment_size`
      let wanted := if offset = 0 then 0 else offset / segmentSize
      let retry : Except Err (List (Nat × Option Bytes)) :=
        if known then .error .badSegment
        else match segLoop getSeg segsize guessed fuel true offset size with
          | .error e => .error e
          | .ok rest => .ok ((wanted, none) :: rest)
      match getSeg wanted with
      | .error .badSegment => retry
      | .error e => .error e
      | .ok (segStart, segment) =>
        match gotSegment segStart segment offset size with
        | none => retry
        | some desired =>
          match segLoop getSeg segsize guessed fuel true (offset + desired.length) (size - desired.length) with
          | .error e => .error e
          | .ok rest => .ok ((wanted, some desired) :: rest)

/-- the chunks written to the consumer, in order -/
def chunksOf (evs : List (Nat × Option Bytes)) : List Bytes := evs.filterMap (·.2)

/-- `CiphertextFileNode.read(consumer, offset, size)`: the `get_segment` calls and consumer writes.
    (`guessed = 0` would be a ZeroDivisionError in `offset // segment_size`; it needs
    `default_max_segment_size = 0`, which the theorems exclude by hypothesis.) -/
def readEvents {Key : Type} (c : Codec) (u : Uploaded Key) (pick : Nat → List Nat) (defaultMaxSeg : Nat)
    (known : Bool) (offset : Nat) (size : Option Nat) : Except Err (List (Nat × Option Bytes)) :=
  match calculateSizes u.size u.k u.ueb.segmentSize with
  | .error e => .error e
  | .ok d =>
    let sz := clipRead u.size offset size
    if sz = 0 then .ok []
    else segLoop (getSegment c u d pick) u.ueb.segmentSize (guessedSegSize u.size u.k defaultMaxSeg)
           (sz + 2) known offset sz

def readCiphertext {Key : Type} (c : Codec) (u : Uploaded Key) (pick : Nat → List Nat) (defaultMaxSeg : Nat)
    (known : Bool) (offset : Nat) (size : Option Nat) : Except Err (List Bytes) :=
  (readEvents c u pick defaultMaxSeg known offset size).map chunksOf

/-! ### several readers of one node (C04) -/

/-- what one `Segmentation` still wants (`_offset`, `_size`) and what it has written so far -/
structure ReaderState where
  offset : Nat
  size : Nat
  out : Bytes
  deriving DecidableEq, Repr

/-- one firing of `Segmentation._got_segment` with a delivered segment: WrongSegmentError leaves the state
    unchanged (the request is retried or the read fails — nothing is written), otherwise the trimmed
    bytes are written and `_offset` / `_size` advance -/
def ReaderState.deliver (st : ReaderState) (segStart : Nat) (segment : Bytes) : ReaderState :=
  match gotSegment segStart segment st.offset st.size with
  | none => st
  | some d => { offset := st.offset + d.length, size := st.size - d.length, out := st.out ++ d }

/-- `l` with `f` applied at index `i` -/
def updateAt {α : Type} (l : List α) (i : Nat) (f : α → α) : List α :=
  match l, i with
  | [], _ => []
  | x :: xs, 0 => f x :: xs
  | x :: xs, i + 1 => x :: updateAt xs i f

/-- one reader fed the segments `segnums` of a file with ciphertext `ct` and segment size `seg`, in that order -/
def feed (ct : Bytes) (seg : Nat) (st : ReaderState) (segnums : List Nat) : ReaderState :=
  segnums.foldl (fun st s => st.deliver (s * seg) ((ct.drop (s * seg)).take seg)) st

/-- m readers under an arbitrary schedule: event `(i, s)` = reader `i` is handed segment `s` (by its own
    request or because another reader's request made the node fetch it).  Pause / resume events change no
    reader's `(offset, size, out)` and are therefore not represented; a stopped reader simply receives
    no further events. -/
def feedAll (ct : Bytes) (seg : Nat) (sts : List ReaderState) (events : List (Nat × Nat)) : List ReaderState :=
  events.foldl (fun sts ev => updateAt sts ev.1 (fun st => st.deliver (ev.2 * seg) ((ct.drop (ev.2 * seg)).take seg))) sts

/-- `ImmutableFileNode.read`: the ciphertext chunks pass through one `DecryptingConsumer` -/
def read {Key : Type} (ks : Key → Nat → Block16) (c : Codec) (u : Uploaded Key) (pick : Nat → List Nat)
    (defaultMaxSeg : Nat) (known : Bool) (offset : Nat) (size : Option Nat) : Except Err Bytes :=
  (readCiphertext c u pick defaultMaxSeg known offset size).map (fun chunks => decryptAt ks u.key offset chunks.flatten)

/-- `LiteralFileNode.read`: `data[offset:]` / `data[offset:offset+size]` -/
def litRead (data : Bytes) (offset : Nat) (size : Option Nat) : Bytes :=
  match size with
  | none => data.drop offset
  | some s => (data.drop offset).take s

end Tahoe.Immutable.Pipeline
