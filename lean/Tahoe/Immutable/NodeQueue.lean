/-
The segment-request queue that all readers of one `DownloadNode` share
(immutable/downloader/node.py), Mathlib-free and executable.

  * `_segment_requests` (list of `(segnum, d, cancel_handle, …)`, duplicates allowed) and
    `_active_segment` (the `SegmentFetcher`, here its `segnum`)                → `Node`
  * `_start_new_segment`                                                      → `startNew`
  * `get_segment` (append the request, then `_start_new_segment`)             → `getSegment`
  * `_extract_requests(segnum)`                                               → `extract`
  * `process_blocks`, success branch: `_active_segment = None`, retire every request for the
    segment, `_start_new_segment`                                             → `deliver`
  * `_cancel_request(cancel)`: filter by cancel handle; if nobody wants the active segment any
    more, stop it and `_start_new_segment`                                     → `cancel`

Cancel handles are modelled as natural numbers (one fresh handle per `get_segment` call).  The
failure branches (`fetch_failed`, decode/hash failure) belong to C03/C46 and are not modelled.
-/
namespace Tahoe.Immutable.NodeQueue

structure Req where
  segnum : Nat
  handle : Nat
  deriving DecidableEq, Repr

structure Node where
  requests : List Req
  active : Option Nat
  deriving DecidableEq, Repr

def empty : Node := { requests := [], active := none }

def startNew (nd : Node) : Node :=
  match nd.active, nd.requests with
  | none, r :: _ => { nd with active := some r.segnum }
  | _, _ => nd

def getSegment (nd : Node) (segnum handle : Nat) : Node :=
  startNew { nd with requests := nd.requests ++ [{ segnum := segnum, handle := handle }] }

/-- `(retired, remaining)` -/
def extract (nd : Node) (segnum : Nat) : List Req × List Req :=
  (nd.requests.filter (fun r => r.segnum == segnum), nd.requests.filter (fun r => r.segnum != segnum))

/-- the active fetch completes: returns the handles that receive the segment, and the new node -/
def deliver (nd : Node) : List Nat × Node :=
  match nd.active with
  | none => ([], nd)
  | some s =>
    let (retired, remaining) := extract nd s
    (retired.map (·.handle), startNew { requests := remaining, active := none })

def cancel (nd : Node) (h : Nat) : Node :=
  let reqs := nd.requests.filter (fun r => r.handle != h)
  match nd.active with
  | some s =>
    if reqs.any (fun r => r.segnum == s) then { requests := reqs, active := some s }
    else startNew { requests := reqs, active := none }
  | none => { requests := reqs, active := none }

inductive Op where
  | get (segnum handle : Nat)
  | deliver
  | cancel (handle : Nat)
  deriving DecidableEq, Repr

def step (nd : Node) : Op → Node
  | .get s h => getSegment nd s h
  | .deliver => (deliver nd).2
  | .cancel h => cancel nd h

def run (nd : Node) (ops : List Op) : Node := ops.foldl step nd

/-- whenever a request is pending a fetch is active, and the active fetch is for a segment somebody wants -/
def Inv (nd : Node) : Prop :=
  (nd.requests ≠ [] → nd.active.isSome) ∧ (∀ s, nd.active = some s → ∃ r ∈ nd.requests, r.segnum = s)

end Tahoe.Immutable.NodeQueue
