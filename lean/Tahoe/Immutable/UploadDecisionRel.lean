import Tahoe.Immutable.UploadDecision
/-! The (server, share) relation of the encoder's servermap (helper lemmas for C06):
`addPeer` / `removePeer` / `mergeTrackers` add and remove exactly one pair on well-formed maps, and the
layout invariant `Lay`: servermap = pre-existing pairs ∪ the landlords still in use. -/
namespace Tahoe.UploadDecision
open Tahoe.Happiness (rel)

def shnums (l : List (Nat × Nat)) : List Nat := l.map (·.1)

theorem mem_shnums_filter (l : List (Nat × Nat)) (sh x : Nat) :
    x ∈ shnums (l.filter (fun a => a.1 != sh)) ↔ x ∈ shnums l ∧ x ≠ sh := by
  simp only [shnums, List.mem_map, List.mem_filter]
  constructor
  · rintro ⟨a, ⟨ha, hne⟩, rfl⟩; exact ⟨⟨a, ha, rfl⟩, by simpa using hne⟩
  · rintro ⟨⟨a, ha, rfl⟩, hne⟩; exact ⟨a, ⟨ha, by simpa using hne⟩, rfl⟩

theorem lookup_some_mem (l : List (Nat × Nat)) (sh p : Nat) (h : l.lookup sh = some p) : sh ∈ shnums l := by
  induction l with
  | nil => simp at h
  | cons a rest ih =>
    obtain ⟨a1, a2⟩ := a
    simp only [List.lookup_cons] at h
    split at h
    · rename_i heq; simp only [shnums, List.map_cons, List.mem_cons]; left; simpa using heq
    · simp only [shnums, List.map_cons, List.mem_cons]; right; exact ih h

theorem lookup_some_mem_pair (l : List (Nat × Nat)) (sh p : Nat) (h : l.lookup sh = some p) : (sh, p) ∈ l := by
  induction l with
  | nil => simp at h
  | cons a rest ih =>
    obtain ⟨a1, a2⟩ := a
    simp only [List.lookup_cons] at h
    split at h
    · rename_i heq
      have h1 : sh = a1 := by simpa using heq
      have h2 : a2 = p := by simpa using h
      subst h1 h2; simp
    · exact List.mem_cons_of_mem _ (ih h)

theorem lookup_none_not_mem (l : List (Nat × Nat)) (sh : Nat) (h : l.lookup sh = none) : sh ∉ shnums l := by
  induction l with
  | nil => simp [shnums]
  | cons a rest ih =>
    obtain ⟨a1, a2⟩ := a
    simp only [List.lookup_cons] at h
    split at h
    · simp at h
    · rename_i hne
      simp only [shnums, List.map_cons, List.mem_cons, not_or]
      exact ⟨by simpa using hne, ih h⟩

/-- a dict: in a list with distinct keys a key has one value -/
theorem nodup_keys_unique (l : List (Nat × Nat)) (h : (shnums l).Nodup) (a b c : Nat)
    (h1 : (a, b) ∈ l) (h2 : (a, c) ∈ l) : b = c := by
  induction l with
  | nil => simp at h1
  | cons x rest ih =>
    simp only [shnums, List.map_cons, List.nodup_cons, List.mem_map, not_exists, not_and] at h
    simp only [List.mem_cons] at h1 h2
    rcases h1 with h1 | h1 <;> rcases h2 with h2 | h2
    · rw [← h1] at h2; exact (Prod.mk.inj h2).2.symm
    · exact absurd (by rw [← h1]) (h.1 (a, c) h2)
    · exact absurd (by rw [← h2]) (h.1 (a, b) h1)
    · exact ih h.2 h1 h2

/-- a Python dict of sets: distinct keys, duplicate-free values -/
def WFmap (m : Sharemap) : Prop := (m.map (·.1)).Nodup ∧ ∀ e ∈ m, e.2.Nodup

theorem mem_rel_cons (s0 : Nat) (ps : List Nat) (rest : Sharemap) (p s : Nat) :
    (p, s) ∈ rel ((s0, ps) :: rest) ↔ (s = s0 ∧ p ∈ ps) ∨ (p, s) ∈ rel rest := by
  simp only [rel, List.flatMap_cons, List.mem_append, List.mem_map, Prod.mk.injEq]
  constructor
  · rintro (⟨q, hq, rfl, rfl⟩ | h)
    · exact Or.inl ⟨rfl, hq⟩
    · exact Or.inr h
  · rintro (⟨rfl, hp⟩ | h)
    · exact Or.inl ⟨p, hp, rfl, rfl⟩
    · exact Or.inr h

theorem mem_rel_key (m : Sharemap) (p s : Nat) (h : (p, s) ∈ rel m) : s ∈ m.map (·.1) := by
  induction m with
  | nil => simp [rel] at h
  | cons e rest ih =>
    obtain ⟨s0, ps⟩ := e
    rw [mem_rel_cons] at h
    simp only [List.map_cons, List.mem_cons]
    rcases h with ⟨rfl, _⟩ | h
    · exact Or.inl rfl
    · exact Or.inr (ih h)

theorem rel_addPeer (m : Sharemap) (sh q p s : Nat) :
    (p, s) ∈ rel (addPeer m sh q) ↔ (p, s) ∈ rel m ∨ (p = q ∧ s = sh) := by
  induction m with
  | nil => simp [addPeer, rel]
  | cons e rest ih =>
    obtain ⟨s0, ps⟩ := e
    simp only [addPeer]
    split
    · rename_i heq
      subst heq
      rw [mem_rel_cons, mem_rel_cons]
      by_cases hq : q ∈ ps
      · simp only [hq, if_true]
        constructor
        · intro h; exact Or.inl h
        · rintro (h | ⟨rfl, rfl⟩)
          · exact h
          · exact Or.inl ⟨rfl, hq⟩
      · simp only [hq, if_false, List.mem_append, List.mem_singleton]
        constructor
        · rintro (⟨h1, h2 | h2⟩ | h)
          · exact Or.inl (Or.inl ⟨h1, h2⟩)
          · exact Or.inr ⟨h2, h1⟩
          · exact Or.inl (Or.inr h)
        · rintro ((⟨h1, h2⟩ | h) | ⟨h1, h2⟩)
          · exact Or.inl ⟨h1, Or.inl h2⟩
          · exact Or.inr h
          · exact Or.inl ⟨h2, Or.inr h1⟩
    · rw [mem_rel_cons, mem_rel_cons, ih]
      constructor
      · rintro (h | h | h)
        · exact Or.inl (Or.inl h)
        · exact Or.inl (Or.inr h)
        · exact Or.inr h
      · rintro ((h | h) | h)
        · exact Or.inl h
        · exact Or.inr (Or.inl h)
        · exact Or.inr (Or.inr h)

theorem keys_addPeer (m : Sharemap) (sh q : Nat) :
    (addPeer m sh q).map (·.1) = if sh ∈ m.map (·.1) then m.map (·.1) else m.map (·.1) ++ [sh] := by
  induction m with
  | nil => simp [addPeer]
  | cons e rest ih =>
    obtain ⟨s0, ps⟩ := e
    simp only [addPeer]
    split
    · rename_i heq; subst heq; simp
    · rename_i hne
      simp only [List.map_cons, ih, List.mem_cons]
      have hne' : ¬ sh = s0 := fun h => hne h.symm
      by_cases hm : sh ∈ rest.map (·.1)
      · simp [hm]
      · simp [hm, hne']

theorem vals_addPeer (m : Sharemap) (sh q : Nat) (h2 : ∀ e ∈ m, e.2.Nodup) :
    ∀ e ∈ addPeer m sh q, e.2.Nodup := by
  induction m with
  | nil => intro e he; simp [addPeer] at he; subst he; simp
  | cons e0 rest ih =>
    obtain ⟨s0, ps⟩ := e0
    intro e he
    simp only [addPeer] at he
    split at he
    · simp only [List.mem_cons] at he
      rcases he with rfl | he
      · have hps : ps.Nodup := h2 (s0, ps) (by simp)
        by_cases hq : q ∈ ps
        · simpa [hq] using hps
        · simp only [hq, if_false]
          exact List.nodup_append.mpr ⟨hps, by simp, by
            intro a ha b hb; simp only [List.mem_singleton] at hb; subst hb; exact fun hab => hq (hab ▸ ha)⟩
      · exact h2 e (List.mem_cons_of_mem _ he)
    · simp only [List.mem_cons] at he
      rcases he with rfl | he
      · exact h2 _ (by simp)
      · exact ih (fun e he => h2 e (List.mem_cons_of_mem _ he)) e he

theorem wf_addPeer (m : Sharemap) (sh q : Nat) (h : WFmap m) : WFmap (addPeer m sh q) := by
  refine ⟨?_, vals_addPeer m sh q h.2⟩
  rw [keys_addPeer]
  split
  · exact h.1
  · rename_i hn
    exact List.nodup_append.mpr ⟨h.1, by simp, by
      intro a ha b hb; simp only [List.mem_singleton] at hb; subst hb; exact fun hab => hn (hab ▸ ha)⟩

theorem keys_removePeer_sublist (m : Sharemap) (sh q : Nat) :
    ((removePeer m sh q).map (·.1)).Sublist (m.map (·.1)) := by
  induction m with
  | nil => simp [removePeer]
  | cons e rest ih =>
    obtain ⟨s0, ps⟩ := e
    simp only [removePeer]
    split
    · split
      · simp
      · simp
    · simpa using ih

theorem mem_removePeer (m : Sharemap) (sh q : Nat) (e : Nat × List Nat) (he : e ∈ removePeer m sh q) :
    ∃ e' ∈ m, e.1 = e'.1 ∧ (e.2 = e'.2 ∨ e.2 = e'.2.erase q) := by
  induction m with
  | nil => simp [removePeer] at he
  | cons e0 rest ih =>
    obtain ⟨s0, ps⟩ := e0
    simp only [removePeer] at he
    split at he
    · split at he
      · exact ⟨e, List.mem_cons_of_mem _ he, rfl, Or.inl rfl⟩
      · simp only [List.mem_cons] at he
        rcases he with rfl | he
        · exact ⟨(s0, ps), by simp, rfl, Or.inr rfl⟩
        · exact ⟨e, List.mem_cons_of_mem _ he, rfl, Or.inl rfl⟩
    · simp only [List.mem_cons] at he
      rcases he with rfl | he
      · exact ⟨(s0, ps), by simp, rfl, Or.inl rfl⟩
      · obtain ⟨e', h1, h2⟩ := ih he
        exact ⟨e', List.mem_cons_of_mem _ h1, h2⟩

theorem wf_removePeer (m : Sharemap) (sh q : Nat) (h : WFmap m) : WFmap (removePeer m sh q) := by
  refine ⟨(keys_removePeer_sublist m sh q).nodup h.1, ?_⟩
  intro e he
  obtain ⟨e', h1, _, h3⟩ := mem_removePeer m sh q e he
  rcases h3 with h3 | h3
  · rw [h3]; exact h.2 e' h1
  · rw [h3]; exact (h.2 e' h1).erase q

theorem rel_removePeer (m : Sharemap) (sh q p s : Nat) (h : WFmap m) :
    (p, s) ∈ rel (removePeer m sh q) ↔ (p, s) ∈ rel m ∧ ¬ (p = q ∧ s = sh) := by
  induction m with
  | nil => simp [removePeer, rel]
  | cons e rest ih =>
    obtain ⟨s0, ps⟩ := e
    have hrest : WFmap rest := ⟨(List.nodup_cons.mp h.1).2, fun e he => h.2 e (List.mem_cons_of_mem _ he)⟩
    have hs0 : s0 ∉ rest.map (·.1) := (List.nodup_cons.mp h.1).1
    have hps : ps.Nodup := h.2 (s0, ps) (by simp)
    simp only [removePeer]
    split
    · rename_i heq
      subst heq
      have hnot : ∀ p', (p', s0) ∉ rel rest := fun p' hp' => hs0 (mem_rel_key rest p' s0 hp')
      split
      · rename_i hemp
        have hall : ∀ x ∈ ps, x = q := by
          intro x hx
          by_cases hxq : x = q
          · exact hxq
          · have : x ∈ ps.erase q := (hps.mem_erase_iff).mpr ⟨hxq, hx⟩
            have hnil : ps.erase q = [] := by simpa using hemp
            rw [hnil] at this; simp at this
        rw [mem_rel_cons]
        constructor
        · intro hr
          refine ⟨Or.inr hr, ?_⟩
          rintro ⟨_, rfl⟩
          exact hnot p hr
        · rintro ⟨⟨rfl, hp⟩ | hr, hne⟩
          · exact absurd ⟨hall p hp, rfl⟩ hne
          · exact hr
      · rw [mem_rel_cons, mem_rel_cons, hps.mem_erase_iff]
        constructor
        · rintro (⟨rfl, hpq, hp⟩ | hr)
          · exact ⟨Or.inl ⟨rfl, hp⟩, fun hh => hpq hh.1⟩
          · refine ⟨Or.inr hr, ?_⟩
            rintro ⟨_, rfl⟩
            exact hnot p hr
        · rintro ⟨⟨rfl, hp⟩ | hr, hne⟩
          · exact Or.inl ⟨rfl, fun hpq => hne ⟨hpq, rfl⟩, hp⟩
          · exact Or.inr hr
    · rename_i hne0
      rw [mem_rel_cons, mem_rel_cons, ih hrest]
      constructor
      · rintro (⟨rfl, hp⟩ | ⟨hr, hne⟩)
        · exact ⟨Or.inl ⟨rfl, hp⟩, fun hh => hne0 hh.2⟩
        · exact ⟨Or.inr hr, hne⟩
      · rintro ⟨⟨rfl, hp⟩ | hr, hne⟩
        · exact Or.inl ⟨rfl, hp⟩
        · exact Or.inr ⟨hr, hne⟩

theorem rel_mergeTrackers (l : List (Nat × Nat)) (m : Sharemap) (p s : Nat) :
    (p, s) ∈ rel (mergeTrackers m l) ↔ (p, s) ∈ rel m ∨ (s, p) ∈ l := by
  induction l generalizing m with
  | nil => simp [mergeTrackers]
  | cons a rest ih =>
    have : mergeTrackers m (a :: rest) = mergeTrackers (addPeer m a.1 a.2) rest := rfl
    rw [this, ih, rel_addPeer]
    obtain ⟨a1, a2⟩ := a
    simp only [List.mem_cons, Prod.mk.injEq]
    constructor
    · rintro ((h | ⟨h1, h2⟩) | h)
      · exact Or.inl h
      · exact Or.inr (Or.inl ⟨h2, h1⟩)
      · exact Or.inr (Or.inr h)
    · rintro (h | ⟨h1, h2⟩ | h)
      · exact Or.inl (Or.inl h)
      · exact Or.inl (Or.inr ⟨h2, h1⟩)
      · exact Or.inr h

theorem wf_mergeTrackers (l : List (Nat × Nat)) (m : Sharemap) (h : WFmap m) : WFmap (mergeTrackers m l) := by
  induction l generalizing m with
  | nil => exact h
  | cons a rest ih => exact ih _ (wf_addPeer m a.1 a.2 h)

/-- the layout invariant: the encoder's servermap relates exactly the pre-existing (server, share) pairs
and the landlords still in use (`sup` needs that no server was allocated a share it already reported) -/
structure Lay (pre : Sharemap) (alloc : List (Nat × Nat)) (e : Enc) : Prop where
  wf : WFmap e.servermap
  sub : ∀ p s, (p, s) ∈ rel e.servermap → (p, s) ∈ rel pre ∨ (s, p) ∈ e.landlords
  sup : (∀ a ∈ alloc, (a.2, a.1) ∉ rel pre) →
    ∀ p s, (p, s) ∈ rel pre ∨ (s, p) ∈ e.landlords → (p, s) ∈ rel e.servermap

theorem Lay.congr {pre alloc e e'} (h : Lay pre alloc e) (h1 : e'.servermap = e.servermap)
    (h2 : e'.landlords = e.landlords) : Lay pre alloc e' :=
  ⟨h1 ▸ h.wf, by rw [h1, h2]; exact h.sub, by rw [h1, h2]; exact h.sup⟩

theorem lay_initial (pre : Sharemap) (alloc : List (Nat × Nat)) (hw : WFmap pre) :
    Lay pre alloc { landlords := alloc, servermap := mergeTrackers pre alloc } :=
  ⟨wf_mergeTrackers alloc pre hw, fun p s h => (rel_mergeTrackers alloc pre p s).mp h,
   fun _ p s h => (rel_mergeTrackers alloc pre p s).mpr h⟩

/-- `_remove_shareholder` keeps the layout invariant: it removes the pair of the lost bucket writer from
both sides -/
theorem lay_drop (pre : Sharemap) (alloc : List (Nat × Nat)) (e : Enc) (sh : Nat) (k : FailKind)
    (h : Lay pre alloc e) (hn : (shnums e.landlords).Nodup) (hsub : ∀ a ∈ e.landlords, a ∈ alloc) :
    Lay pre alloc (dropShareholder e sh k) := by
  unfold dropShareholder
  cases hl : e.landlords.lookup sh with
  | none => exact h
  | some peer =>
    simp only
    have hmem : (sh, peer) ∈ e.landlords := lookup_some_mem_pair _ _ _ hl
    have hfilt : ∀ s p, (s, p) ∈ e.landlords.filter (fun l => l.1 != sh) ↔ (s, p) ∈ e.landlords ∧ s ≠ sh := by
      intro s p; simp [List.mem_filter]
    refine ⟨wf_removePeer _ _ _ h.wf, ?_, ?_⟩
    · intro p s hr
      rw [rel_removePeer _ _ _ _ _ h.wf] at hr
      rcases h.sub p s hr.1 with h1 | h1
      · exact Or.inl h1
      · right
        rw [hfilt]
        refine ⟨h1, ?_⟩
        rintro rfl
        exact hr.2 ⟨nodup_keys_unique _ hn _ _ _ h1 hmem, rfl⟩
    · intro hdis p s hr
      rw [rel_removePeer _ _ _ _ _ h.wf]
      rcases hr with h1 | h1
      · refine ⟨h.sup hdis p s (Or.inl h1), ?_⟩
        rintro ⟨rfl, rfl⟩
        exact hdis (s, p) (hsub _ hmem) h1
      · rw [hfilt] at h1
        exact ⟨h.sup hdis p s (Or.inr h1.1), fun hh => h1.2 hh.2⟩

end Tahoe.UploadDecision
