import Tahoe.Immutable.FetchLemmas
import Tahoe.Immutable.FetchEnv
/-! Node-level invariant behind C46: with the fix, `_active_segment` is `None` or a *running*
fetcher, and a non-empty request queue always has an active fetcher. -/
namespace Tahoe.Fetch

/-! ### the fetcher keeps `running = false ↔ verdict given` as long as the node does not `stop()` it -/

def Verd (s : Fetcher) : Prop := s.running = false ↔ s.verdict.isSome = true

theorem verd_whileLoop {s : Fetcher} (hr : s.running = true) (hv : s.verdict = none) (fuel : Nat)
    (hf : mu s < fuel) : Verd (whileLoop fuel s) := by
  have key : ∀ fuel s, mu s < fuel → (s.running = true ∧ s.verdict = none) → Verd (whileLoop fuel s) := by
    apply whileLoop_ind
    · intro s sh w h _ _; exact h
    · intro s h _
      have e := askMore_eq { s with maxPerServer := s.maxPerServer + 1 }
      rw [e.2.2.2.2.2.2.2.1, e.2.2.2.2.2.2.2.2.2.2.1]; exact h
    · intro s h _ _ _ _
      simp [Verd, noSharesError, stop, h.1]
    · intro s h _ _ _
      have e := askMore_eq s
      simp [Verd, e.2.2.2.2.2.2.2.1, e.2.2.2.2.2.2.2.2.2.2.1, h.1, h.2]
    · intro s h _ _
      simp [Verd, deliver, stop, h.1]
    · intro s h _ _
      simp [Verd, h.1, h.2]
  exact key fuel s hf ⟨hr, hv⟩

theorem verd_step {s : Fetcher} (h : Verd s) (e : Ev) (hne : e ≠ .stop) : Verd (step s e) := by
  unfold Verd at h
  cases e with
  | stop => exact absurd rfl hne
  | addShares l => simp only [step, addShares]; split <;> exact h
  | noMoreShares => exact h
  | segKnownBad => exact h
  | share sh st =>
    simp only [step, blockActivity]
    split
    · exact h
    · cases st <;> simp only [isTerminal, Bool.false_eq_true, if_false, if_true, reduceCtorEq] <;>
        first | exact h | (split <;> exact h)
  | loop =>
    simp only [step, doLoop]
    split
    · exact h
    · rename_i hr
      simp only [Bool.not_eq_true, Bool.not_eq_false'] at hr
      split
      · simp [Verd, stop, hr]
      · have hv : s.verdict = none := by
          cases hv : s.verdict with
          | none => rfl
          | some v => have := h.mpr (by simp [hv]); simp [hr] at this
        exact verd_whileLoop (s := { s with pending := s.pending - 1 }) hr hv _ (mu_lt_fuelFor _)

/-! ### node invariant -/

structure NInv (n : Node) : Prop where
  fixed : n.fixed = true
  /-- requests waiting ⇒ a fetcher is active -/
  served : n.active = none → n.requests = []
  /-- the active fetcher is running (has given no verdict) and is structurally sound -/
  live : ∀ a, n.active = some a → a.f.running = true ∧ a.f.verdict = none ∧ Struct a.f

theorem ninv_startNew {n : Node} (hf : n.fixed = true)
    (hl : ∀ a, n.active = some a → a.f.running = true ∧ a.f.verdict = none ∧ Struct a.f) :
    NInv (startNewSegment n) := by
  unfold startNewSegment
  split
  · rename_i segnum r rest hact hreq
    refine ⟨hf, by simp, ?_⟩
    intro a ha
    simp only [Option.some.injEq] at ha
    subst ha
    have hs : Struct { init n.k with badSeg := n.haveUEB && decide (n.numSegs ≤ segnum) } := by
      constructor <;> simp [init]
    refine ⟨by simp [addShares, init], by simp [addShares, init], ?_⟩
    exact struct_step hs (.addShares _) trivial
  · rename_i hcase
    refine ⟨hf, ?_, hl⟩
    intro hnone
    cases hreq : n.requests with
    | nil => rfl
    | cons r rest => exact absurd hreq (by intro h; exact hcase r.1 r.2 rest hnone (by rw [h]))

theorem ninv_retire_start {n : Node} (hf : n.fixed = true) (hn : n.active = none) (segnum : Nat) (o : Outcome) :
    NInv (startNewSegment (retire n segnum o)) := by
  apply ninv_startNew
  · exact hf
  · intro a ha; simp [retire, hn] at ha

theorem ninv_fetcherEv {n : Node} (h : NInv n) (g : Nat) (e : Ev) (hne : e ≠ .stop)
    (hok : ∀ a, n.active = some a → a.gen = g → EvOkS a.f e) : NInv (fetcherEv n g e) := by
  unfold fetcherEv
  split
  · exact h
  · rename_i a ha
    split
    · exact h
    · rename_i hg
      simp only [ne_eq, Decidable.not_not] at hg
      obtain ⟨hr, hv, hs⟩ := h.live a ha
      have hs0 : Struct (viewOf n a) := ⟨hs.actOut, hs.ovdOut, hs.maxPos, hs.quiet⟩
      have hok0 : EvOkS (viewOf n a) e := by
        have := hok a ha hg
        cases e with
        | share sh st => cases st <;> first | trivial | exact this
        | _ => trivial
      have hverd0 : Verd (viewOf n a) := by
        have h1 : (viewOf n a).running = true := hr
        have h2 : (viewOf n a).verdict = none := hv
        simp [Verd, h1, h2]
      have hs' := struct_step hs0 e hok0
      have hverd' := verd_step hverd0 e hne
      generalize step (viewOf n a) e = f' at hs' hverd' ⊢
      rw [hv]
      simp only
      split
      · unfold fetchFailed
        apply ninv_retire_start
        · exact h.fixed
        · rfl
      · unfold processBlocks
        split
        · split
          · apply ninv_retire_start
            · exact h.fixed
            · rfl
          · rename_i hnf; exact absurd h.fixed hnf
        · apply ninv_retire_start
          · exact h.fixed
          · rfl
      · rename_i hc1 hc2
        have hvn : f'.verdict = none := by
          cases hvv : f'.verdict with
          | none => rfl
          | some v =>
            cases v with
            | failed err => exact absurd hvv (by intro hh; exact hc1 err rfl hh)
            | blocks bl => exact absurd hvv (by intro hh; exact hc2 bl rfl hh)
        refine ⟨h.fixed, by simp, ?_⟩
        intro a' ha'
        simp only [Option.some.injEq] at ha'
        subst ha'
        refine ⟨?_, hvn, hs'⟩
        cases hrr : f'.running with
        | true => rfl
        | false => have := hverd'.mp hrr; simp [hvn] at this

theorem ninv_step {n : Node} (h : NInv n) (e : NEv) (hok : NEvOk n e) : NInv (nstep n e) := by
  cases e with
  | getSegment segnum req =>
    simp only [nstep]
    exact ninv_startNew h.fixed h.live
  | cancel req =>
    simp only [nstep]
    split
    · exact h
    split
    · rename_i a ha
      split
      · exact ⟨h.fixed, by intro hn; simp only at hn; rw [hn] at ha; simp at ha, h.live⟩
      · apply ninv_startNew
        · exact h.fixed
        · intro a' ha'; simp at ha'
    · rename_i ha
      have ha' : n.active = none := ha
      refine ⟨h.fixed, ?_, h.live⟩
      intro _
      simp [h.served ha']
  | gotShares l =>
    simp only [nstep]
    split
    · rename_i a ha
      apply ninv_fetcherEv _ _ _ (by simp)
      · intro _ _ _; trivial
      · exact ⟨h.fixed, h.served, h.live⟩
    · exact ⟨h.fixed, h.served, h.live⟩
  | noMoreShares =>
    simp only [nstep]
    split
    · exact ninv_fetcherEv h _ _ (by simp) (by intro _ _ _; trivial)
    · exact h
  | uebKnown => exact ⟨h.fixed, h.served, h.live⟩
  | share g sh st =>
    simp only [nstep]
    apply ninv_fetcherEv _ _ _ (by simp)
    · intro a ha hg
      cases st with
      | overdue =>
        simp only [EvOkS]
        intro hr
        simp only [reduceCtorEq, if_false] at ha
        exact hok a ha hg hr
      | _ => trivial
    · split
      · exact ⟨h.fixed, h.served, h.live⟩
      · exact h
  | loop g => exact ninv_fetcherEv h _ _ (by simp) (by intro _ _ _; trivial)

theorem ninv_init (k numSegs : Nat) (badSegs : List Nat) : NInv (initNode k numSegs badSegs) := by
  constructor <;> simp [initNode]

theorem ninv_run : ∀ (es : List NEv) (n : Node), NInv n → NValidFrom n es → NInv (nrun n es) := by
  intro es
  induction es with
  | nil => intro n h _; exact h
  | cons e es ih => intro n h hv; exact ih _ (ninv_step h e hv.1) hv.2

/-! ### every request is accounted for -/

/-- a submitted request is waiting, retired (callback / errback scheduled) or was cancelled -/
def Accounted (n : Node) (sub can : List Nat) : Prop :=
  ∀ r ∈ sub, r ∈ n.requests.map (·.2) ∨ r ∈ n.retired.map (·.1) ∨ r ∈ can

theorem acc_startNew {n : Node} {sub can : List Nat} (h : Accounted n sub can) :
    Accounted (startNewSegment n) sub can := by
  unfold startNewSegment; split <;> exact h

theorem acc_retire {n : Node} {sub can : List Nat} (h : Accounted n sub can) (segnum : Nat) (o : Outcome) :
    Accounted (retire n segnum o) sub can := by
  intro r hr
  rcases h r hr with h1 | h1 | h1
  · simp only [List.mem_map] at h1
    obtain ⟨p, hp, rfl⟩ := h1
    by_cases hseg : p.1 = segnum
    · right; left
      simp only [retire, List.map_append, List.map_map, List.mem_append, List.mem_map, List.mem_filter]
      right; exact ⟨p, ⟨hp, by simp [hseg]⟩, rfl⟩
    · left
      simp only [retire, List.mem_map, List.mem_filter]
      exact ⟨p, ⟨hp, by simp [hseg]⟩, rfl⟩
  · right; left; simp only [retire, List.map_append, List.mem_append]; left; exact h1
  · right; right; exact h1

theorem acc_congr {n n' : Node} {sub can : List Nat} (h : Accounted n sub can)
    (e1 : n'.requests = n.requests) (e2 : n'.retired = n.retired) : Accounted n' sub can := by
  unfold Accounted; rw [e1, e2]; exact h

theorem acc_fetcherEv {n : Node} {sub can : List Nat} (h : Accounted n sub can) (g : Nat) (e : Ev) :
    Accounted (fetcherEv n g e) sub can := by
  unfold fetcherEv
  split
  · exact h
  · split
    · exact h
    · dsimp only
      split
      · unfold fetchFailed
        exact acc_startNew (acc_retire (acc_congr h rfl rfl) _ _)
      · unfold processBlocks
        split
        · split <;> exact acc_startNew (acc_retire (acc_congr h rfl rfl) _ _)
        · exact acc_startNew (acc_retire (acc_congr h rfl rfl) _ _)
      · exact acc_congr h rfl rfl

theorem acc_step {n : Node} {sub can : List Nat} (h : Accounted n sub can) (e : NEv) :
    Accounted (nstep n e) (sub ++ submitted [e]) (can ++ cancelled [e]) := by
  cases e with
  | getSegment segnum req =>
    simp only [nstep, submitted, cancelled, List.append_nil]
    apply acc_startNew
    intro r hr
    simp only [List.mem_append, List.mem_singleton] at hr
    rcases hr with hr | hr
    · rcases h r hr with h1 | h1 | h1
      · left; simp only [List.map_append, List.mem_append]; left; exact h1
      · right; left; exact h1
      · right; right; exact h1
    · left; simp [hr]
  | cancel req =>
    simp only [nstep, submitted, cancelled, List.append_nil]
    have hbase : Accounted { n with requests := n.requests.filter (·.2 != req) } sub (can ++ [req]) := by
      intro r hr
      rcases h r hr with h1 | h1 | h1
      · by_cases hreq : r = req
        · right; right; simp [hreq]
        · left
          simp only [List.mem_map] at h1 ⊢
          obtain ⟨p, hp, rfl⟩ := h1
          exact ⟨p, by simp [List.mem_filter, hp, hreq], rfl⟩
      · right; left; exact h1
      · right; right; simp [h1]
    split
    · intro r hr
      rcases h r hr with h1 | h1 | h1
      · left; exact h1
      · right; left; exact h1
      · right; right; simp [h1]
    split
    · split
      · exact hbase
      · exact acc_startNew (acc_congr hbase rfl rfl)
    · exact hbase
  | gotShares l =>
    simp only [nstep, submitted, cancelled, List.append_nil]
    split
    · refine acc_fetcherEv ?_ _ _
      exact acc_congr h rfl rfl
    · exact acc_congr h rfl rfl
  | noMoreShares =>
    simp only [nstep, submitted, cancelled, List.append_nil]
    split
    · exact acc_fetcherEv h _ _
    · exact h
  | uebKnown =>
    simp only [nstep, submitted, cancelled, List.append_nil]
    exact acc_congr h rfl rfl
  | share g sh st =>
    simp only [nstep, submitted, cancelled, List.append_nil]
    apply acc_fetcherEv
    split
    · exact acc_congr h rfl rfl
    · exact h
  | loop g =>
    simp only [nstep, submitted, cancelled, List.append_nil]
    exact acc_fetcherEv h _ _

theorem submitted_cons (e : NEv) (es : List NEv) : submitted (e :: es) = submitted [e] ++ submitted es := by
  cases e <;> simp [submitted]

theorem cancelled_cons (e : NEv) (es : List NEv) : cancelled (e :: es) = cancelled [e] ++ cancelled es := by
  cases e <;> simp [cancelled]

theorem acc_run : ∀ (es : List NEv) (n : Node) (sub can : List Nat), Accounted n sub can →
    Accounted (nrun n es) (sub ++ submitted es) (can ++ cancelled es) := by
  intro es
  induction es with
  | nil => intro n sub can h; simpa [nrun, submitted, cancelled] using h
  | cons e es ih =>
    intro n sub can h
    have := ih _ _ _ (acc_step h e)
    rw [submitted_cons, cancelled_cons]
    simpa [nrun, List.append_assoc] using this

theorem nrun_append (n : Node) (es₁ es₂ : List NEv) : nrun n (es₁ ++ es₂) = nrun (nrun n es₁) es₂ := by
  induction es₁ generalizing n with
  | nil => rfl
  | cons e es ih => simp [nrun, ih]

theorem nvalid_prefix : ∀ (es₁ es₂ : List NEv) (n : Node), NValidFrom n (es₁ ++ es₂) → NValidFrom n es₁ := by
  intro es₁
  induction es₁ with
  | nil => intros; trivial
  | cons e es ih => intro es₂ n h; exact ⟨h.1, ih es₂ _ h.2⟩

/-! ### the node's share set (`_shares`) only grows -/

theorem known_startNew (n : Node) : (startNewSegment n).known = n.known := by
  unfold startNewSegment; split <;> rfl

theorem known_fetcherEv (n : Node) (g : Nat) (e : Ev) : (fetcherEv n g e).known = n.known := by
  unfold fetcherEv
  split
  · rfl
  · split
    · rfl
    · dsimp only
      split
      · simp [fetchFailed, known_startNew, retire]
      · unfold processBlocks
        split
        · split <;> simp [known_startNew, retire]
        · simp [known_startNew, retire]
      · rfl

/-- `got_shares` adds to `_shares` whether or not a fetcher is running; nothing ever removes from it -/
theorem known_nstep (n : Node) (e : NEv) (sh : Share) (h : sh ∈ n.known ∨ (∃ l, e = .gotShares l ∧ sh ∈ l)) :
    sh ∈ (nstep n e).known := by
  cases e with
  | getSegment a b =>
    rcases h with h | ⟨l, he, _⟩
    · simpa [nstep, known_startNew] using h
    · cases he
  | cancel q =>
    rcases h with h | ⟨l, he, _⟩
    · simp only [nstep]
      split
      · exact h
      · split
        · split
          · exact h
          · simpa [known_startNew] using h
        · exact h
    · cases he
  | gotShares l' =>
    have hk : sh ∈ n.known ++ l'.filter (fun s => !(n.known.contains s)) := by
      rcases h with h | ⟨l, he, hl⟩
      · simp [h]
      · cases he
        by_cases hin : sh ∈ n.known
        · simp [hin]
        · simp [List.mem_filter, hl, hin]
    simp only [nstep]
    split
    · rw [known_fetcherEv]; exact hk
    · exact hk
  | noMoreShares =>
    rcases h with h | ⟨l, he, _⟩
    · simp only [nstep]; split
      · rw [known_fetcherEv]; exact h
      · exact h
    · cases he
  | uebKnown =>
    rcases h with h | ⟨l, he, _⟩
    · exact h
    · cases he
  | share g s st =>
    rcases h with h | ⟨l, he, _⟩
    · simp only [nstep]; rw [known_fetcherEv]; split <;> exact h
    · cases he
  | loop g =>
    rcases h with h | ⟨l, he, _⟩
    · simp only [nstep]; rw [known_fetcherEv]; exact h
    · cases he

theorem known_nrun : ∀ (es : List NEv) (n : Node) (sh : Share), sh ∈ n.known → sh ∈ (nrun n es).known := by
  intro es
  induction es with
  | nil => intro n sh h; exact h
  | cons e es ih => intro n sh h; exact ih _ sh (known_nstep n e sh (Or.inl h))

end Tahoe.Fetch
