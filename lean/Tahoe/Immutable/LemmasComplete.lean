import Tahoe.Immutable.LemmasChain
import Tahoe.Base.LemmasMerkleComplete
import Tahoe.Base.LemmasMerkleClosed
import Tahoe.Base.LemmasMerkleMinimal
import Tahoe.Immutable.LemmasBlocks
/-! Completeness direction (C45 "readable from the repaired shares"): the crypttext-hash stage of the downloader
    accepts the genuine hashes (C35 completeness), and repaired shares are the uploader's shares. -/
namespace Tahoe.Integrity
open Tahoe.Base.Merkle

variable {H : Type} [DecidableEq H]

omit [DecidableEq H] in
theorem collect_total {needed : List Nat} {f : Nat → Option H} (hf : ∀ i ∈ needed, (f i).isSome) :
    ∃ hs, collect needed f = some hs ∧ (∀ i ∈ needed, ∃ v, (i, v) ∈ hs) ∧ (∀ i v, (i, v) ∈ hs → f i = some v) := by
  induction needed with
  | nil => exact ⟨[], rfl, by simp, by simp⟩
  | cons a rest ih =>
    obtain ⟨hs, h1, h2, h3⟩ := ih (fun i hi => hf i (List.mem_cons_of_mem _ hi))
    have ha := hf a (by simp)
    cases hfa : f a with
    | none => rw [hfa] at ha; cases ha
    | some va =>
      refine ⟨(a, va) :: hs, by simp [collect, hfa, h1], ?_, ?_⟩
      · intro i hi
        cases List.mem_cons.mp hi with
        | inl e => subst e; exact ⟨va, by simp⟩
        | inr e => obtain ⟨v, hv⟩ := h2 i e; exact ⟨v, List.mem_cons_of_mem _ hv⟩
      · intro i v hm
        cases List.mem_cons.mp hm with
        | inl e => injection e with e1 e2; subst e1; subst e2; exact hfa
        | inr e => exact h3 i v e

/-- **the crypttext-hash stage accepts genuine hashes**: on a node whose ciphertext hash tree is a closed partial
    copy of the published tree `T` and does not yet hold the leaf of segment `segnum`, a share that answers every
    requested crypttext hash with the published node passes `_satisfy_ciphertext_hash_tree` (C35 completeness) -/
theorem honest_ct_hashes_accepted {E : Env H} {cfg : Cfg} (hstrict : StrictPresence E.ops cfg)
    (pick : List Nat → Nat) (segnum : Nat) (v : View H) (nd : Node H) {T : Tree H} {u : UEB H} {sz : Sizes}
    (hk : nd.known = some (u, sz)) (hT : Genuine E.ops T) (hlen : nd.ctTree.length = T.length)
    (hag : Agree nd.ctTree T) (hcl : Closed nd.ctTree)
    (hL : firstLeafNum sz.numSegs + segnum < nd.ctTree.length)
    (hnew : get nd.ctTree (firstLeafNum sz.numSegs + segnum) = none)
    (hhonest : ∀ i, i < T.length → v.ctHashes i = get T i) :
    (stageCtHashes E cfg pick segnum v nd).1 = none := by
  unfold stageCtHashes
  rw [hk]
  simp only
  have hneeded : neededHashes? nd.ctTree (firstLeafNum sz.numSegs) segnum true =
      some ((neededFor (firstLeafNum sz.numSegs + segnum) ++ [firstLeafNum sz.numSegs + segnum]).filter
        (fun i => (get nd.ctTree i).isNone)) := by
    unfold neededHashes? completeNeededHashes? neededFor?
    have : ¬ (firstLeafNum sz.numSegs + segnum ≥ nd.ctTree.length) := by omega
    simp [this]
  rw [hneeded]
  generalize hnd : ((neededFor (firstLeafNum sz.numSegs + segnum) ++ [firstLeafNum sz.numSegs + segnum]).filter
        (fun i => (get nd.ctTree i).isNone)) = needed
  have hodd : nd.ctTree.length % 2 = 1 := by rw [hlen]; exact hT.odd
  have hrange : ∀ i ∈ needed, i < T.length := by
    intro i hi
    rw [← hlen]
    exact neededHashes?_lt hodd (by rw [hneeded, hnd]) i hi
  have hLmem : firstLeafNum sz.numSegs + segnum ∈ needed := by
    rw [← hnd]; simp [hnew]
  obtain ⟨hs, hc, hcov, hval⟩ := collect_total (needed := needed) (f := v.ctHashes) (by
    intro i hi
    rw [hhonest i (hrange i hi)]
    cases hg : get T i with
    | none => exact absurd hg (hT.full i (hrange i hi))
    | some w => rfl)
  cases hnl : needed with
  | nil => rw [hnl] at hLmem
  | cons a rest =>
    simp only
    rw [← hnl, hc]
    simp only
    have hkeys : ∀ i w, (i, w) ∈ hs → i ∈ neededFor (firstLeafNum sz.numSegs + segnum) ∨ i = firstLeafNum sz.numSegs + segnum := by
      intro i w hm
      have := collect_keys hc (i, w) hm
      rw [← hnd] at this
      have := (List.mem_filter.mp this).1
      cases List.mem_append.mp this with
      | inl e => exact Or.inl e
      | inr e => exact Or.inr (by simpa using e)
    obtain ⟨st1, hok⟩ := tryBody_complete (ops := E.ops.withCfg cfg) hstrict ⟨hT.odd, hT.full, hT.node⟩ hlen hag hcl
      (firstLeafNum sz.numSegs + segnum) hL pick hs
      (by intro i w hm; rw [← hhonest i (by rw [← hlen]; exact neededHashes?_lt hodd (by rw [hneeded, hnd]) i (collect_keys hc (i, w) hm))]; exact hval i w hm)
      hkeys
      (by
        intro i hi hnone
        apply hcov
        rw [← hnd]
        exact List.mem_filter.mpr ⟨List.mem_append_left _ hi, by simp [hnone]⟩)
      (hcov _ hLmem)
    have := setHashes_ok_of (ops := E.ops) (cfg := cfg) (pick := pick) (first := firstLeafNum sz.numSegs) (t := nd.ctTree)
      (hashes := hs) (leaves := []) (new := hs) (by simp [mergeLeaves]) hok
    rw [this]

/-- **the block-hash stage accepts genuine hashes**: on a node whose block hash tree for share `shnum` is a closed
    partial copy of the published tree `T` of that share and does not yet hold the leaf of segment `segnum`, a share
    that answers every requested block hash with the published node passes `_satisfy_block_hash_tree` (C35
    completeness, the same argument as for the crypttext hash tree) -/
theorem honest_block_hashes_accepted {E : Env H} {cfg : Cfg} (hstrict : StrictPresence E.ops cfg)
    (pick : List Nat → Nat) (shnum segnum : Nat) (v : View H) (nd : Node H) {T : Tree H} {u : UEB H} {sz : Sizes}
    (hk : nd.known = some (u, sz)) (hT : Genuine E.ops T) (hlen : (nd.blockTree shnum sz.numSegs).length = T.length)
    (hag : Agree (nd.blockTree shnum sz.numSegs) T) (hcl : Closed (nd.blockTree shnum sz.numSegs))
    (hL : firstLeafNum sz.numSegs + segnum < (nd.blockTree shnum sz.numSegs).length)
    (hnew : get (nd.blockTree shnum sz.numSegs) (firstLeafNum sz.numSegs + segnum) = none)
    (hhonest : ∀ i, i < T.length → v.blockHashes i = get T i) :
    (stageBlockHashes E cfg pick shnum segnum v nd).1 = none := by
  unfold stageBlockHashes
  rw [hk]
  simp only
  have hneeded : neededHashes? (nd.blockTree shnum sz.numSegs) (firstLeafNum sz.numSegs) segnum true =
      some ((neededFor (firstLeafNum sz.numSegs + segnum) ++ [firstLeafNum sz.numSegs + segnum]).filter
        (fun i => (get (nd.blockTree shnum sz.numSegs) i).isNone)) := by
    unfold neededHashes? completeNeededHashes? neededFor?
    have : ¬ (firstLeafNum sz.numSegs + segnum ≥ (nd.blockTree shnum sz.numSegs).length) := by omega
    simp [this]
  rw [hneeded]
  generalize hnd : ((neededFor (firstLeafNum sz.numSegs + segnum) ++ [firstLeafNum sz.numSegs + segnum]).filter
        (fun i => (get (nd.blockTree shnum sz.numSegs) i).isNone)) = needed
  have hodd : (nd.blockTree shnum sz.numSegs).length % 2 = 1 := by rw [hlen]; exact hT.odd
  have hrange : ∀ i ∈ needed, i < T.length := by
    intro i hi
    rw [← hlen]
    exact neededHashes?_lt hodd (by rw [hneeded, hnd]) i hi
  have hLmem : firstLeafNum sz.numSegs + segnum ∈ needed := by
    rw [← hnd]; simp [hnew]
  obtain ⟨hs, hc, hcov, hval⟩ := collect_total (needed := needed) (f := v.blockHashes) (by
    intro i hi
    rw [hhonest i (hrange i hi)]
    cases hg : get T i with
    | none => exact absurd hg (hT.full i (hrange i hi))
    | some w => rfl)
  cases hnl : needed with
  | nil => rw [hnl] at hLmem
  | cons a rest =>
    simp only
    rw [← hnl, hc]
    simp only
    have hkeys : ∀ i w, (i, w) ∈ hs → i ∈ neededFor (firstLeafNum sz.numSegs + segnum) ∨ i = firstLeafNum sz.numSegs + segnum := by
      intro i w hm
      have := collect_keys hc (i, w) hm
      rw [← hnd] at this
      have := (List.mem_filter.mp this).1
      cases List.mem_append.mp this with
      | inl e => exact Or.inl e
      | inr e => exact Or.inr (by simpa using e)
    obtain ⟨st1, hok⟩ := tryBody_complete (ops := E.ops.withCfg cfg) hstrict ⟨hT.odd, hT.full, hT.node⟩ hlen hag hcl
      (firstLeafNum sz.numSegs + segnum) hL pick hs
      (by intro i w hm; rw [← hhonest i (by rw [← hlen]; exact neededHashes?_lt hodd (by rw [hneeded, hnd]) i (collect_keys hc (i, w) hm))]; exact hval i w hm)
      hkeys
      (by
        intro i hi hnone
        apply hcov
        rw [← hnd]
        exact List.mem_filter.mpr ⟨List.mem_append_left _ hi, by simp [hnone]⟩)
      (hcov _ hLmem)
    have := setHashes_ok_of (ops := E.ops) (cfg := cfg) (pick := pick) (first := firstLeafNum sz.numSegs) (t := (nd.blockTree shnum sz.numSegs))
      (hashes := hs) (leaves := []) (new := hs) (by simp [mergeLeaves]) hok
    rw [this]

/-- **the data-block stage accepts the genuine block**: on a node whose block hash tree for share `shnum` is a closed
    partial copy of the published tree `T` and already holds the uncle chain of segment `segnum` (the block-hash stage
    has run), a block of the expected length whose tagged hash is the published leaf passes `check_block` and is
    handed to the fetcher -/
theorem honest_block_accepted {E : Env H} {cfg : Cfg} (hstrict : StrictPresence E.ops cfg)
    (pick : List Nat → Nat) (shnum segnum : Nat) (v : View H) (nd : Node H) {T : Tree H} {u : UEB H} {sz : Sizes}
    (hk : nd.known = some (u, sz)) (hT : Genuine E.ops T) (hlen : (nd.blockTree shnum sz.numSegs).length = T.length)
    (hag : Agree (nd.blockTree shnum sz.numSegs) T) (hcl : Closed (nd.blockTree shnum sz.numSegs))
    (hL : firstLeafNum sz.numSegs + segnum < (nd.blockTree shnum sz.numSegs).length)
    (hfull : ∀ i ∈ neededFor (firstLeafNum sz.numSegs + segnum), get (nd.blockTree shnum sz.numSegs) i ≠ none)
    (hsize : ¬ (v.block.isEmpty ∨
      v.block.length ≠ (if segnum + 1 = sz.numSegs then sz.tailBlockSize else sz.blockSize)))
    (hleaf : get T (firstLeafNum sz.numSegs + segnum) = some (E.tagged .block v.block)) :
    (stageData E cfg pick shnum segnum v nd).1 = some (.block v.block) := by
  unfold stageData
  rw [hk]
  simp only
  rw [if_neg hsize]
  obtain ⟨st1, hok⟩ := tryBody_complete (ops := E.ops.withCfg cfg) hstrict ⟨hT.odd, hT.full, hT.node⟩ hlen hag hcl
    (firstLeafNum sz.numSegs + segnum) hL pick [(firstLeafNum sz.numSegs + segnum, E.tagged .block v.block)]
    (by intro i w hm; simp at hm; rw [hm.1, hm.2]; exact hleaf)
    (by intro i w hm; simp at hm; exact Or.inr hm.1)
    (by intro i hi hnone; exact absurd hnone (hfull i hi))
    ⟨E.tagged .block v.block, by simp⟩
  have := setHashes_ok_of (ops := E.ops) (cfg := cfg) (pick := pick) (first := firstLeafNum sz.numSegs)
    (t := nd.blockTree shnum sz.numSegs) (hashes := []) (leaves := [(segnum, E.tagged .block v.block)])
    (new := [(firstLeafNum sz.numSegs + segnum, E.tagged .block v.block)]) (by simp [mergeLeaves]) hok
  rw [this]

/-- **the share-hash stage accepts the genuine chain**: on a node whose share hash tree is a closed partial copy of
    the published tree `T`, a share whose share hash chain (as the dict `process_share_hashes` builds) consists of
    published nodes on the uncle chain of leaf `shnum`, the leaf included, and covers that chain, passes
    `_satisfy_share_hash_tree` -/
theorem honest_share_hashes_accepted {E : Env H} {cfg : Cfg} (hstrict : StrictPresence E.ops cfg)
    (pick : List Nat → Nat) (cap : Cap H) (shnum : Nat) (v : View H) (nd : Node H) {T : Tree H}
    (hT : Genuine E.ops T) (hlen : nd.shareTree.length = T.length)
    (hag : Agree nd.shareTree T) (hcl : Closed nd.shareTree)
    (hL : firstLeafNum cap.n + shnum < nd.shareTree.length)
    (hgen : ∀ i w, (i, w) ∈ dictOf v.shareHashes → get T i = some w)
    (hkeys : ∀ i w, (i, w) ∈ dictOf v.shareHashes → i ∈ neededFor (firstLeafNum cap.n + shnum) ∨ i = firstLeafNum cap.n + shnum)
    (hcov : ∀ i ∈ neededFor (firstLeafNum cap.n + shnum), ∃ w, (i, w) ∈ dictOf v.shareHashes)
    (hleaf : ∃ w, (firstLeafNum cap.n + shnum, w) ∈ dictOf v.shareHashes) :
    (stageShareTree E cfg pick cap shnum v nd).1 = none := by
  unfold stageShareTree
  rw [if_neg (by omega)]
  split
  · rfl
  · have hne : ¬ (v.shareHashes.isEmpty = true) := by
      intro he
      have : v.shareHashes = [] := List.isEmpty_iff.mp he
      obtain ⟨w, hw⟩ := hleaf
      rw [this] at hw
      simp [dictOf] at hw
    rw [if_neg hne]
    simp only
    have hany : ¬ ((dictOf v.shareHashes).any (fun e => decide (e.1 ≥ nd.shareTree.length)) = true) := by
      intro ha
      obtain ⟨e, he, hge⟩ := List.any_eq_true.mp ha
      have hge' : nd.shareTree.length ≤ e.1 := by simpa using hge
      have := hgen e.1 e.2 he
      rw [get_of_ge (by rw [← hlen]; exact hge')] at this
      cases this
    rw [if_neg hany]
    obtain ⟨st1, hok⟩ := tryBody_complete (ops := E.ops.withCfg cfg) hstrict ⟨hT.odd, hT.full, hT.node⟩ hlen hag hcl
      (firstLeafNum cap.n + shnum) hL pick (dictOf v.shareHashes) hgen hkeys
      (fun i hi _ => hcov i hi) hleaf
    have := setHashes_ok_of (ops := E.ops) (cfg := cfg) (pick := pick) (first := firstLeafNum cap.n) (t := nd.shareTree)
      (hashes := dictOf v.shareHashes) (leaves := []) (new := dictOf v.shareHashes) (by simp [mergeLeaves]) hok
    rw [this]

omit [DecidableEq H] in
/-- a freshly seeded tree (only the root stored) is closed -/
theorem seed_closed (n : Nat) (r : H) : Closed (seed (newTree H n) r) := by
  intro i hi h1
  exfalso; apply h1
  unfold seed
  rw [get_set_ne _ (Ne.symm hi), get_newTree]

/-! ### `Closed` is an invariant of the block-tree stages (accepted or rejected), so the stage theorems chain -/

/-- a `set_hashes` call whose indices are in range keeps the tree closed, whatever its outcome (accepted: the level
    loop fills every parent; rejected: rolled back to the tree as it was) -/
theorem set_keeps_closed {E : Env H} {cfg : Cfg} (hstrict : StrictPresence E.ops cfg) {t : Tree H} (hcl : Closed t)
    {pick : List Nat → Nat} {first : Nat} {hashes leaves : List (Nat × H)} {o : Outcome} {t' : Tree H}
    (hrange : ∀ new, mergeLeaves first hashes leaves = some new → ∀ e ∈ new, e.1 < t.length)
    (hs : setHashes E.ops cfg pick first t hashes leaves = (o, t')) : Closed t' := by
  by_cases ho : o = .ok
  · subst ho
    obtain ⟨new, st, _, hres, e⟩ := setHashes_ok hs
    rw [← e]
    exact tryBody_closed hstrict pick t new hcl hres
  · have := setHashes_fail_same hstrict hrange hs ho
    subst this
    exact hcl

/-- `_satisfy_block_hash_tree` keeps the share's block hash tree closed, whatever the share answered -/
theorem stageBlockHashes_keeps_closed {E : Env H} {cfg : Cfg} (hstrict : StrictPresence E.ops cfg)
    (pick : List Nat → Nat) (shnum segnum : Nat) (v : View H) (nd : Node H) {T : Tree H} {u : UEB H} {sz : Sizes}
    (hk : nd.known = some (u, sz)) (hok : TreeOK E.ops T (nd.blockTree shnum sz.numSegs))
    (hcl : Closed (nd.blockTree shnum sz.numSegs)) :
    Closed ((stageBlockHashes E cfg pick shnum segnum v nd).2.blockTree shnum sz.numSegs) := by
  unfold stageBlockHashes
  rw [hk]
  simp only
  cases hn : neededHashes? (nd.blockTree shnum sz.numSegs) (firstLeafNum sz.numSegs) segnum true with
  | none => simp only; exact hcl
  | some needed =>
    cases needed with
    | nil => simp only; exact hcl
    | cons a rest =>
      simp only
      cases hc : collect (a :: rest) v.blockHashes with
      | none => simp only; exact hcl
      | some hs =>
        simp only
        have hrange : ∀ new, mergeLeaves (firstLeafNum sz.numSegs) hs [] = some new →
            ∀ e ∈ new, e.1 < (nd.blockTree shnum sz.numSegs).length := by
          intro new hm e he
          have : new = hs := by simp [mergeLeaves] at hm; exact hm.symm
          subst this
          exact neededHashes?_lt (treeOK_odd hok) hn _ (collect_keys hc e he)
        cases hsr : setHashes E.ops cfg pick (firstLeafNum sz.numSegs) (nd.blockTree shnum sz.numSegs) hs [] with
        | mk o t' =>
          have := set_keeps_closed hstrict hcl hrange hsr
          cases o <;> (simp only; rw [blockTree_set_same]; exact this)

/-- `_satisfy_data_block` keeps the share's block hash tree closed, whatever block the share sent -/
theorem stageData_keeps_closed {E : Env H} {cfg : Cfg} (hstrict : StrictPresence E.ops cfg)
    (pick : List Nat → Nat) (shnum segnum : Nat) (v : View H) (nd : Node H) {T : Tree H} {u : UEB H} {sz : Sizes}
    (hk : nd.known = some (u, sz)) (hok : TreeOK E.ops T (nd.blockTree shnum sz.numSegs))
    (hseg : segnum < sz.numSegs) (hlen : T.length = 2 * roundupPow2 sz.numSegs - 1)
    (hcl : Closed (nd.blockTree shnum sz.numSegs)) :
    Closed ((stageData E cfg pick shnum segnum v nd).2.blockTree shnum sz.numSegs) := by
  unfold stageData
  rw [hk]
  simp only
  generalize (if segnum + 1 = sz.numSegs then sz.tailBlockSize else sz.blockSize) = blocklen
  split
  · exact hcl
  · have hrange : ∀ new, mergeLeaves (firstLeafNum sz.numSegs) [] [(segnum, E.tagged .block v.block)] = some new →
        ∀ e ∈ new, e.1 < (nd.blockTree shnum sz.numSegs).length := by
      intro new hm e he
      simp [mergeLeaves] at hm
      subst hm
      simp at he
      subst he
      have := roundupPow2_ge sz.numSegs
      have := roundupPow2_pos sz.numSegs
      rw [hok.2.1, hlen]
      show firstLeafNum sz.numSegs + segnum < _
      unfold firstLeafNum
      omega
    cases hsr : setHashes E.ops cfg pick (firstLeafNum sz.numSegs) (nd.blockTree shnum sz.numSegs) []
        [(segnum, E.tagged .block v.block)] with
    | mk o t' =>
      have := set_keeps_closed hstrict hcl hrange hsr
      cases o <;> (simp only; rw [blockTree_set_same]; exact this)

omit [DecidableEq H] in
theorem collect_covers {needed : List Nat} {f : Nat → Option H} {hs : List (Nat × H)}
    (h : collect needed f = some hs) : ∀ i ∈ needed, ∃ w, (i, w) ∈ hs := by
  induction needed generalizing hs with
  | nil => intro i hi; cases hi
  | cons a rest ih =>
    intro i hi
    unfold collect at h
    cases hfa : f a with
    | none => rw [hfa] at h; simp at h
    | some va =>
      cases hr : collect rest f with
      | none => rw [hfa, hr] at h; simp at h
      | some l =>
        rw [hfa, hr] at h
        simp only at h
        injection h with h
        subst h
        cases List.mem_cons.mp hi with
        | inl e => subst e; exact ⟨va, by simp⟩
        | inr e => obtain ⟨w, hw⟩ := ih hr i e; exact ⟨w, List.mem_cons_of_mem _ hw⟩

/-- after an accepted `_satisfy_block_hash_tree` the share's block hash tree holds the whole uncle chain of the
    segment's leaf and the leaf itself -/
theorem stageBlockHashes_accept_full {E : Env H} {cfg : Cfg} (hstrict : StrictPresence E.ops cfg)
    (pick : List Nat → Nat) (shnum segnum : Nat) (v : View H) (nd : Node H) {u : UEB H} {sz : Sizes}
    (hk : nd.known = some (u, sz))
    (hL : firstLeafNum sz.numSegs + segnum < (nd.blockTree shnum sz.numSegs).length)
    (hacc : (stageBlockHashes E cfg pick shnum segnum v nd).1 = none) :
    ∀ i, i ∈ neededFor (firstLeafNum sz.numSegs + segnum) ∨ i = firstLeafNum sz.numSegs + segnum →
      get ((stageBlockHashes E cfg pick shnum segnum v nd).2.blockTree shnum sz.numSegs) i ≠ none := by
  have hmem : ∀ i, i ∈ neededFor (firstLeafNum sz.numSegs + segnum) ∨ i = firstLeafNum sz.numSegs + segnum →
      i ∈ neededFor (firstLeafNum sz.numSegs + segnum) ++ [firstLeafNum sz.numSegs + segnum] := by
    intro i hi
    cases hi with
    | inl h => exact List.mem_append_left _ h
    | inr h => exact List.mem_append_right _ (by simp [h])
  have hneeded : neededHashes? (nd.blockTree shnum sz.numSegs) (firstLeafNum sz.numSegs) segnum true =
      some ((neededFor (firstLeafNum sz.numSegs + segnum) ++ [firstLeafNum sz.numSegs + segnum]).filter
        (fun i => (get (nd.blockTree shnum sz.numSegs) i).isNone)) := by
    unfold neededHashes? completeNeededHashes? neededFor?
    have : ¬ (firstLeafNum sz.numSegs + segnum ≥ (nd.blockTree shnum sz.numSegs).length) := by omega
    simp [this]
  unfold stageBlockHashes at hacc ⊢
  rw [hk] at hacc ⊢
  simp only at hacc ⊢
  rw [hneeded] at hacc ⊢
  generalize hnd : ((neededFor (firstLeafNum sz.numSegs + segnum) ++ [firstLeafNum sz.numSegs + segnum]).filter
        (fun i => (get (nd.blockTree shnum sz.numSegs) i).isNone)) = needed at hacc ⊢
  cases needed with
  | nil =>
    simp only
    intro i hi hnone
    have : i ∈ ((neededFor (firstLeafNum sz.numSegs + segnum) ++ [firstLeafNum sz.numSegs + segnum]).filter
        (fun i => (get (nd.blockTree shnum sz.numSegs) i).isNone)) :=
      List.mem_filter.mpr ⟨hmem i hi, by simp [hnone]⟩
    rw [hnd] at this
    cases this
  | cons a rest =>
    simp only at hacc ⊢
    cases hc : collect (a :: rest) v.blockHashes with
    | none => rw [hc] at hacc; simp at hacc
    | some hs =>
      rw [hc] at hacc
      simp only at hacc ⊢
      cases hsr : setHashes E.ops cfg pick (firstLeafNum sz.numSegs) (nd.blockTree shnum sz.numSegs) hs [] with
      | mk o t' =>
        rw [hsr] at hacc
        cases o with
        | ok =>
          simp only
          rw [blockTree_set_same]
          obtain ⟨new, st, hm, hres, e⟩ := setHashes_ok hsr
          have hnew : new = hs := by simp [mergeLeaves] at hm; exact hm.symm
          subst hnew
          intro i hi
          cases hg : get (nd.blockTree shnum sz.numSegs) i with
          | some w =>
            have := (tryBody_reach (E.ops.withCfg cfg) pick (nd.blockTree shnum sz.numSegs) new)
            rw [hres] at this
            have := Reach.mono hstrict this (j := i) (v := w) hg
            rw [← e]
            intro hn
            simp [stOf] at this
            rw [this] at hn; cases hn
          | none =>
            have hin : i ∈ a :: rest := by
              rw [← hnd]; exact List.mem_filter.mpr ⟨hmem i hi, by simp [hg]⟩
            obtain ⟨w, hw⟩ : ∃ w, (i, w) ∈ new := collect_covers hc i hin
            have := tryBody_stored hstrict pick _ new hres i w hw
            rw [← e, this]; simp
        | badHash => simp at hacc
        | notEnough => simp at hacc
        | indexError => simp at hacc
        | internal => simp at hacc

/-- `_satisfy_ciphertext_hash_tree` keeps the node's crypttext hash tree closed, whatever the share answered -/
theorem stageCtHashes_keeps_closed {E : Env H} {cfg : Cfg} (hstrict : StrictPresence E.ops cfg)
    (pick : List Nat → Nat) (segnum : Nat) (v : View H) (nd : Node H)
    (hodd : nd.ctTree.length % 2 = 1) (hcl : Closed nd.ctTree) :
    Closed (stageCtHashes E cfg pick segnum v nd).2.ctTree := by
  unfold stageCtHashes
  cases hk : nd.known with
  | none => simp only; exact hcl
  | some us =>
    obtain ⟨u, sz⟩ := us
    simp only
    cases hn : neededHashes? nd.ctTree (firstLeafNum sz.numSegs) segnum true with
    | none => simp only; exact hcl
    | some needed =>
      cases needed with
      | nil => simp only; exact hcl
      | cons a rest =>
        simp only
        cases hc : collect (a :: rest) v.ctHashes with
        | none => simp only; exact hcl
        | some hs =>
          simp only
          have hrange : ∀ new, mergeLeaves (firstLeafNum sz.numSegs) hs [] = some new →
              ∀ e ∈ new, e.1 < nd.ctTree.length := by
            intro new hm e he
            have : new = hs := by simp [mergeLeaves] at hm; exact hm.symm
            subst this
            exact neededHashes?_lt hodd hn _ (collect_keys hc e he)
          cases hsr : setHashes E.ops cfg pick (firstLeafNum sz.numSegs) nd.ctTree hs [] with
          | mk o t' =>
            have := set_keeps_closed hstrict hcl hrange hsr
            cases o <;> (simp only; exact this)

/-- `_satisfy_share_hash_tree` keeps the node's share hash tree closed, whatever chain the share sent -/
theorem stageShareTree_keeps_closed {E : Env H} {cfg : Cfg} (hstrict : StrictPresence E.ops cfg)
    (pick : List Nat → Nat) (cap : Cap H) (shnum : Nat) (v : View H) (nd : Node H) (hcl : Closed nd.shareTree) :
    Closed (stageShareTree E cfg pick cap shnum v nd).2.shareTree := by
  unfold stageShareTree
  split
  · exact hcl
  · split
    · exact hcl
    · split
      · exact hcl
      · simp only
        split
        · exact hcl
        · rename_i hany
          have hrange : ∀ new, mergeLeaves (firstLeafNum cap.n) (dictOf v.shareHashes) [] = some new →
              ∀ e ∈ new, e.1 < nd.shareTree.length := by
            intro new hm e he
            have : new = dictOf v.shareHashes := by simp [mergeLeaves] at hm; exact hm.symm
            subst this
            apply Nat.lt_of_not_le
            intro hge
            exact hany (List.any_eq_true.mpr ⟨e, he, by simpa using hge⟩)
          cases hsr : setHashes E.ops cfg pick (firstLeafNum cap.n) nd.shareTree (dictOf v.shareHashes) [] with
          | mk o t' =>
            have := set_keeps_closed hstrict hcl hrange hsr
            cases o <;> (simp only; exact this)

omit [DecidableEq H] in
/-- storing a root (`set_hashes({0: root})` on an empty root slot) keeps a tree closed -/
theorem seed_keeps_closed {t : Tree H} (hcl : Closed t) (r : H) : Closed (seed t r) := by
  intro i hi h1 h2
  unfold seed at *
  rw [get_set_ne _ (Ne.symm hi)] at h1
  rw [get_set_ne _ (Ne.symm (sibling_ne_zero hi))] at h2
  by_cases hp : parent i = 0
  · rw [hp, get_set_eq _ (by have := lt_of_get_ne_none h1; omega)]
    simp
  · rw [get_set_ne _ (Ne.symm hp)]
    exact hcl i hi h1 h2

/-- `_satisfy_UEB` keeps the share hash tree closed and installs a closed crypttext hash tree -/
theorem stageUEB_keeps_closed (E : Env H) (cap : Cap H) (v : View H) (nd : Node H)
    (hs : Closed nd.shareTree) (hc : Closed nd.ctTree) :
    Closed (stageUEB E cap v nd).2.shareTree ∧ Closed (stageUEB E cap v nd).2.ctTree := by
  unfold stageUEB
  split
  · exact ⟨hs, hc⟩
  · split
    · exact ⟨hs, hc⟩
    · split
      · exact ⟨hs, hc⟩
      · split
        · exact ⟨hs, hc⟩
        · split
          · exact ⟨hs, hc⟩
          · exact ⟨seed_keeps_closed hs _, seed_closed _ _⟩

/-- `set_block_hash_root` keeps the share's block hash tree closed -/
theorem stageBlockRoot_keeps_closed {E : Env H} {cfg : Cfg} (hstrict : StrictPresence E.ops cfg)
    (pick : List Nat → Nat) (cap : Cap H) (shnum : Nat) (nd : Node H) {u : UEB H} {sz : Sizes}
    (hk : nd.known = some (u, sz)) (hcl : Closed (nd.blockTree shnum sz.numSegs)) :
    Closed ((stageBlockRoot E cfg pick cap shnum nd).2.blockTree shnum sz.numSegs) := by
  unfold stageBlockRoot
  rw [hk]
  simp only
  split
  · exact hcl
  · split
    · exact hcl
    · split
      · rw [blockTree_set_same]; exact seed_keeps_closed hcl _
      · rename_i r _ hroot
        have hrange : ∀ new, mergeLeaves (firstLeafNum sz.numSegs) [(0, r)] [] = some new →
            ∀ e ∈ new, e.1 < (nd.blockTree shnum sz.numSegs).length := by
          intro new hm e he
          simp [mergeLeaves] at hm
          subst hm
          simp at he
          subst he
          exact lt_of_get_ne_none hroot
        cases hsr : setHashes E.ops cfg pick (firstLeafNum sz.numSegs) (nd.blockTree shnum sz.numSegs) [(0, r)] [] with
        | mk o t' =>
          have := set_keeps_closed hstrict hcl hrange hsr
          cases o <;> (simp only; rw [blockTree_set_same]; exact this)

/-! ### threading the stages through `runStages` -/

omit [DecidableEq H] in
theorem runStages_cons_none {f : Node H → Option Res × Node H} {rest : List (Node H → Option Res × Node H)}
    {nd : Node H} (h : (f nd).1 = none) : runStages (f :: rest) nd = runStages rest (f nd).2 := by
  rw [runStages]
  cases hf : f nd with
  | mk r nd' =>
    rw [hf] at h
    simp only at h
    subst h
    rfl

omit [DecidableEq H] in
theorem runStages_last_some {f : Node H → Option Res × Node H} {nd : Node H} {r : Res}
    (h : (f nd).1 = some r) : (runStages [f] nd).1 = r := by
  rw [runStages]
  cases hf : f nd with
  | mk r' nd' =>
    rw [hf] at h
    simp only at h
    subst h
    rfl

/-- `_satisfy_block_hash_tree` touches only the block hash trees -/
theorem stageBlockHashes_frame (E : Env H) (cfg : Cfg) (pick : List Nat → Nat) (shnum segnum : Nat) (v : View H)
    (nd : Node H) :
    (stageBlockHashes E cfg pick shnum segnum v nd).2.known = nd.known ∧
    (stageBlockHashes E cfg pick shnum segnum v nd).2.ctTree = nd.ctTree ∧
    (stageBlockHashes E cfg pick shnum segnum v nd).2.shareTree = nd.shareTree := by
  unfold stageBlockHashes
  dsimp only
  repeat' split
  all_goals exact ⟨rfl, rfl, rfl⟩

/-- `_satisfy_ciphertext_hash_tree` touches only the crypttext hash tree -/
theorem stageCtHashes_frame (E : Env H) (cfg : Cfg) (pick : List Nat → Nat) (segnum : Nat) (v : View H)
    (nd : Node H) :
    (stageCtHashes E cfg pick segnum v nd).2.known = nd.known ∧
    (stageCtHashes E cfg pick segnum v nd).2.blockTrees = nd.blockTrees ∧
    (stageCtHashes E cfg pick segnum v nd).2.shareTree = nd.shareTree := by
  unfold stageCtHashes
  repeat' split
  all_goals exact ⟨rfl, rfl, rfl⟩

/-- after an accepted `_satisfy_share_hash_tree` that had hashes to fetch, the leaf the share sent for itself is
    stored in the node's share hash tree -/
theorem stageShareTree_accept_leaf {E : Env H} {cfg : Cfg} (hstrict : StrictPresence E.ops cfg)
    (pick : List Nat → Nat) (cap : Cap H) (shnum : Nat) (v : View H) (nd : Node H)
    (hL : ¬ (firstLeafNum cap.n + shnum ≥ nd.shareTree.length))
    (hne : (neededHashes nd.shareTree (firstLeafNum cap.n + shnum)).isEmpty = false)
    {w : H} (hleaf : (firstLeafNum cap.n + shnum, w) ∈ dictOf v.shareHashes)
    (hacc : (stageShareTree E cfg pick cap shnum v nd).1 = none) :
    get (stageShareTree E cfg pick cap shnum v nd).2.shareTree (firstLeafNum cap.n + shnum) = some w := by
  unfold stageShareTree at hacc ⊢
  rw [if_neg hL] at hacc ⊢
  rw [if_neg (by rw [hne]; simp)] at hacc ⊢
  by_cases he : v.shareHashes.isEmpty = true
  · rw [if_pos he] at hacc; simp at hacc
  · rw [if_neg he] at hacc ⊢
    simp only at hacc ⊢
    by_cases hany : (dictOf v.shareHashes).any (fun e => decide (e.1 ≥ nd.shareTree.length)) = true
    · rw [if_pos hany] at hacc; simp at hacc
    · rw [if_neg hany] at hacc ⊢
      cases hsr : setHashes E.ops cfg pick (firstLeafNum cap.n) nd.shareTree (dictOf v.shareHashes) [] with
      | mk o t' =>
        rw [hsr] at hacc
        cases o with
        | ok =>
          simp only
          obtain ⟨new, st, hm, hres, e⟩ := setHashes_ok hsr
          have hnew : new = dictOf v.shareHashes := by simp [mergeLeaves] at hm; exact hm.symm
          subst hnew
          rw [← e]
          exact tryBody_stored hstrict pick _ _ hres _ w hleaf
        | badHash => simp at hacc
        | notEnough => simp at hacc
        | indexError => simp at hacc
        | internal => simp at hacc

/-- `set_block_hash_root` on a share seen for the first time stores the validated share hash leaf as the root -/
theorem stageBlockRoot_fresh (E : Env H) (cfg : Cfg) (pick : List Nat → Nat) (cap : Cap H) (shnum : Nat) (nd : Node H)
    {u : UEB H} {sz : Sizes} {r : H} (hk : nd.known = some (u, sz))
    (hbt : nd.blockTree shnum sz.numSegs = newTree H sz.numSegs)
    (hr : get nd.shareTree (firstLeafNum cap.n + shnum) = some r) :
    stageBlockRoot E cfg pick cap shnum nd = (none, nd.setBlockTree shnum (seed (newTree H sz.numSegs) r)) := by
  unfold stageBlockRoot
  rw [hk]
  simp only
  rw [hbt, get_newTree]
  simp only [truthyOpt]
  rw [hr]
  simp

omit [DecidableEq H] in
/-- in a closed, sibling-closed tree a held leaf has its whole uncle chain held: nothing is requested for it -/
theorem held_leaf_needs_nothing {t : Tree H} (hc : Closed t) (hsc : SibClosed t) {first segnum : Nat}
    (hL : first + segnum < t.length) (hheld : get t (first + segnum) ≠ none) :
    neededHashes? t first segnum true = some [] := by
  have hneeded : neededHashes? t first segnum true =
      some ((neededFor (first + segnum) ++ [first + segnum]).filter (fun i => (get t i).isNone)) := by
    unfold neededHashes? completeNeededHashes? neededFor?
    have : ¬ (first + segnum ≥ t.length) := by omega
    simp [this]
  rw [hneeded]
  congr 1
  apply List.filter_eq_nil_iff.mpr
  intro i hi
  have hknown : get t i ≠ none := by
    cases List.mem_append.mp hi with
    | inl h =>
      obtain ⟨c, hanc, hc0, e⟩ := mem_neededFor.mp h
      rw [e]
      exact hsc c hc0 (known_above hc hsc hanc hheld)
    | inr h =>
      have : i = first + segnum := by simpa using h
      rw [this]; exact hheld
  cases hg : get t i with
  | none => exact absurd hg hknown
  | some w => simp

/-- `_satisfy_ciphertext_hash_tree` when the segment's crypttext leaf is already held (another share was asked first) -/
theorem stageCtHashes_held_leaf (E : Env H) (cfg : Cfg) (pick : List Nat → Nat) (segnum : Nat) (v : View H)
    (nd : Node H) {u : UEB H} {sz : Sizes} (hk : nd.known = some (u, sz))
    (hc : Closed nd.ctTree) (hsc : SibClosed nd.ctTree)
    (hL : firstLeafNum sz.numSegs + segnum < nd.ctTree.length)
    (hheld : get nd.ctTree (firstLeafNum sz.numSegs + segnum) ≠ none) :
    stageCtHashes E cfg pick segnum v nd = (none, nd) := by
  unfold stageCtHashes
  rw [hk]
  simp only
  rw [held_leaf_needs_nothing hc hsc hL hheld]

/-! ### `SibClosed` (every held non-root node has its sibling held) is a stage invariant too -/

omit [DecidableEq H] in
/-- storing a root keeps a tree sibling-closed -/
theorem seed_keeps_sibClosed {t : Tree H} (hsc : SibClosed t) (r : H) : SibClosed (seed t r) := by
  intro i hi h1
  unfold seed at *
  rw [get_set_ne _ (Ne.symm hi)] at h1
  rw [get_set_ne _ (Ne.symm (sibling_ne_zero hi))]
  exact hsc i hi h1

/-- `_satisfy_UEB` keeps the share hash tree sibling-closed and installs a sibling-closed crypttext hash tree -/
theorem stageUEB_keeps_sibClosed (E : Env H) (cap : Cap H) (v : View H) (nd : Node H)
    (hs : SibClosed nd.shareTree) (hc : SibClosed nd.ctTree) :
    SibClosed (stageUEB E cap v nd).2.shareTree ∧ SibClosed (stageUEB E cap v nd).2.ctTree := by
  unfold stageUEB
  split
  · exact ⟨hs, hc⟩
  · split
    · exact ⟨hs, hc⟩
    · split
      · exact ⟨hs, hc⟩
      · split
        · exact ⟨hs, hc⟩
        · split
          · exact ⟨hs, hc⟩
          · exact ⟨seed_keeps_sibClosed hs _, seed_keeps_sibClosed (newTree_sibClosed _) _⟩

/-- a `set_hashes` call whose indices are in range keeps the tree sibling-closed, whatever its outcome (accepted: the level
    loop fills every parent; rejected: rolled back to the tree as it was) -/
theorem set_keeps_sibClosed {E : Env H} {cfg : Cfg} (hstrict : StrictPresence E.ops cfg) {t : Tree H} (hcl : SibClosed t)
    {pick : List Nat → Nat} {first : Nat} {hashes leaves : List (Nat × H)} {o : Outcome} {t' : Tree H}
    (hrange : ∀ new, mergeLeaves first hashes leaves = some new → ∀ e ∈ new, e.1 < t.length)
    (hs : setHashes E.ops cfg pick first t hashes leaves = (o, t')) : SibClosed t' := by
  by_cases ho : o = .ok
  · subst ho
    obtain ⟨new, st, _, hres, e⟩ := setHashes_ok hs
    rw [← e]
    exact tryBody_sibClosed hstrict pick t new hcl hres
  · have := setHashes_fail_same hstrict hrange hs ho
    subst this
    exact hcl

/-- `_satisfy_block_hash_tree` keeps the share's block hash tree sibling-closed, whatever the share answered -/
theorem stageBlockHashes_keeps_sibClosed {E : Env H} {cfg : Cfg} (hstrict : StrictPresence E.ops cfg)
    (pick : List Nat → Nat) (shnum segnum : Nat) (v : View H) (nd : Node H) {T : Tree H} {u : UEB H} {sz : Sizes}
    (hk : nd.known = some (u, sz)) (hok : TreeOK E.ops T (nd.blockTree shnum sz.numSegs))
    (hcl : SibClosed (nd.blockTree shnum sz.numSegs)) :
    SibClosed ((stageBlockHashes E cfg pick shnum segnum v nd).2.blockTree shnum sz.numSegs) := by
  unfold stageBlockHashes
  rw [hk]
  simp only
  cases hn : neededHashes? (nd.blockTree shnum sz.numSegs) (firstLeafNum sz.numSegs) segnum true with
  | none => simp only; exact hcl
  | some needed =>
    cases needed with
    | nil => simp only; exact hcl
    | cons a rest =>
      simp only
      cases hc : collect (a :: rest) v.blockHashes with
      | none => simp only; exact hcl
      | some hs =>
        simp only
        have hrange : ∀ new, mergeLeaves (firstLeafNum sz.numSegs) hs [] = some new →
            ∀ e ∈ new, e.1 < (nd.blockTree shnum sz.numSegs).length := by
          intro new hm e he
          have : new = hs := by simp [mergeLeaves] at hm; exact hm.symm
          subst this
          exact neededHashes?_lt (treeOK_odd hok) hn _ (collect_keys hc e he)
        cases hsr : setHashes E.ops cfg pick (firstLeafNum sz.numSegs) (nd.blockTree shnum sz.numSegs) hs [] with
        | mk o t' =>
          have := set_keeps_sibClosed hstrict hcl hrange hsr
          cases o <;> (simp only; rw [blockTree_set_same]; exact this)

/-- `_satisfy_data_block` keeps the share's block hash tree sibling-closed, whatever block the share sent -/
theorem stageData_keeps_sibClosed {E : Env H} {cfg : Cfg} (hstrict : StrictPresence E.ops cfg)
    (pick : List Nat → Nat) (shnum segnum : Nat) (v : View H) (nd : Node H) {T : Tree H} {u : UEB H} {sz : Sizes}
    (hk : nd.known = some (u, sz)) (hok : TreeOK E.ops T (nd.blockTree shnum sz.numSegs))
    (hseg : segnum < sz.numSegs) (hlen : T.length = 2 * roundupPow2 sz.numSegs - 1)
    (hcl : SibClosed (nd.blockTree shnum sz.numSegs)) :
    SibClosed ((stageData E cfg pick shnum segnum v nd).2.blockTree shnum sz.numSegs) := by
  unfold stageData
  rw [hk]
  simp only
  generalize (if segnum + 1 = sz.numSegs then sz.tailBlockSize else sz.blockSize) = blocklen
  split
  · exact hcl
  · have hrange : ∀ new, mergeLeaves (firstLeafNum sz.numSegs) [] [(segnum, E.tagged .block v.block)] = some new →
        ∀ e ∈ new, e.1 < (nd.blockTree shnum sz.numSegs).length := by
      intro new hm e he
      simp [mergeLeaves] at hm
      subst hm
      simp at he
      subst he
      have := roundupPow2_ge sz.numSegs
      have := roundupPow2_pos sz.numSegs
      rw [hok.2.1, hlen]
      show firstLeafNum sz.numSegs + segnum < _
      unfold firstLeafNum
      omega
    cases hsr : setHashes E.ops cfg pick (firstLeafNum sz.numSegs) (nd.blockTree shnum sz.numSegs) []
        [(segnum, E.tagged .block v.block)] with
    | mk o t' =>
      have := set_keeps_sibClosed hstrict hcl hrange hsr
      cases o <;> (simp only; rw [blockTree_set_same]; exact this)

/-- `_satisfy_ciphertext_hash_tree` keeps the node's crypttext hash tree sibling-closed, whatever the share answered -/
theorem stageCtHashes_keeps_sibClosed {E : Env H} {cfg : Cfg} (hstrict : StrictPresence E.ops cfg)
    (pick : List Nat → Nat) (segnum : Nat) (v : View H) (nd : Node H)
    (hodd : nd.ctTree.length % 2 = 1) (hcl : SibClosed nd.ctTree) :
    SibClosed (stageCtHashes E cfg pick segnum v nd).2.ctTree := by
  unfold stageCtHashes
  cases hk : nd.known with
  | none => simp only; exact hcl
  | some us =>
    obtain ⟨u, sz⟩ := us
    simp only
    cases hn : neededHashes? nd.ctTree (firstLeafNum sz.numSegs) segnum true with
    | none => simp only; exact hcl
    | some needed =>
      cases needed with
      | nil => simp only; exact hcl
      | cons a rest =>
        simp only
        cases hc : collect (a :: rest) v.ctHashes with
        | none => simp only; exact hcl
        | some hs =>
          simp only
          have hrange : ∀ new, mergeLeaves (firstLeafNum sz.numSegs) hs [] = some new →
              ∀ e ∈ new, e.1 < nd.ctTree.length := by
            intro new hm e he
            have : new = hs := by simp [mergeLeaves] at hm; exact hm.symm
            subst this
            exact neededHashes?_lt hodd hn _ (collect_keys hc e he)
          cases hsr : setHashes E.ops cfg pick (firstLeafNum sz.numSegs) nd.ctTree hs [] with
          | mk o t' =>
            have := set_keeps_sibClosed hstrict hcl hrange hsr
            cases o <;> (simp only; exact this)

/-- `_satisfy_share_hash_tree` keeps the node's share hash tree sibling-closed, whatever chain the share sent -/
theorem stageShareTree_keeps_sibClosed {E : Env H} {cfg : Cfg} (hstrict : StrictPresence E.ops cfg)
    (pick : List Nat → Nat) (cap : Cap H) (shnum : Nat) (v : View H) (nd : Node H) (hcl : SibClosed nd.shareTree) :
    SibClosed (stageShareTree E cfg pick cap shnum v nd).2.shareTree := by
  unfold stageShareTree
  split
  · exact hcl
  · split
    · exact hcl
    · split
      · exact hcl
      · simp only
        split
        · exact hcl
        · rename_i hany
          have hrange : ∀ new, mergeLeaves (firstLeafNum cap.n) (dictOf v.shareHashes) [] = some new →
              ∀ e ∈ new, e.1 < nd.shareTree.length := by
            intro new hm e he
            have : new = dictOf v.shareHashes := by simp [mergeLeaves] at hm; exact hm.symm
            subst this
            apply Nat.lt_of_not_le
            intro hge
            exact hany (List.any_eq_true.mpr ⟨e, he, by simpa using hge⟩)
          cases hsr : setHashes E.ops cfg pick (firstLeafNum cap.n) nd.shareTree (dictOf v.shareHashes) [] with
          | mk o t' =>
            have := set_keeps_sibClosed hstrict hcl hrange hsr
            cases o <;> (simp only; exact this)

/-- `set_block_hash_root` keeps the share's block hash tree sibling-closed -/
theorem stageBlockRoot_keeps_sibClosed {E : Env H} {cfg : Cfg} (hstrict : StrictPresence E.ops cfg)
    (pick : List Nat → Nat) (cap : Cap H) (shnum : Nat) (nd : Node H) {u : UEB H} {sz : Sizes}
    (hk : nd.known = some (u, sz)) (hcl : SibClosed (nd.blockTree shnum sz.numSegs)) :
    SibClosed ((stageBlockRoot E cfg pick cap shnum nd).2.blockTree shnum sz.numSegs) := by
  unfold stageBlockRoot
  rw [hk]
  simp only
  split
  · exact hcl
  · split
    · exact hcl
    · split
      · rw [blockTree_set_same]; exact seed_keeps_sibClosed hcl _
      · rename_i r _ hroot
        have hrange : ∀ new, mergeLeaves (firstLeafNum sz.numSegs) [(0, r)] [] = some new →
            ∀ e ∈ new, e.1 < (nd.blockTree shnum sz.numSegs).length := by
          intro new hm e he
          simp [mergeLeaves] at hm
          subst hm
          simp at he
          subst he
          exact lt_of_get_ne_none hroot
        cases hsr : setHashes E.ops cfg pick (firstLeafNum sz.numSegs) (nd.blockTree shnum sz.numSegs) [(0, r)] [] with
        | mk o t' =>
          have := set_keeps_sibClosed hstrict hcl hrange hsr
          cases o <;> (simp only; rw [blockTree_set_same]; exact this)

/-- `_satisfy_block_hash_tree` when the segment's block hash leaf is already held (the segment was fetched from this
    share before, e.g. by another reader) -/
theorem stageBlockHashes_held_leaf (E : Env H) (cfg : Cfg) (pick : List Nat → Nat) (shnum segnum : Nat) (v : View H)
    (nd : Node H) {u : UEB H} {sz : Sizes} (hk : nd.known = some (u, sz))
    (hc : Closed (nd.blockTree shnum sz.numSegs)) (hsc : SibClosed (nd.blockTree shnum sz.numSegs))
    (hL : firstLeafNum sz.numSegs + segnum < (nd.blockTree shnum sz.numSegs).length)
    (hheld : get (nd.blockTree shnum sz.numSegs) (firstLeafNum sz.numSegs + segnum) ≠ none) :
    stageBlockHashes E cfg pick shnum segnum v nd = (none, nd) := by
  unfold stageBlockHashes
  rw [hk]
  simp only
  rw [held_leaf_needs_nothing hc hsc hL hheld]

omit [DecidableEq H] in
/-- in a closed, sibling-closed tree the uncle chain of a held leaf is held -/
theorem held_leaf_chain_held {t : Tree H} (hc : Closed t) (hsc : SibClosed t) {L : Nat} (hheld : get t L ≠ none) :
    ∀ i ∈ neededFor L, get t i ≠ none := by
  intro i hi
  obtain ⟨c, hanc, hc0, e⟩ := mem_neededFor.mp hi
  rw [e]
  exact hsc c hc0 (known_above hc hsc hanc hheld)

/-! ### lifting stage invariants to whole passes -/

/-- `set_block_hash_root` touches only the block hash trees -/
theorem stageBlockRoot_frame (E : Env H) (cfg : Cfg) (pick : List Nat → Nat) (cap : Cap H) (shnum : Nat) (nd : Node H) :
    (stageBlockRoot E cfg pick cap shnum nd).2.shareTree = nd.shareTree ∧
    (stageBlockRoot E cfg pick cap shnum nd).2.ctTree = nd.ctTree := by
  unfold stageBlockRoot
  dsimp only
  repeat' split
  all_goals exact ⟨rfl, rfl⟩

/-- `_satisfy_data_block` touches only the block hash trees -/
theorem stageData_frame (E : Env H) (cfg : Cfg) (pick : List Nat → Nat) (shnum segnum : Nat) (v : View H) (nd : Node H) :
    (stageData E cfg pick shnum segnum v nd).2.shareTree = nd.shareTree ∧
    (stageData E cfg pick shnum segnum v nd).2.ctTree = nd.ctTree := by
  unfold stageData
  dsimp only
  repeat' split
  all_goals exact ⟨rfl, rfl⟩

/-- **one whole pass keeps the share hash tree closed and sibling-closed**, whatever the share answers -/
theorem satisfy_keeps_share_tree_closed {E : Env H} {cfg : Cfg} (hstrict : StrictPresence E.ops cfg)
    (pick : List Nat → Nat) (cap : Cap H) (nd : Node H) (shnum segnum : Nat) (v : View H)
    (h : Closed nd.shareTree ∧ SibClosed nd.shareTree) :
    Closed (satisfy E cfg pick cap nd shnum segnum v).2.shareTree ∧
    SibClosed (satisfy E cfg pick cap nd shnum segnum v).2.shareTree := by
  unfold satisfy
  apply runStages_inv (P := fun nd => Closed nd.shareTree ∧ SibClosed nd.shareTree) _ _ nd h
  intro f hf nd0 h0
  unfold stages at hf
  simp only [List.mem_cons, List.not_mem_nil, or_false] at hf
  rcases hf with e | e | e | e | e | e | e | e <;> subst e
  · dsimp only; split <;> exact h0
  · unfold stageUEB
    repeat' split
    all_goals first | exact h0 | exact ⟨seed_keeps_closed h0.1 _, seed_keeps_sibClosed h0.2 _⟩
  · unfold stageSegnum; repeat' split
    all_goals exact h0
  · exact ⟨stageShareTree_keeps_closed hstrict pick cap shnum v nd0 h0.1,
      stageShareTree_keeps_sibClosed hstrict pick cap shnum v nd0 h0.2⟩
  · rw [(stageBlockRoot_frame E cfg pick cap shnum nd0).1]; exact h0
  · rw [(stageBlockHashes_frame E cfg pick shnum segnum v nd0).2.2]; exact h0
  · rw [(stageCtHashes_frame E cfg pick segnum v nd0).2.2]; exact h0
  · rw [(stageData_frame E cfg pick shnum segnum v nd0).1]; exact h0

/-- a `set_hashes` call never changes the length of the tree -/
theorem setHashes_length {E : Env H} {cfg : Cfg} (hstrict : StrictPresence E.ops cfg) {t : Tree H}
    {pick : List Nat → Nat} {first : Nat} {hashes leaves : List (Nat × H)} {o : Outcome} {t' : Tree H}
    (hrange : ∀ new, mergeLeaves first hashes leaves = some new → ∀ e ∈ new, e.1 < t.length)
    (hs : setHashes E.ops cfg pick first t hashes leaves = (o, t')) : t'.length = t.length := by
  by_cases ho : o = .ok
  · subst ho
    obtain ⟨new, st, _, hres, e⟩ := setHashes_ok hs
    have := tryBody_reach (E.ops.withCfg cfg) pick t new
    rw [hres] at this
    rw [← e]
    exact this.length_eq
  · rw [setHashes_fail_same hstrict hrange hs ho]

/-- `_satisfy_share_hash_tree` touches only the share hash tree -/
theorem stageShareTree_frame (E : Env H) (cfg : Cfg) (pick : List Nat → Nat) (cap : Cap H) (shnum : Nat) (v : View H)
    (nd : Node H) :
    (stageShareTree E cfg pick cap shnum v nd).2.known = nd.known ∧
    (stageShareTree E cfg pick cap shnum v nd).2.ctTree = nd.ctTree ∧
    (stageShareTree E cfg pick cap shnum v nd).2.blockTrees = nd.blockTrees := by
  unfold stageShareTree
  dsimp only
  repeat' split
  all_goals exact ⟨rfl, rfl, rfl⟩

/-- the crypttext hash tree of a node: closed, sibling-closed, and either not installed yet or of odd length -/
def CtGood (nd : Node H) : Prop :=
  Closed nd.ctTree ∧ SibClosed nd.ctTree ∧ (nd.ctTree.length % 2 = 1 ∨ nd.ctTree = [])

/-- `_satisfy_ciphertext_hash_tree` keeps `CtGood` -/
theorem stageCtHashes_keeps_ctGood {E : Env H} {cfg : Cfg} (hstrict : StrictPresence E.ops cfg)
    (pick : List Nat → Nat) (segnum : Nat) (v : View H) (nd : Node H) (h : CtGood nd) :
    CtGood (stageCtHashes E cfg pick segnum v nd).2 := by
  obtain ⟨hc, hsc, hlen⟩ := h
  cases hlen with
  | inl hodd =>
    refine ⟨stageCtHashes_keeps_closed hstrict pick segnum v nd hodd hc,
      stageCtHashes_keeps_sibClosed hstrict pick segnum v nd hodd hsc, Or.inl ?_⟩
    unfold stageCtHashes
    cases hk : nd.known with
    | none => simp only; exact hodd
    | some us =>
      obtain ⟨u, sz⟩ := us
      simp only
      cases hn : neededHashes? nd.ctTree (firstLeafNum sz.numSegs) segnum true with
      | none => simp only; exact hodd
      | some needed =>
        cases needed with
        | nil => simp only; exact hodd
        | cons a rest =>
          simp only
          cases hcl : collect (a :: rest) v.ctHashes with
          | none => simp only; exact hodd
          | some hs =>
            simp only
            have hrange : ∀ new, mergeLeaves (firstLeafNum sz.numSegs) hs [] = some new →
                ∀ e ∈ new, e.1 < nd.ctTree.length := by
              intro new hm e he
              have : new = hs := by simp [mergeLeaves] at hm; exact hm.symm
              subst this
              exact neededHashes?_lt hodd hn _ (collect_keys hcl e he)
            cases hsr : setHashes E.ops cfg pick (firstLeafNum sz.numSegs) nd.ctTree hs [] with
            | mk o t' =>
              have := setHashes_length hstrict hrange hsr
              cases o <;> (simp only; rw [this]; exact hodd)
  | inr hnil =>
    have : stageCtHashes E cfg pick segnum v nd = ((stageCtHashes E cfg pick segnum v nd).1, nd) := by
      unfold stageCtHashes
      cases hk : nd.known with
      | none => rfl
      | some us =>
        obtain ⟨u, sz⟩ := us
        simp only
        have : neededHashes? nd.ctTree (firstLeafNum sz.numSegs) segnum true = none := by
          rw [hnil]; unfold neededHashes? completeNeededHashes? neededFor?; simp
        rw [this]
    rw [this]
    exact ⟨hc, hsc, Or.inr hnil⟩

/-- **one whole pass keeps the crypttext hash tree closed, sibling-closed and of odd length** -/
theorem satisfy_keeps_ctGood {E : Env H} {cfg : Cfg} (hstrict : StrictPresence E.ops cfg)
    (pick : List Nat → Nat) (cap : Cap H) (nd : Node H) (shnum segnum : Nat) (v : View H) (h : CtGood nd) :
    CtGood (satisfy E cfg pick cap nd shnum segnum v).2 := by
  unfold satisfy
  apply runStages_inv (P := CtGood) _ _ nd h
  intro f hf nd0 h0
  unfold stages at hf
  simp only [List.mem_cons, List.not_mem_nil, or_false] at hf
  rcases hf with e | e | e | e | e | e | e | e <;> subst e
  · dsimp only; split <;> exact h0
  · unfold stageUEB
    repeat' split
    all_goals first
      | exact h0
      | exact ⟨seed_closed _ _, seed_keeps_sibClosed (newTree_sibClosed _) _, Or.inl (by
          rename_i sz _; rw [seed_length]; have := roundupPow2_pos sz.numSegs; omega)⟩
  · unfold stageSegnum; repeat' split
    all_goals exact h0
  · unfold CtGood; rw [(stageShareTree_frame E cfg pick cap shnum v nd0).2.1]; exact h0
  · unfold CtGood; rw [(stageBlockRoot_frame E cfg pick cap shnum nd0).2]; exact h0
  · unfold CtGood; rw [(stageBlockHashes_frame E cfg pick shnum segnum v nd0).2.1]; exact h0
  · exact stageCtHashes_keeps_ctGood hstrict pick segnum v nd0 h0
  · unfold CtGood; rw [(stageData_frame E cfg pick shnum segnum v nd0).2]; exact h0

end Tahoe.Integrity
