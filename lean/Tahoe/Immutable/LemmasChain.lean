import Tahoe.Immutable.LemmasBlocks
/-! Composition of the share-level stage theorems (LemmasBlocks) along `Share._get_satisfaction` (`satisfy`): an
    invariant of the download node covering the share hash tree and the block hash trees of all share numbers is
    kept by every pass of every share, and a block reported COMPLETE is the uploader's block. -/
namespace Tahoe.Integrity
open Tahoe.Base.Merkle

variable {H : Type} [DecidableEq H]

omit [DecidableEq H] in
theorem lookup_filter_ne {β : Type} (l : List (Nat × β)) (a b : Nat) (h : a ≠ b) :
    (l.filter (fun e => e.1 != b)).lookup a = l.lookup a := by
  induction l with
  | nil => rfl
  | cons e rest ih =>
    obtain ⟨k, v⟩ := e
    by_cases hk : k = b
    · subst hk
      have h1 : (a == k) = false := by simp [h]
      simp [List.filter, List.lookup, h1, ih]
    · have h2 : (k != b) = true := by simp [hk]
      simp only [List.filter, h2, List.lookup]
      cases hak : a == k with
      | true => rfl
      | false => simpa using ih

omit [DecidableEq H] in
theorem blockTree_set_other (nd : Node H) (sh sh' m : Nat) (t : Tree H) (h : sh' ≠ sh) :
    (nd.setBlockTree sh t).blockTree sh' m = nd.blockTree sh' m := by
  unfold Node.blockTree Node.setBlockTree
  have h1 : (sh' == sh) = false := by simp [h]
  simp only [List.lookup, h1]
  rw [lookup_filter_ne _ _ _ h]

section chain
variable {E : Env H} {cfg : Cfg} {prm : Params} {ser : UEB H → Bytes} {encode : Nat → Bytes → Nat → Bytes}
  {ct : Bytes} {sz : Sizes}

/-- every share number's block hash tree is untouched or anchored at (and a partial copy of) the published one -/
def BtOK (E : Env H) (prm : Params) (ser : UEB H → Bytes) (encode : Nat → Bytes → Nat → Bytes) (ct : Bytes)
    (sz : Sizes) (nd : Node H) : Prop :=
  ∀ sh, sh < prm.n → nd.blockTree sh sz.numSegs = newTree H sz.numSegs ∨
    TreeOK E.ops ((upload E prm encode ser ct).blockT sh) (nd.blockTree sh sz.numSegs)

/-- share-level invariant of the download node -/
def ShInv (E : Env H) (prm : Params) (ser : UEB H → Bytes) (encode : Nat → Bytes → Nat → Bytes) (ct : Bytes)
    (sz : Sizes) (nd : Node H) : Prop :=
  (nd.known = none ∧ nd.shareTree = newTree H prm.n ∧ nd.blockTrees = []) ∨
  (nd.known = some ((upload E prm encode ser ct).ueb, sz) ∧
    TreeOK E.ops (upload E prm encode ser ct).shareT nd.shareTree ∧ BtOK E prm ser encode ct sz nd)

omit [DecidableEq H] in
theorem shInv_set (nd : Node H) (shnum : Nat) (t : Tree H) (h : ShInv E prm ser encode ct sz nd)
    (hk : nd.known ≠ none)
    (ht : shnum < prm.n → t = newTree H sz.numSegs ∨ TreeOK E.ops ((upload E prm encode ser ct).blockT shnum) t) :
    ShInv E prm ser encode ct sz (nd.setBlockTree shnum t) := by
  rcases h with ⟨h1, _⟩ | ⟨h1, h2, h3⟩
  · exact absurd h1 hk
  · refine Or.inr ⟨h1, h2, ?_⟩
    intro sh hsh
    by_cases e : sh = shnum
    · subst e; rw [blockTree_set_same]; exact ht hsh
    · rw [blockTree_set_other _ _ _ _ _ e]; exact h3 sh hsh

omit [DecidableEq H] in
theorem shInv_frame {nd nd' : Node H} (h : ShInv E prm ser encode ct sz nd) (h1 : nd'.known = nd.known)
    (h2 : nd'.shareTree = nd.shareTree) (h3 : nd'.blockTrees = nd.blockTrees) : ShInv E prm ser encode ct sz nd' := by
  unfold ShInv BtOK Node.blockTree at *
  rw [h1, h2, h3]; exact h

/-- what each stage may change -/
theorem stage_shapes (pick : List Nat → Nat) (cap : Cap H) (shnum segnum : Nat) (v : View H) (nd : Node H) :
    ((stageShareTree E cfg pick cap shnum v nd).2.blockTrees = nd.blockTrees) ∧
    ((stageCtHashes E cfg pick segnum v nd).2.shareTree = nd.shareTree ∧
      (stageCtHashes E cfg pick segnum v nd).2.blockTrees = nd.blockTrees ∧
      (stageCtHashes E cfg pick segnum v nd).2.known = nd.known) ∧
    ((stageBlockRoot E cfg pick cap shnum nd).2 = nd ∨ ∃ t, (stageBlockRoot E cfg pick cap shnum nd).2 = nd.setBlockTree shnum t) ∧
    ((stageBlockHashes E cfg pick shnum segnum v nd).2 = nd ∨
      ∃ t, (stageBlockHashes E cfg pick shnum segnum v nd).2 = nd.setBlockTree shnum t) ∧
    ((stageData E cfg pick shnum segnum v nd).2 = nd ∨ ∃ t, (stageData E cfg pick shnum segnum v nd).2 = nd.setBlockTree shnum t) := by
  refine ⟨?_, ?_, ?_, ?_, ?_⟩
  · unfold stageShareTree
    dsimp only
    repeat' split
    all_goals (try dsimp only)
    all_goals (repeat' split)
    all_goals rfl
  · unfold stageCtHashes
    repeat' split
    all_goals exact ⟨rfl, rfl, rfl⟩
  · unfold stageBlockRoot
    dsimp only
    repeat' split
    all_goals (try dsimp only)
    all_goals (repeat' split)
    all_goals first | exact Or.inl rfl | exact Or.inr ⟨_, rfl⟩
  · unfold stageBlockHashes
    dsimp only
    repeat' split
    all_goals (try dsimp only)
    all_goals (repeat' split)
    all_goals first | exact Or.inl rfl | exact Or.inr ⟨_, rfl⟩
  · unfold stageData
    dsimp only
    repeat' split
    all_goals (try dsimp only)
    all_goals (repeat' split)
    all_goals first | exact Or.inl rfl | exact Or.inr ⟨_, rfl⟩

/-- no stage but the last reports a block -/
theorem stage_not_block (pick : List Nat → Nat) (cap : Cap H) (shnum segnum : Nat) (v : View H) (nd : Node H) (b : Bytes) :
    (stageUEB E cap v nd).1 ≠ some (.block b) ∧ (stageSegnum segnum nd).1 ≠ some (.block b) ∧
    (stageShareTree E cfg pick cap shnum v nd).1 ≠ some (.block b) ∧
    (stageBlockRoot E cfg pick cap shnum nd).1 ≠ some (.block b) ∧
    (stageBlockHashes E cfg pick shnum segnum v nd).1 ≠ some (.block b) ∧
    (stageCtHashes E cfg pick segnum v nd).1 ≠ some (.block b) := by
  refine ⟨?_, ?_, ?_, ?_, ?_, ?_⟩
  · unfold stageUEB; repeat' split
    all_goals (intro e; cases e)
  · unfold stageSegnum; repeat' split
    all_goals (intro e; cases e)
  · unfold stageShareTree; dsimp only; repeat' split
    all_goals (try dsimp only)
    all_goals (repeat' split)
    all_goals (intro e; cases e)
  · unfold stageBlockRoot; dsimp only; repeat' split
    all_goals (try dsimp only)
    all_goals (repeat' split)
    all_goals (intro e; cases e)
  · unfold stageBlockHashes; dsimp only; repeat' split
    all_goals (try dsimp only)
    all_goals (repeat' split)
    all_goals (intro e; cases e)
  · unfold stageCtHashes; repeat' split
    all_goals (intro e; cases e)


omit [DecidableEq H] in
theorem runStages_step {R : Res × Node H → Prop} (f : Node H → Option Res × Node H)
    (rest : List (Node H → Option Res × Node H)) (nd : Node H)
    (h : ∀ o nd', f nd = (o, nd') → match o with
      | some r => R (r, nd')
      | none => R (runStages rest nd')) : R (runStages (f :: rest) nd) := by
  unfold runStages
  cases hf : f nd with
  | mk o nd' =>
    have := h o nd' hf
    cases o with
    | none => simp only; exact this
    | some r => simp only; exact this

theorem stageUEB_sh (S : Setup E cfg prm ser encode ct sz) (v : View H) (nd : Node H)
    (h : ShInv E prm ser encode ct sz nd) :
    ShInv E prm ser encode ct sz (stageUEB E (upload E prm encode ser ct).cap v nd).2 ∧
    ((stageUEB E (upload E prm encode ser ct).cap v nd).1 = none →
      (stageUEB E (upload E prm encode ser ct).cap v nd).2.known = some ((upload E prm encode ser ct).ueb, sz)) := by
  unfold stageUEB
  cases hk : nd.known with
  | some x =>
    simp only
    refine ⟨h, fun _ => ?_⟩
    rcases h with ⟨h1, _⟩ | ⟨h1, _⟩
    · rw [hk] at h1; cases h1
    · exact h1
  | none =>
    simp only
    cases hub : v.uebBytes with
    | none => simp only; exact ⟨h, by simp⟩
    | some uebS =>
    simp only
    by_cases hh : E.tagged .ueb uebS ≠ (upload E prm encode ser ct).cap.uebHash
    · rw [if_pos hh]; exact ⟨h, by simp⟩
    · rw [if_neg hh]
      have heq : E.tagged .ueb uebS = E.tagged .ueb (ser (upload E prm encode ser ct).ueb) :=
        Classical.not_not.mp hh
      have hb : uebS = ser (upload E prm encode ser ct).ueb := S.cf _ _ _ heq
      have hp : E.parseUEB (ser (upload E prm encode ser ct).ueb) = some (upload E prm encode ser ct).ueb := S.ser_ok
      rw [hb, hp]
      simp only
      have hsz : calcSizes (upload E prm encode ser ct).cap.size (upload E prm encode ser ct).cap.k
          (upload E prm encode ser ct).ueb.segmentSize = some sz := S.sizes
      rw [hsz]
      simp only
      refine ⟨Or.inr ⟨rfl, ?_, ?_⟩, by simp⟩
      · rcases h with ⟨_, h2, _⟩ | ⟨h1, _⟩
        · show TreeOK E.ops _ (seed nd.shareTree _)
          rw [h2, upload_shareT]
          exact seed_ok (ops := E.ops) (L := shareLeaves E prm encode ct) (by simp [shareLeaves])
        · rw [hk] at h1; cases h1
      · rcases h with ⟨_, _, h3⟩ | ⟨h1, _⟩
        · intro sh _
          left
          show Node.blockTree { nd with known := _, ctTree := _, shareTree := _ } sh sz.numSegs = _
          unfold Node.blockTree
          simp [h3]
        · rw [hk] at h1; cases h1

omit [DecidableEq H] in
theorem stageSegnum_lt {nd : Node H} {u : UEB H} {sz' : Sizes} (segnum : Nat) (hk : nd.known = some (u, sz'))
    (h : (stageSegnum segnum nd).1 = none) : segnum < sz'.numSegs := by
  unfold stageSegnum at h
  rw [hk] at h
  simp only at h
  split at h
  · cases h
  · omega

theorem stageBlockRoot_all (hstrict : StrictPresence E.ops cfg) (hinj : PairInjective E.ops)
    (pick : List Nat → Nat) (shnum : Nat) (hsh : shnum < prm.n) (nd : Node H) {u : UEB H}
    (hk : nd.known = some (u, sz)) (hns : sz.numSegs = divCeil ct.length prm.segSize)
    (hshare : TreeOK E.ops (upload E prm encode ser ct).shareT nd.shareTree)
    (hbt : nd.blockTree shnum sz.numSegs = newTree H sz.numSegs ∨
      TreeOK E.ops ((upload E prm encode ser ct).blockT shnum) (nd.blockTree shnum sz.numSegs)) :
    let r := stageBlockRoot E cfg pick (upload E prm encode ser ct).cap shnum nd
    (r.2.blockTree shnum sz.numSegs = newTree H sz.numSegs ∨
      TreeOK E.ops ((upload E prm encode ser ct).blockT shnum) (r.2.blockTree shnum sz.numSegs)) ∧
    (r.1 = none → TreeOK E.ops ((upload E prm encode ser ct).blockT shnum) (r.2.blockTree shnum sz.numSegs)) := by
  intro r
  cases hr : r with
  | mk o nd1 =>
    cases o with
    | none =>
      have := (stageBlockRoot_sound hstrict hinj pick shnum hsh nd hk hns hshare hbt nd1 hr).2.2
      exact ⟨Or.inr this, fun _ => this⟩
    | some res =>
      refine ⟨?_, fun e => by cases e⟩
      show nd1.blockTree shnum sz.numSegs = _ ∨ _
      have hr' : stageBlockRoot E cfg pick (upload E prm encode ser ct).cap shnum nd = (some res, nd1) := hr
      unfold stageBlockRoot at hr'
      rw [hk] at hr'
      simp only at hr'
      split at hr'
      · cases hr'
      · split at hr'
        · injection hr' with _ h2; subst h2; exact hbt
        · split at hr'
          · cases hr'
          · rename_i r0 _ hsome
            have hb : TreeOK E.ops ((upload E prm encode ser ct).blockT shnum) (nd.blockTree shnum sz.numSegs) := by
              rcases hbt with hb | hb
              · rw [hb, get_newTree] at hsome; exact absurd rfl hsome
              · exact hb
            have hrange : ∀ new, mergeLeaves (firstLeafNum sz.numSegs) [(0, r0)] [] = some new →
                ∀ e ∈ new, e.1 < (nd.blockTree shnum sz.numSegs).length := by
              intro new hm e he
              simp [mergeLeaves] at hm
              subst hm
              simp at he; subst he
              exact lt_of_get_ne_none hb.2.2.2
            cases hsr : setHashes E.ops cfg pick (firstLeafNum sz.numSegs) (nd.blockTree shnum sz.numSegs) [(0, r0)] [] with
            | mk o t' =>
              rw [hsr] at hr'
              have h1 := (set_keeps_ok hstrict hinj hb hrange hsr).1
              cases o <;> simp only at hr' <;> (injection hr' with _ h2; subst h2; right; rw [blockTree_set_same]; exact h1)

/-- **the composition**: one pass of `_get_satisfaction` of any share with any answers keeps the share-level
    invariant, and a block it reports COMPLETE (for a share number below N) is the uploader's block -/
theorem satisfy_sh (S : Setup E cfg prm ser encode ct sz) (pick : List Nat → Nat) (shnum segnum : Nat) (v : View H)
    (nd : Node H) (h : ShInv E prm ser encode ct sz nd) :
    ShInv E prm ser encode ct sz (satisfy E cfg pick (upload E prm encode ser ct).cap nd shnum segnum v).2 ∧
    ∀ b, (satisfy E cfg pick (upload E prm encode ser ct).cap nd shnum segnum v).1 = .block b → shnum < prm.n →
      b = (upload E prm encode ser ct).block shnum segnum := by
  have hns : sz.numSegs = divCeil ct.length prm.segSize := calcSizes_numSegs S.sizes
  let R : Res × Node H → Prop := fun x => ShInv E prm ser encode ct sz x.2 ∧
    ∀ b, x.1 = .block b → shnum < prm.n → b = (upload E prm encode ser ct).block shnum segnum
  show R (satisfy E cfg pick (upload E prm encode ser ct).cap nd shnum segnum v)
  unfold satisfy stages
  -- offsets
  apply runStages_step
  intro o0 nd0 hf0
  have e0 : nd0 = nd := by
    split at hf0 <;> (injection hf0 with _ h2; exact h2.symm)
  subst e0
  cases o0 with
  | some r0 =>
    refine ⟨h, fun b e => ?_⟩
    split at hf0
    · injection hf0 with h1 _; injection h1 with h1; subst h1; cases e
    · injection hf0 with h1 _; cases h1
  | none =>
  simp only
  -- UEB
  apply runStages_step
  intro o1 nd1 hf1
  obtain ⟨hs1, hk1⟩ := stageUEB_sh S v nd0 h
  rw [hf1] at hs1 hk1
  dsimp only at hs1 hk1
  cases o1 with
  | some r1 =>
    refine ⟨hs1, fun b e => ?_⟩
    have := (stage_not_block (E := E) (cfg := cfg) pick (upload E prm encode ser ct).cap shnum segnum v nd0 b).1
    rw [hf1] at this; subst e; exact absurd rfl this
  | none =>
  simp only
  have hk1' := hk1 rfl
  -- segnum
  apply runStages_step
  intro o2 nd2 hf2
  have e2 : nd2 = nd1 := by
    have := (stage_frame E cfg pick (upload E prm encode ser ct).cap shnum segnum v nd1).1
    rw [hf2] at this; exact this
  subst e2
  cases o2 with
  | some r2 =>
    refine ⟨hs1, fun b e => ?_⟩
    have := (stage_not_block (E := E) (cfg := cfg) pick (upload E prm encode ser ct).cap shnum segnum v nd2 b).2.1
    rw [hf2] at this; subst e; exact absurd rfl this
  | none =>
  simp only
  have hseg : segnum < sz.numSegs := stageSegnum_lt segnum hk1' (by rw [hf2])
  -- share hash tree
  apply runStages_step
  intro o3 nd3 hf3
  have hshape3 := (stage_shapes (E := E) (cfg := cfg) pick (upload E prm encode ser ct).cap shnum segnum v nd2).1
  have hframe3 := (stage_frame E cfg pick (upload E prm encode ser ct).cap shnum segnum v nd2).2.1
  rw [hf3] at hshape3 hframe3
  dsimp only at hshape3 hframe3
  have hsh2 : TreeOK E.ops (upload E prm encode ser ct).shareT nd2.shareTree ∧ BtOK E prm ser encode ct sz nd2 := by
    rcases hs1 with ⟨h1, _⟩ | ⟨_, h2, h3⟩
    · rw [hk1'] at h1; cases h1
    · exact ⟨h2, h3⟩
  have hst3 := stageShareTree_sound S.strict S.inj pick (upload E prm encode ser ct).cap shnum v nd2 hsh2.1
  rw [hf3] at hst3
  dsimp only at hst3
  have hk3 : nd3.known = some ((upload E prm encode ser ct).ueb, sz) := by rw [hframe3.1]; exact hk1'
  have hs3 : ShInv E prm ser encode ct sz nd3 := by
    refine Or.inr ⟨hk3, hst3, ?_⟩
    intro sh hsh
    have := hsh2.2 sh hsh
    unfold Node.blockTree at this ⊢
    rw [hshape3]; exact this
  cases o3 with
  | some r3 =>
    refine ⟨hs3, fun b e => ?_⟩
    have := (stage_not_block (E := E) (cfg := cfg) pick (upload E prm encode ser ct).cap shnum segnum v nd2 b).2.2.1
    rw [hf3] at this; subst e; exact absurd rfl this
  | none =>
  simp only
  have hbt3 : BtOK E prm ser encode ct sz nd3 := by
    rcases hs3 with ⟨h1, _⟩ | ⟨_, _, h3⟩
    · rw [hk3] at h1; cases h1
    · exact h3
  -- block hash root
  apply runStages_step
  intro o4 nd4 hf4
  have hshape4 := (stage_shapes (E := E) (cfg := cfg) pick (upload E prm encode ser ct).cap shnum segnum v nd3).2.2.1
  rw [hf4] at hshape4
  dsimp only at hshape4
  have hk3ne : nd3.known ≠ none := by rw [hk3]; exact fun e => nomatch e
  have hall4 : shnum < prm.n → (nd4.blockTree shnum sz.numSegs = newTree H sz.numSegs ∨
      TreeOK E.ops ((upload E prm encode ser ct).blockT shnum) (nd4.blockTree shnum sz.numSegs)) ∧
      (o4 = none → TreeOK E.ops ((upload E prm encode ser ct).blockT shnum) (nd4.blockTree shnum sz.numSegs)) := by
    intro hsh
    have := stageBlockRoot_all (ser := ser) (encode := encode) S.strict S.inj pick shnum hsh nd3 hk3 hns hst3 (hbt3 shnum hsh)
    simp only at this
    rw [hf4] at this
    exact this
  have hs4 : ShInv E prm ser encode ct sz nd4 := by
    rcases hshape4 with e | ⟨t, e⟩
    · rw [e]; exact hs3
    · rw [e]
      apply shInv_set nd3 shnum t hs3 hk3ne
      intro hsh
      have := (hall4 hsh).1
      rw [e, blockTree_set_same] at this
      exact this
  have hk4 : nd4.known = some ((upload E prm encode ser ct).ueb, sz) := by
    rcases hshape4 with e | ⟨t, e⟩ <;> (rw [e]; exact hk3)
  cases o4 with
  | some r4 =>
    refine ⟨hs4, fun b e => ?_⟩
    have := (stage_not_block (E := E) (cfg := cfg) pick (upload E prm encode ser ct).cap shnum segnum v nd3 b).2.2.2.1
    rw [hf4] at this; subst e; exact absurd rfl this
  | none =>
  simp only
  have hbt4 : shnum < prm.n → TreeOK E.ops ((upload E prm encode ser ct).blockT shnum) (nd4.blockTree shnum sz.numSegs) :=
    fun hsh => (hall4 hsh).2 rfl
  -- block hashes
  apply runStages_step
  intro o5 nd5 hf5
  have hshape5 := (stage_shapes (E := E) (cfg := cfg) pick (upload E prm encode ser ct).cap shnum segnum v nd4).2.2.2.1
  rw [hf5] at hshape5
  dsimp only at hshape5
  have hk4ne : nd4.known ≠ none := by rw [hk4]; exact fun e => nomatch e
  have hbt5 : shnum < prm.n → TreeOK E.ops ((upload E prm encode ser ct).blockT shnum) (nd5.blockTree shnum sz.numSegs) := by
    intro hsh
    have := (stageBlockHashes_sound S.strict S.inj pick shnum segnum v nd4 hk4 (hbt4 hsh)).2
    rw [hf5] at this; exact this
  have hs5 : ShInv E prm ser encode ct sz nd5 := by
    rcases hshape5 with e | ⟨t, e⟩
    · rw [e]; exact hs4
    · rw [e]
      apply shInv_set nd4 shnum t hs4 hk4ne
      intro hsh
      have := hbt5 hsh
      rw [e, blockTree_set_same] at this
      exact Or.inr this
  have hk5 : nd5.known = some ((upload E prm encode ser ct).ueb, sz) := by
    rcases hshape5 with e | ⟨t, e⟩ <;> (rw [e]; exact hk4)
  cases o5 with
  | some r5 =>
    refine ⟨hs5, fun b e => ?_⟩
    have := (stage_not_block (E := E) (cfg := cfg) pick (upload E prm encode ser ct).cap shnum segnum v nd4 b).2.2.2.2.1
    rw [hf5] at this; subst e; exact absurd rfl this
  | none =>
  simp only
  -- crypttext hashes
  apply runStages_step
  intro o6 nd6 hf6
  have hshape6 := (stage_shapes (E := E) (cfg := cfg) pick (upload E prm encode ser ct).cap shnum segnum v nd5).2.1
  rw [hf6] at hshape6
  dsimp only at hshape6
  have hs6 : ShInv E prm ser encode ct sz nd6 := shInv_frame hs5 hshape6.2.2 hshape6.1 hshape6.2.1
  have hk6 : nd6.known = some ((upload E prm encode ser ct).ueb, sz) := by rw [hshape6.2.2]; exact hk5
  have hbt6 : shnum < prm.n → TreeOK E.ops ((upload E prm encode ser ct).blockT shnum) (nd6.blockTree shnum sz.numSegs) := by
    intro hsh
    have := hbt5 hsh
    unfold Node.blockTree at this ⊢
    rw [hshape6.2.1]; exact this
  cases o6 with
  | some r6 =>
    refine ⟨hs6, fun b e => ?_⟩
    have := (stage_not_block (E := E) (cfg := cfg) pick (upload E prm encode ser ct).cap shnum segnum v nd5 b).2.2.2.2.2
    rw [hf6] at this; subst e; exact absurd rfl this
  | none =>
  simp only
  -- data block
  apply runStages_step
  intro o7 nd7 hf7
  have hshape7 := (stage_shapes (E := E) (cfg := cfg) pick (upload E prm encode ser ct).cap shnum segnum v nd6).2.2.2.2
  rw [hf7] at hshape7
  dsimp only at hshape7
  have hk6ne : nd6.known ≠ none := by rw [hk6]; exact fun e => nomatch e
  have hdata : shnum < prm.n →
      TreeOK E.ops ((upload E prm encode ser ct).blockT shnum) (nd7.blockTree shnum sz.numSegs) ∧
      ∀ b, o7 = some (.block b) → b = (upload E prm encode ser ct).block shnum segnum := by
    intro hsh
    have hlenL : (blockLeaves E prm encode ct shnum).length = sz.numSegs := by rw [hns]; simp [blockLeaves, segments]
    have := stageData_sound S.strict S.inj S.cf pick shnum segnum v nd6
      ((upload E prm encode ser ct).block shnum segnum) hk6 (hbt6 hsh) hseg
      (by rw [upload_blockT, Integrity.build_length, hlenL])
      (by
        rw [upload_blockT]
        have hb := build_leaf E.ops (blockLeaves E prm encode ct shnum) segnum (by rw [hlenL]; exact hseg)
        rw [hlenL] at hb
        rw [hb]
        have hj : segnum < (segments ct prm.segSize).length := by rw [segments_length, ← hns]; exact hseg
        simp [blockLeaves, List.getElem?_map, List.getElem?_range hj]
        rfl)
    rw [hf7] at this
    exact this
  have hs7 : ShInv E prm ser encode ct sz nd7 := by
    rcases hshape7 with e | ⟨t, e⟩
    · rw [e]; exact hs6
    · rw [e]
      apply shInv_set nd6 shnum t hs6 hk6ne
      intro hsh
      have := (hdata hsh).1
      rw [e, blockTree_set_same] at this
      exact Or.inr this
  cases o7 with
  | some r7 =>
    refine ⟨hs7, fun b e hsh => ?_⟩
    exact (hdata hsh).2 b (by have e' : r7 = .block b := e; rw [e'])
  | none =>
  simp only
  unfold runStages
  exact ⟨hs7, fun b e => by cases e⟩


/-- `process_blocks` touches the ciphertext hash tree only -/
theorem processBlocks_sh (pick : List Nat → Nat) (decode : Nat → List (Nat × Bytes) → Bytes) (nd : Node H) (segnum : Nat)
    (blocks : List (Nat × Bytes)) (h : ShInv E prm ser encode ct sz nd) :
    ShInv E prm ser encode ct sz (processBlocks E cfg pick decode nd segnum blocks).2 := by
  unfold processBlocks
  dsimp only
  repeat' split
  all_goals (try dsimp only)
  all_goals (repeat' split)
  all_goals first | exact h | exact shInv_frame h rfl rfl rfl

/-- one thing that happens to a download node: a pass of a share, or `process_blocks` -/
inductive NodeEv (H : Type) where
  | pass (shnum segnum : Nat) (v : View H)
  | proc (segnum : Nat) (blocks : List (Nat × Bytes))

def stepEv (E : Env H) (cfg : Cfg) (pick : List Nat → Nat) (decode : Nat → List (Nat × Bytes) → Bytes) (cap : Cap H)
    (nd : Node H) : NodeEv H → Node H
  | .pass shnum segnum v => (satisfy E cfg pick cap nd shnum segnum v).2
  | .proc segnum blocks => (processBlocks E cfg pick decode nd segnum blocks).2

theorem history_sh (S : Setup E cfg prm ser encode ct sz) (pick : List Nat → Nat)
    (decode : Nat → List (Nat × Bytes) → Bytes) (history : List (NodeEv H)) (nd : Node H)
    (h : ShInv E prm ser encode ct sz nd) :
    ShInv E prm ser encode ct sz (history.foldl (stepEv E cfg pick decode (upload E prm encode ser ct).cap) nd) := by
  induction history generalizing nd with
  | nil => exact h
  | cons e rest ih =>
    apply ih
    cases e with
    | pass shnum segnum v => exact (satisfy_sh S pick shnum segnum v nd h).1
    | proc segnum blocks => exact processBlocks_sh pick decode nd segnum blocks h

end chain

end Tahoe.Integrity
