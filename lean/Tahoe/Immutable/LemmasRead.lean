import Tahoe.Immutable.LemmasPipeline
/-! Helper lemmas for C04 `read_slice`: soundness of `_got_segment`'s trimming and the invariant of the
    segment loop. -/
namespace Tahoe.Immutable.Pipeline
open Tahoe.Immutable Tahoe.Immutable.Sizes

/-- whenever `_got_segment` accepts a delivered segment (which is the file's bytes from `S`), what it
    writes is the next `d.length ≥ 1` wanted bytes -/
theorem gotSegment_sound (ct : Bytes) (S seg off sz : Nat) (d : Bytes) (hsz : 0 < sz) (hend : off + sz ≤ ct.length)
    (h : gotSegment S ((ct.drop S).take seg) off sz = some d) :
    d = (ct.drop off).take d.length ∧ 0 < d.length ∧ d.length ≤ sz := by
  unfold gotSegment overlap at h
  simp only [List.length_take, List.length_drop] at h
  split at h
  · cases h
  · rename_i o0 o1 ho
    split at ho
    · rename_i hlt
      injection ho with ho
      injection ho with h0 h1
      split at h
      · cases h
      · rename_i heq
        simp only [ne_eq, Decidable.not_not] at heq
        injection h with h
        have hS : S ≤ off := by omega
        have hd : d = (ct.drop off).take o1 := by
          rw [← h, List.drop_take, List.drop_drop, List.take_take]
          have e1 : S + (off - S) = off := by omega
          rw [e1]
          congr 1
          omega
        have hl : d.length = o1 := by
          rw [hd]; simp only [List.length_take, List.length_drop]; omega
        rw [hl]
        exact ⟨hd, by omega, by omega⟩
    · cases ho

/-- with the right segment (`S ≤ off < S + len`) the check passes -/
theorem gotSegment_accepts (segment : Bytes) (S off sz : Nat) (hsz : 0 < sz) (h1 : S ≤ off) (h2 : off < S + segment.length) :
    ∃ d, gotSegment S segment off sz = some d := by
  unfold gotSegment overlap
  have hl : max S off < min (S + segment.length) (off + sz) := by omega
  simp only [hl, if_true]
  have : max S off = off := by omega
  simp [this]

section
variable (ct : Bytes) (seg m tail : Nat) (getSeg : Nat → Except Err (Nat × Bytes))

/-- the invariant of the segment loop: whatever the guess, and whether or not the real segment size is
    already known, the chunks written are exactly the wanted range -/
theorem segLoop_correct (hseg : 0 < seg) (htail : 0 < tail) (htl : tail ≤ seg)
    (hlen : ct.length = m * seg + tail)
    (hget : ∀ s, getSeg s = if s ≤ m then .ok (s * seg, (ct.drop (s * seg)).take seg) else .error .badSegment)
    (guessed : Nat) :
    ∀ (fuel : Nat) (known : Bool) (off sz : Nat), off + sz ≤ ct.length →
      sz + (if known then 0 else 1) ≤ fuel →
      ∃ evs, segLoop getSeg seg guessed fuel known off sz = .ok evs ∧
             (chunksOf evs).flatten = (ct.drop off).take sz := by
  intro fuel
  induction fuel with
  | zero =>
    intro known off sz _ hf
    have : sz = 0 := by omega
    subst this
    exact ⟨[], by simp [segLoop], by simp [chunksOf]⟩
  | succ fuel ih =>
    intro known off sz hend hf
    by_cases hz : sz = 0
    · subst hz
      exact ⟨[], by simp [segLoop], by simp [chunksOf]⟩
    · have hsz : 0 < sz := Nat.pos_of_ne_zero hz
      -- the retry branch (only reachable while the segment size is a guess)
      have hretry : known = false →
          ∃ evs, segLoop getSeg seg guessed fuel true off sz = .ok evs ∧
                 (chunksOf evs).flatten = (ct.drop off).take sz := by
        intro hk
        exact ih true off sz hend (by simp [hk] at hf; simp; omega)
      -- the progress branch
      have hprog : ∀ (S : Nat) (d : Bytes), gotSegment S ((ct.drop S).take seg) off sz = some d →
          ∃ evs, segLoop getSeg seg guessed fuel true (off + d.length) (sz - d.length) = .ok evs ∧
                 d ++ (chunksOf evs).flatten = (ct.drop off).take sz := by
        intro S d hg
        obtain ⟨hd, hpos, hle⟩ := gotSegment_sound ct S seg off sz d hsz hend hg
        obtain ⟨evs, h1, h2⟩ := ih true (off + d.length) (sz - d.length) (by omega)
          (by simp; split at hf <;> omega)
        refine ⟨evs, h1, ?_⟩
        rw [h2]
        conv => lhs; arg 1; rw [hd]
        rw [← List.drop_drop]
        have : sz = d.length + (sz - d.length) := by omega
        conv => rhs; rw [this, List.take_add]
      unfold segLoop
      simp only [hz, if_false]
      generalize hw : (if off = 0 then 0 else off / (if known = true then seg else guessed)) = wanted
      rw [hget wanted]
      by_cases hwm : wanted ≤ m
      · simp only [hwm, if_true]
        cases hgs : gotSegment (wanted * seg) ((ct.drop (wanted * seg)).take seg) off sz with
        | some d =>
          obtain ⟨evs, h1, h2⟩ := hprog (wanted * seg) d hgs
          exact ⟨(wanted, some d) :: evs, by simp [h1], by simpa [chunksOf] using h2⟩
        | none =>
          simp only
          cases known with
          | false =>
            obtain ⟨evs, h1, h2⟩ := hretry rfl
            exact ⟨(wanted, none) :: evs, by simp [h1], by simpa [chunksOf] using h2⟩
          | true =>
            exfalso
            -- with the real segment size the right segment was requested, so the check passes
            have hwv : wanted = off / seg := by
              simp only [if_true] at hw
              by_cases h0 : off = 0
              · simp [h0] at hw; simp [h0, ← hw]
              · simp [h0] at hw; exact hw.symm
            have h1 : wanted * seg ≤ off := by rw [hwv]; exact Nat.div_mul_le_self off seg
            have h2 : off < (wanted + 1) * seg := by
              rw [hwv, Nat.add_mul, Nat.one_mul]; exact Nat.lt_div_mul_add hseg
            have h3 : off < wanted * seg + ((ct.drop (wanted * seg)).take seg).length := by
              simp only [List.length_take, List.length_drop]
              rw [Nat.add_mul] at h2
              omega
            obtain ⟨d, hd⟩ := gotSegment_accepts _ (wanted * seg) off sz hsz h1 h3
            rw [hd] at hgs; cases hgs
      · simp only [hwm, if_false]
        cases known with
        | false =>
          obtain ⟨evs, h1, h2⟩ := hretry rfl
          exact ⟨(wanted, none) :: evs, by simp [h1], by simpa [chunksOf] using h2⟩
        | true =>
          exfalso
          have hwv : wanted = off / seg := by
            simp only [if_true] at hw
            by_cases h0 : off = 0
            · simp [h0] at hw; simp [h0, ← hw]
            · simp [h0] at hw; exact hw.symm
          have h1 : wanted * seg ≤ off := by rw [hwv]; exact Nat.div_mul_le_self off seg
          have h2 : (m + 1) * seg ≤ wanted * seg := Nat.mul_le_mul_right seg (by omega)
          rw [Nat.add_mul] at h2
          omega

end
end Tahoe.Immutable.Pipeline

namespace Tahoe.Immutable.Pipeline
open Tahoe.Immutable Tahoe.Immutable.Sizes

theorem keystream_append {Key : Type} (ks : Key → Nat → Block16) (key : Key) (s a b : Nat) :
    keystream ks key s (a + b) = keystream ks key s a ++ keystream ks key (s + a) b := by
  apply List.ext_getElem
  · simp
  · intro i h1 h2
    rw [getElem_keystream]
    by_cases hi : i < a
    · rw [List.getElem_append_left (by simpa using hi), getElem_keystream]
    · rw [List.getElem_append_right (by simp; omega), getElem_keystream]
      simp only [length_keystream]
      congr 1; omega

/-- one `DecryptingConsumer` fed chunk after chunk decrypts like one fed the concatenation -/
theorem decryptAt_append {Key : Type} (ks : Key → Nat → Block16) (key : Key) (off : Nat) (a b : Bytes) :
    decryptAt ks key off (a ++ b) = decryptAt ks key off a ++ decryptAt ks key (off + a.length) b := by
  simp only [decryptAt_eq, List.length_append, keystream_append, xorBytes]
  rw [List.zipWith_append (by simp)]

theorem take_getD_clip (l : Bytes) (size : Option Nat) (fileSize off : Nat) (h : l.length = fileSize - off) :
    l.take (clipRead fileSize off size) = litRead l 0 size := by
  unfold clipRead litRead
  cases size with
  | none =>
    simp only [Option.getD_none, List.drop_zero]
    rw [List.take_of_length_le (by omega)]
  | some s =>
    simp only [Option.getD_some, List.drop_zero]
    by_cases hs : s ≤ fileSize - off
    · rw [Nat.min_eq_left hs]
    · rw [Nat.min_eq_right (by omega), List.take_of_length_le (by omega), List.take_of_length_le (by omega)]

theorem litRead_drop (data : Bytes) (off : Nat) (size : Option Nat) :
    litRead (data.drop off) 0 size = litRead data off size := by
  cases size <;> simp [litRead]

end Tahoe.Immutable.Pipeline
