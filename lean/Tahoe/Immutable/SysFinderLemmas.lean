import Tahoe.Immutable.SysFinder
import Tahoe.Immutable.SysLemmas
/-! The `Sys` component of the composed system with finder (`SysF`) keeps the routing invariant `SysInv`. -/
namespace Tahoe.Fetch
open Tahoe.Finder

def MailOk (z : SysF) : Prop := ∀ m ∈ z.mail, (∃ l, m = NEv.gotShares l) ∨ m = NEv.noMoreShares

/-- validity of a history of the composed system: its `Sys` events are valid `Sys` events -/
def SysFValid : SysF → List SysFEv → Prop
  | _, [] => True
  | z, e :: es =>
    (match e with
     | .sys se => SysEvOk { z.sys with node := { z.sys.node with log := [] } } se
     | _ => True) ∧ SysFValid (sysfStep z e) es

theorem sysinv_resetlog {y : Sys} (h : SysInv y) : SysInv { y with node := { y.node with log := [] } } :=
  ⟨⟨h.node.fixed, h.node.served, h.node.live⟩,
   fun r hr => ⟨(h.reads r hr).live, (h.reads r hr).waitOk, (h.reads r hr).track, (h.reads r hr).fresh⟩,
   h.ridNodup, h.uniq⟩

theorem sysinv_sysPart {z : SysF} (h : SysInv z.sys) (e : SysEv)
    (hok : SysEvOk { z.sys with node := { z.sys.node with log := [] } } e) : SysInv (sysPart z e).sys :=
  sysinv_step (sysinv_resetlog h) e hok

theorem postOuts_sys : ∀ (outs : List FOut) (z : SysF), (postOuts z outs).sys = z.sys := by
  intro outs
  induction outs with
  | nil => intro z; rfl
  | cons o r ih => intro z; cases o <;> simp [postOuts, ih]

theorem postOuts_mail : ∀ (outs : List FOut) (z : SysF), MailOk z → MailOk (postOuts z outs) := by
  intro outs
  induction outs with
  | nil => intro z h; exact h
  | cons o r ih =>
    intro z h
    cases o with
    | send a b => exact ih z h
    | exc => exact ih z h
    | gotShares srv l =>
      apply ih
      intro m hm
      simp only [List.mem_append, List.mem_singleton] at hm
      rcases hm with hm | hm
      · exact h m hm
      · exact Or.inl ⟨_, hm⟩
    | noMoreShares =>
      apply ih
      intro m hm
      simp only [List.mem_append, List.mem_singleton] at hm
      rcases hm with hm | hm
      · exact h m hm
      · exact Or.inr hm

theorem sysf_step_inv {z : SysF} (h : SysInv z.sys) (hm : MailOk z) (e : SysFEv)
    (hok : match e with
      | .sys se => SysEvOk { z.sys with node := { z.sys.node with log := [] } } se
      | _ => True) : SysInv (sysfStep z e).sys ∧ MailOk (sysfStep z e) := by
  have hfin : ∀ fe, SysInv (finderPart z fe).sys ∧ MailOk (finderPart z fe) := by
    intro fe
    unfold finderPart
    refine ⟨by rw [postOuts_sys]; exact h, postOuts_mail _ _ hm⟩
  cases e with
  | sys se => exact ⟨sysinv_sysPart h se hok, hm⟩
  | fturn => exact hfin _
  | fresponse q l => exact hfin _
  | ferror q => exact hfin _
  | foverdue q => exact hfin _
  | mail =>
    simp only [sysfStep]
    split
    · exact ⟨h, hm⟩
    · rename_i m rest hmail
      have hm' : (∃ l, m = NEv.gotShares l) ∨ m = NEv.noMoreShares := hm m (by simp [hmail])
      refine ⟨?_, ?_⟩
      · apply sysinv_sysPart (z := { z with mail := rest }) h
        rcases hm' with ⟨l, rfl⟩ | rfl <;> exact ⟨trivial, rfl, rfl⟩
      · intro x hx
        exact hm x (by simp [hmail]; exact Or.inr hx)

theorem sysf_run_inv : ∀ (es : List SysFEv) (z : SysF), SysInv z.sys → MailOk z → SysFValid z es →
    SysInv (sysfRun z es).sys := by
  intro es
  induction es with
  | nil => intro z h _ _; exact h
  | cons e es ih =>
    intro z h hm hv
    obtain ⟨h1, h2⟩ := sysf_step_inv h hm e hv.1
    exact ih _ h1 h2 hv.2

end Tahoe.Fetch
