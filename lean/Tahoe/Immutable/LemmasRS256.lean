import Tahoe.Immutable.Examples
import Tahoe.Props.C36
/-! zfec's code satisfies the codec law of the immutable pipeline: `Codec.Lawful` for `rs256Codec` follows from
    C36's theorem `rs256_mds` (no hypothesis; its proof imports single Mathlib modules, hence this is a lemma
    file and nothing here is used by models or drivers). -/
namespace Tahoe.Immutable.Pipeline

theorem map_fst_pair {β : Type} (f : Nat → β) (ids : List Nat) : (ids.map (fun i => (i, f i))).map (·.1) = ids := by
  induction ids with
  | nil => rfl
  | cons i rest ih => simp only [List.map_cons, ih]

theorem rs256Codec_lawful (k n : Nat) (hk : 1 ≤ k) (hkn : k ≤ n) (hn : n ≤ 256) : rs256Codec.Lawful k n := by
  have h := Tahoe.C36.rs256_mds k n hk hkn hn
  constructor
  · intro pieces L hl hu
    exact h.enc_length L pieces hl hu
  · intro pieces L hl hu b hb
    exact h.enc_uniform L pieces hl hu b hb
  · intro pieces L ids hl hu hidl hnd hlt
    have hlen : ((Tahoe.Codec.rs256 k n).enc pieces).length = n := h.enc_length L pieces hl hu
    have := h.recover L pieces hl hu (ids.map (fun i => (i, ((Tahoe.Codec.rs256 k n).enc pieces).getD i [])))
      (by simpa using hidl) (by
        have e := map_fst_pair (fun i => ((Tahoe.Codec.rs256 k n).enc pieces).getD i []) ids
        rw [e]; exact hnd)
      (by
        intro p hp
        simp only [List.mem_map] at hp
        obtain ⟨i, hi, rfl⟩ := hp
        have hin : i < ((Tahoe.Codec.rs256 k n).enc pieces).length := by rw [hlen]; exact hlt i hi
        simp [List.getD_eq_getElem?_getD, List.getElem?_eq_getElem hin])
    exact this

end Tahoe.Immutable.Pipeline
