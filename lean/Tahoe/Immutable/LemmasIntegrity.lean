import Tahoe.Immutable.Integrity
import Tahoe.Base.LemmasMerkleSound
import Tahoe.Base.LemmasMerkleBuild
/-! Helper lemmas for C02 / C45: adapters around the hash-tree soundness of C35 (`set_hashes` keeps a tree that
    agrees with the genuine one; a rejected call restores the tree), facts about `HashTree(L)`, the invariant of
    the download node and the prefix invariant of the read loop. -/
namespace Tahoe.Integrity
open Tahoe.Base.Merkle

variable {H : Type} [DecidableEq H]

/-! ## `set_hashes` adapters -/

theorem setHashes_sound {ops : HashOps H} {cfg : Cfg} (hstrict : StrictPresence ops cfg) (hinj : PairInjective ops)
    {T t : Tree H} (hT : Genuine ops T) (hlen : t.length = T.length) (hagree : Agree t T) (hroot : get t 0 ≠ none)
    {pick : List Nat → Nat} {first : Nat} {hashes leaves : List (Nat × H)} {t' : Tree H}
    (h : setHashes ops cfg pick first t hashes leaves = (.ok, t')) :
    Agree t' T ∧ t'.length = T.length ∧ get t' 0 ≠ none ∧
    (∀ k v, (k, v) ∈ leaves → get T (first + k) = some v) ∧ (∀ i v, (i, v) ∈ hashes → get T i = some v) := by
  obtain ⟨new, st, hm, hres, ht'⟩ := setHashes_ok h
  have hs : Agree st.t T :=
    tryBody_sound (ops := ops.withCfg cfg) hstrict hinj ⟨hT.odd, hT.full, hT.node⟩ hlen hagree hroot pick new hres
  have hreach := tryBody_reach (ops.withCfg cfg) pick t new
  rw [hres] at hreach
  have hl : st.t.length = t.length := hreach.length_eq
  obtain ⟨m1, m2⟩ := mergeLeaves_mem first hashes leaves hm
  have hst := tryBody_stored (ops := ops.withCfg cfg) hstrict pick t new hres
  subst ht'
  refine ⟨hs, by omega, ?_, fun k v hk => hs _ _ (hst _ _ (m2 k v hk)), fun i v hi => hs _ _ (hst _ _ (m1 _ hi))⟩
  cases hr : get t 0 with
  | none => exact absurd hr hroot
  | some r =>
    have : get st.t 0 = some r := hreach.mono hstrict hr
    rw [this]; exact fun e => nomatch e

theorem provisional_index {ops : HashOps H} (new : List (Nat × H)) (st : St H) {st' : St H}
    (h : provisional ops new st = .error (.indexError, st')) : ∃ e ∈ new, e.1 ≥ st.t.length := by
  fun_induction provisional ops new st with
  | case1 st => cases h
  | case2 i h' rest st hge => exact ⟨(i, h'), by simp, hge⟩
  | case3 i h' rest st hge htr hne => injection h with h; injection h with h1 h2; cases h1
  | case4 i h' rest st hge htr hne ih =>
    obtain ⟨e, he, hl⟩ := ih h; exact ⟨e, List.mem_cons_of_mem _ he, hl⟩
  | case5 i h' rest st hge htr ih =>
    obtain ⟨e, he, hl⟩ := ih h
    refine ⟨e, List.mem_cons_of_mem _ he, ?_⟩
    simpa using hl

theorem levelLoop_not_index {ops : HashOps H} (pick : List Nat → Nat) (f : Nat) (this : List Nat) (st : St H)
    {o : Outcome} {st' : St H} (h : levelLoop ops pick f this st = .error (o, st')) : o ≠ .indexError := by
  fun_induction levelLoop ops pick f this st with
  | case1 => cases h
  | case2 => injection h with h; injection h with h1 h2; subst h1; decide
  | case3 f head tail st i this hi ih => exact ih h
  | case4 => injection h with h; injection h with h1 h2; subst h1; decide
  | case5 => injection h with h; injection h with h1 h2; subst h1; decide
  | case6 => injection h with h; injection h with h1 h2; subst h1; decide
  | case7 f head tail st i this hi s hs hgs hi' hgi p np htr heq ih => exact ih h
  | case8 f head tail st i this hi s hs hgs hi' hgi p np htr ih => exact ih h

theorem levelsLoop_not_index {ops : HashOps H} (pick : List Nat → Nat) (k : Nat) (st : St H)
    {o : Outcome} {st' : St H} (h : levelsLoop ops pick k st = .error (o, st')) : o ≠ .indexError := by
  induction k generalizing st with
  | zero => cases h
  | succ k ih =>
    unfold levelsLoop at h
    cases hres : levelLoop ops pick (thisLevel st k).length (thisLevel st k) st with
    | error e =>
      rw [hres] at h
      obtain ⟨o', st''⟩ := e
      injection h with h; injection h with h1 h2; subst h1
      exact levelLoop_not_index pick _ _ st hres
    | ok st1 =>
      rw [hres] at h
      exact ih st1 h

theorem tryBody_index {ops : HashOps H} (pick : List Nat → Nat) (t : Tree H) (new : List (Nat × H)) {st' : St H}
    (h : tryBody ops pick t new = .error (.indexError, st')) : ∃ e ∈ new, e.1 ≥ t.length := by
  unfold tryBody at h
  cases hres : provisional ops new { t := t, red := [], rm := [] } with
  | error e =>
    rw [hres] at h; obtain ⟨o', st''⟩ := e
    injection h with h; injection h with h1 h2; subst h1
    exact provisional_index new _ hres
  | ok st1 =>
    rw [hres] at h
    exact absurd rfl (levelsLoop_not_index pick _ st1 h)

/-- a rejected `set_hashes` whose indices are all in range leaves the tree as it was -/
theorem setHashes_fail_same {ops : HashOps H} {cfg : Cfg} (hstrict : StrictPresence ops cfg)
    {pick : List Nat → Nat} {first : Nat} {t : Tree H} {hashes leaves : List (Nat × H)} {o : Outcome} {t' : Tree H}
    (hrange : ∀ new, mergeLeaves first hashes leaves = some new → ∀ e ∈ new, e.1 < t.length)
    (h : setHashes ops cfg pick first t hashes leaves = (o, t')) (hne : o ≠ .ok) : t' = t := by
  rcases setHashes_fail h hne with ⟨_, h2⟩ | ⟨new, st, hm, hres, _, ht'⟩
  · exact h2
  · have hreach := tryBody_reach (ops.withCfg cfg) pick t new
    rw [hres] at hreach
    have hinv : RollInv t st := hreach.rollInv hstrict (rollInv_init t)
    have : ¬ (o = .indexError ∧ cfg.catchIndex = false) := by
      intro ⟨e1, _⟩
      subst e1
      obtain ⟨e, he, hge⟩ := tryBody_index pick t new hres
      have := hrange new hm e he
      omega
    rw [if_neg this] at ht'
    rw [ht']; exact rollback_spec hinv

/-! ## `HashTree(L)` facts -/

omit [DecidableEq H] in
theorem build_length (ops : HashOps H) (L : List H) : (build ops L).length = 2 * roundupPow2 L.length - 1 := by
  obtain ⟨d, hd⟩ := roundupPow2_pow L.length
  have hpl := padLeaves_length ops L
  have hspec := buildAux_spec ops (padLeaves ops L).length d (padLeaves ops L).length (padLeaves ops L) []
    (by rw [hpl, hd]) (by rw [hpl, hd]; exact Nat.le_of_lt Nat.lt_two_pow_self)
    (by simp; omega)
    (by
      intro x a b ha _
      rw [List.append_nil] at ha
      rw [List.getElem?_eq_none (by omega)] at ha; cases ha)
  have hlen := hspec.2
  unfold build; rw [List.length_map]
  show (buildAux ops (padLeaves ops L).length (padLeaves ops L) []).length = _
  omega

omit [DecidableEq H] in
theorem newTree_length (n : Nat) : (newTree H n).length = 2 * roundupPow2 n - 1 := by
  unfold newTree; simp

theorem roundupPow2_pos (n : Nat) : 1 ≤ roundupPow2 n := by
  obtain ⟨d, hd⟩ := roundupPow2_pow n
  rw [hd]; exact Nat.one_le_two_pow

omit [DecidableEq H] in
theorem get_build_root (ops : HashOps H) (L : List H) : get (build ops L) 0 = some (rootOf ops L) := by
  have hlen := build_length ops L
  have hp := roundupPow2_pos L.length
  unfold build at hlen ⊢
  unfold rootOf Base.Merkle.get
  cases hb : buildList ops L with
  | nil => rw [hb] at hlen; simp at hlen; omega
  | cons a l => simp

omit [DecidableEq H] in
theorem get_newTree (n j : Nat) : get (newTree H n) j = none := by
  unfold Base.Merkle.get newTree
  by_cases h : j < 2 * roundupPow2 n - 1
  · simp [h]
  · simp [h]

omit [DecidableEq H] in
theorem seed_agree {T : Tree H} {n : Nat} {r : H} (hr : get T 0 = some r) : Agree (seed (newTree H n) r) T := by
  intro j h hj
  unfold seed at hj
  by_cases e : j = 0
  · subst e
    have hl : 0 < (newTree H n).length := by
      have := roundupPow2_pos n; rw [newTree_length]; omega
    rw [get_set_eq _ hl] at hj
    injection hj with hj; subst hj; exact hr
  · rw [get_set_ne _ (Ne.symm e), get_newTree] at hj; cases hj

omit [DecidableEq H] in
theorem seed_root {n : Nat} {r : H} : get (seed (newTree H n) r) 0 ≠ none := by
  have hl : 0 < (newTree H n).length := by
    have := roundupPow2_pos n; rw [newTree_length]; omega
  unfold seed; rw [get_set_eq _ hl]; exact fun e => nomatch e

omit [DecidableEq H] in
theorem seed_length {n : Nat} {r : H} : (seed (newTree H n) r).length = 2 * roundupPow2 n - 1 := by
  unfold seed; rw [List.length_set, newTree_length]

/-! ## `needed_hashes` indices are in range -/

theorem neededForAux_lt {len : Nat} (hodd : len % 2 = 1) (f i : Nat) (hi : i < len) :
    ∀ j ∈ neededForAux f i, j < len := by
  induction f generalizing i with
  | zero => intro j hj; simp [neededForAux] at hj
  | succ f ih =>
    intro j hj
    unfold neededForAux at hj
    by_cases h0 : i = 0
    · simp [h0] at hj
    · rw [if_neg h0] at hj
      cases List.mem_cons.mp hj with
      | inl e => rw [e]; exact sibling_lt_len hodd h0 hi
      | inr hm =>
        have := parent_lt h0
        exact ih (parent i) (by omega) j hm

omit [DecidableEq H] in
theorem neededHashes?_lt {t : Tree H} (hodd : t.length % 2 = 1) {first leafnum : Nat} {b : Bool} {needed : List Nat}
    (h : neededHashes? t first leafnum b = some needed) : ∀ j ∈ needed, j < t.length := by
  unfold neededHashes? completeNeededHashes? neededFor? at h
  by_cases hge : first + leafnum ≥ t.length
  · simp [hge] at h
  · simp only [hge, if_false] at h
    injection h with h
    subst h
    intro j hj
    have hj' := (List.mem_filter.mp hj).1
    have hlt : first + leafnum < t.length := by omega
    have hnf := neededForAux_lt hodd (first + leafnum) (first + leafnum) hlt
    cases b with
    | true =>
      simp only [if_true] at hj'
      cases List.mem_append.mp hj' with
      | inl hm => exact hnf j hm
      | inr hm => simp at hm; omega
    | false =>
      simp only [Bool.false_eq_true, if_false] at hj'
      exact hnf j hj'

omit [DecidableEq H] in
theorem collect_keys {needed : List Nat} {f : Nat → Option H} {hs : List (Nat × H)}
    (h : collect needed f = some hs) : ∀ e ∈ hs, e.1 ∈ needed := by
  induction needed generalizing hs with
  | nil => simp [collect] at h; subst h; simp
  | cons i rest ih =>
    unfold collect at h
    cases hf : f i with
    | none => simp [hf] at h
    | some hv =>
      cases hc : collect rest f with
      | none => simp [hf, hc] at h
      | some l =>
        simp [hf, hc] at h
        subst h
        intro e he
        cases List.mem_cons.mp he with
        | inl e1 => subst e1; simp
        | inr e1 => exact List.mem_cons_of_mem _ (ih hc e e1)


/-! ## the download node invariant -/

/-- the hypotheses shared by the C02 / C45 theorems -/
structure Setup (E : Env H) (cfg : Cfg) (prm : Params) (ser : UEB H → Bytes) (encode : Nat → Bytes → Nat → Bytes)
    (ct : Bytes) (sz : Sizes) : Prop where
  cf : CollisionFree E
  inj : PairInjective E.ops
  strict : StrictPresence E.ops cfg
  /-- `unpack_extension(pack_extension(d))` gives the published fields back (C38) -/
  ser_ok : E.parseUEB (upload E prm encode ser ct).uebBytes = some (upload E prm encode ser ct).ueb
  /-- the encoding parameters are ones the uploader accepts (k > 0, segment size a positive multiple of k) -/
  sizes : calcSizes ct.length prm.k prm.segSize = some sz

/-- the genuine crypttext hash leaves -/
def ctLeaves (E : Env H) (prm : Params) (ct : Bytes) : List H := (segments ct prm.segSize).map (E.tagged .seg)

/-- either no UEB has been accepted yet, or the stored UEB is the published one and the ciphertext hash tree
    agrees with the published tree wherever it is populated -/
def NodeInv (E : Env H) (prm : Params) (ser : UEB H → Bytes) (encode : Nat → Bytes → Nat → Bytes) (ct : Bytes)
    (sz : Sizes) (nd : Node H) : Prop :=
  nd.known = none ∨
  (nd.known = some ((upload E prm encode ser ct).ueb, sz) ∧
    nd.ctTree.length = (build E.ops (ctLeaves E prm ct)).length ∧
    Agree nd.ctTree (build E.ops (ctLeaves E prm ct)) ∧ get nd.ctTree 0 ≠ none)

omit [DecidableEq H] in
theorem calcSizes_numSegs {size k s : Nat} {sz : Sizes} (h : calcSizes size k s = some sz) :
    sz.numSegs = divCeil size s := by
  unfold calcSizes at h
  split at h
  · cases h
  · injection h with h; subst h; rfl

omit [DecidableEq H] in
theorem ctLeaves_length (E : Env H) (prm : Params) (ct : Bytes) :
    (ctLeaves E prm ct).length = divCeil ct.length prm.segSize := by
  simp [ctLeaves, segments]

section inv
variable {E : Env H} {cfg : Cfg} {prm : Params} {ser : UEB H → Bytes} {encode : Nat → Bytes → Nat → Bytes}
  {ct : Bytes} {sz : Sizes}

omit [DecidableEq H] in
theorem inv_of_same {nd nd' : Node H} (h1 : nd'.known = nd.known) (h2 : nd'.ctTree = nd.ctTree)
    (h : NodeInv E prm ser encode ct sz nd) : NodeInv E prm ser encode ct sz nd' := by
  unfold NodeInv at *
  rw [h1, h2]; exact h

theorem stageUEB_inv (S : Setup E cfg prm ser encode ct sz) (v : View H) (nd : Node H)
    (h : NodeInv E prm ser encode ct sz nd) :
    NodeInv E prm ser encode ct sz (stageUEB E (upload E prm encode ser ct).cap v nd).2 := by
  unfold stageUEB
  cases hk : nd.known with
  | some x => simp only; exact h
  | none =>
    simp only
    cases hub : v.uebBytes with
    | none => simp only; exact h
    | some uebS =>
    simp only
    by_cases hh : E.tagged .ueb uebS ≠ (upload E prm encode ser ct).cap.uebHash
    · rw [if_pos hh]; exact h
    · rw [if_neg hh]
      have heq : E.tagged .ueb uebS = E.tagged .ueb (ser (upload E prm encode ser ct).ueb) :=
        Classical.not_not.mp hh
      have hb : uebS = ser (upload E prm encode ser ct).ueb := S.cf _ _ _ heq
      have hp : E.parseUEB (ser (upload E prm encode ser ct).ueb) = some (upload E prm encode ser ct).ueb := S.ser_ok
      rw [hb, hp]
      simp only
      have hsz : calcSizes (upload E prm encode ser ct).cap.size (upload E prm encode ser ct).cap.k
          (upload E prm encode ser ct).ueb.segmentSize = some sz := S.sizes
      rw [hsz]
      simp only
      right
      have hn : sz.numSegs = (ctLeaves E prm ct).length := by
        rw [calcSizes_numSegs S.sizes, ctLeaves_length]
      refine ⟨rfl, ?_, ?_, ?_⟩
      · show (seed (newTree H sz.numSegs) _).length = _
        rw [seed_length, build_length, hn]
      · show Agree (seed (newTree H sz.numSegs) (rootOf E.ops (ctLeaves E prm ct))) _
        exact seed_agree (get_build_root E.ops _)
      · exact seed_root

/-- a `set_hashes` call on the ciphertext hash tree keeps the invariant, accepted or not -/
theorem ct_set_inv (S : Setup E cfg prm ser encode ct sz) {nd : Node H} {pick : List Nat → Nat}
    {hashes leaves : List (Nat × H)} {o : Outcome} {t' : Tree H}
    (hk : nd.known = some ((upload E prm encode ser ct).ueb, sz))
    (h : NodeInv E prm ser encode ct sz nd)
    (hrange : ∀ new, mergeLeaves (firstLeafNum sz.numSegs) hashes leaves = some new → ∀ e ∈ new, e.1 < nd.ctTree.length)
    (hs : setHashes E.ops cfg pick (firstLeafNum sz.numSegs) nd.ctTree hashes leaves = (o, t')) :
    NodeInv E prm ser encode ct sz { nd with ctTree := t' } ∧
    (o = .ok → ∀ k v, (k, v) ∈ leaves → get (build E.ops (ctLeaves E prm ct)) (firstLeafNum sz.numSegs + k) = some v) := by
  rcases h with h | ⟨_, hlen, hag, hroot⟩
  · rw [hk] at h; cases h
  · by_cases ho : o = .ok
    · subst ho
      obtain ⟨a1, a2, a3, a4, _⟩ := setHashes_sound S.strict S.inj (build_genuine E.ops _) hlen hag hroot hs
      exact ⟨Or.inr ⟨hk, a2, a1, a3⟩, fun _ => a4⟩
    · have := setHashes_fail_same S.strict hrange hs ho
      subst this
      exact ⟨Or.inr ⟨hk, hlen, hag, hroot⟩, fun e => absurd e ho⟩

omit [DecidableEq H] in
theorem inv_tree_odd {nd : Node H} (h : NodeInv E prm ser encode ct sz nd) (hk : nd.known ≠ none) :
    nd.ctTree.length % 2 = 1 := by
  rcases h with h | ⟨_, hlen, _, _⟩
  · exact absurd h hk
  · rw [hlen]; exact (build_genuine E.ops _).odd

theorem stageCt_inv (S : Setup E cfg prm ser encode ct sz) (pick : List Nat → Nat) (segnum : Nat) (v : View H) (nd : Node H)
    (h : NodeInv E prm ser encode ct sz nd) :
    NodeInv E prm ser encode ct sz (stageCtHashes E cfg pick segnum v nd).2 := by
  unfold stageCtHashes
  cases hk : nd.known with
  | none => simp only; exact h
  | some x =>
    obtain ⟨u, sz'⟩ := x
    have hk' : nd.known = some ((upload E prm encode ser ct).ueb, sz) := by
      rcases h with h | ⟨h1, _⟩
      · rw [hk] at h; cases h
      · exact h1
    have : (u, sz') = ((upload E prm encode ser ct).ueb, sz) := by
      rw [hk] at hk'; injection hk'
    injection this with e1 e2; subst e1; subst e2
    simp only
    cases hn : neededHashes? nd.ctTree (firstLeafNum sz'.numSegs) segnum true with
    | none => simp only; exact h
    | some needed =>
      cases needed with
      | nil => simp only; exact h
      | cons a rest =>
        simp only
        cases hc : collect (a :: rest) v.ctHashes with
        | none => simp only; exact h
        | some hs =>
          simp only
          have hodd := inv_tree_odd h (by rw [hk]; exact fun e => nomatch e)
          have hrange : ∀ new, mergeLeaves (firstLeafNum sz'.numSegs) hs [] = some new →
              ∀ e ∈ new, e.1 < nd.ctTree.length := by
            intro new hm e he
            have : new = hs := by simp [mergeLeaves] at hm; exact hm.symm
            subst this
            exact neededHashes?_lt hodd hn _ (collect_keys hc e he)
          cases hsr : setHashes E.ops cfg pick (firstLeafNum sz'.numSegs) nd.ctTree hs [] with
          | mk o t' =>
            have := (ct_set_inv S hk' h hrange hsr).1
            rw [hk'] at this
            cases o <;> exact this

/-- the stages that touch neither the stored UEB nor the ciphertext hash tree -/
theorem stage_frame (E : Env H) (cfg : Cfg) (pick : List Nat → Nat) (cap : Cap H) (shnum segnum : Nat) (v : View H)
    (nd : Node H) :
    ((stageSegnum segnum nd).2 = nd) ∧
    ((stageShareTree E cfg pick cap shnum v nd).2.known = nd.known ∧
      (stageShareTree E cfg pick cap shnum v nd).2.ctTree = nd.ctTree) ∧
    ((stageBlockRoot E cfg pick cap shnum nd).2.known = nd.known ∧
      (stageBlockRoot E cfg pick cap shnum nd).2.ctTree = nd.ctTree) ∧
    ((stageBlockHashes E cfg pick shnum segnum v nd).2.known = nd.known ∧
      (stageBlockHashes E cfg pick shnum segnum v nd).2.ctTree = nd.ctTree) ∧
    ((stageData E cfg pick shnum segnum v nd).2.known = nd.known ∧
      (stageData E cfg pick shnum segnum v nd).2.ctTree = nd.ctTree) := by
  refine ⟨?_, ?_, ?_, ?_, ?_⟩
  · unfold stageSegnum; repeat' split
    all_goals rfl
  · unfold stageShareTree
    dsimp only
    repeat' split
    all_goals (try dsimp only)
    all_goals (repeat' split)
    all_goals (try dsimp only)
    all_goals (repeat' split)
    all_goals exact ⟨rfl, rfl⟩
  · unfold stageBlockRoot
    dsimp only
    repeat' split
    all_goals (try dsimp only)
    all_goals (repeat' split)
    all_goals (try dsimp only)
    all_goals (repeat' split)
    all_goals exact ⟨rfl, rfl⟩
  · unfold stageBlockHashes
    dsimp only
    repeat' split
    all_goals (try dsimp only)
    all_goals (repeat' split)
    all_goals (try dsimp only)
    all_goals (repeat' split)
    all_goals exact ⟨rfl, rfl⟩
  · unfold stageData
    dsimp only
    repeat' split
    all_goals (try dsimp only)
    all_goals (repeat' split)
    all_goals (try dsimp only)
    all_goals (repeat' split)
    all_goals exact ⟨rfl, rfl⟩

omit [DecidableEq H] in
theorem runStages_inv {P : Node H → Prop} (fs : List (Node H → Option Res × Node H))
    (hfs : ∀ f ∈ fs, ∀ nd, P nd → P (f nd).2) (nd : Node H) (h : P nd) : P (runStages fs nd).2 := by
  induction fs generalizing nd with
  | nil => exact h
  | cons f rest ih =>
    unfold runStages
    have hf := hfs f (by simp) nd h
    cases hr : f nd with
    | mk r nd' =>
      rw [hr] at hf
      cases r with
      | some r => exact hf
      | none => exact ih (fun g hg => hfs g (List.mem_cons_of_mem _ hg)) nd' hf

theorem satisfy_inv (S : Setup E cfg prm ser encode ct sz) (pick : List Nat → Nat) (shnum segnum : Nat) (v : View H)
    (nd : Node H) (h : NodeInv E prm ser encode ct sz nd) :
    NodeInv E prm ser encode ct sz (satisfy E cfg pick (upload E prm encode ser ct).cap nd shnum segnum v).2 := by
  unfold satisfy
  apply runStages_inv (P := NodeInv E prm ser encode ct sz) _ _ nd h
  intro f hf nd0 h0
  have fr := stage_frame E cfg pick (upload E prm encode ser ct).cap shnum segnum v nd0
  simp only [stages, List.mem_cons, List.not_mem_nil, or_false] at hf
  rcases hf with e | e | e | e | e | e | e | e
  · subst e; simp only; split <;> exact h0
  · subst e; exact stageUEB_inv S v nd0 h0
  · subst e; rw [fr.1]; exact h0
  · subst e; exact inv_of_same fr.2.1.1 fr.2.1.2 h0
  · subst e; exact inv_of_same fr.2.2.1.1 fr.2.2.1.2 h0
  · subst e; exact inv_of_same fr.2.2.2.1.1 fr.2.2.2.1.2 h0
  · subst e; exact stageCt_inv S pick segnum v nd0 h0
  · subst e; exact inv_of_same fr.2.2.2.2.1 fr.2.2.2.2.2 h0

theorem runViews_inv (S : Setup E cfg prm ser encode ct sz) (pick : List Nat → Nat) (segnum : Nat) (sc : Script H)
    (nd : Node H) (acc : List (Nat × Bytes)) (h : NodeInv E prm ser encode ct sz nd) :
    NodeInv E prm ser encode ct sz (runViews E cfg pick (upload E prm encode ser ct).cap segnum sc nd acc).2 := by
  induction sc generalizing nd acc with
  | nil => exact h
  | cons e rest ih =>
    obtain ⟨shnum, v⟩ := e
    unfold runViews
    have hs := satisfy_inv S pick shnum segnum v nd h
    cases hr : satisfy E cfg pick (upload E prm encode ser ct).cap nd shnum segnum v with
    | mk r nd' =>
      rw [hr] at hs
      cases r <;> exact ih _ _ hs

omit [DecidableEq H] in
/-- genuine leaf `i` of the crypttext hash tree -/
theorem ct_leaf (E : Env H) (prm : Params) (ct : Bytes) (i : Nat) (hi : i < divCeil ct.length prm.segSize) :
    get (build E.ops (ctLeaves E prm ct)) (firstLeafNum (divCeil ct.length prm.segSize) + i)
      = some (E.tagged .seg (ctSeg ct prm.segSize i)) := by
  have hl := ctLeaves_length E prm ct
  have := build_leaf E.ops (ctLeaves E prm ct) i (by rw [hl]; exact hi)
  rw [hl] at this
  rw [this]
  simp [ctLeaves, segments, List.getElem?_map, List.getElem?_range hi]

theorem processBlocks_spec (S : Setup E cfg prm ser encode ct sz) (pick : List Nat → Nat)
    (decode : Nat → List (Nat × Bytes) → Bytes) (nd : Node H) (segnum : Nat) (blocks : List (Nat × Bytes))
    (h : NodeInv E prm ser encode ct sz nd) (hseg : segnum < sz.numSegs) :
    NodeInv E prm ser encode ct sz (processBlocks E cfg pick decode nd segnum blocks).2 ∧
    ∀ start seg, (processBlocks E cfg pick decode nd segnum blocks).1 = .ok (start, seg) →
      start = segnum * prm.segSize ∧ seg = ctSeg ct prm.segSize segnum := by
  unfold processBlocks
  cases hk : nd.known with
  | none => simp only; exact ⟨h, fun _ _ e => nomatch e⟩
  | some x =>
    obtain ⟨u, sz'⟩ := x
    have hk' : nd.known = some ((upload E prm encode ser ct).ueb, sz) := by
      rcases h with h | ⟨h1, _⟩
      · rw [hk] at h; cases h
      · exact h1
    have : (u, sz') = ((upload E prm encode ser ct).ueb, sz) := by
      rw [hk] at hk'; injection hk'
    injection this with e1 e2; subst e1; subst e2
    simp only
    generalize hsg : (if segnum + 1 = sz'.numSegs then (decode segnum blocks).take sz'.tailSegSize
      else decode segnum blocks) = segment
    have hnum := calcSizes_numSegs S.sizes
    have hlen : nd.ctTree.length = 2 * roundupPow2 sz'.numSegs - 1 := by
      rcases h with h | ⟨_, hl, _, _⟩
      · rw [hk] at h; cases h
      · rw [hl, build_length, ctLeaves_length, hnum]
    have hrange : ∀ new, mergeLeaves (firstLeafNum sz'.numSegs) [] [(segnum, E.tagged .seg segment)] = some new →
        ∀ e ∈ new, e.1 < nd.ctTree.length := by
      intro new hm e he
      simp [mergeLeaves] at hm
      subst hm
      simp at he
      subst he
      have := roundupPow2_ge sz'.numSegs
      have := roundupPow2_pos sz'.numSegs
      show firstLeafNum sz'.numSegs + segnum < _
      unfold firstLeafNum
      omega
    cases hsr : setHashes E.ops cfg pick (firstLeafNum sz'.numSegs) nd.ctTree [] [(segnum, E.tagged .seg segment)] with
    | mk o t' =>
      obtain ⟨hinv, hleaf⟩ := ct_set_inv S hk' h hrange hsr
      rw [hk'] at hinv
      cases o with
      | ok =>
        simp only
        refine ⟨hinv, ?_⟩
        intro start seg he
        injection he with he
        injection he with h1 h2
        have hl := hleaf rfl segnum (E.tagged .seg segment) (by simp)
        rw [hnum] at hl hseg
        rw [ct_leaf E prm ct segnum hseg] at hl
        injection hl with hl
        have := S.cf _ _ _ hl
        refine ⟨h1.symm, ?_⟩
        rw [← h2, ← this]
      | badHash => exact ⟨hinv, fun _ _ e => nomatch e⟩
      | notEnough => exact ⟨hinv, fun _ _ e => nomatch e⟩
      | indexError => exact ⟨hinv, fun _ _ e => nomatch e⟩
      | internal => exact ⟨hinv, fun _ _ e => nomatch e⟩

theorem fetchSegment_spec (S : Setup E cfg prm ser encode ct sz) (pick : List Nat → Nat)
    (decode : Nat → List (Nat × Bytes) → Bytes) (nd : Node H) (segnum : Nat) (sc : Script H)
    (h : NodeInv E prm ser encode ct sz nd) :
    NodeInv E prm ser encode ct sz (fetchSegment E cfg pick decode (upload E prm encode ser ct).cap nd segnum sc).2 ∧
    ∀ start seg, (fetchSegment E cfg pick decode (upload E prm encode ser ct).cap nd segnum sc).1 = .ok (start, seg) →
      start = segnum * prm.segSize ∧ seg = ctSeg ct prm.segSize segnum := by
  unfold fetchSegment
  have hv := runViews_inv S pick segnum sc nd [] h
  cases hr : runViews E cfg pick (upload E prm encode ser ct).cap segnum sc nd [] with
  | mk blocks nd1 =>
    rw [hr] at hv
    simp only
    cases hk : nd1.known with
    | none => simp only; exact ⟨hv, fun _ _ e => nomatch e⟩
    | some x =>
      obtain ⟨u, sz'⟩ := x
      have hk' : nd1.known = some ((upload E prm encode ser ct).ueb, sz) := by
        rcases hv with h | ⟨h1, _⟩
        · rw [hk] at h; cases h
        · exact h1
      have : (u, sz') = ((upload E prm encode ser ct).ueb, sz) := by
        rw [hk] at hk'; injection hk'
      injection this with e1 e2; subst e1; subst e2
      simp only
      by_cases h1 : segnum ≥ sz'.numSegs
      · rw [if_pos h1]; exact ⟨hv, fun _ _ e => nomatch e⟩
      · rw [if_neg h1]
        by_cases h2 : blocks.length < (upload E prm encode ser ct).cap.k
        · rw [if_pos h2]; exact ⟨hv, fun _ _ e => nomatch e⟩
        · rw [if_neg h2]
          exact processBlocks_spec S pick decode nd1 segnum _ hv (by omega)


/-! ## the read loop -/

omit [DecidableEq H] in
theorem take_split {α : Type} (l : List α) {m size : Nat} (hm : m ≤ size) :
    l.take size = l.take m ++ (l.drop (l.take m).length).take (size - (l.take m).length) := by
  by_cases h : m ≤ l.length
  · have hl : (l.take m).length = m := by rw [List.length_take]; omega
    rw [hl]
    have : size = m + (size - m) := by omega
    conv => lhs; rw [this]
    exact List.take_add
  · have h1 : l.take m = l := List.take_of_length_le (by omega)
    rw [h1, List.take_of_length_le (by omega), List.drop_of_length_le (Nat.le_refl _)]
    simp

omit [DecidableEq H] in
theorem gotSegment_genuine (ct : Bytes) (s i off size : Nat) {d : Bytes}
    (h : gotSegment off size (i * s) (ctSeg ct s i) = some d) : ∃ m, m ≤ size ∧ d = (ct.drop off).take m := by
  unfold gotSegment at h
  simp only at h
  split at h
  · rename_i hc
    injection h with h
    obtain ⟨hlt, hleft⟩ := hc
    have hle : i * s ≤ off := by omega
    refine ⟨min (min (i * s + (ctSeg ct s i).length) (off + size) - max (i * s) off) (s - (off - i * s)), by omega, ?_⟩
    rw [← h]
    unfold ctSeg
    rw [List.drop_take, List.drop_drop, List.take_take]
    have : i * s + (off - i * s) = off := by omega
    rw [this]
  · cases h

theorem readLoop_spec (S : Setup E cfg prm ser encode ct sz) (pick : List Nat → Nat)
    (decode : Nat → List (Nat × Bytes) → Bytes) (guess : Nat) (scripts : List (Script H)) (nd : Node H)
    (off size : Nat) (w : Bytes) (h : NodeInv E prm ser encode ct sz nd) :
    ∃ off' size',
      (readLoop E cfg pick decode (upload E prm encode ser ct).cap guess scripts nd off size w).1
          ++ (ct.drop off').take size' = w ++ (ct.drop off).take size ∧
      ((readLoop E cfg pick decode (upload E prm encode ser ct).cap guess scripts nd off size w).2 = .done → size' = 0) := by
  induction scripts generalizing nd off size w with
  | nil =>
    refine ⟨off, size, rfl, ?_⟩
    unfold readLoop
    simp only
    split
    · intro _; assumption
    · intro e; cases e
  | cons sc rest ih =>
    unfold readLoop
    by_cases h0 : size = 0
    · rw [if_pos h0]; exact ⟨off, size, rfl, fun _ => h0⟩
    · rw [if_neg h0]
      simp only
      generalize hw : (off / match nd.known with | some (u, _) => u.segmentSize | none => guess) = wanted
      obtain ⟨hinv, hgen⟩ := fetchSegment_spec S pick decode nd wanted sc h
      cases hr : fetchSegment E cfg pick decode (upload E prm encode ser ct).cap nd wanted sc with
      | mk r nd' =>
        rw [hr] at hinv hgen
        cases r with
        | error e =>
          simp only
          split
          · exact ih nd' off size w hinv
          · exact ⟨off, size, rfl, fun e => nomatch e⟩
        | ok x =>
          obtain ⟨start, seg⟩ := x
          obtain ⟨h1, h2⟩ := hgen start seg rfl
          subst h1; subst h2
          simp only
          cases hg : gotSegment off size (wanted * prm.segSize) (ctSeg ct prm.segSize wanted) with
          | none =>
            simp only
            split
            · exact ih nd' off size w hinv
            · exact ⟨off, size, rfl, fun e => nomatch e⟩
          | some d =>
            simp only
            obtain ⟨m, hm, hd⟩ := gotSegment_genuine ct prm.segSize wanted off size hg
            obtain ⟨off', size', e1, e2⟩ := ih nd' (off + d.length) (size - d.length) (w ++ d) hinv
            refine ⟨off', size', ?_, e2⟩
            rw [e1, take_split (ct.drop off) hm, ← hd, List.drop_drop, List.append_assoc]

end inv

/-! ## AES-CTR as a position-wise xor (DecryptingConsumer) -/

/-- xor with the keystream byte of each position, starting at file offset `off` -/
def cryptAt (ks : Nat → UInt8) : Nat → Bytes → Bytes
  | _, [] => []
  | off, b :: rest => (b ^^^ ks off) :: cryptAt ks (off + 1) rest

theorem cryptAt_append (ks : Nat → UInt8) (off : Nat) (a b : Bytes) :
    cryptAt ks off (a ++ b) = cryptAt ks off a ++ cryptAt ks (off + a.length) b := by
  induction a generalizing off with
  | nil => simp [cryptAt]
  | cons x rest ih =>
    simp only [List.cons_append, cryptAt, List.length_cons]
    rw [ih]
    have : off + 1 + rest.length = off + (rest.length + 1) := by omega
    rw [this]

theorem cryptAt_drop (ks : Nat → UInt8) (a n : Nat) (l : Bytes) :
    (cryptAt ks a l).drop n = cryptAt ks (a + n) (l.drop n) := by
  induction n generalizing a l with
  | zero => simp
  | succ n ih =>
    cases l with
    | nil => simp [cryptAt]
    | cons x rest =>
      simp only [cryptAt, List.drop_succ_cons]
      rw [ih]
      have : a + 1 + n = a + (n + 1) := by omega
      rw [this]

theorem cryptAt_take (ks : Nat → UInt8) (a n : Nat) (l : Bytes) :
    (cryptAt ks a l).take n = cryptAt ks a (l.take n) := by
  induction n generalizing a l with
  | zero => simp [cryptAt]
  | succ n ih =>
    cases l with
    | nil => simp [cryptAt]
    | cons x rest => simp only [cryptAt, List.take_succ_cons]; rw [ih]

theorem cryptAt_prefix (ks : Nat → UInt8) (a : Nat) {l1 l2 : Bytes} (h : l1 <+: l2) :
    cryptAt ks a l1 <+: cryptAt ks a l2 := by
  obtain ⟨t, rfl⟩ := h
  rw [cryptAt_append]
  exact List.prefix_append _ _

end Tahoe.Integrity
