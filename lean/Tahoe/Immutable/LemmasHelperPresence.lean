import Mathlib.Data.Finset.Card
import Tahoe.Immutable.Helper
/-! Lemmas for the already-present decision of C44 (proof file; the single Mathlib module is used for the
pigeonhole step): `dedup` yields a duplicate-free list with the same members, and a duplicate-free list
of `n` or more share numbers below `n` contains every share number below `n`. -/
namespace Tahoe.Helper

theorem mem_dedup (l : List Nat) (x : Nat) : x ∈ dedup l ↔ x ∈ l := by
  induction l with
  | nil => simp [dedup]
  | cons y rest ih =>
    unfold dedup
    split
    · rename_i hc
      have hy : y ∈ rest := by simpa using hc
      constructor
      · intro h; exact List.mem_cons_of_mem _ (ih.1 h)
      · intro h
        rcases List.mem_cons.1 h with rfl | h
        · exact ih.2 hy
        · exact ih.2 h
    · simp [ih]

theorem dedup_nodup (l : List Nat) : (dedup l).Nodup := by
  induction l with
  | nil => simp [dedup]
  | cons y rest ih =>
    unfold dedup
    split
    · exact ih
    · rename_i hc
      have hy : y ∉ rest := by simpa using hc
      refine List.nodup_cons.2 ⟨?_, ih⟩
      intro h; exact hy ((mem_dedup rest y).1 h)

/-- pigeonhole: a duplicate-free list of at least `n` naturals below `n` contains each of them -/
theorem nodup_covers (n : Nat) (l : List Nat) (hn : l.Nodup) (hlt : ∀ x ∈ l, x < n) (hlen : n ≤ l.length)
    (i : Nat) (hi : i < n) : i ∈ l := by
  have hsub : l.toFinset ⊆ Finset.range n := by
    intro x hx; simp at hx; simpa using hlt x hx
  have hcard : l.toFinset.card = l.length := List.toFinset_card_of_nodup hn
  have := Finset.eq_of_subset_of_card_le hsub (by simp [hcard]; exact hlen)
  have hi' : i ∈ Finset.range n := by simpa using hi
  rw [← this] at hi'
  simpa using hi'

end Tahoe.Helper
