import Tahoe.Immutable.Helper
/-! Lemmas for the already-present decision of C44 (core Lean only): `dedup` yields a duplicate-free list with the same members, and a duplicate-free list
of `n` or more share numbers below `n` contains every share number below `n`. -/
namespace Tahoe.Helper

theorem mem_dedup (l : List Nat) (x : Nat) : x ∈ dedup l ↔ x ∈ l := by
  induction l with
  | nil => simp [dedup]
  | cons y rest ih =>
    unfold dedup
    split
    · rename_i hc
      have hy : y ∈ rest := by simpa using hc
      constructor
      · intro h; exact List.mem_cons_of_mem _ (ih.1 h)
      · intro h
        rcases List.mem_cons.1 h with rfl | h
        · exact ih.2 hy
        · exact ih.2 h
    · simp [ih]

theorem dedup_nodup (l : List Nat) : (dedup l).Nodup := by
  induction l with
  | nil => simp [dedup]
  | cons y rest ih =>
    unfold dedup
    split
    · exact ih
    · rename_i hc
      have hy : y ∉ rest := by simpa using hc
      refine List.nodup_cons.2 ⟨?_, ih⟩
      intro h; exact hy ((mem_dedup rest y).1 h)

/-- pigeonhole, part 1: a duplicate-free list of naturals below `n` has at most `n` elements -/
theorem nodup_length_le (n : Nat) : ∀ l : List Nat, l.Nodup → (∀ x ∈ l, x < n) → l.length ≤ n := by
  induction n with
  | zero =>
    intro l _ hlt
    cases l with
    | nil => simp
    | cons x rest => exact absurd (hlt x (List.mem_cons_self ..)) (Nat.not_lt_zero x)
  | succ n ih =>
    intro l hn hlt
    have hn' : (l.erase n).Nodup := hn.erase n
    have hlt' : ∀ x ∈ l.erase n, x < n := by
      intro x hx
      have := (hn.mem_erase_iff).1 hx
      have h1 := hlt x this.2
      omega
    have hl := ih (l.erase n) hn' hlt'
    by_cases hm : n ∈ l
    · rw [List.length_erase_of_mem hm] at hl; omega
    · rw [List.erase_of_not_mem hm] at hl; omega

/-- pigeonhole, part 2: a duplicate-free list of at least `n` naturals below `n` contains each of them -/
theorem nodup_covers (n : Nat) : ∀ (l : List Nat), l.Nodup → (∀ x ∈ l, x < n) → n ≤ l.length →
    ∀ i, i < n → i ∈ l := by
  induction n with
  | zero => intro l _ _ _ i hi; omega
  | succ n ih =>
    intro l hn hlt hlen i hi
    have hmem : n ∈ l := by
      apply Classical.byContradiction
      intro hm
      have hlt' : ∀ x ∈ l, x < n := by
        intro x hx
        have h1 := hlt x hx
        have : x ≠ n := fun h => hm (h ▸ hx)
        omega
      have := nodup_length_le n l hn hlt'
      omega
    by_cases hin : i = n
    · rw [hin]; exact hmem
    · have hn' : (l.erase n).Nodup := hn.erase n
      have hlt' : ∀ x ∈ l.erase n, x < n := by
        intro x hx
        have := (hn.mem_erase_iff).1 hx
        have h1 := hlt x this.2
        omega
      have hlen' : n ≤ (l.erase n).length := by rw [List.length_erase_of_mem hmem]; omega
      exact List.mem_of_mem_erase (ih (l.erase n) hn' hlt' hlen' i (by omega))

end Tahoe.Helper
