import Tahoe.Immutable.Fetch
/-! Parsing / printing helpers shared by the drivers `Drv/C03.lean` and `Drv/C46.lean` (no logic). -/
open Tahoe.Fetch

namespace DrvFetch

def parseShare (t : String) : Option Share :=
  match t.splitOn "." with
  | [a, b, c, d] => do pure { id := (← a.toNat?), shnum := (← b.toNat?), server := (← c.toNat?), rtt := (← d.toNat?) }
  | _ => none

def parseShares (t : String) : Option (List Share) :=
  if t == "-" then some [] else (t.splitOn ",").mapM parseShare

def parseSt : String → Option St
  | "O" => some .overdue
  | "C" => some .complete
  | "X" => some .corrupt
  | "D" => some .dead
  | "B" => some .badsegnum
  | _ => none

def showIds (l : List Nat) : String := if l.isEmpty then "-" else ",".intercalate (l.map toString)

def insertNat (x : Nat) : List Nat → List Nat
  | [] => [x]
  | y :: ys => if x ≤ y then x :: y :: ys else y :: insertNat x ys

def sortNat (l : List Nat) : List Nat := l.foldr insertNat []

def insertPair (x : Nat × Nat) : List (Nat × Nat) → List (Nat × Nat)
  | [] => [x]
  | y :: ys => if x.1 ≤ y.1 then x :: y :: ys else y :: insertPair x ys

def showBlocks (bl : List (Nat × Nat)) : String :=
  if bl.isEmpty then "-" else ",".intercalate ((bl.foldr insertPair []).map (fun p => s!"{p.1}={p.2}"))

def showOut : Out → String
  | .start sh => s!"start={sh.id}"
  | .wantMore => "want"
  | .exc .keyError => "exc=key"
  | .exc .attrError => "exc=attr"
  | .exc .fuel => "exc=fuel"

def showErr : Err → String
  | .noShares => "NoShares"
  | .notEnough => "NotEnoughShares"
  | .badSegnum => "BadSegmentNumber"

def showVerdict : Option Verdict → String
  | none => "-"
  | some (.blocks bl) => "blocks:" ++ showBlocks bl
  | some (.failed e) => "failed:" ++ showErr e

def showCalls (l : List Out) : String := if l.isEmpty then "-" else ",".intercalate (l.map showOut)

def b2s (b : Bool) : String := if b then "1" else "0"

def digest (calls : List Out) (s : Fetcher) : String :=
  "|".intercalate [showCalls calls, showIds (s.shares.map (·.id)), showIds (sortNat (s.outstanding.map (·.id))),
    showIds (sortNat (s.active.map (·.id))), showIds (sortNat (s.overdue.map (·.id))), showBlocks s.blocks,
    toString s.maxPerServer, b2s s.noMore, b2s s.running, toString s.pending, showVerdict s.verdict]

/-- parse one fetcher event; `reg` = shares announced so far -/
def parseEv (reg : List Share) (t : String) : Option Ev :=
  match t.splitOn ":" with
  | ["a", l] => do pure (.addShares (← parseShares l))
  | ["n"] => some .noMoreShares
  | ["s", i, st] => do
      let i ← i.toNat?
      let sh ← reg.find? (·.id == i)
      pure (.share sh (← parseSt st))
  | ["b"] => some .segKnownBad
  | ["l"] => some .loop
  | ["x"] => some .stop
  | _ => none

def runEvs (s : Fetcher) (reg : List Share) (acc : List String) : List String → Option (List String)
  | [] => some acc.reverse
  | t :: rest =>
    match parseEv reg t with
    | none => none
    | some e =>
      let s' := step { s with out := [] } e
      runEvs s' (reg ++ announcedOf e) (digest s'.out s' :: acc) rest

end DrvFetch
