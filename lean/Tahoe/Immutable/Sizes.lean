/-
Immutable-file size arithmetic (Mathlib-free, executable).

Mirrors, from /repo/src/allmydata:
  * pyutil.mathutil `div_ceil`, `next_multiple`, `next_power_of_k(·, 2)`
  * immutable/upload.py  `BaseUploadable.get_all_encoding_parameters`   → `segSize`
  * immutable/encode.py  `Encoder._got_all_encoding_parameters` (+ `CRSEncoder.set_params` block sizes,
    `Encoder._get_share_size`)                                          → `encoderSizes`
  * immutable/downloader/node.py `DownloadNode._calculate_sizes`         → `calculateSizes`
  * immutable/downloader/node.py `DownloadNode._build_guessed_tables`    → `guessedSegSize`

Python integer division / modulo by zero raises `ZeroDivisionError`, and both functions start with
`assert segment_size % k == 0`; Lean's `n / 0 = 0`, `n % 0 = n` would silently totalise that, so the
results are `Except Err _` with exactly the Python failure order.  All quantities are non-negative
ints in the code paths modelled (file sizes, share counts), hence `Nat`.
-/
namespace Tahoe.Immutable

inductive Err where
  | zeroDivision      -- ZeroDivisionError
  | assertion         -- AssertionError / precondition failure
  | tooLarge          -- FileTooLargeError (layout)
  | badSegment        -- BadSegmentNumberError / WrongSegmentError surfaced to the caller
  | layoutInvalid     -- LayoutInvalid / ShareVersionIncompatible
  deriving DecidableEq, Repr

def Err.toString : Err → String
  | .zeroDivision => "ZeroDivisionError"
  | .assertion => "AssertionError"
  | .tooLarge => "FileTooLargeError"
  | .badSegment => "BadSegment"
  | .layoutInvalid => "LayoutInvalid"

/-- decidable equality of results (for `decide` in examples) -/
instance decEqExcept {ε α : Type} [DecidableEq ε] [DecidableEq α] : DecidableEq (Except ε α)
  | .ok a, .ok b => if h : a = b then isTrue (by rw [h]) else isFalse (fun h' => h (by injection h'))
  | .error a, .error b => if h : a = b then isTrue (by rw [h]) else isFalse (fun h' => h (by injection h'))
  | .ok _, .error _ => isFalse (fun h => by cases h)
  | .error _, .ok _ => isFalse (fun h => by cases h)

namespace Sizes

/-- `div_ceil(n, d) = n//d + (n%d != 0)`; callers guard `d = 0` (ZeroDivisionError). -/
def divCeil (n d : Nat) : Nat := n / d + (if n % d = 0 then 0 else 1)

/-- `next_multiple(n, k) = div_ceil(n, k) * k` -/
def nextMultiple (n k : Nat) : Nat := divCeil n k * k

/-- `next_power_of_k(n, 2)`: `p = 1; while p < n: p *= 2` (fuel `n` suffices: `p` at least doubles). -/
def nextPow2Aux : Nat → Nat → Nat → Nat
  | 0, p, _ => p
  | fuel + 1, p, n => if p < n then nextPow2Aux fuel (2 * p) n else p

def nextPow2 (n : Nat) : Nat := nextPow2Aux n 1 n

/-- `BaseUploadable.get_all_encoding_parameters`: `segsize = next_multiple(min(max_segsize, file_size), k)`
    (`k = 0` raises ZeroDivisionError inside `div_ceil`). -/
def segSize (k maxSeg size : Nat) : Except Err Nat :=
  if k = 0 then .error .zeroDivision else .ok (nextMultiple (min maxSeg size) k)

/-- every number `Encoder._got_all_encoding_parameters` derives (and the two codecs' block sizes) -/
structure EncSizes where
  segmentSize : Nat
  numSegments : Nat      -- div_ceil(file_size, segment_size)
  shareSize : Nat        -- div_ceil(file_size, k): the data section of every share
  tailSize : Nat         -- file_size % segment_size, or segment_size when that is 0
  paddedTailSize : Nat   -- next_multiple(tail_size, k): what the tail codec is fed
  blockSize : Nat        -- _codec.get_block_size()      = div_ceil(segment_size, k)
  tailBlockSize : Nat    -- _tail_codec.get_block_size() = div_ceil(padded_tail_size, k)
  deriving DecidableEq, Repr

def encoderSizes (size k segsize : Nat) : Except Err EncSizes :=
  if k = 0 then .error .zeroDivision                -- `self.segment_size % self.required_shares`
  else if segsize % k ≠ 0 then .error .assertion    -- `assert self.segment_size % self.required_shares == 0`
  else if segsize = 0 then .error .zeroDivision     -- `div_ceil(self.file_size, self.segment_size)`
  else
    let tail0 := size % segsize
    let tail := if tail0 = 0 then segsize else tail0          -- `if not tail_size: tail_size = self.segment_size`
    let padded := nextMultiple tail k
    .ok { segmentSize := segsize
          numSegments := divCeil size segsize
          shareSize := divCeil size k
          tailSize := tail
          paddedTailSize := padded
          blockSize := divCeil segsize k
          tailBlockSize := divCeil padded k }

/-- the dict returned by `DownloadNode._calculate_sizes` -/
structure DlSizes where
  tailSegmentSize : Nat
  tailSegmentPadded : Nat
  numSegments : Nat
  blockSize : Nat        -- segment_size // k
  tailBlockSize : Nat    -- tail_segment_padded // k
  deriving DecidableEq, Repr

def calculateSizes (size k segsize : Nat) : Except Err DlSizes :=
  if k = 0 then .error .zeroDivision                -- `segment_size % k`
  else if segsize % k ≠ 0 then .error .assertion    -- `assert segment_size % k == 0`
  else if segsize = 0 then .error .zeroDivision     -- `size % segment_size`
  else
    let tail0 := size % segsize
    let tail := if tail0 = 0 then segsize else tail0
    let padded := nextMultiple tail k
    .ok { tailSegmentSize := tail
          tailSegmentPadded := padded
          numSegments := divCeil size segsize
          blockSize := segsize / k
          tailBlockSize := padded / k }

/-- the encoder's view projected on the downloader's five numbers -/
def EncSizes.toDl (e : EncSizes) : DlSizes :=
  { tailSegmentSize := e.tailSize, tailSegmentPadded := e.paddedTailSize, numSegments := e.numSegments,
    blockSize := e.blockSize, tailBlockSize := e.tailBlockSize }

/-- `DownloadNode._build_guessed_tables(max_segment_size)`: the segment size guessed before the UEB is known -/
def guessedSegSize (size k defaultMaxSeg : Nat) : Nat := nextMultiple (min size defaultMaxSeg) k

end Sizes
end Tahoe.Immutable
