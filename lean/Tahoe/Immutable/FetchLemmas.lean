import Tahoe.Immutable.Fetch
/-! Helper lemmas for C03 / C46: list utilities, the `while` loop induction principle with its
fuel measure, `findShare` facts, and the structural invariant `Struct` (incl. the "no stuck
quiescent state" clause) preserved by every fetcher event. -/
namespace Tahoe.Fetch

/-! ### lists -/

theorem mem_insertSet {x y : Share} {l : List Share} : y ∈ insertSet x l ↔ y ∈ l ∨ y = x := by
  unfold insertSet
  split
  · constructor
    · intro h; exact Or.inl h
    · rintro (h | h)
      · exact h
      · subst h; assumption
  · simp

theorem length_insertSet_le (x : Share) (l : List Share) : (insertSet x l).length ≤ l.length + 1 := by
  unfold insertSet; split <;> simp

theorem mem_insertSorted {x y : Share} {l : List Share} : y ∈ insertSorted x l ↔ y = x ∨ y ∈ l := by
  induction l with
  | nil => simp [insertSorted]
  | cons a l ih =>
    simp only [insertSorted]
    split
    · simp
    · simp [ih]; grind

theorem mem_sortShares {y : Share} {l : List Share} : y ∈ sortShares l ↔ y ∈ l := by
  induction l with
  | nil => simp [sortShares]
  | cons a l ih => simp [sortShares, mem_insertSorted, ih]

theorem mem_dedup {a : Nat} {l : List Nat} : a ∈ dedup l ↔ a ∈ l := by
  induction l with
  | nil => simp [dedup]
  | cons b l ih =>
    simp only [dedup]
    split
    · rename_i h; simp [ih]; intro h'; subst h'; exact h
    · simp [ih]

theorem nodup_dedup (l : List Nat) : (dedup l).Nodup := by
  induction l with
  | nil => simp [dedup]
  | cons b l ih =>
    simp only [dedup]
    split
    · exact ih
    · rename_i h; simp [ih, mem_dedup, h]

theorem nodup_subset_length : ∀ (l₁ l₂ : List Nat), l₁.Nodup → (∀ a ∈ l₁, a ∈ l₂) → l₁.length ≤ l₂.length := by
  intro l₁
  induction l₁ with
  | nil => intro l₂ _ _; simp
  | cons a l ih =>
    intro l₂ hnd hsub
    have ha : a ∈ l₂ := hsub a (by simp)
    have hnd' := List.nodup_cons.mp hnd
    have h1 : l.length ≤ (l₂.erase a).length := by
      apply ih _ hnd'.2
      intro b hb
      have hne : b ≠ a := by intro h; subst h; exact hnd'.1 hb
      exact (List.mem_erase_of_ne hne).mpr (hsub b (by simp [hb]))
    have h2 := List.length_erase_of_mem ha
    have h3 : 0 < l₂.length := List.length_pos_of_mem ha
    simp only [List.length_cons]
    omega

theorem distinct_le_of_subset {l₁ l₂ : List Nat} (h : ∀ a ∈ l₁, a ∈ l₂) : distinct l₁ ≤ distinct l₂ := by
  unfold distinct
  apply nodup_subset_length _ _ (nodup_dedup l₁)
  intro a ha
  exact mem_dedup.mpr (h a (mem_dedup.mp ha))

theorem serverCount_le (s : Fetcher) (srv : Nat) : serverCount s srv ≤ s.outstanding.length := by
  unfold serverCount; exact List.length_filter_le _ _

/-! ### `findShare` -/

theorem findShare_some {s : Fetcher} {l : List Share} {w : Bool} {sh : Share} {w' : Bool}
    (h : findShare s l w = (some sh, w')) :
    sh ∈ l ∧ sh.shnum ∉ blockKeys s ∧ sh.shnum ∉ activeKeys s := by
  induction l generalizing w with
  | nil => simp [findShare] at h
  | cons a l ih =>
    simp only [findShare] at h
    split at h
    · have := ih h; simp [this]
    · split at h
      · have := ih h; simp [this]
      · split at h
        · have := ih h; simp [this]
        · simp only [Prod.mk.injEq, Option.some.injEq] at h
          obtain ⟨h1, _⟩ := h
          subst h1
          simp_all

theorem findShare_none {s : Fetcher} {l : List Share} {w w' : Bool}
    (h : findShare s l w = (none, w')) :
    (w' = false → w = false ∧ ∀ sh ∈ l, sh.shnum ∈ blockKeys s ∨ sh.shnum ∈ activeKeys s) ∧
    (w' = true → w = true ∨ ∃ sh ∈ l, s.maxPerServer ≤ serverCount s sh.server) := by
  induction l generalizing w with
  | nil => simp only [findShare, Prod.mk.injEq, true_and] at h; subst h; simp
  | cons a l ih =>
    simp only [findShare] at h
    split at h
    · have := ih h
      refine ⟨fun hw => ?_, fun hw => ?_⟩
      · have := this.1 hw; simp_all
      · rcases this.2 hw with h1 | ⟨sh, h1, h2⟩
        · exact Or.inl h1
        · exact Or.inr ⟨sh, by simp [h1], h2⟩
    · split at h
      · have := ih h
        refine ⟨fun hw => ?_, fun hw => ?_⟩
        · have := this.1 hw; simp_all
        · rcases this.2 hw with h1 | ⟨sh, h1, h2⟩
          · exact Or.inl h1
          · exact Or.inr ⟨sh, by simp [h1], h2⟩
      · split at h
        · rename_i hfull
          have := ih h
          refine ⟨fun hw => ?_, fun hw => ?_⟩
          · have := (this.1 hw).1; simp at this
          · exact Or.inr ⟨a, by simp, hfull⟩
        · simp at h

/-! ### the `while` loop: measure and induction principle -/

def mu (s : Fetcher) : Nat :=
  2 * s.shares.length + (s.shares.length + s.outstanding.length + 1 - s.maxPerServer)

theorem mu_lt_fuelFor (s : Fetcher) : mu s < fuelFor s := by
  unfold mu fuelFor; omega

theorem mu_useShare {s : Fetcher} {sh : Share} (h : sh ∈ s.shares) : mu (useShare s sh) < mu s := by
  unfold mu useShare
  have h1 := List.length_erase_of_mem h
  have h2 := length_insertSet_le sh s.outstanding
  have h3 : 0 < s.shares.length := List.length_pos_of_mem h
  simp only
  omega

theorem askMore_eq (s : Fetcher) :
    (askMore s).shares = s.shares ∧ (askMore s).outstanding = s.outstanding ∧ (askMore s).maxPerServer = s.maxPerServer ∧
    (askMore s).active = s.active ∧ (askMore s).overdue = s.overdue ∧ (askMore s).blocks = s.blocks ∧
    (askMore s).noMore = s.noMore ∧ (askMore s).running = s.running ∧ (askMore s).badSeg = s.badSeg ∧
    (askMore s).pending = s.pending ∧ (askMore s).verdict = s.verdict ∧ (askMore s).k = s.k := by
  unfold askMore; split <;> simp

theorem mu_bump {s : Fetcher} {sh : Share} (h : s.maxPerServer ≤ serverCount s sh.server) :
    mu (askMore { s with maxPerServer := s.maxPerServer + 1 }) < mu s := by
  have h1 := serverCount_le s sh.server
  have e := askMore_eq { s with maxPerServer := s.maxPerServer + 1 }
  unfold mu
  rw [e.1, e.2.1, e.2.2.1]
  simp only
  omega

/-- Induction principle for the `while` loop of `_do_loop`: `P` is the loop invariant, `Q` the
post-condition of each way out.  The fuel never runs out (`mu`). -/
theorem whileLoop_ind {P Q : Fetcher → Prop}
    (huse : ∀ s sh w, P s → distinct (blockKeys s ++ activeKeys s) < s.k →
      findShare s s.shares false = (some sh, w) → P (useShare s sh))
    (hbump : ∀ s, P s → findShare s s.shares false = (none, true) →
      P (askMore { s with maxPerServer := s.maxPerServer + 1 }))
    (hfail : ∀ s, P s → distinct (blockKeys s ++ activeKeys s) < s.k →
      findShare s s.shares false = (none, false) → s.noMore = true →
      distinct (blockKeys s ++ activeKeys s ++ overdueKeys s) < s.k → Q (noSharesError s))
    (hwait : ∀ s, P s → distinct (blockKeys s ++ activeKeys s) < s.k →
      findShare s s.shares false = (none, false) →
      (s.noMore = true → ¬ distinct (blockKeys s ++ activeKeys s ++ overdueKeys s) < s.k) → Q (askMore s))
    (hdeliver : ∀ s, P s → ¬ distinct (blockKeys s ++ activeKeys s) < s.k → s.k ≤ distinct (blockKeys s) →
      Q (deliver s))
    (hidle : ∀ s, P s → ¬ distinct (blockKeys s ++ activeKeys s) < s.k → ¬ s.k ≤ distinct (blockKeys s) → Q s) :
    ∀ fuel s, mu s < fuel → P s → Q (whileLoop fuel s) := by
  intro fuel
  induction fuel with
  | zero => intro s h; omega
  | succ n ih =>
    intro s hmu hP
    unfold whileLoop
    split
    · rename_i hlt
      split
      · rename_i sh w heq
        apply ih
        · have := mu_useShare (findShare_some heq).1; omega
        · exact huse s sh w hP hlt heq
      · rename_i heq
        apply ih
        · have := (findShare_none heq).2 rfl
          rcases this with h | ⟨sh, _, h2⟩
          · simp at h
          · have := mu_bump h2; omega
        · exact hbump s hP heq
      · rename_i heq
        have e := askMore_eq s
        by_cases hnm : s.noMore = true
        · have hask : askMore s = s := by unfold askMore; simp [hnm]
          simp only [hask, hnm, if_true]
          split
          · rename_i hshort
            exact hfail s hP hlt heq hnm hshort
          · rename_i hshort
            have := hwait s hP hlt heq (fun _ => hshort)
            rwa [hask] at this
        · have hnm' : (askMore s).noMore = false := by rw [e.2.2.2.2.2.2.1]; simpa using hnm
          simp only [hnm']
          exact hwait s hP hlt heq (fun h => absurd h hnm)
    · rename_i hge
      split
      · rename_i hk
        exact hdeliver s hP hge hk
      · rename_i hk
        exact hidle s hP hge hk

/-! ### structural invariant (enough for "no stuck quiescent state") -/

structure Struct (s : Fetcher) : Prop where
  actOut : ∀ x ∈ s.active, x ∈ s.outstanding
  ovdOut : s.running = true → ∀ x ∈ s.overdue, x ∈ s.outstanding
  maxPos : 1 ≤ s.maxPerServer
  /-- a running fetcher that has been told `no_more_shares`, has no loop queued and no block
  request outstanding does not exist -/
  quiet : s.running = true → s.pending = 0 → s.noMore = true → s.outstanding ≠ []

/-- what the environment may not do: OVERDUE for a share that is not outstanding -/
def EvOkS (s : Fetcher) : Ev → Prop
  | .share sh .overdue => s.running = true → sh ∈ s.outstanding
  | _ => True

theorem struct_init (k : Nat) : Struct (init k) := by
  constructor <;> simp [init]

theorem distinct_nil_right_lt {b a : List Nat} {k : Nat} (h1 : distinct (b ++ a) < k)
    (h2 : ¬ distinct (b ++ a ++ o) < k) : o ≠ [] := by
  intro h; subst h; simp at h2; omega

theorem struct_stop {s : Fetcher} (h : Struct s) : Struct (stop s) := by
  unfold stop
  split
  · constructor <;> simp [h.maxPos]
  · exact h

theorem struct_whileLoop {s : Fetcher} (h1 : ∀ x ∈ s.active, x ∈ s.outstanding)
    (h2 : ∀ x ∈ s.overdue, x ∈ s.outstanding) (h3 : 1 ≤ s.maxPerServer) (hr : s.running = true)
    (fuel : Nat) (hf : mu s < fuel) : Struct (whileLoop fuel s) := by
  have key : ∀ fuel s, mu s < fuel →
      ((∀ x ∈ s.active, x ∈ s.outstanding) ∧ (∀ x ∈ s.overdue, x ∈ s.outstanding) ∧ 1 ≤ s.maxPerServer ∧
        s.running = true) → Struct (whileLoop fuel s) := by
    apply whileLoop_ind
    · -- use a share
      intro s sh w hP _ _
      obtain ⟨h1, h2, h3, h4⟩ := hP
      refine ⟨?_, ?_, h3, h4⟩
      · intro x hx
        simp only [useShare, List.mem_append, List.mem_singleton] at hx
        simp only [useShare]
        rcases hx with hx | hx
        · exact mem_insertSet.mpr (Or.inl (h1 x hx))
        · exact mem_insertSet.mpr (Or.inr hx)
      · intro x hx
        simp only [useShare] at hx ⊢
        exact mem_insertSet.mpr (Or.inl (h2 x hx))
    · -- diversity bump
      intro s hP _
      obtain ⟨h1, h2, h3, h4⟩ := hP
      have e := askMore_eq { s with maxPerServer := s.maxPerServer + 1 }
      refine ⟨?_, ?_, ?_, ?_⟩
      · rw [e.2.2.2.1, e.2.1]; exact h1
      · rw [e.2.2.2.2.1, e.2.1]; exact h2
      · rw [e.2.2.1]; simp
      · rw [e.2.2.2.2.2.2.2.1]; exact h4
    · -- no shares error
      intro s hP _ _ _ _
      unfold noSharesError stop
      simp only [hP.2.2.2, if_true]
      constructor <;> simp [hP.2.2.1]
    · -- wait
      intro s hP hlt _ hshort
      obtain ⟨h1, h2, h3, h4⟩ := hP
      have e := askMore_eq s
      constructor
      · rw [e.2.2.2.1, e.2.1]; exact h1
      · intro _; rw [e.2.2.2.2.1, e.2.1]; exact h2
      · rw [e.2.2.1]; exact h3
      · intro _ _ hnm
        rw [e.2.2.2.2.2.2.1] at hnm
        rw [e.2.1]
        have hne := distinct_nil_right_lt hlt (hshort hnm)
        intro hout
        apply hne
        unfold overdueKeys
        cases ho : s.overdue with
        | nil => simp
        | cons a l =>
          have := h2 a (by simp [ho])
          simp [hout] at this
    · -- deliver
      intro s hP _ _
      unfold deliver stop
      simp only [hP.2.2.2, if_true]
      constructor <;> simp [hP.2.2.1]
    · -- idle: enough active requests, not enough blocks yet
      intro s hP hge hk
      obtain ⟨h1, h2, h3, h4⟩ := hP
      refine ⟨h1, fun _ => h2, h3, ?_⟩
      intro _ _ _ hout
      have hact : s.active = [] := by
        cases ha : s.active with
        | nil => rfl
        | cons a l =>
          have := h1 a (by simp [ha])
          simp [hout] at this
      have : activeKeys s = [] := by simp [activeKeys, hact]
      simp [this] at hge
      omega
  exact key fuel s hf ⟨h1, h2, h3, hr⟩

theorem struct_doLoop {s : Fetcher} (h1 : ∀ x ∈ s.active, x ∈ s.outstanding)
    (h2 : s.running = true → ∀ x ∈ s.overdue, x ∈ s.outstanding) (h3 : 1 ≤ s.maxPerServer) :
    Struct (doLoop s) := by
  unfold doLoop
  split
  · rename_i hr
    simp only [Bool.not_eq_true', ] at hr
    exact ⟨h1, h2, h3, fun hrun => by simp [hr] at hrun⟩
  · rename_i hr
    simp only [Bool.not_eq_true, Bool.not_eq_false'] at hr
    split
    · simp only [stop, hr, if_true]
      constructor <;> simp [h3]
    · exact struct_whileLoop h1 (h2 hr) h3 hr _ (mu_lt_fuelFor s)

theorem struct_step {s : Fetcher} (h : Struct s) (e : Ev) (hok : EvOkS s e) : Struct (step s e) := by
  cases e with
  | addShares l =>
    simp only [step, addShares]
    split
    · exact ⟨h.actOut, h.ovdOut, h.maxPos, by intro _ hp; simp at hp⟩
    · exact ⟨h.actOut, h.ovdOut, h.maxPos, h.quiet⟩
  | noMoreShares =>
    simp only [step, noMoreShares]
    exact ⟨h.actOut, h.ovdOut, h.maxPos, by intro _ hp; simp at hp⟩
  | segKnownBad =>
    simp only [step]
    exact ⟨h.actOut, h.ovdOut, h.maxPos, h.quiet⟩
  | stop => exact struct_stop h
  | loop =>
    simp only [step]
    exact struct_doLoop h.actOut h.ovdOut h.maxPos
  | share sh st =>
    simp only [step, blockActivity]
    split
    · exact h
    · rename_i hr
      simp only [Bool.not_eq_true, Bool.not_eq_false'] at hr
      have hA := h.actOut
      have hO := h.ovdOut hr
      cases st with
      | overdue =>
        have hsh : sh ∈ s.outstanding := hok hr
        simp only [isTerminal, Bool.false_eq_true, if_false, reduceCtorEq]
        by_cases hin : sh.shnum ∈ activeKeys s
        · simp only [hin, if_true]
          refine ⟨?_, ?_, h.maxPos, by intro _ hp; simp at hp⟩
          · intro x hx; simp only [List.mem_filter] at hx; exact hA x hx.1
          · intro _ x hx
            rcases mem_insertSet.mp hx with hx | hx
            · exact hO x hx
            · subst hx; exact hsh
        · simp only [hin, if_false]
          exact ⟨h.actOut, h.ovdOut, h.maxPos, h.quiet⟩
      | complete =>
        simp only [isTerminal, if_true, reduceCtorEq, if_false]
        refine ⟨?_, ?_, h.maxPos, by intro _ hp; simp at hp⟩
        · intro x hx; simp only [List.mem_filter] at hx ⊢; exact ⟨hA x hx.1, hx.2⟩
        · intro _ x hx; simp only [List.mem_filter] at hx ⊢; exact ⟨hO x hx.1, hx.2⟩
      | corrupt =>
        simp only [isTerminal, if_true, reduceCtorEq, if_false]
        refine ⟨?_, ?_, h.maxPos, by intro _ hp; simp at hp⟩
        · intro x hx; simp only [List.mem_filter] at hx ⊢; exact ⟨hA x hx.1, hx.2⟩
        · intro _ x hx; simp only [List.mem_filter] at hx ⊢; exact ⟨hO x hx.1, hx.2⟩
      | dead =>
        simp only [isTerminal, if_true, reduceCtorEq, if_false]
        refine ⟨?_, ?_, h.maxPos, by intro _ hp; simp at hp⟩
        · intro x hx; simp only [List.mem_filter] at hx ⊢; exact ⟨hA x hx.1, hx.2⟩
        · intro _ x hx; simp only [List.mem_filter] at hx ⊢; exact ⟨hO x hx.1, hx.2⟩
      | badsegnum =>
        simp only [isTerminal, if_true, reduceCtorEq, if_false]
        refine ⟨?_, ?_, h.maxPos, by intro _ hp; simp at hp⟩
        · intro x hx; simp only [List.mem_filter] at hx ⊢; exact ⟨hA x hx.1, hx.2⟩
        · intro _ x hx; simp only [List.mem_filter] at hx ⊢; exact ⟨hO x hx.1, hx.2⟩

theorem stop_out (s : Fetcher) : (stop s).out = s.out := by unfold stop; split <;> rfl

/-- the `while` loop of `_do_loop` exits before the fuel of the model is used up -/
theorem whileLoop_fuel {s : Fetcher} (h : Out.exc .fuel ∉ s.out) (fuel : Nat) (hf : mu s < fuel) :
    Out.exc .fuel ∉ (whileLoop fuel s).out := by
  have key : ∀ fuel s, mu s < fuel → Out.exc .fuel ∉ s.out → Out.exc .fuel ∉ (whileLoop fuel s).out := by
    apply whileLoop_ind (P := fun s => Out.exc .fuel ∉ s.out) (Q := fun s => Out.exc .fuel ∉ s.out)
    · intro s sh w h _ _; simpa [useShare] using h
    · intro s h _; unfold askMore; split <;> simpa using h
    · intro s h _ _ _ _; show Out.exc .fuel ∉ (stop s).out; rw [stop_out]; exact h
    · intro s h _ _ _; unfold askMore; split <;> simpa using h
    · intro s h _ _; show Out.exc .fuel ∉ (stop s).out; rw [stop_out]; exact h
    · intro s h _ _; exact h
  exact key fuel s hf h

/-- the fetcher's half of the finder contract: a `_do_loop` pass that leaves the fetcher running, not
yet told `no_more_shares`, and with no block request outstanding has called `want_more_shares()` -/
theorem whileLoop_asks {s : Fetcher} (h1 : ∀ x ∈ s.active, x ∈ s.outstanding) (hr : s.running = true)
    (fuel : Nat) (hf : mu s < fuel) :
    (whileLoop fuel s).running = true → (whileLoop fuel s).noMore = false → (whileLoop fuel s).outstanding = [] →
    Out.wantMore ∈ (whileLoop fuel s).out := by
  have key : ∀ fuel s, mu s < fuel → ((∀ x ∈ s.active, x ∈ s.outstanding) ∧ s.running = true) →
      ((whileLoop fuel s).running = true → (whileLoop fuel s).noMore = false → (whileLoop fuel s).outstanding = [] →
        Out.wantMore ∈ (whileLoop fuel s).out) := by
    apply whileLoop_ind (P := fun s => (∀ x ∈ s.active, x ∈ s.outstanding) ∧ s.running = true)
      (Q := fun s' => s'.running = true → s'.noMore = false → s'.outstanding = [] → Out.wantMore ∈ s'.out)
    · intro s sh w hP _ _
      refine ⟨?_, hP.2⟩
      intro x hx
      simp only [useShare, List.mem_append, List.mem_singleton] at hx
      simp only [useShare]
      rcases hx with hx | hx
      · exact mem_insertSet.mpr (Or.inl (hP.1 x hx))
      · exact mem_insertSet.mpr (Or.inr hx)
    · intro s hP _
      have e := askMore_eq { s with maxPerServer := s.maxPerServer + 1 }
      refine ⟨?_, ?_⟩
      · rw [e.2.2.2.1, e.2.1]; exact hP.1
      · rw [e.2.2.2.2.2.2.2.1]; exact hP.2
    · intro s hP _ _ _ _ hrun
      simp [noSharesError, stop, hP.2] at hrun
    · intro s _ _ _ _ _ hnm _
      have e := askMore_eq s
      rw [e.2.2.2.2.2.2.1] at hnm
      simp [askMore, hnm]
    · intro s hP _ _ hrun
      simp [deliver, stop, hP.2] at hrun
    · intro s hP hge hk _ _ hout
      exfalso
      have hact : s.active = [] := by
        cases ha : s.active with
        | nil => rfl
        | cons a l =>
          have := hP.1 a (by simp [ha])
          simp [hout] at this
      have : activeKeys s = [] := by simp [activeKeys, hact]
      simp [this] at hge
      omega
  exact key fuel s hf ⟨h1, hr⟩

end Tahoe.Fetch
