import Tahoe.Immutable.FetchLemmasC46
import Tahoe.Immutable.SegLemmas
/-! Lemmas for the composed system `Sys` (reads on one node): what one `Seg` step asks of the node
(`StepFacts`), and the routing invariant `SysInv`. -/
namespace Tahoe.Fetch

def isAnswer : SEv → Bool
  | .segment _ _ _ => true
  | .failed _ => true
  | _ => false

/-- what one step of a read (started from an empty call log) asks of the node -/
structure StepFacts (s : Seg) (e : SEv) (s' : Seg) : Prop where
  /-- a new `get_segment(n)`: the read now waits for it -/
  req : ∀ n, newRequest s'.out = some n → s'.active = some n ∧ s'.result = none
  /-- no new request but still waiting: it is the old request, untouched -/
  keep : newRequest s'.out = none → s'.result = none → s'.active.isSome = true →
    s.active.isSome = true ∧ s.result = none ∧ SegOut.cancel ∉ s'.out ∧ isAnswer e = false
  /-- only `stopProducing` cancels, and then the Deferred has fired -/
  cancel : SegOut.cancel ∈ s'.out → s'.result.isSome = true
  still : newRequest s'.out = none → s'.active.isSome = true → SegOut.cancel ∉ s'.out → s.result = none →
    s'.result = none

theorem newRequest_append_other : ∀ (l : List SegOut) (x : SegOut), newRequest l = none →
    (∀ n, x ≠ .getSegment n) → newRequest (l ++ [x]) = none := by
  intro l
  induction l with
  | nil => intro x _ hx; cases x <;> simp_all [newRequest]
  | cons a l ih =>
    intro x hnr hx
    cases a with
    | getSegment n => simp [newRequest] at hnr
    | cancel => simpa [newRequest] using ih x (by simpa [newRequest] using hnr) hx
    | write a b => simpa [newRequest] using ih x (by simpa [newRequest] using hnr) hx
    | done => simpa [newRequest] using ih x (by simpa [newRequest] using hnr) hx
    | errback e => simpa [newRequest] using ih x (by simpa [newRequest] using hnr) hx

theorem newRequest_append_get : ∀ (l : List SegOut) (n : Nat), newRequest l = none →
    newRequest (l ++ [.getSegment n]) = some n := by
  intro l
  induction l with
  | nil => intro n _; simp [newRequest]
  | cons a l ih =>
    intro n hnr
    cases a with
    | getSegment m => simp [newRequest] at hnr
    | cancel => simpa [newRequest] using ih n (by simpa [newRequest] using hnr)
    | write a b => simpa [newRequest] using ih n (by simpa [newRequest] using hnr)
    | done => simpa [newRequest] using ih n (by simpa [newRequest] using hnr)
    | errback e => simpa [newRequest] using ih n (by simpa [newRequest] using hnr)

theorem mfn_cases (s : Seg) (k : Bool) :
    maybeFetchNext s k = s ∨
    (∃ n, maybeFetchNext s k = { s with active := some n, retryArmed := !k, out := s.out ++ [.getSegment n] } ∧
      s.active = none ∧ s.alive = true) ∨
    (maybeFetchNext s k = { s with alive := false, hungry := false, result := some none, out := s.out ++ [.done] } ∧
      s.active = none) := by
  unfold maybeFetchNext
  split
  · exact Or.inl rfl
  · rename_i h1
    split
    · exact Or.inl rfl
    · rename_i h2
      have hact : s.active = none := by
        cases h : s.active with
        | none => rfl
        | some _ => simp [h] at h2
      have hal : s.alive = true := by
        cases h : s.alive with
        | true => rfl
        | false => simp [h] at h1
      unfold fetchNext
      split
      · exact Or.inr (Or.inr ⟨rfl, hact⟩)
      · exact Or.inr (Or.inl ⟨_, rfl, hact, hal⟩)

/-- facts about `maybeFetchNext` applied to a state with a call log `l` containing no request/cancel,
no request outstanding before -/
theorem facts_mfn_idle (s0 : Seg) (e : SEv) (s : Seg) (k : Bool) (l : List SegOut) (hl : s.out = l)
    (hnr : newRequest l = none) (hnc : SegOut.cancel ∉ l) (hact : s.active = none)
    (hres : s.alive = true → s.result = none) :
    StepFacts s0 e (maybeFetchNext s k) := by
  have hnr' : ∀ x, (x ≠ SegOut.cancel) → (∀ n, x ≠ .getSegment n) → newRequest (l ++ [x]) = none :=
    fun x _ hx => newRequest_append_other l x hnr hx
  have hreq : ∀ n, newRequest (l ++ [.getSegment n]) = some n := fun n => newRequest_append_get l n hnr
  rcases mfn_cases s k with h | ⟨n, h, _, hal⟩ | ⟨h, _⟩
  · rw [h]
    refine ⟨?_, ?_, ?_, ?_⟩
    · intro n hn; rw [hl, hnr] at hn; simp at hn
    · intro _ _ ha; rw [hact] at ha; simp at ha
    · intro hc; rw [hl] at hc; exact absurd hc hnc
    · intro _ ha; rw [hact] at ha; simp at ha
  · rw [h]
    refine ⟨?_, ?_, ?_, ?_⟩
    · intro m hm
      simp only [hl, hreq, Option.some.injEq] at hm
      subst hm
      exact ⟨rfl, hres hal⟩
    · intro hn; simp only [hl, hreq] at hn; simp at hn
    · intro hc; simp only [hl, List.mem_append, List.mem_singleton, reduceCtorEq, or_false] at hc; exact absurd hc hnc
    · intro hn; simp only [hl, hreq] at hn; simp at hn
  · rw [h]
    refine ⟨?_, ?_, ?_, ?_⟩
    · intro m hm
      simp only [hl] at hm
      rw [hnr' .done (by simp) (by simp)] at hm; simp at hm
    · intro _ hr; simp at hr
    · intro _; rfl
    · intro _ ha; simp only [hact] at ha; simp at ha

theorem facts_error (s0 : Seg) (e : SEv) (s : Seg) (err : SegErr) (l : List SegOut) (hl : s.out = l)
    (hnr : newRequest l = none) (hnc : SegOut.cancel ∉ l) (hact : s.active = none) :
    StepFacts s0 e (segError s err) := by
  have hnr' : newRequest (l ++ [.errback err]) = none := newRequest_append_other l _ hnr (by simp)
  refine ⟨?_, ?_, ?_, ?_⟩
  · intro n hn; simp only [segError, hl, hnr'] at hn; simp at hn
  · intro _ hr; simp [segError] at hr
  · intro _; simp [segError]
  · intro _ ha; simp only [segError, hact] at ha; simp at ha

theorem facts_failure (s0 : Seg) (e : SEv) (s : Seg) (k : Bool) (err : SegErr) (armed : Bool)
    (l : List SegOut) (hl : s.out = l) (hnr : newRequest l = none) (hnc : SegOut.cancel ∉ l)
    (hact : s.active = none) (hres : s.alive = true → s.result = none) :
    StepFacts s0 e (segFailure s k err armed) := by
  unfold segFailure
  split
  · split
    · exact facts_mfn_idle s0 e s k l hl hnr hnc hact hres
    · exact facts_error s0 e s _ l hl hnr hnc hact
  · exact facts_error s0 e s _ l hl hnr hnc hact

/-- the facts for every event of a live read (`s` = the read with its call log emptied) -/
theorem step_facts (s : Seg) (k : Bool) (e : SEv) (hout : s.out = []) (hlive : s.alive = true → s.result = none)
    (hok : e = .start ∨ SEvOk s e) (hstart : e = .start → s.active = none ∧ s.result = none) :
    StepFacts s e (segStep s k e) := by
  cases e with
  | start =>
    obtain ⟨ha, hr⟩ := hstart rfl
    exact facts_mfn_idle s _ _ k [] (by simp [hout]) rfl (by simp) ha (fun _ => hr)
  | segment st len pause =>
    simp only [segStep]
    split
    · split
      · exact facts_failure s _ _ k _ _ [] (by simp [hout]) rfl (by simp) rfl hlive
      · rename_i o0 o1 _ _
        cases pause
        · exact facts_mfn_idle s _ _ k [.write o0 o1] (by simp [hout]) (by simp [newRequest]) (by simp) rfl hlive
        · exact facts_mfn_idle s _ _ k [.write o0 o1] (by simp [hout]) (by simp [newRequest]) (by simp) rfl hlive
    · exact facts_failure s _ _ k _ _ [] (by simp [hout]) rfl (by simp) rfl hlive
  | failed err =>
    exact facts_failure s _ _ k _ _ [] (by simp [hout]) rfl (by simp) rfl hlive
  | pause =>
    refine ⟨?_, ?_, ?_, ?_⟩
    · intro n hn; simp [segStep, hout, newRequest] at hn
    · intro _ hr ha; exact ⟨ha, hr, by simp [segStep, hout], rfl⟩
    · intro hc; simp [segStep, hout] at hc
    · intro _ _ _ hr; exact hr
  | resume =>
    refine ⟨?_, ?_, ?_, ?_⟩
    · intro n hn; simp [segStep, hout, newRequest] at hn
    · intro _ hr ha; exact ⟨ha, hr, by simp [segStep, hout], rfl⟩
    · intro hc; simp [segStep, hout] at hc
    · intro _ _ _ hr; exact hr
  | turn =>
    simp only [segStep]
    rcases mfn_cases { s with turns := s.turns - 1 } k with h | ⟨n, h, hact, hal⟩ | ⟨h, hact⟩
    · rw [h]
      refine ⟨?_, ?_, ?_, ?_⟩
      · intro n hn; simp [hout, newRequest] at hn
      · intro _ hr ha; exact ⟨ha, hr, by simp [hout], rfl⟩
      · intro hc; simp [hout] at hc
      · intro _ _ _ hr; exact hr
    · rw [h]
      refine ⟨?_, ?_, ?_, ?_⟩
      · intro m hm
        simp only [hout, List.nil_append, newRequest, Option.some.injEq] at hm
        subst hm
        exact ⟨rfl, hlive hal⟩
      · intro hn; simp [hout, newRequest] at hn
      · intro hc; simp [hout] at hc
      · intro hn; simp [hout, newRequest] at hn
    · rw [h]
      refine ⟨?_, ?_, ?_, ?_⟩
      · intro m hm; simp [hout, newRequest] at hm
      · intro _ hr; simp at hr
      · intro _; rfl
      · intro _ ha; simp only [] at ha; rw [show s.active = none from hact] at ha; simp at ha
  | stop =>
    simp only [segStep]
    split
    · rename_i hres
      refine ⟨?_, ?_, ?_, ?_⟩
      · intro n hn; simp [hout, newRequest] at hn
      · intro _ hr ha; exact ⟨ha, hr, by simp [hout], rfl⟩
      · intro hc; simp [hout] at hc
      · intro _ _ _ hr; exact hr
    · by_cases hact : s.active.isSome = true
      · simp only [hact, if_true, hout, List.nil_append]
        refine ⟨?_, ?_, ?_, ?_⟩
        · intro n hn; simp [newRequest] at hn
        · intro _ hr; simp at hr
        · intro _; rfl
        · intro _ _ hc; simp at hc
      · simp only [hact, Bool.false_eq_true, if_false, hout, List.nil_append]
        refine ⟨?_, ?_, ?_, ?_⟩
        · intro n hn; simp [newRequest] at hn
        · intro _ hr; simp at hr
        · intro hc; simp at hc
        · intro _ ha; exact absurd ha hact

/-! ### routing invariant -/

/-- per read: it is live; a recorded request id means it is waiting; a waiting read's request id is
among the node's queued or retired requests; ids are below the next fresh id -/
structure ReadInv (n : Node) (nx : Nat) (r : RSeg) : Prop where
  live : SegLive r.seg
  waitOk : ∀ q, r.req = some q → r.seg.active.isSome = true ∧ r.seg.result = none
  track : r.seg.result = none → r.seg.active.isSome = true →
    ∃ q, r.req = some q ∧ (q ∈ n.requests.map (·.2) ∨ q ∈ n.retired.map (·.1))
  fresh : ∀ q, r.req = some q → q < nx

structure SysInv (y : Sys) : Prop where
  node : NInv y.node
  reads : ∀ r ∈ y.reads, ReadInv y.node y.nextReq r
  ridNodup : (y.reads.map (·.rid)).Nodup
  uniq : ∀ r ∈ y.reads, ∀ r' ∈ y.reads, ∀ q, r.req = some q → r'.req = some q → r.rid = r'.rid

theorem node_keeps (n : Node) (e : NEv) (q : Nat)
    (h : q ∈ n.requests.map (·.2) ∨ q ∈ n.retired.map (·.1)) :
    q ∈ (nstep n e).requests.map (·.2) ∨ q ∈ (nstep n e).retired.map (·.1) ∨ q ∈ cancelled [e] := by
  have hacc : Accounted n [q] [] := by
    intro r hr
    simp only [List.mem_singleton] at hr
    subst hr
    rcases h with h | h
    · exact Or.inl h
    · exact Or.inr (Or.inl h)
  have := acc_step hacc e q (by simp)
  simpa using this

theorem readinv_transfer {n : Node} {nx nx' : Nat} {x : RSeg} (e : NEv) (h : ReadInv n nx x)
    (hc : ∀ q, x.req = some q → q ∉ cancelled [e]) (hle : nx ≤ nx') : ReadInv (nstep n e) nx' x := by
  refine ⟨h.live, h.waitOk, ?_, fun q hq => Nat.lt_of_lt_of_le (h.fresh q hq) hle⟩
  intro hr ha
  obtain ⟨q, hq, hin⟩ := h.track hr ha
  refine ⟨q, hq, ?_⟩
  rcases node_keeps n e q hin with h1 | h1 | h1
  · exact Or.inl h1
  · exact Or.inr h1
  · exact absurd h1 (hc q hq)

theorem cancelled_getSegment (a b : Nat) : cancelled [NEv.getSegment a b] = [] := rfl
theorem cancelled_cancel (q : Nat) : cancelled [NEv.cancel q] = [q] := rfl

theorem setRead_rids (rs : List RSeg) (r : RSeg) : (setRead rs r).map (·.rid) = rs.map (·.rid) := by
  unfold setRead
  induction rs with
  | nil => rfl
  | cons a l ih =>
    simp only [List.map_cons, List.map_map] at ih ⊢
    by_cases h : a.rid = r.rid
    · simp [h, ih]
    · simp [h, ih]

theorem mem_setRead {rs : List RSeg} {r x : RSeg} (h : x ∈ setRead rs r) :
    (x = r ∧ ∃ z ∈ rs, z.rid = r.rid) ∨ (x ∈ rs ∧ x.rid ≠ r.rid) := by
  unfold setRead at h
  simp only [List.mem_map] at h
  obtain ⟨z, hz, rfl⟩ := h
  by_cases hh : z.rid = r.rid
  · left; simp only [hh, if_true]; exact ⟨trivial, z, hz, hh⟩
  · right; simp only [hh, if_false]; exact ⟨hz, hh⟩

/-- one step of read `r` (present in `y.reads`), given what the caller knows about that `Seg` step -/
theorem sysinv_applySeg {y : Sys} {r : RSeg} (known : Bool) (e : SEv)
    (hnode : NInv y.node) (hr : r ∈ y.reads)
    (hothers : ∀ x ∈ y.reads, x.rid ≠ r.rid → ReadInv y.node y.nextReq x)
    (hnd : (y.reads.map (·.rid)).Nodup)
    (huniq : ∀ x ∈ y.reads, ∀ x' ∈ y.reads, ∀ q, x.req = some q → x'.req = some q → x.rid = x'.rid)
    (hlive' : SegLive (segStep { r.seg with out := [] } known e))
    (hfacts : StepFacts { r.seg with out := [] } e (segStep { r.seg with out := [] } known e))
    (hwait : ∀ q, r.req = some q → r.seg.active.isSome = true ∧ r.seg.result = none)
    (htrack : r.seg.result = none → r.seg.active.isSome = true →
      ∃ q, r.req = some q ∧ (q ∈ y.node.requests.map (·.2) ∨ q ∈ y.node.retired.map (·.1)))
    (hfresh : ∀ q, r.req = some q → q < y.nextReq) :
    SysInv (applySeg y r known e) := by
  -- the node after the optional cancel
  have hcancel_res := hfacts.cancel
  generalize hs' : segStep { r.seg with out := [] } known e = s' at *
  -- node1
  have hn1 : ∀ (node1 : Node), node1 = (if SegOut.cancel ∈ s'.out then
      (match r.req with
       | some q => nstep y.node (.cancel q)
       | none => y.node) else y.node) →
      NInv node1 ∧ (∀ x ∈ y.reads, x.rid ≠ r.rid → ReadInv node1 y.nextReq x) ∧
      (SegOut.cancel ∉ s'.out → node1 = y.node) := by
    intro node1 h1
    by_cases hc : SegOut.cancel ∈ s'.out
    · simp only [hc, if_true] at h1
      cases hq : r.req with
      | none =>
        simp only [hq] at h1
        subst h1
        exact ⟨hnode, hothers, fun h => absurd hc h⟩
      | some q =>
        simp only [hq] at h1
        subst h1
        refine ⟨ninv_step hnode _ trivial, ?_, fun h => absurd hc h⟩
        intro x hx hne
        apply readinv_transfer _ (hothers x hx hne) _ (Nat.le_refl _)
        intro q' hq' hin
        rw [cancelled_cancel] at hin
        simp only [List.mem_singleton] at hin
        subst hin
        exact hne (huniq x hx r hr q' hq' hq)
    · simp only [hc, if_false] at h1
      subst h1
      exact ⟨hnode, hothers, fun _ => rfl⟩
  unfold applySeg
  simp only [hs']
  generalize hnode1 : (if SegOut.cancel ∈ s'.out then
      (match r.req with
       | some q => nstep y.node (.cancel q)
       | none => y.node) else y.node) = node1
  obtain ⟨hN1, hO1, hsame⟩ := hn1 node1 hnode1.symm
  split
  · -- a new request
    rename_i n hreq
    obtain ⟨hact, hres⟩ := hfacts.req n hreq
    refine ⟨ninv_step hN1 (.getSegment n y.nextReq) trivial, ?_, ?_, ?_⟩
    · intro x hx
      rcases mem_setRead hx with ⟨rfl, _⟩ | ⟨hx0, hne⟩
      · refine ⟨hlive', ?_, ?_, ?_⟩
        · intro q _; simp [hact, hres]
        · intro _ _
          refine ⟨y.nextReq, rfl, Or.inl ?_⟩
          simp only [nstep]
          have : (startNewSegment { node1 with requests := node1.requests ++ [(n, y.nextReq)] }).requests =
              node1.requests ++ [(n, y.nextReq)] := by
            unfold startNewSegment; split <;> rfl
          rw [this]; simp
        · intro q hq
          simp only [Option.some.injEq] at hq
          show q < y.nextReq + 1
          omega
      · exact readinv_transfer _ (hO1 x hx0 hne) (by intro q _; rw [cancelled_getSegment]; exact List.not_mem_nil) (Nat.le_succ _)
    · simp only [setRead_rids]; exact hnd
    · intro x hx x' hx' q hq hq'
      rcases mem_setRead hx with ⟨rfl, _⟩ | ⟨hx0, hne⟩ <;> rcases mem_setRead hx' with ⟨rfl, _⟩ | ⟨hx0', hne'⟩
      · rfl
      · simp only [Option.some.injEq] at hq
        have := (hO1 x' hx0' hne').fresh q hq'
        omega
      · simp only [Option.some.injEq] at hq'
        have := (hO1 x hx0 hne).fresh q hq
        omega
      · exact huniq x hx0 x' hx0' q hq hq'
  · -- no new request
    rename_i hreq
    refine ⟨hN1, ?_, ?_, ?_⟩
    · intro x hx
      rcases mem_setRead hx with ⟨rfl, _⟩ | ⟨hx0, hne⟩
      · by_cases hkeep : (s'.active.isSome && !decide (SegOut.cancel ∈ s'.out)) = true
        · simp only [hkeep, if_true]
          simp only [Bool.and_eq_true, Bool.not_eq_true', decide_eq_false_iff_not] at hkeep
          obtain ⟨hact', hnc⟩ := hkeep
          refine ⟨hlive', ?_, ?_, hfresh⟩
          · intro q hq
            obtain ⟨_, hr0⟩ := hwait q hq
            exact ⟨hact', hfacts.still hreq hact' hnc hr0⟩
          · intro hres _
            obtain ⟨ha0, hr0, _, _⟩ := hfacts.keep hreq hres hact'
            obtain ⟨q, hq, hin⟩ := htrack hr0 ha0
            rw [hsame hnc]
            exact ⟨q, hq, hin⟩
        · simp only [hkeep, Bool.false_eq_true, if_false]
          refine ⟨hlive', by intro q hq; simp at hq, ?_, by intro q hq; simp at hq⟩
          intro hres hact'
          exfalso
          obtain ⟨_, _, hnc, _⟩ := hfacts.keep hreq hres hact'
          apply hkeep
          simp [hact', hnc]
      · exact hO1 x hx0 hne
    · simp only [setRead_rids]; exact hnd
    · intro x hx x' hx' q hq hq'
      have hsub : ∀ z : RSeg, z ∈ setRead y.reads
          { r with seg := s', req := if (s'.active.isSome && !decide (SegOut.cancel ∈ s'.out)) = true then r.req else none } →
          ∀ q, z.req = some q → ∃ z0 ∈ y.reads, z0.rid = z.rid ∧ z0.req = some q := by
        intro z hz q hq
        rcases mem_setRead hz with ⟨rfl, _⟩ | ⟨hz0, _⟩
        · refine ⟨r, hr, rfl, ?_⟩
          by_cases hk : (s'.active.isSome && !decide (SegOut.cancel ∈ s'.out)) = true
          · simpa [hk] using hq
          · simp [hk] at hq
        · exact ⟨z, hz0, rfl, hq⟩
      obtain ⟨z, hz, hzr, hzq⟩ := hsub x hx q hq
      obtain ⟨z', hz', hzr', hzq'⟩ := hsub x' hx' q hq'
      rw [← hzr, ← hzr']
      exact huniq z hz z' hz' q hzq hzq'

/-! ### histories of the composed system -/

/-- what the environment of the composed system may not do: reuse a read id; call the node's
`get_segment` / `cancel` behind the reads' back (those calls are made by the reads themselves);
send OVERDUE for a share that is not outstanding (`NEvOk`); run a turn that was not queued.
Deliveries, answers, announcements, pauses, resumes, stops: any order. -/
def SysEvOk (y : Sys) : SysEv → Prop
  | .startRead rid _ _ => rid ∉ y.reads.map (·.rid)
  | .node e => NEvOk y.node e ∧ cancelled [e] = [] ∧ submitted [e] = []
  | .turn rid => ∀ r, findRead y rid = some r → 0 < r.seg.turns
  | _ => True

def SysValid : Sys → List SysEv → Prop
  | _, [] => True
  | y, e :: es => SysEvOk y e ∧ SysValid (sysStep y e) es

/-- nothing is pending: the node is quiescent (`NQuiescent`), no read has a turn queued, and the
`_deliver` of every retired request has run (no read still points at a retired request) -/
def SysQuiescent (y : Sys) : Prop :=
  NQuiescent y.node ∧ (∀ r ∈ y.reads, r.seg.turns = 0) ∧
  (∀ r ∈ y.reads, ∀ q, r.req = some q → q ∉ y.node.retired.map (·.1))

def sysInit (k numSegs : Nat) (badSegs : List Nat) (filesize segsize guess : Nat) : Sys :=
  { node := initNode k numSegs badSegs, filesize := filesize, segsize := segsize, guess := guess }

theorem sysinv_init (k numSegs : Nat) (badSegs : List Nat) (filesize segsize guess : Nat) :
    SysInv (sysInit k numSegs badSegs filesize segsize guess) := by
  refine ⟨ninv_init _ _ _, ?_, ?_, ?_⟩ <;> simp [sysInit]

theorem live_alive {s : Seg} (h : SegLive s) : s.alive = true → s.result = none := by
  intro ha
  cases hr : s.result with
  | none => rfl
  | some v =>
    have := h.2 (by simp [hr])
    simp [ha] at this

theorem seglive_out (s : Seg) (h : SegLive s) : SegLive { s with out := [] } := h

/-- a step of an existing read `r` for a non-`start` event -/
theorem sysinv_readstep {y : Sys} (h : SysInv y) {r : RSeg} (hr : r ∈ y.reads) (known : Bool) (e : SEv)
    (hok : SEvOk r.seg e) : SysInv (applySeg y r known e) := by
  have hri := h.reads r hr
  apply sysinv_applySeg known e h.node hr (fun x hx _ => h.reads x hx) h.ridNodup h.uniq
  · exact seglive_step known e (seglive_out _ hri.live) hok
  · exact step_facts _ known e rfl (live_alive (seglive_out _ hri.live)) (Or.inr hok)
      (fun he => by subst he; exact absurd hok (by simp [SEvOk]))
  · exact hri.waitOk
  · exact hri.track
  · exact hri.fresh

theorem mem_of_findRead {y : Sys} {rid : Nat} {r : RSeg} (h : findRead y rid = some r) : r ∈ y.reads :=
  List.mem_of_find?_eq_some h

theorem sysinv_step {y : Sys} (h : SysInv y) (e : SysEv) (hok : SysEvOk y e) : SysInv (sysStep y e) := by
  cases e with
  | node ne =>
    obtain ⟨h1, h2, _⟩ := hok
    refine ⟨ninv_step h.node ne h1, ?_, h.ridNodup, h.uniq⟩
    intro r hr
    exact readinv_transfer ne (h.reads r hr) (by intro q _; rw [h2]; exact List.not_mem_nil) (Nat.le_refl _)
  | startRead rid off size =>
    simp only [sysStep]
    have hfreshrid : rid ∉ y.reads.map (·.rid) := hok
    apply sysinv_applySeg (y := { y with reads := y.reads ++ [_] }) _ .start h.node (by simp)
    · intro x hx hne
      simp only [List.mem_append, List.mem_singleton] at hx
      rcases hx with hx | hx
      · exact h.reads x hx
      · subst hx; exact absurd rfl hne
    · simp only [List.map_append, List.map_cons, List.map_nil]
      rw [List.nodup_append]
      refine ⟨h.ridNodup, by simp, ?_⟩
      intro a ha b hb
      simp only [List.mem_singleton] at hb
      subst hb
      intro hab; subst hab; exact hfreshrid ha
    · intro x hx x' hx' q hq hq'
      simp only [List.mem_append, List.mem_singleton] at hx hx'
      rcases hx with hx | hx <;> rcases hx' with hx' | hx'
      · exact h.uniq x hx x' hx' q hq hq'
      · subst hx'; simp at hq'
      · subst hx; simp at hq
      · subst hx; subst hx'; rfl
    · exact seglive_start _ _ rfl
    · exact step_facts _ _ .start rfl (fun _ => rfl) (Or.inl rfl) (fun _ => ⟨rfl, rfl⟩)
    · intro q hq; simp at hq
    · intro _ ha; simp at ha
    · intro q hq; simp at hq
  | deliver q =>
    simp only [sysStep]
    split
    · rename_i q' o r hfind hfr
      have hr : r ∈ y.reads := List.mem_of_find?_eq_some hfr
      have hreq : r.req = some q := by
        have := List.find?_some hfr
        simpa using this
      obtain ⟨ha, hres⟩ := (h.reads r hr).waitOk q hreq
      apply sysinv_readstep h hr
      unfold answerOf
      cases o with
      | ok => exact ⟨ha, hres⟩
      | decodeErr => exact ⟨ha, hres⟩
      | err e => cases e <;> exact ⟨ha, hres⟩
    · exact h
  | stop rid =>
    simp only [sysStep]
    split
    · rename_i r hf; exact sysinv_readstep h (mem_of_findRead hf) _ .stop trivial
    · exact h
  | pause rid =>
    simp only [sysStep]
    split
    · rename_i r hf; exact sysinv_readstep h (mem_of_findRead hf) _ .pause trivial
    · exact h
  | resume rid =>
    simp only [sysStep]
    split
    · rename_i r hf; exact sysinv_readstep h (mem_of_findRead hf) _ .resume trivial
    · exact h
  | turn rid =>
    simp only [sysStep]
    split
    · rename_i r hf; exact sysinv_readstep h (mem_of_findRead hf) _ .turn (hok r hf)
    · exact h

theorem sysinv_run : ∀ (es : List SysEv) (y : Sys), SysInv y → SysValid y es → SysInv (sysRun y es) := by
  intro es
  induction es with
  | nil => intro y h _; exact h
  | cons e es ih => intro y h hv; exact ih _ (sysinv_step h e hv.1) hv.2

/-- a quiescent node satisfying the node invariant has an empty queue -/
theorem ninv_quiescent_empty {n : Node} (hi : NInv n) (hq : NQuiescent n) : n.requests = [] := by
  have hnone : n.active = none := by
    cases ha : n.active with
    | none => rfl
    | some a =>
      obtain ⟨hr, _, hs⟩ := hi.live a ha
      unfold NQuiescent at hq
      rw [ha] at hq
      rcases hq with h | ⟨h1, h2, h3⟩
      · simp [hr] at h
      · exact absurd h3 (hs.quiet hr h1 h2)
  exact hi.served hnone

/-! ### what a read of the composed system consumes -/

/-- the unread remainder is the tail of the requested range; success means nothing remains -/
def RangeInv (r : RSeg) : Prop :=
  r.seg.offset + r.seg.size = r.off0 + r.size0 ∧ (r.seg.result = some none → r.seg.size = 0)

theorem rangeinv_seg (s : Seg) (k : Bool) (e : SEv) (hd : s.result = some none → s.size = 0) :
    (segStep { s with out := [] } k e).offset + (segStep { s with out := [] } k e).size = s.offset + s.size ∧
    ((segStep { s with out := [] } k e).result = some none → (segStep { s with out := [] } k e).size = 0) ∧
    contigEnd s.offset (writesOf (segStep { s with out := [] } k e).out) = some (segStep { s with out := [] } k e).offset := by
  have h0 : SegRange s.offset s.size { s with out := [] } := ⟨rfl, rfl, hd⟩
  have h := segrange_step k e h0
  exact ⟨h.1, h.2.2, h.2.1⟩

theorem rangeinv_applySeg {y : Sys} {r : RSeg} (known : Bool) (e : SEv) (h : ∀ x ∈ y.reads, RangeInv x)
    (hr : r ∈ y.reads) : ∀ x ∈ (applySeg y r known e).reads, RangeInv x := by
  have hs := rangeinv_seg r.seg known e (h r hr).2
  have key : ∀ (rq : Option Nat) (x : RSeg),
      x ∈ setRead y.reads { r with seg := segStep { r.seg with out := [] } known e, req := rq } → RangeInv x := by
    intro rq x hx
    rcases mem_setRead hx with ⟨rfl, _⟩ | ⟨hx0, _⟩
    · exact ⟨by have := (h r hr).1; simp only; omega, hs.2.1⟩
    · exact h x hx0
  unfold applySeg
  simp only
  split
  · exact key _
  · exact key _

theorem rangeinv_step {y : Sys} (h : ∀ x ∈ y.reads, RangeInv x) (e : SysEv) :
    ∀ x ∈ (sysStep y e).reads, RangeInv x := by
  cases e with
  | node ne => exact h
  | startRead rid off size =>
    simp only [sysStep]
    apply rangeinv_applySeg
    · intro x hx
      simp only [List.mem_append, List.mem_singleton] at hx
      rcases hx with hx | hx
      · exact h x hx
      · subst hx; exact ⟨rfl, by intro hh; simp at hh⟩
    · simp
  | deliver q =>
    simp only [sysStep]
    split
    · rename_i hfr; exact rangeinv_applySeg _ _ h (List.mem_of_find?_eq_some hfr)
    · exact h
  | stop rid =>
    simp only [sysStep]; split
    · rename_i hf; exact rangeinv_applySeg _ _ h (mem_of_findRead hf)
    · exact h
  | pause rid =>
    simp only [sysStep]; split
    · rename_i hf; exact rangeinv_applySeg _ _ h (mem_of_findRead hf)
    · exact h
  | resume rid =>
    simp only [sysStep]; split
    · rename_i hf; exact rangeinv_applySeg _ _ h (mem_of_findRead hf)
    · exact h
  | turn rid =>
    simp only [sysStep]; split
    · rename_i hf; exact rangeinv_applySeg _ _ h (mem_of_findRead hf)
    · exact h

theorem rangeinv_run : ∀ (es : List SysEv) (y : Sys), (∀ x ∈ y.reads, RangeInv x) →
    ∀ x ∈ (sysRun y es).reads, RangeInv x := by
  intro es
  induction es with
  | nil => intro y h; exact h
  | cons e es ih => intro y h; exact ih _ (rangeinv_step h e)

end Tahoe.Fetch
