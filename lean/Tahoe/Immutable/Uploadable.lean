import Tahoe.Immutable.Pipeline
import Tahoe.Immutable.Convergence
/-
What the uploader asks of an `IUploadable`, and how it uses it (Mathlib-free, executable).

An `IUploadable` (interfaces.py; `upload.Data`, `FileHandle`, `FileName`, any caller-supplied object) is
modelled by the three answers the uploader observes:
  * `get_size()`                                   → `Source.size`
  * `read(length)` at file position `pos` (the list of strings it returns) → `Source.read pos length`
  * the i-th call of `get_encryption_key()`         → `Source.key i`
The *contract* of interfaces.IUploadable is `Supplies data` (the size is the number of bytes, and
`read(length)` returns strings that concatenate to the next `length` bytes, fewer only at EOF) and
`StableKey` (every call of `get_encryption_key` returns the same key).  Both are hypotheses of the
theorems, never assumptions of the definitions below, which transcribe what the code does with *any*
source:
  * immutable/upload.py `read_this_many_bytes` (LiteralUploader: loops until `size` bytes arrived,
    `assert bytes > 0`, `assert bytes <= size`)                              → `readThisMany`
  * `EncryptAnUploadable.read_encrypted` / `_read_encrypted` / `_Accum.extend`: loop reading
    `min(remaining, CHUNKSIZE)` and counting the *requested* size as received   → `readEncrypted`
  * the requests `Encoder._gather_data` makes (`k*block_size` per full segment, `k*tail_block_size`
    for the tail) through one EncryptAnUploadable, i.e. one file position       → `encoderRequests`, `plaintextSeen`
  * `Uploader.upload`: size → LIT or CHK; the encryptor is created from the first
    `get_encryption_key()`, the read-cap from a second call made after `uploadable.close()` → `uploadVia`, `uploadCapVia`
-/
namespace Tahoe.Immutable.Uploadable
open Tahoe.Immutable Tahoe.Immutable.Sizes
open Tahoe.Immutable.Pipeline hiding Bytes
open Tahoe.Immutable.Convergence hiding Bytes
open Tahoe.Generated

abbrev Bytes := List UInt8

structure Source where
  size : Nat
  read : Nat → Nat → List Bytes
  key : Nat → Bytes

/-- the IUploadable contract for a source of `data` -/
def Supplies (s : Source) (data : Bytes) : Prop :=
  s.size = data.length ∧ ∀ pos len, (s.read pos len).flatten = (data.drop pos).take len

/-- weaker contract sufficient for the literal uploader: a read may be short but makes progress -/
def SuppliesShort (s : Source) (data : Bytes) : Prop :=
  s.size = data.length ∧ ∀ pos len, 0 < len → pos < data.length →
    ∃ m, 0 < m ∧ m ≤ len ∧ (s.read pos len).flatten = (data.drop pos).take m ∧ pos + m ≤ data.length

def StableKey (s : Source) : Prop := ∀ i, s.key i = s.key 0

/-- `read_this_many_bytes(uploadable, size)`; `none` = one of its assertions fails (or fuel ran out) -/
def readThisMany (s : Source) : Nat → Nat → Nat → Option Bytes
  | _, _, 0 => some []
  | 0, _, _ + 1 => none
  | fuel + 1, pos, size + 1 =>
    let got := (s.read pos (size + 1)).flatten
    if got.length = 0 ∨ got.length > size + 1 then none
    else match readThisMany s fuel (pos + got.length) (size + 1 - got.length) with
      | none => none
      | some rest => some (got ++ rest)

/-- `read_encrypted(length)`: the `(position, requested size)` of every `uploadable.read` call and the
    plaintext bytes that came back (they go through the hashers and the encryptor in this order) -/
def readEncrypted (s : Source) (chunk : Nat) : Nat → Nat → Nat → List (Nat × Nat) × Bytes
  | 0, _, _ => ([], [])
  | fuel + 1, pos, remaining =>
    if remaining = 0 then ([], [])
    else
      let size := min remaining chunk
      let got := (s.read pos size).flatten
      let r := readEncrypted s chunk fuel (pos + got.length) (remaining - size)
      ((pos, size) :: r.1, got ++ r.2)

/-- the `read_size` of every `_gather_data` call of one upload -/
def encoderRequests (k : Nat) (e : EncSizes) : List Nat :=
  List.replicate (e.numSegments - 1) (k * e.blockSize) ++ [k * e.tailBlockSize]

/-- all reads of one upload, in order: calls made and plaintext seen -/
def seenFrom (s : Source) (chunk : Nat) : Nat → List Nat → List (Nat × Nat) × Bytes
  | _, [] => ([], [])
  | pos, req :: rest =>
    let r := readEncrypted s chunk req pos req
    let r' := seenFrom s chunk (pos + r.2.length) rest
    (r.1 ++ r'.1, r.2 ++ r'.2)

def plaintextSeen (s : Source) (chunk k : Nat) (e : EncSizes) : Bytes := (seenFrom s chunk 0 (encoderRequests k e)).2

/-- `Uploader.upload` on the CHK path with an arbitrary source: the numbers come from `get_size()`, the
    ciphertext from the bytes the reads delivered encrypted under the first key, the cap from the key
    returned after `close()` -/
def uploadVia (ks : Bytes → Nat → Block16) (c : Codec) (s : Source) (k n maxSeg chunk : Nat) :
    Except Err (Uploaded Bytes) :=
  match segSize k maxSeg s.size with
  | .error e => .error e
  | .ok seg =>
    match encoderSizes s.size k seg with
    | .error e => .error e
    | .ok e =>
      match encodeSegments c k n e (e.numSegments - 1) (encrypt ks (s.key 0) (plaintextSeen s chunk k e)) with
      | .error err => .error err
      | .ok segs =>
        .ok { key := s.key 1, k := k, n := n, size := s.size
              ueb := { size := s.size, segmentSize := e.segmentSize, numSegments := e.numSegments,
                       neededShares := k, totalShares := n, codecSize := e.segmentSize,
                       tailCodecSize := e.paddedTailSize }
              shares := (List.range n).map (shareData segs) }

/-- `Uploader.upload` at the level of caps with an arbitrary source: `(read calls, result)` -/
def uploadCapVia (uebHashOf : Bytes → Bytes → Nat → Nat → Nat → Bytes) (s : Source) (k n maxSeg chunk : Nat) :
    List (Nat × Nat) × Option UploadResult :=
  if isLiteral s.size then
    -- LiteralUploader: one `read(size)` per loop round; calls are reconstructed by the driver from the data
    match readThisMany s s.size 0 s.size with
    | none => ([], none)
    | some d => ([], some { cap := .lit d, sharesPushed := 0 })
  else
    match segSize k maxSeg s.size with
    | .error _ => ([], none)
    | .ok seg =>
      match encoderSizes s.size k seg with
      | .error _ => ([], none)
      | .ok e =>
        let r := seenFrom s chunk 0 (encoderRequests k e)
        (r.1, some { cap := .chk (s.key 1) (uebHashOf (s.key 0) r.2 k n seg) k n s.size, sharesPushed := n })

/-- a source that returns the requested bytes as several strings whose sizes cycle through `sizes`
    (what `upload.Data`/`FileHandle` do with `sizes = []`: one string) -/
def splitBy : Nat → List Nat → Bytes → List Bytes
  | 0, _, d => [d]
  | _, [], d => [d]
  | fuel + 1, sz :: rest, d =>
    if d.length ≤ sz ∨ sz = 0 then [d] else d.take sz :: splitBy fuel (rest ++ [sz]) (d.drop sz)

def chunkySource (data : Bytes) (sizes : List Nat) (key : Nat → Bytes) : Source :=
  { size := data.length, read := fun pos len => splitBy len sizes ((data.drop pos).take len), key := key }

/-- instances for the non-vacuity examples of C05: 60 bytes through `chunkySource` with given piece sizes -/
def exampleData60 : Bytes := List.replicate 56 3 ++ [1, 2, 3, 4]

def exampleResult (sizes : List Nat) : List (Nat × Nat) × Option UploadResult :=
  uploadCapVia (fun _ d _ _ seg => [UInt8.ofNat d.length, UInt8.ofNat seg]) (chunkySource exampleData60 sizes (fun _ => [7])) 3 10 16 25

end Tahoe.Immutable.Uploadable
