import Tahoe.Immutable.UploadDecisionLemmas
import Tahoe.Happiness.LemmasSbs
/-! The verdict of the upload model in terms of matchings (helper lemmas for C06): `soh` is C08's
`servers_of_happiness`, so `happy ≤ soh m` / `soh m < happy` say that a matching of `happy` (server, share)
pairs exists / does not exist in the layout; and the UploadResults maps name exactly the landlords that
survived. -/
namespace Tahoe.UploadDecision
open Tahoe.Happiness

/-- the (server, share) pairs of a layout: pre-existing shares and the given bucket writers (shnum, server) -/
def layoutPairs (pre : Sharemap) (held : List (Nat × Nat)) : List (Nat × Nat) :=
  rel pre ++ held.map (fun a => (a.2, a.1))

theorem mem_layoutPairs (pre : Sharemap) (held : List (Nat × Nat)) (p s : Nat) :
    (p, s) ∈ layoutPairs pre held ↔ (p, s) ∈ rel pre ∨ (s, p) ∈ held := by
  simp only [layoutPairs, List.mem_append, List.mem_map, Prod.mk.injEq]
  constructor
  · rintro (h | ⟨a, ha, rfl, rfl⟩)
    · exact Or.inl h
    · exact Or.inr ha
  · rintro (h | h)
    · exact Or.inl h
    · exact Or.inr ⟨(s, p), h, rfl, rfl⟩

theorem soh_spec (m : Sharemap) : IsMaxMatchingSize (rel m) (soh m) := by
  obtain ⟨k, h1, h2⟩ := serversOfHappiness_spec m
  simpa [soh, h1] using h2

theorem soh_ge_iff (m : Sharemap) (E : List (Nat × Nat)) (hE : ∀ e, e ∈ rel m ↔ e ∈ E) (happy : Nat) :
    happy ≤ soh m ↔ ∃ M, IsMatching E M ∧ happy ≤ M.length := by
  obtain ⟨⟨M0, hM0, hl0⟩, hmax⟩ := (isMaxMatchingSize_congr hE _).mp (soh_spec m)
  constructor
  · intro h; exact ⟨M0, hM0, by omega⟩
  · rintro ⟨M, hM, hl⟩; have := hmax M hM; omega

theorem soh_lt_iff (m : Sharemap) (E : List (Nat × Nat)) (hE : ∀ e, e ∈ rel m ↔ e ∈ E) (happy : Nat) :
    soh m < happy ↔ ∀ M, IsMatching E M → M.length < happy := by
  obtain ⟨⟨M0, hM0, hl0⟩, hmax⟩ := (isMaxMatchingSize_congr hE _).mp (soh_spec m)
  constructor
  · intro h M hM; have := hmax M hM; omega
  · intro h; have := h M0 hM0; omega

/-- a matching of a layout is a matching of every larger layout -/
theorem soh_ge_of_sub (m : Sharemap) (E : List (Nat × Nat)) (hE : ∀ e ∈ rel m, e ∈ E) (happy : Nat)
    (h : happy ≤ soh m) : ∃ M, IsMatching E M ∧ happy ≤ M.length := by
  obtain ⟨⟨M0, hM0, hl0⟩, _⟩ := soh_spec m
  exact ⟨M0, ⟨fun e he => hE e (hM0.1 e he), hM0.2⟩, by omega⟩

theorem lay_sub_pairs {pre alloc e} (h : Lay pre alloc e) : ∀ x ∈ rel e.servermap, x ∈ layoutPairs pre e.landlords := by
  rintro ⟨p, s⟩ hx
  exact (mem_layoutPairs pre e.landlords p s).mpr (h.sub p s hx)

theorem lay_eq_pairs {pre alloc e} (h : Lay pre alloc e) (hdis : ∀ a ∈ alloc, (a.2, a.1) ∉ rel pre) :
    ∀ x, x ∈ rel e.servermap ↔ x ∈ layoutPairs pre e.landlords := by
  rintro ⟨p, s⟩
  rw [mem_layoutPairs]
  exact ⟨h.sub p s, h.sup hdis p s⟩

/-! ### UploadResults -/

theorem lookup_of_mem_nodup (l : List (Nat × Nat)) (hn : (shnums l).Nodup) (a b : Nat) (h : (a, b) ∈ l) :
    l.lookup a = some b := by
  cases hl : l.lookup a with
  | none => exact absurd (List.mem_map.mpr ⟨(a, b), h, rfl⟩) (lookup_none_not_mem l a hl)
  | some c => rw [nodup_keys_unique l hn a c b (lookup_some_mem_pair l a c hl) h]

/-- the pairs `_encrypted_done` reports are exactly the landlords that survived -/
theorem mem_reportedPairs (alloc held : List (Nat × Nat)) (hn : (shnums alloc).Nodup)
    (hsub : ∀ a ∈ held, a ∈ alloc) (sh srv : Nat) :
    (sh, srv) ∈ reportedPairs alloc (shnums held) ↔ (sh, srv) ∈ held := by
  simp only [reportedPairs, shnums, List.mem_filterMap, List.mem_map, Option.map_eq_some_iff, Prod.mk.injEq]
  constructor
  · rintro ⟨x, ⟨a, ha, rfl⟩, y, hy, rfl, rfl⟩
    have := lookup_of_mem_nodup alloc hn a.1 a.2 (hsub a ha)
    rw [this] at hy
    cases hy
    exact ha
  · intro h
    exact ⟨sh, ⟨(sh, srv), h, rfl⟩, srv, lookup_of_mem_nodup alloc hn sh srv (hsub _ h), rfl, rfl⟩

theorem mem_relOfServermap_iff (m : Sharemap) (p s : Nat) : (s, p) ∈ relOfServermap m ↔ (p, s) ∈ rel m := by
  simp only [rel, relOfServermap, List.mem_flatMap, List.mem_map, Prod.mk.injEq]
  constructor
  · rintro ⟨e, he, q, hq, rfl, rfl⟩; exact ⟨e, he, q, hq, rfl, rfl⟩
  · rintro ⟨e, he, q, hq, rfl, rfl⟩; exact ⟨e, he, q, hq, rfl, rfl⟩

theorem rel_foldl_addPeer (l : List (Nat × Nat)) (m : Sharemap) (p s : Nat) :
    (p, s) ∈ rel (l.foldl (fun m a => addPeer m a.1 a.2) m) ↔ (p, s) ∈ rel m ∨ (s, p) ∈ l :=
  rel_mergeTrackers l m p s

theorem rel_foldl_addPeer_swap (l : List (Nat × Nat)) (m : Sharemap) (p s : Nat) :
    (p, s) ∈ rel (l.foldl (fun m a => addPeer m a.2 a.1) m) ↔ (p, s) ∈ rel m ∨ (p, s) ∈ l := by
  induction l generalizing m with
  | nil => simp
  | cons a rest ih =>
    simp only [List.foldl_cons]
    rw [ih, rel_addPeer]
    obtain ⟨a1, a2⟩ := a
    simp only [List.mem_cons, Prod.mk.injEq]
    constructor
    · rintro ((h | ⟨h1, h2⟩) | h)
      · exact Or.inl h
      · exact Or.inr (Or.inl ⟨h1, h2⟩)
      · exact Or.inr (Or.inr h)
    · rintro (h | ⟨h1, h2⟩ | h)
      · exact Or.inl (Or.inl h)
      · exact Or.inl (Or.inr ⟨h1, h2⟩)
      · exact Or.inr h

/-- UploadResults names exactly the surviving landlords, in both maps, and counts them -/
theorem uploadResults_spec (pre : Sharemap) (alloc held : List (Nat × Nat)) (hn : (shnums alloc).Nodup)
    (hsub : ∀ a ∈ held, a ∈ alloc) :
    let ur := uploadResults pre alloc (shnums held)
    (∀ srv sh, (srv, sh) ∈ rel ur.sharemap ↔ (sh, srv) ∈ held) ∧
    (∀ srv sh, (srv, sh) ∈ relOfServermap ur.servermap ↔ (sh, srv) ∈ held) ∧
    ur.pushed = held.length ∧ ur.preexisting = pre.length := by
  intro ur
  refine ⟨?_, ?_, by simp [ur, uploadResults, shnums], rfl⟩
  · intro srv sh
    simp only [ur, uploadResults]
    rw [rel_foldl_addPeer, mem_reportedPairs alloc held hn hsub]
    simp [rel]
  · intro srv sh
    simp only [ur, uploadResults]
    rw [mem_relOfServermap_iff, rel_foldl_addPeer_swap, mem_reportedPairs alloc held hn hsub]
    simp [rel]

end Tahoe.UploadDecision
