import Tahoe.Immutable.NodeQueue
/-! Helper lemmas for C04 `concurrent_reads_independent_partial`. -/
namespace Tahoe.Immutable.NodeQueue

theorem startNew_requests (nd : Node) : (startNew nd).requests = nd.requests := by
  unfold startNew; split <;> rfl

theorem inv_startNew_none (reqs : List Req) : Inv (startNew { requests := reqs, active := none }) := by
  cases reqs with
  | nil => exact ⟨fun h => absurd rfl h, fun s h => by simp [startNew] at h⟩
  | cons r rest =>
    refine ⟨fun _ => by simp [startNew], fun s h => ?_⟩
    simp only [startNew, Option.some.injEq] at h
    exact ⟨r, List.mem_cons_self, h⟩

theorem inv_getSegment (nd : Node) (h : Inv nd) (s hd : Nat) : Inv (getSegment nd s hd) := by
  unfold getSegment
  cases ha : nd.active with
  | none =>
    have hreq : nd.requests = [] := by
      rcases hl : nd.requests with _ | ⟨r, rest⟩
      · rfl
      · have := h.1 (by rw [hl]; simp); rw [ha] at this; cases this
    have := inv_startNew_none (nd.requests ++ [{ segnum := s, handle := hd }])
    simpa [ha] using this
  | some a =>
    have hs : startNew { requests := nd.requests ++ [{ segnum := s, handle := hd }], active := some a }
        = { requests := nd.requests ++ [{ segnum := s, handle := hd }], active := some a } := by
      simp [startNew]
    rw [hs]
    refine ⟨fun _ => by simp, fun s' h' => ?_⟩
    simp only [Option.some.injEq] at h'
    obtain ⟨r, hr, hrs⟩ := h.2 s' (by rw [ha, h'])
    exact ⟨r, List.mem_append_left _ hr, hrs⟩

theorem inv_deliver (nd : Node) (h : Inv nd) : Inv (deliver nd).2 := by
  unfold deliver
  cases ha : nd.active with
  | none => simpa [ha] using h
  | some s => exact inv_startNew_none _

theorem inv_cancel (nd : Node) (h : Inv nd) (hd : Nat) : Inv (cancel nd hd) := by
  unfold cancel
  cases ha : nd.active with
  | none =>
    have hreq : nd.requests = [] := by
      rcases hl : nd.requests with _ | ⟨r, rest⟩
      · rfl
      · have := h.1 (by rw [hl]; simp); rw [ha] at this; cases this
    simp only [hreq, List.filter_nil]
    exact ⟨fun h => absurd rfl h, fun s h => by simp at h⟩
  | some s =>
    simp only
    split
    · rename_i hany
      refine ⟨fun _ => by simp, fun s' h' => ?_⟩
      simp only [Option.some.injEq] at h'
      subst h'
      rw [List.any_eq_true] at hany
      obtain ⟨r, hr, hrs⟩ := hany
      exact ⟨r, hr, by simpa using hrs⟩
    · exact inv_startNew_none _

theorem inv_step (nd : Node) (h : Inv nd) (op : Op) : Inv (step nd op) := by
  cases op with
  | get s hd => exact inv_getSegment nd h s hd
  | deliver => exact inv_deliver nd h
  | cancel hd => exact inv_cancel nd h hd

theorem inv_run (nd : Node) (h : Inv nd) (ops : List Op) : Inv (run nd ops) := by
  induction ops generalizing nd with
  | nil => exact h
  | cons op rest ih => exact ih (step nd op) (inv_step nd h op)

theorem inv_empty : Inv empty := ⟨fun h => absurd rfl h, fun s h => by simp [empty] at h⟩

/-- cancelling handle `hd` removes exactly the requests carrying that handle, keeping the order of the rest -/
theorem cancel_requests (nd : Node) (hd : Nat) :
    (cancel nd hd).requests = nd.requests.filter (fun r => r.handle != hd) := by
  unfold cancel
  cases nd.active with
  | none => rfl
  | some s =>
    simp only
    split
    · rfl
    · rw [startNew_requests]

/-- a completed fetch is handed to exactly the requests for that segment; all other requests stay queued, in order -/
theorem deliver_requests (nd : Node) (s : Nat) (ha : nd.active = some s) :
    (deliver nd).1 = (nd.requests.filter (fun r => r.segnum == s)).map (·.handle) ∧
    (deliver nd).2.requests = nd.requests.filter (fun r => r.segnum != s) := by
  unfold deliver
  simp only [ha, extract, startNew_requests]
  exact ⟨trivial, trivial⟩

theorem getSegment_requests (nd : Node) (s hd : Nat) :
    (getSegment nd s hd).requests = nd.requests ++ [{ segnum := s, handle := hd }] := by
  unfold getSegment; rw [startNew_requests]

end Tahoe.Immutable.NodeQueue
