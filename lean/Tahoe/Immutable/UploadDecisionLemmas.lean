import Tahoe.Immutable.UploadDecisionRel
/-! Invariants of the upload decision model (helper lemmas for C06): bookkeeping (`Core`), layout (`Lay`),
the verdict invariants `Inv` / `Failed`, and their preservation by every phase and by late answers. -/
namespace Tahoe.UploadDecision
open Tahoe.Happiness (rel)

/-- bookkeeping that holds at every point of every run (before and after a raise) -/
structure Core (alloc : List (Nat × Nat)) (e : Enc) : Prop where
  failedGone : ∀ sh ∈ e.failedEver, sh ∉ shnums e.landlords
  holesFailed : ∀ sh ∈ e.holes, sh ∈ e.failedEver
  flushFailedFailed : ∀ sh ∈ e.flushFailed, sh ∈ e.failedEver
  accounted : ∀ sh ∈ shnums alloc, sh ∈ shnums e.landlords ∨ sh ∈ e.aborted
  closedLive : ∀ sh ∈ e.closed, sh ∈ shnums e.landlords
  closedCalled : ∀ sh ∈ e.closed, sh ∈ e.closeCalled
  visClean : ∀ sh ∈ e.closeCalled, sh ∉ e.flushFailed → sh ∉ e.holes
  survivors : e.landlords = alloc.filter (fun a => a.1 ∉ e.failedEver)

/-- bookkeeping + layout (the layout part under the dict hypotheses on the inputs) -/
structure St (pre : Sharemap) (alloc : List (Nat × Nat)) (e : Enc) : Prop where
  core : Core alloc e
  lay : WFmap pre → (shnums alloc).Nodup → Lay pre alloc e

/-- while the upload is still going (no error raised so far) -/
structure Inv (hp : Sharemap → Nat) (happy : Nat) (pre : Sharemap) (alloc : List (Nat × Nat)) (e : Enc) : Prop where
  st : St pre alloc e
  happyEnough : happy ≤ hp e.servermap

def AllAborted (alloc : List (Nat × Nat)) (e : Enc) : Prop := ∀ sh ∈ shnums alloc, sh ∈ e.aborted

/-- at the moment UploadUnhappinessError has been raised (after `err` aborted the rest) -/
structure Failed (hp : Sharemap → Nat) (happy : Nat) (pre : Sharemap) (alloc : List (Nat × Nat)) (e : Enc) : Prop where
  st : St pre alloc e
  allAborted : AllAborted alloc e
  unhappyNow : hp e.servermap < happy

/-- in the close phase: close() has been called on every landlord still in use -/
def Live (e : Enc) : Prop := ∀ sh ∈ shnums e.landlords, sh ∈ e.closeCalled

theorem core_landlords_nodup {alloc e} (h : Core alloc e) (hn : (shnums alloc).Nodup) : (shnums e.landlords).Nodup := by
  rw [h.survivors]
  exact (List.Sublist.map _ List.filter_sublist).nodup hn

theorem core_landlords_sub {alloc e} (h : Core alloc e) : ∀ a ∈ e.landlords, a ∈ alloc := by
  intro a ha; rw [h.survivors] at ha; exact (List.mem_filter.mp ha).1

theorem core_closed_clean {alloc e} (h : Core alloc e) : ∀ sh ∈ e.closed, sh ∉ e.failedEver :=
  fun sh hc hf => h.failedGone sh hf (h.closedLive sh hc)

/-- every acknowledged close is among the shares that may be visible -/
theorem core_closed_mayBeVisible {alloc e} (h : Core alloc e) : ∀ sh ∈ e.closed, sh ∈ e.mayBeVisible := by
  intro sh hc
  simp only [Enc.mayBeVisible, List.mem_filter, decide_eq_true_eq]
  exact ⟨h.closedCalled sh hc, fun hf => core_closed_clean h sh hc (h.flushFailedFailed sh hf)⟩

theorem st_initial (pre : Sharemap) (alloc : List (Nat × Nat)) :
    St pre alloc { landlords := alloc, servermap := mergeTrackers pre alloc } :=
  ⟨⟨by simp, by simp, by simp, fun sh hsh => Or.inl hsh, by simp, by simp, by simp,
    (List.filter_eq_self.mpr (by simp)).symm⟩,
   fun hw _ => lay_initial pre alloc hw⟩

theorem st_drop (pre : Sharemap) (alloc : List (Nat × Nat)) (e : Enc) (sh : Nat) (k : FailKind)
    (h : St pre alloc e) (hnc : sh ∉ e.closed) (hk : k = .write → sh ∉ e.closeCalled) :
    St pre alloc (dropShareholder e sh k) := by
  refine ⟨?_, fun hw hn => lay_drop pre alloc e sh k (h.lay hw hn) (core_landlords_nodup h.core hn)
    (core_landlords_sub h.core)⟩
  have hc := h.core
  unfold dropShareholder
  cases hl : e.landlords.lookup sh with
  | none => exact hc
  | some peer =>
    simp only
    refine ⟨?_, ?_, ?_, ?_, ?_, hc.closedCalled, ?_, ?_⟩
    · intro x hx
      simp only [List.mem_append, List.mem_singleton] at hx
      rw [mem_shnums_filter]
      rcases hx with hx | hx
      · exact fun hcx => hc.failedGone x hx hcx.1
      · exact fun hcx => hcx.2 hx
    · intro x hx
      have := hc.holesFailed x
      cases k <;> simp at hx ⊢ <;> grind
    · intro x hx
      have := hc.flushFailedFailed x
      cases k <;> simp at hx ⊢ <;> grind
    · intro x hx
      rw [mem_shnums_filter]
      simp only [List.mem_append, List.mem_singleton]
      rcases hc.accounted x hx with h1 | h1
      · by_cases hxs : x = sh
        · right; right; exact hxs
        · left; exact ⟨h1, hxs⟩
      · right; left; exact h1
    · intro x hx
      rw [mem_shnums_filter]
      exact ⟨hc.closedLive x hx, fun hxs => hnc (hxs ▸ hx)⟩
    · intro x hx hnf
      cases k with
      | closeCall => simpa using hc.visClean x hx (by simpa using hnf)
      | write =>
        have hxs : x ≠ sh := fun hxs => hk rfl (hxs ▸ hx)
        have := hc.visClean x hx (by simpa using hnf)
        simp [this, hxs]
      | flush =>
        simp only [if_true, List.mem_append, List.mem_singleton, not_or] at hnf
        have := hc.visClean x hx hnf.1
        simp [this, hnf.2]
    · rw [hc.survivors, List.filter_filter]
      apply List.filter_congr
      intro a _
      by_cases hh : a.1 = sh <;> simp [hh]

theorem st_abortAll {pre alloc e} (h : St pre alloc e) : St pre alloc (abortAll e) :=
  ⟨⟨h.core.failedGone, h.core.holesFailed, h.core.flushFailedFailed,
    fun sh hsh => (h.core.accounted sh hsh).imp id (fun hx => List.mem_append_left _ hx),
    h.core.closedLive, h.core.closedCalled, h.core.visClean, h.core.survivors⟩,
   fun hw hn => (h.lay hw hn).congr rfl rfl⟩

theorem allAborted_abortAll {pre alloc e} (h : St pre alloc e) : AllAborted alloc (abortAll e) := by
  intro sh hsh
  simp only [abortAll, List.mem_append]
  exact (h.core.accounted sh hsh).symm.imp id id

/-- a close acknowledgement for a landlord still in use -/
theorem st_ok {pre alloc e} (h : St pre alloc e) (hl : Live e) (sh : Nat) (hs : (e.landlords.lookup sh).isSome) :
    St pre alloc { e with closed := e.closed ++ [sh] } := by
  have hmem : sh ∈ shnums e.landlords := by
    cases hlk : e.landlords.lookup sh with
    | none => simp [hlk] at hs
    | some p => exact lookup_some_mem _ _ _ hlk
  refine ⟨⟨h.core.failedGone, h.core.holesFailed, h.core.flushFailedFailed, h.core.accounted, ?_, ?_,
    h.core.visClean, h.core.survivors⟩, fun hw hn => (h.lay hw hn).congr rfl rfl⟩
  · intro x hx
    simp only [List.mem_append, List.mem_singleton] at hx
    rcases hx with hx | rfl
    · exact h.core.closedLive x hx
    · exact hmem
  · intro x hx
    simp only [List.mem_append, List.mem_singleton] at hx
    rcases hx with hx | rfl
    · exact h.core.closedCalled x hx
    · exact hl x hmem

theorem live_drop {e : Enc} (hl : Live e) (sh : Nat) (k : FailKind) : Live (dropShareholder e sh k) := by
  unfold dropShareholder
  cases hlk : e.landlords.lookup sh with
  | none => exact hl
  | some peer =>
    intro x hx
    simp only at hx
    rw [mem_shnums_filter] at hx
    exact hl x hx.1

theorem removeShareholder_spec (hp : Sharemap → Nat) (happy : Nat) (pre : Sharemap) (alloc : List (Nat × Nat))
    (e : Enc) (sh : Nat) (k : FailKind)
    (h : Inv hp happy pre alloc e) (hnc : sh ∉ e.closed) (hk : k = .write → sh ∉ e.closeCalled) :
    ((removeShareholder hp happy e sh k).2 = false → Inv hp happy pre alloc (removeShareholder hp happy e sh k).1) ∧
    ((removeShareholder hp happy e sh k).2 = true →
      Failed hp happy pre alloc (abortAll (removeShareholder hp happy e sh k).1)) := by
  have hst := st_drop pre alloc e sh k h.st hnc hk
  simp only [removeShareholder]
  constructor
  · intro hr
    exact ⟨hst, by simpa using hr⟩
  · intro hr
    exact ⟨st_abortAll hst, allAborted_abortAll hst, by simpa [abortAll] using hr⟩

theorem writePhase_spec (hp : Sharemap → Nat) (happy : Nat) (pre : Sharemap) (alloc : List (Nat × Nat)) (fs : List Nat) :
    ∀ e, Inv hp happy pre alloc e → e.closed = [] → e.closeCalled = [] →
    ((writePhase hp happy e fs).2 = false → Inv hp happy pre alloc (writePhase hp happy e fs).1 ∧
        (writePhase hp happy e fs).1.closed = [] ∧ (writePhase hp happy e fs).1.closeCalled = []) ∧
    ((writePhase hp happy e fs).2 = true → Failed hp happy pre alloc (writePhase hp happy e fs).1) := by
  induction fs with
  | nil => intro e h hc hcc; simp [writePhase, h, hc, hcc]
  | cons sh rest ih =>
    intro e h hc hcc
    have hs := removeShareholder_spec hp happy pre alloc e sh .write h (by simp [hc]) (by simp [hcc])
    simp only [writePhase]
    cases hr : (removeShareholder hp happy e sh .write).2 with
    | true =>
      have : removeShareholder hp happy e sh .write = ((removeShareholder hp happy e sh .write).1, true) := by rw [← hr]
      rw [this]; simp only [if_true]
      exact ⟨by simp, fun _ => hs.2 hr⟩
    | false =>
      have : removeShareholder hp happy e sh .write = ((removeShareholder hp happy e sh .write).1, false) := by rw [← hr]
      rw [this]; simp only [Bool.false_eq_true, if_false]
      have hc1 : (removeShareholder hp happy e sh .write).1.closed = [] := by
        simp only [removeShareholder, dropShareholder]; split <;> simp [hc]
      have hcc1 : (removeShareholder hp happy e sh .write).1.closeCalled = [] := by
        simp only [removeShareholder, dropShareholder]; split <;> simp [hcc]
      exact ih _ (hs.1 hr) hc1 hcc1

theorem writePhases_spec (hp : Sharemap → Nat) (happy : Nat) (pre : Sharemap) (alloc : List (Nat × Nat)) (phs : List (List Nat)) :
    ∀ e, Inv hp happy pre alloc e → e.closed = [] → e.closeCalled = [] →
    ((writePhases hp happy e phs).2 = false → Inv hp happy pre alloc (writePhases hp happy e phs).1 ∧
        (writePhases hp happy e phs).1.closed = []) ∧
    ((writePhases hp happy e phs).2 = true → Failed hp happy pre alloc (writePhases hp happy e phs).1) := by
  induction phs with
  | nil => intro e h hc _; simp [writePhases, h, hc]
  | cons ph rest ih =>
    intro e h hc hcc
    have hs := writePhase_spec hp happy pre alloc ph e h hc hcc
    simp only [writePhases]
    cases hr : (writePhase hp happy e ph).2 with
    | true =>
      have : writePhase hp happy e ph = ((writePhase hp happy e ph).1, true) := by rw [← hr]
      rw [this]; simp only [if_true]
      exact ⟨by simp, fun _ => hs.2 hr⟩
    | false =>
      have : writePhase hp happy e ph = ((writePhase hp happy e ph).1, false) := by rw [← hr]
      rw [this]; simp only [Bool.false_eq_true, if_false]
      exact ih _ (hs.1 hr).1 (hs.1 hr).2.1 (hs.1 hr).2.2

/-- answers after the raise keep the bookkeeping and the aborts -/
theorem drainClose_spec (pre : Sharemap) (alloc : List (Nat × Nat)) (late : List CloseEv) :
    ∀ e, St pre alloc e → AllAborted alloc e → Live e →
      St pre alloc (drainClose e late) ∧ AllAborted alloc (drainClose e late) := by
  induction late with
  | nil => intro e h ha _; exact ⟨h, ha⟩
  | cons ev rest ih =>
    intro e h ha hl
    have hdrop : ∀ sh k, sh ∉ e.closed → k ≠ .write →
        St pre alloc (drainClose (dropShareholder e sh k) rest) ∧
        AllAborted alloc (drainClose (dropShareholder e sh k) rest) := by
      intro sh k hnc hk
      refine ih _ (st_drop pre alloc e sh k h hnc (fun hh => absurd hh hk)) ?_ (live_drop hl sh k)
      intro x hx
      have := ha x hx
      unfold dropShareholder
      split
      · simp only [List.mem_append]; exact Or.inl this
      · exact this
    cases ev with
    | ok sh =>
      simp only [drainClose]
      split
      · rename_i hcond
        exact ih _ (st_ok h hl sh hcond.1) ha hl
      · exact ih e h ha hl
    | fail sh =>
      simp only [drainClose]
      split
      · exact ih e h ha hl
      · rename_i hnc; exact hdrop sh .closeCall hnc (by simp)
    | flushFail sh =>
      simp only [drainClose]
      split
      · exact ih e h ha hl
      · rename_i hnc; exact hdrop sh .flush hnc (by simp)

theorem closePhase_spec (hp : Sharemap → Nat) (happy : Nat) (pre : Sharemap) (alloc : List (Nat × Nat)) (evs : List CloseEv) :
    ∀ e, Inv hp happy pre alloc e → Live e →
    ((closePhase hp happy e evs).2 = none →
        Inv hp happy pre alloc (closePhase hp happy e evs).1 ∧ Live (closePhase hp happy e evs).1) ∧
    (∀ late, (closePhase hp happy e evs).2 = some late →
        Failed hp happy pre alloc (closePhase hp happy e evs).1 ∧ Live (closePhase hp happy e evs).1) := by
  induction evs with
  | nil => intro e h hl; simp [closePhase, h, hl]
  | cons ev rest ih =>
    intro e h hl
    have hfail : ∀ sh k, sh ∉ e.closed → k ≠ .write →
        (((let (e1, raised) := removeShareholder hp happy e sh k
           if raised then (abortAll e1, some rest) else closePhase hp happy e1 rest).2 = none →
          Inv hp happy pre alloc (let (e1, raised) := removeShareholder hp happy e sh k
           if raised then (abortAll e1, some rest) else closePhase hp happy e1 rest).1 ∧
          Live (let (e1, raised) := removeShareholder hp happy e sh k
           if raised then (abortAll e1, some rest) else closePhase hp happy e1 rest).1) ∧
         (∀ late, (let (e1, raised) := removeShareholder hp happy e sh k
           if raised then (abortAll e1, some rest) else closePhase hp happy e1 rest).2 = some late →
          Failed hp happy pre alloc (let (e1, raised) := removeShareholder hp happy e sh k
           if raised then (abortAll e1, some rest) else closePhase hp happy e1 rest).1 ∧
          Live (let (e1, raised) := removeShareholder hp happy e sh k
           if raised then (abortAll e1, some rest) else closePhase hp happy e1 rest).1)) := by
      intro sh k hnc hk
      have hs := removeShareholder_spec hp happy pre alloc e sh k h hnc (fun hh => absurd hh hk)
      have hl1 : Live (removeShareholder hp happy e sh k).1 := live_drop hl sh k
      cases hr : (removeShareholder hp happy e sh k).2 with
      | true =>
        have : removeShareholder hp happy e sh k = ((removeShareholder hp happy e sh k).1, true) := by rw [← hr]
        rw [this]; simp only [if_true]
        exact ⟨by simp, fun _ _ => ⟨hs.2 hr, hl1⟩⟩
      | false =>
        have : removeShareholder hp happy e sh k = ((removeShareholder hp happy e sh k).1, false) := by rw [← hr]
        rw [this]; simp only [Bool.false_eq_true, if_false]
        exact ih _ (hs.1 hr) hl1
    cases ev with
    | ok sh =>
      simp only [closePhase]
      split
      · rename_i hcond
        exact ih _ ⟨st_ok h.st hl sh hcond.1, h.happyEnough⟩ hl
      · exact ih e h hl
    | fail sh =>
      simp only [closePhase]
      split
      · exact ih e h hl
      · rename_i hnc; exact hfail sh .closeCall hnc (by simp)
    | flushFail sh =>
      simp only [closePhase]
      split
      · exact ih e h hl
      · rename_i hnc; exact hfail sh .flush hnc (by simp)

/-- what is true of every run -/
theorem upload_spec (hp : Sharemap → Nat) (happy : Nat) (pre : Sharemap) (alloc : List (Nat × Nat))
    (phases : List (List Nat)) (closeEvs : List CloseEv) :
    let r := upload hp happy pre alloc phases closeEvs
    (∀ placed sm, r.outcome = .success placed sm →
        Inv hp happy pre alloc r.final ∧ r.verdict = r.final ∧ sm = r.final.servermap ∧
        placed = shnums r.final.landlords ∧ (∀ sh ∈ placed, sh ∈ r.final.closed) ∧
        r.results = some (uploadResults pre alloc placed) ∧ (shnums alloc).Nodup) ∧
    (r.outcome = .unhappy →
        Failed hp happy pre alloc r.verdict ∧ St pre alloc r.final ∧ AllAborted alloc r.final) ∧
    (r.outcome = .assertion → ¬ (shnums alloc).Nodup ∧ happy ≤ hp (mergeTrackers pre alloc) ∧
        r.final = { landlords := alloc, servermap := mergeTrackers pre alloc }) := by
  intro r
  have hst0 := st_initial pre alloc
  simp only [r, upload]
  split
  · -- selector failure: `_failed` aborts every tracker
    rename_i hsel
    refine ⟨by intro _ _ h; simp at h, fun _ => ?_, by intro h; simp at h⟩
    exact ⟨⟨st_abortAll hst0, allAborted_abortAll hst0, by simpa [abortAll] using hsel⟩,
      st_abortAll hst0, allAborted_abortAll hst0⟩
  · rename_i hsel
    split
    · rename_i hdup
      refine ⟨by intro _ _ h; simp at h, by intro h; simp at h, fun _ => ⟨hdup, by omega, rfl⟩⟩
    · rename_i hnd
      have hnd' : (shnums alloc).Nodup := by simpa [shnums] using hnd
      have h0 : Inv hp happy pre alloc { landlords := alloc, servermap := mergeTrackers pre alloc } :=
        ⟨hst0, by show happy ≤ hp (mergeTrackers pre alloc); omega⟩
      have h1 := writePhases_spec hp happy pre alloc phases _ h0 rfl rfl
      cases hr1 : (writePhases hp happy { landlords := alloc, servermap := mergeTrackers pre alloc } phases).2 with
      | true =>
        have : writePhases hp happy { landlords := alloc, servermap := mergeTrackers pre alloc } phases =
            ((writePhases hp happy { landlords := alloc, servermap := mergeTrackers pre alloc } phases).1, true) := by rw [← hr1]
        rw [this]; simp only [if_true]
        have hf := h1.2 hr1
        exact ⟨by intro _ _ h; simp at h, fun _ => ⟨hf, hf.st, hf.allAborted⟩, by intro h; simp at h⟩
      | false =>
        have : writePhases hp happy { landlords := alloc, servermap := mergeTrackers pre alloc } phases =
            ((writePhases hp happy { landlords := alloc, servermap := mergeTrackers pre alloc } phases).1, false) := by rw [← hr1]
        rw [this]; simp only [Bool.false_eq_true, if_false]
        obtain ⟨hi1, hcl1⟩ := h1.1 hr1
        generalize (writePhases hp happy { landlords := alloc, servermap := mergeTrackers pre alloc } phases).1 = e1 at hi1 hcl1 ⊢
        -- close_all_shareholders: close() is called on every landlord
        have hi1c : Inv hp happy pre alloc { e1 with closeCalled := e1.landlords.map (·.1) } := by
          refine ⟨⟨⟨hi1.st.core.failedGone, hi1.st.core.holesFailed, hi1.st.core.flushFailedFailed,
            hi1.st.core.accounted, hi1.st.core.closedLive, by simp [hcl1], ?_, hi1.st.core.survivors⟩,
            fun hw hn => (hi1.st.lay hw hn).congr rfl rfl⟩, hi1.happyEnough⟩
          intro x hx _ hh
          exact hi1.st.core.failedGone x (hi1.st.core.holesFailed x hh) hx
        have hl1c : Live { e1 with closeCalled := e1.landlords.map (·.1) } := fun x hx => hx
        have h2 := closePhase_spec hp happy pre alloc closeEvs _ hi1c hl1c
        generalize ({ e1 with closeCalled := e1.landlords.map (·.1) } : Enc) = e1c at h2 ⊢
        cases hcp : closePhase hp happy e1c closeEvs with
        | mk e2 o =>
          rw [hcp] at h2
          cases o with
          | some late =>
            simp only
            obtain ⟨hf, hl2⟩ := h2.2 late rfl
            have hd := drainClose_spec pre alloc late e2 hf.st hf.allAborted hl2
            exact ⟨by intro _ _ h; simp at h, fun _ => ⟨hf, hd.1, hd.2⟩, by intro h; simp at h⟩
          | none =>
            simp only
            obtain ⟨hi, hl2⟩ := h2.1 rfl
            simp only at hi hl2
            refine ⟨?_, by intro h; simp at h, by intro h; simp at h⟩
            intro placed sm hout
            simp only [Outcome.success.injEq] at hout
            obtain ⟨hp1, hp2⟩ := hout
            subst hp1 hp2
            refine ⟨⟨⟨⟨hi.st.core.failedGone, hi.st.core.holesFailed, hi.st.core.flushFailedFailed,
              hi.st.core.accounted, ?_, ?_, hi.st.core.visClean, hi.st.core.survivors⟩,
              fun hw hn => (hi.st.lay hw hn).congr rfl rfl⟩, hi.happyEnough⟩, by first | rfl | trivial,
              by first | rfl | trivial, by first | rfl | trivial, ?_, by first | rfl | trivial, hnd'⟩
            · intro x hx
              simp only [List.mem_append, List.mem_filter] at hx
              rcases hx with hx | hx
              · exact hi.st.core.closedLive x hx
              · exact hx.1
            · intro x hx
              simp only [List.mem_append, List.mem_filter] at hx
              rcases hx with hx | hx
              · exact hi.st.core.closedCalled x hx
              · exact hl2 x hx.1
            · intro sh hsh
              simp only [List.mem_append, List.mem_filter]
              by_cases hc : sh ∈ e2.closed
              · left; exact hc
              · right; exact ⟨hsh, by simpa using hc⟩

end Tahoe.UploadDecision
