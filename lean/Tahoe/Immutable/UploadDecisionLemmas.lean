import Tahoe.Immutable.UploadDecision
/-! Invariants of the upload decision model (helper lemmas for C06). -/
namespace Tahoe.UploadDecision

def shnums (l : List (Nat × Nat)) : List Nat := l.map (·.1)

theorem mem_shnums_filter (l : List (Nat × Nat)) (sh x : Nat) :
    x ∈ shnums (l.filter (fun a => a.1 != sh)) ↔ x ∈ shnums l ∧ x ≠ sh := by
  simp only [shnums, List.mem_map, List.mem_filter]
  constructor
  · rintro ⟨a, ⟨ha, hne⟩, rfl⟩; exact ⟨⟨a, ha, rfl⟩, by simpa using hne⟩
  · rintro ⟨⟨a, ha, rfl⟩, hne⟩; exact ⟨a, ⟨ha, by simpa using hne⟩, rfl⟩

theorem lookup_some_mem (l : List (Nat × Nat)) (sh p : Nat) (h : l.lookup sh = some p) : sh ∈ shnums l := by
  induction l with
  | nil => simp at h
  | cons a rest ih =>
    obtain ⟨a1, a2⟩ := a
    simp only [List.lookup_cons] at h
    split at h
    · rename_i heq; simp only [shnums, List.map_cons, List.mem_cons]; left; simpa using heq
    · simp only [shnums, List.map_cons, List.mem_cons]; right; exact ih h

theorem lookup_none_not_mem (l : List (Nat × Nat)) (sh : Nat) (h : l.lookup sh = none) : sh ∉ shnums l := by
  induction l with
  | nil => simp [shnums]
  | cons a rest ih =>
    obtain ⟨a1, a2⟩ := a
    simp only [List.lookup_cons] at h
    split at h
    · simp at h
    · rename_i hne
      simp only [shnums, List.map_cons, List.mem_cons, not_or]
      exact ⟨by simpa using hne, ih h⟩

/-- the state invariant while the upload is still going (no error raised so far) -/
structure Inv (hp : Sharemap → Nat) (happy : Nat) (alloc : List (Nat × Nat)) (e : Enc) : Prop where
  happyEnough : happy ≤ hp e.servermap
  failedGone : ∀ sh ∈ e.failedEver, sh ∉ shnums e.landlords
  accounted : ∀ sh ∈ shnums alloc, sh ∈ shnums e.landlords ∨ sh ∈ e.aborted
  closedLive : ∀ sh ∈ e.closed, sh ∈ shnums e.landlords

/-- what holds once UploadUnhappinessError has been raised (after `err` aborted the rest) -/
structure Failed (alloc : List (Nat × Nat)) (e : Enc) : Prop where
  allAborted : ∀ sh ∈ shnums alloc, sh ∈ e.aborted
  closedClean : ∀ sh ∈ e.closed, sh ∉ e.failedEver

theorem inv_closed_clean {hp happy alloc e} (h : Inv hp happy alloc e) : ∀ sh ∈ e.closed, sh ∉ e.failedEver :=
  fun sh hc hf => h.failedGone sh hf (h.closedLive sh hc)

theorem removeShareholder_spec (hp : Sharemap → Nat) (happy : Nat) (alloc : List (Nat × Nat)) (e : Enc) (sh : Nat)
    (h : Inv hp happy alloc e) (hnc : sh ∉ e.closed) :
    ((removeShareholder hp happy e sh).2 = false → Inv hp happy alloc (removeShareholder hp happy e sh).1) ∧
    ((removeShareholder hp happy e sh).2 = true → Failed alloc (abortAll (removeShareholder hp happy e sh).1)) := by
  unfold removeShareholder
  cases hl : e.landlords.lookup sh with
  | none =>
    simp only
    constructor
    · intro hr
      exact ⟨by simpa using hr, h.failedGone, h.accounted, h.closedLive⟩
    · intro _
      refine ⟨?_, ?_⟩
      · intro x hx
        simp only [abortAll, List.mem_append]
        rcases h.accounted x hx with h1 | h1
        · right; exact h1
        · left; exact h1
      · intro x hx; simp only [abortAll] at hx ⊢; exact inv_closed_clean h x hx
  | some peer =>
    simp only
    have hsh : sh ∈ shnums e.landlords := lookup_some_mem _ _ _ hl
    constructor
    · intro hr
      refine ⟨by simpa using hr, ?_, ?_, ?_⟩
      · intro x hx
        simp only [List.mem_append, List.mem_singleton] at hx
        rw [mem_shnums_filter]
        rcases hx with hx | hx
        · exact fun hc => h.failedGone x hx hc.1
        · exact fun hc => hc.2 hx
      · intro x hx
        rw [mem_shnums_filter]
        simp only [List.mem_append, List.mem_singleton]
        rcases h.accounted x hx with h1 | h1
        · by_cases hxs : x = sh
          · right; right; exact hxs
          · left; exact ⟨h1, hxs⟩
        · right; left; exact h1
      · intro x hx
        rw [mem_shnums_filter]
        exact ⟨h.closedLive x hx, fun hxs => hnc (hxs ▸ hx)⟩
    · intro _
      refine ⟨?_, ?_⟩
      · intro x hx
        simp only [abortAll, List.mem_append, List.mem_singleton]
        rcases h.accounted x hx with h1 | h1
        · by_cases hxs : x = sh
          · left; right; exact hxs
          · right
            have : x ∈ shnums (e.landlords.filter (fun a => a.1 != sh)) := (mem_shnums_filter _ _ _).2 ⟨h1, hxs⟩
            simpa [shnums] using this
        · left; left; exact h1
      · intro x hx
        simp only [abortAll] at hx ⊢
        simp only [List.mem_append, List.mem_singleton, not_or]
        exact ⟨inv_closed_clean h x hx, fun hxs => hnc (hxs ▸ hx)⟩

theorem writePhase_spec (hp : Sharemap → Nat) (happy : Nat) (alloc : List (Nat × Nat)) (fs : List Nat) :
    ∀ e, Inv hp happy alloc e → e.closed = [] →
    ((writePhase hp happy e fs).2 = false → Inv hp happy alloc (writePhase hp happy e fs).1 ∧ (writePhase hp happy e fs).1.closed = []) ∧
    ((writePhase hp happy e fs).2 = true → Failed alloc (writePhase hp happy e fs).1) := by
  induction fs with
  | nil => intro e h hc; simp [writePhase, h, hc]
  | cons sh rest ih =>
    intro e h hc
    have hs := removeShareholder_spec hp happy alloc e sh h (by simp [hc])
    simp only [writePhase]
    cases hr : (removeShareholder hp happy e sh).2 with
    | true =>
      have : removeShareholder hp happy e sh = ((removeShareholder hp happy e sh).1, true) := by rw [← hr]
      rw [this]; simp only [if_true]
      exact ⟨by simp, fun _ => hs.2 hr⟩
    | false =>
      have : removeShareholder hp happy e sh = ((removeShareholder hp happy e sh).1, false) := by rw [← hr]
      rw [this]; simp only [Bool.false_eq_true, if_false]
      have hc1 : (removeShareholder hp happy e sh).1.closed = [] := by
        unfold removeShareholder; split <;> simp [hc]
      exact ih _ (hs.1 hr) hc1

theorem writePhases_spec (hp : Sharemap → Nat) (happy : Nat) (alloc : List (Nat × Nat)) (phs : List (List Nat)) :
    ∀ e, Inv hp happy alloc e → e.closed = [] →
    ((writePhases hp happy e phs).2 = false → Inv hp happy alloc (writePhases hp happy e phs).1) ∧
    ((writePhases hp happy e phs).2 = true → Failed alloc (writePhases hp happy e phs).1) := by
  induction phs with
  | nil => intro e h _; simp [writePhases, h]
  | cons ph rest ih =>
    intro e h hc
    have hs := writePhase_spec hp happy alloc ph e h hc
    simp only [writePhases]
    cases hr : (writePhase hp happy e ph).2 with
    | true =>
      have : writePhase hp happy e ph = ((writePhase hp happy e ph).1, true) := by rw [← hr]
      rw [this]; simp only [if_true]
      exact ⟨by simp, fun _ => hs.2 hr⟩
    | false =>
      have : writePhase hp happy e ph = ((writePhase hp happy e ph).1, false) := by rw [← hr]
      rw [this]; simp only [Bool.false_eq_true, if_false]
      exact ih _ (hs.1 hr).1 (hs.1 hr).2

theorem closePhase_spec (hp : Sharemap → Nat) (happy : Nat) (alloc : List (Nat × Nat)) (evs : List CloseEv) :
    ∀ e, Inv hp happy alloc e →
    ((closePhase hp happy e evs).2 = false → Inv hp happy alloc (closePhase hp happy e evs).1) ∧
    ((closePhase hp happy e evs).2 = true → Failed alloc (closePhase hp happy e evs).1) := by
  induction evs with
  | nil => intro e h; simp [closePhase, h]
  | cons ev rest ih =>
    intro e h
    cases ev with
    | ok sh =>
      simp only [closePhase]
      split
      · rename_i hcond
        apply ih
        refine ⟨h.happyEnough, h.failedGone, h.accounted, ?_⟩
        intro x hx
        simp only [List.mem_append, List.mem_singleton] at hx
        rcases hx with hx | hx
        · exact h.closedLive x hx
        · subst hx
          obtain ⟨hsome, _⟩ := hcond
          cases hl : e.landlords.lookup x with
          | none => simp [hl] at hsome
          | some p => exact lookup_some_mem _ _ _ hl
      · exact ih e h
    | fail sh =>
      simp only [closePhase]
      split
      · exact ih e h
      · rename_i hnc
        have hs := removeShareholder_spec hp happy alloc e sh h hnc
        cases hr : (removeShareholder hp happy e sh).2 with
        | true =>
          have : removeShareholder hp happy e sh = ((removeShareholder hp happy e sh).1, true) := by rw [← hr]
          rw [this]; simp only [if_true]
          exact ⟨by simp, fun _ => hs.2 hr⟩
        | false =>
          have : removeShareholder hp happy e sh = ((removeShareholder hp happy e sh).1, false) := by rw [← hr]
          rw [this]; simp only [Bool.false_eq_true, if_false]
          exact ih _ (hs.1 hr)

end Tahoe.UploadDecision
