import Tahoe.Immutable.Helper
/-! Helper lemmas for C44: the incoming file is always a prefix of the ciphertext, a finished fetch
holds exactly the ciphertext, an undisturbed attempt finishes. -/
namespace Tahoe.Helper

/-- `file` is the first `file.length` bytes of `ct` -/
def IsPrefix (file ct : List UInt8) : Prop := file = ct.take file.length ∧ file.length ≤ ct.length

theorem isPrefix_nil (ct : List UInt8) : IsPrefix [] ct := ⟨by simp, by simp⟩

theorem isPrefix_full {file ct : List UInt8} (h : IsPrefix file ct) (hl : ct.length ≤ file.length) :
    file = ct := by
  obtain ⟨h1, h2⟩ := h
  rw [h1]
  exact List.take_of_length_le hl

/-- a prefix of a prefix is a prefix: losing the tail of the partial file keeps it sound -/
theorem isPrefix_take {file ct : List UInt8} (h : IsPrefix file ct) (keep : Nat) : IsPrefix (file.take keep) ct := by
  obtain ⟨h1, h2⟩ := h
  refine ⟨?_, ?_⟩
  · rw [List.length_take]
    conv => lhs; rw [h1]
    rw [List.take_take]
  · rw [List.length_take]; omega

theorem survives_prefix {file ct : List UInt8} (f : Fault) (h : IsPrefix file ct) : IsPrefix (f.survives file) ct := by
  cases f <;> simp only [Fault.survives] <;> first | exact h | exact isPrefix_take h _

/-- appending the next `fs` bytes of the ciphertext keeps the prefix property -/
theorem isPrefix_append {file ct : List UInt8} (h : IsPrefix file ct) (fs : Nat)
    (hfs : fs ≤ ct.length - file.length) :
    IsPrefix (file ++ (ct.drop file.length).take fs) ct ∧
    (file ++ (ct.drop file.length).take fs).length = file.length + fs := by
  obtain ⟨h1, h2⟩ := h
  have hlen : ((ct.drop file.length).take fs).length = fs := by
    rw [List.length_take, List.length_drop]; omega
  have hl : (file ++ (ct.drop file.length).take fs).length = file.length + fs := by
    rw [List.length_append, hlen]
  refine ⟨⟨?_, ?_⟩, hl⟩
  · rw [hl, List.take_add, ← h1]
  · rw [hl]; omega

/-- the fetch loop keeps the file a prefix of the ciphertext; if it reports "finished" (and the chunk
size is positive) the file is the whole ciphertext; the reader's forward-only precondition never trips -/
theorem fetchLoop_prefix (chunk : Nat) (ct : List UInt8) (failAt : Option Nat) :
    ∀ (fuel i roff : Nat) (file : List UInt8), IsPrefix file ct → roff ≤ file.length →
    IsPrefix (fetchLoop chunk ct failAt fuel i roff file).1 ct ∧
    ((fetchLoop chunk ct failAt fuel i roff file).2 = true → 0 < chunk →
      (fetchLoop chunk ct failAt fuel i roff file).1 = ct) := by
  intro fuel
  induction fuel with
  | zero => intro i roff file h _; exact ⟨h, by simp [fetchLoop]⟩
  | succ k ih =>
    intro i roff file h hr
    unfold fetchLoop
    split
    · exact ⟨h, by simp⟩
    · rename_i hlt
      split
      · rename_i hfs
        refine ⟨h, ?_⟩
        intro _ hc
        have hz : min (ct.length - file.length) chunk = 0 := by simpa using hfs
        have hlen : ct.length ≤ file.length := by omega
        exact isPrefix_full h hlen
      · split
        · exact ⟨h, by simp⟩
        · split
          · exact ⟨h, by simp⟩
          · have hmin : min (ct.length - file.length) chunk ≤ ct.length - file.length := Nat.min_le_left _ _
            obtain ⟨hp, hl⟩ := isPrefix_append h _ hmin
            have hdl : ((ct.drop file.length).take (min (ct.length - file.length) chunk)).length
                = min (ct.length - file.length) chunk := by
              rw [List.length_take, List.length_drop]; omega
            exact ih (i + 1) _ _ hp (by rw [hl, hdl]; omega)

/-- an undisturbed loop with enough fuel finishes -/
theorem fetchLoop_finishes (chunk : Nat) (hc : 0 < chunk) (ct : List UInt8) :
    ∀ (fuel i roff : Nat) (file : List UInt8), IsPrefix file ct → roff ≤ file.length →
    ct.length - file.length < fuel → (fetchLoop chunk ct none fuel i roff file).2 = true := by
  intro fuel
  induction fuel with
  | zero => intro i roff file _ _ hf; omega
  | succ k ih =>
    intro i roff file h hr hf
    unfold fetchLoop
    have hle : ¬ ct.length < file.length := by have := h.2; omega
    simp only [hle, if_false]
    split
    · rfl
    · rename_i hfs
      have hpos : 0 < min (ct.length - file.length) chunk := by
        have : ¬ (min (ct.length - file.length) chunk = 0) := by simpa using hfs
        omega
      have hnr : ¬ file.length < roff := by omega
      simp only [hnr, if_false]
      have hmin : min (ct.length - file.length) chunk ≤ ct.length - file.length := Nat.min_le_left _ _
      obtain ⟨hp, hl⟩ := isPrefix_append h _ hmin
      have hdl : ((ct.drop file.length).take (min (ct.length - file.length) chunk)).length
          = min (ct.length - file.length) chunk := by
        rw [List.length_take, List.length_drop]; omega
      have := ih (i + 1) (file.length + ((ct.drop file.length).take (min (ct.length - file.length) chunk)).length)
        _ hp (by rw [hl, hdl]; omega) (by rw [hl]; omega)
      simpa using this

/-- the helper's files are sound: a partial file is a prefix, a complete one is the ciphertext -/
structure Good (ct : List UInt8) (d : Disk) : Prop where
  inc : ∀ f, d.incoming = some f → IsPrefix f ct
  enc : ∀ e, d.encoding = some e → e = ct

theorem good_empty (ct : List UInt8) : Good ct ⟨none, none⟩ :=
  ⟨by intro f h; simp at h, by intro e h; simp at h⟩

theorem incoming_getD_prefix {ct : List UInt8} {d : Disk} (g : Good ct d) : IsPrefix (d.incoming.getD []) ct := by
  cases hi : d.incoming with
  | none => simpa using isPrefix_nil ct
  | some f => simpa using g.1 f hi

/-- one attempt keeps the files sound, and hands the encoder exactly the ciphertext if it succeeds -/
theorem attempt_good (chunk : Nat) (hc : 0 < chunk) (ct : List UInt8) (d : Disk) (f : Fault) (g : Good ct d) :
    Good ct (attempt chunk ct d f).1 ∧ (∀ used, (attempt chunk ct d f).2 = some used → used = ct) := by
  unfold attempt
  cases he : d.encoding with
  | some e =>
    have hect := g.2 e he
    simp only
    split
    · exact ⟨g, by intro used h; simp at h⟩
    · refine ⟨⟨g.1, by intro e' h; simp at h⟩, ?_⟩
      intro used h; simp at h; rw [← h]; exact hect
  | none =>
    simp only
    have hp := fetchLoop_prefix chunk ct f.readAt (ct.length + 1) 0 0 (d.incoming.getD [])
      (incoming_getD_prefix g) (Nat.zero_le _)
    split
    · refine ⟨⟨?_, by intro e h; simp at h⟩, by intro used h; simp at h⟩
      intro f' hf'; simp at hf'; rw [← hf']; exact survives_prefix f hp.1
    · rename_i hfin
      have hfin' : (fetchLoop chunk ct f.readAt (ct.length + 1) 0 0 (d.incoming.getD [])).2 = true := by
        simpa using hfin
      have hfull := hp.2 hfin' hc
      split
      · refine ⟨⟨by intro f' h; simp at h, ?_⟩, by intro used h; simp at h⟩
        intro e h; simp at h; rw [← h]; exact hfull
      · refine ⟨⟨by intro f' h; simp at h, by intro e h; simp at h⟩, ?_⟩
        intro used h; simp at h; rw [← h]; exact hfull

/-- an undisturbed attempt on sound files succeeds -/
theorem attempt_none_succeeds (chunk : Nat) (hc : 0 < chunk) (ct : List UInt8) (d : Disk) (g : Good ct d) :
    ∃ used, (attempt chunk ct d .none).2 = some used := by
  unfold attempt
  cases he : d.encoding with
  | some e => exact ⟨e, by simp⟩
  | none =>
    have hp := incoming_getD_prefix g
    have hfin := fetchLoop_finishes chunk hc ct (ct.length + 1) 0 0 (d.incoming.getD []) hp
      (Nat.zero_le _) (by omega)
    simp [Fault.readAt, hfin]

/-- whatever the disturbances, whenever some attempt succeeds the encoder got the ciphertext, and the
files stay sound -/
theorem runAttempts_good (chunk : Nat) (hc : 0 < chunk) (ct : List UInt8) (faults : List Fault) :
    ∀ d, Good ct d → Good ct (runAttempts chunk ct d faults).1 ∧
      (∀ used, (runAttempts chunk ct d faults).2 = some used → used = ct) := by
  induction faults with
  | nil => intro d g; exact ⟨g, by intro used h; simp [runAttempts] at h⟩
  | cons f rest ih =>
    intro d g
    have ha := attempt_good chunk hc ct d f g
    unfold runAttempts
    rcases hres : attempt chunk ct d f with ⟨d1, res⟩
    rw [hres] at ha
    cases res with
    | some used => exact ⟨ha.1, by intro u h; cases h; exact ha.2 used rfl⟩
    | none => exact ih d1 ha.1

/-- a final undisturbed attempt makes the whole run succeed -/
theorem runAttempts_succeeds (chunk : Nat) (hc : 0 < chunk) (ct : List UInt8) (faults : List Fault) :
    ∀ d, Good ct d → ∃ used, (runAttempts chunk ct d (faults ++ [.none])).2 = some used := by
  induction faults with
  | nil =>
    intro d g
    obtain ⟨used, hu⟩ := attempt_none_succeeds chunk hc ct d g
    refine ⟨used, ?_⟩
    simp only [List.nil_append, runAttempts]
    rcases hres : attempt chunk ct d .none with ⟨d1, res⟩
    rw [hres] at hu
    simp only at hu
    subst hu
    rfl
  | cons f rest ih =>
    intro d g
    have ha := attempt_good chunk hc ct d f g
    simp only [List.cons_append, runAttempts]
    rcases hres : attempt chunk ct d f with ⟨d1, res⟩
    rw [hres] at ha
    cases res with
    | some used => exact ⟨used, rfl⟩
    | none => exact ih d1 ha.1

end Tahoe.Helper
