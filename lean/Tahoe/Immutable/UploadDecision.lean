/-
Model of the success/failure decision of an immutable upload (C06).
  * `Tahoe2ServerSelector.get_shareholders` final test (immutable/upload.py):
      merged = merge_servers(preexisting, use_trackers); if servers_of_happiness(merged) < happy:
      `_failed` aborts every tracker's buckets and raises UploadUnhappinessError.
  * `CHKUploader.set_shareholders`: servermap = preexisting ∪ {(shnum, tracker.serverid)}.
  * `Encoder` (immutable/encode.py): phases start / segments / hash trees / UEB / close; in each phase
    every live landlord is written to; a failing write runs `_remove_shareholder` (abort the bucket,
    delete the landlord, remove the peer from servermap[shnum] (dropping empty entries), recompute
    happiness, raise UploadUnhappinessError when below `happy`); the phase's DeferredList uses
    fireOnOneErrback, so the first raise ends the upload: `err` aborts every remaining landlord.
    `done` reports `landlords` as the shares placed.
The happiness function is a parameter `hp` (its own correctness is C08).  Mathlib-free, executable.
-/
namespace Tahoe.UploadDecision

abbrev Sharemap := List (Nat × List Nat)     -- shnum ↦ server ids (association list, no duplicate keys)

def addPeer : Sharemap → Nat → Nat → Sharemap
  | [], sh, p => [(sh, [p])]
  | (s, ps) :: rest, sh, p =>
    if s = sh then (s, if p ∈ ps then ps else ps ++ [p]) :: rest else (s, ps) :: addPeer rest sh p

/-- `self.servermap[shareid].remove(peerid); if not self.servermap[shareid]: del …` -/
def removePeer : Sharemap → Nat → Nat → Sharemap
  | [], _, _ => []
  | (s, ps) :: rest, sh, p =>
    if s = sh then
      let ps' := ps.erase p
      if ps'.isEmpty then rest else (s, ps') :: rest
    else (s, ps) :: removePeer rest sh p

structure Enc where
  landlords : List (Nat × Nat)      -- shnum ↦ server id of the bucket writer still in use
  servermap : Sharemap
  aborted : List Nat := []          -- shnums whose bucket writer received abort()
  closed : List Nat := []           -- shnums whose close() was acknowledged
  failedEver : List Nat := []       -- shnums for which some write/close failed
  deriving Repr

/-- merge_servers(preexisting, use_trackers) / set_shareholders -/
def mergeTrackers (pre : Sharemap) (alloc : List (Nat × Nat)) : Sharemap :=
  alloc.foldl (fun m a => addPeer m a.1 a.2) pre

/-- `_remove_shareholder`: returns the new state and whether UploadUnhappinessError is raised -/
def removeShareholder (hp : Sharemap → Nat) (happy : Nat) (e : Enc) (sh : Nat) : Enc × Bool :=
  let e1 : Enc :=
    match e.landlords.lookup sh with
    | some peer => { e with landlords := e.landlords.filter (fun l => l.1 != sh),
                            servermap := removePeer e.servermap sh peer,
                            aborted := e.aborted ++ [sh],
                            failedEver := e.failedEver ++ [sh] }
    | none => e            -- "they weren't in our list of landlords"
  (e1, hp e1.servermap < happy)

/-- `Encoder.err`: abort every remaining landlord -/
def abortAll (e : Enc) : Enc := { e with aborted := e.aborted ++ e.landlords.map (·.1) }

/-- one non-close phase: failures are processed in the given order; the first raise ends the upload -/
def writePhase (hp : Sharemap → Nat) (happy : Nat) : Enc → List Nat → Enc × Bool
  | e, [] => (e, false)
  | e, sh :: rest =>
    let (e1, raised) := removeShareholder hp happy e sh
    if raised then (abortAll e1, true) else writePhase hp happy e1 rest

inductive CloseEv | ok (sh : Nat) | fail (sh : Nat)
  deriving Repr

/-- the close phase: acknowledgements and failures arrive in the given order -/
def closePhase (hp : Sharemap → Nat) (happy : Nat) : Enc → List CloseEv → Enc × Bool
  | e, [] => (e, false)
  | e, .ok sh :: rest =>
    if (e.landlords.lookup sh).isSome ∧ sh ∉ e.closed
    then closePhase hp happy { e with closed := e.closed ++ [sh] } rest
    else closePhase hp happy e rest
  | e, .fail sh :: rest =>
    if sh ∈ e.closed then closePhase hp happy e rest        -- one answer per close() call
    else
      let (e1, raised) := removeShareholder hp happy e sh
      if raised then (abortAll e1, true) else closePhase hp happy e1 rest

def writePhases (hp : Sharemap → Nat) (happy : Nat) : Enc → List (List Nat) → Enc × Bool
  | e, [] => (e, false)
  | e, ph :: rest =>
    let (e1, raised) := writePhase hp happy e ph
    if raised then (e1, true) else writePhases hp happy e1 rest

inductive Outcome | success (placed : List Nat) (sharemap : Sharemap) | unhappy
  deriving Repr, DecidableEq

structure Result where
  outcome : Outcome
  final : Enc
  deriving Repr

/-- the whole upload decision: selector test, then the encoder's phases, then close.
`closeEvs` is completed so that every landlord not mentioned closes successfully (honest remainder). -/
def upload (hp : Sharemap → Nat) (happy : Nat) (pre : Sharemap) (alloc : List (Nat × Nat))
    (phases : List (List Nat)) (closeEvs : List CloseEv) : Result :=
  let merged := mergeTrackers pre alloc
  let e0 : Enc := { landlords := alloc, servermap := merged }
  if hp merged < happy then ⟨.unhappy, abortAll e0⟩        -- selector `_failed`
  else
    let (e1, r1) := writePhases hp happy e0 phases
    if r1 then ⟨.unhappy, e1⟩ else
    let (e2, r2) := closePhase hp happy e1 closeEvs
    if r2 then ⟨.unhappy, e2⟩ else
    -- closes not scripted succeed
    let e3 := { e2 with closed := e2.closed ++ (e2.landlords.map (·.1)).filter (fun s => s ∉ e2.closed) }
    ⟨.success (e3.landlords.map (·.1)) e3.servermap, e3⟩

end Tahoe.UploadDecision
