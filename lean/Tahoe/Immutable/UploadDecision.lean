import Tahoe.Happiness.Flow
/-
Model of the success/failure decision of an immutable upload (C06).
  * `Tahoe2ServerSelector.get_shareholders` final test (immutable/upload.py):
      merged = merge_servers(preexisting, use_trackers); if servers_of_happiness(merged) < happy:
      `_failed` aborts every tracker's buckets and raises UploadUnhappinessError.
  * `CHKUploader.set_shareholders`: buckets = union of the trackers' bucket dicts;
      `assert len(buckets) == sum(len(tracker.buckets))` (one share number allocated on two servers
      ends the upload with AssertionError, nothing is aborted: DESIGN 8.9);
      servermap = preexisting ∪ {(shnum, tracker.serverid)}; `_server_trackers[shnum] = tracker`.
  * `Encoder` (immutable/encode.py): phases start / segments / hash trees / UEB / close; in each phase
    every live landlord is written to; a failing write runs `_remove_shareholder` (abort the bucket,
    delete the landlord, remove the peer from servermap[shnum] (dropping empty entries), recompute
    happiness — always, also when servermap[shnum] still names another holder —, raise
    UploadUnhappinessError when below `happy`); the phase's DeferredList uses fireOnOneErrback, so the
    first raise ends the upload: `err` aborts every remaining landlord.  Answers that arrive after the
    raise still run `_remove_shareholder` (the raise is eaten): `drainClose`.
    `done` reports `landlords` as the shares placed.
  * `WriteBucketProxy` (immutable/layout.py): a failing remote `write` fails the `put_*` Deferred
    (→ `_remove_shareholder`); `close()` = final flush `write`, and only when that succeeded the remote
    `close` (`d.addCallback(lambda _: callRemote("close"))`).  A share becomes reader-visible only when
    the server executes `close` (storage/immutable.py BucketWriter.close; C22), `abort` deletes an
    unfinished one and is a no-op on a closed one.
  * `CHKUploader._encrypted_done`: UploadResults.sharemap / servermap / pushed_shares are built from
    `encoder.get_shares_placed()` (the landlords that survived) and `_server_trackers`.
  * `pre` (the selector's `preexisting_shares`, `already_serverids` of set_shareholders) holds COMPLETE,
    reader-visible shares only: it is filled from `get_buckets` answers and from the `alreadygot` part of
    `allocate_buckets` answers, and a storage server lists there final shares only — a share another upload
    is still writing (incoming/) yields neither a bucket writer nor an `alreadygot` entry
    (storage/server.py allocate_buckets; C22 `visible_iff_closed`).  So the layouts of the theorems
    (`layoutPairs pre …`) consist of complete shares.  The harness checks this input assumption on concurrent
    uploads of one file (every share an upload found must be a complete share in the server's final directory).
  * `alloc` is the FINAL tracker set: what `get_shareholders` returns and `set_shareholders` turns into the
    encoder's landlords.  The selector's happiness test is modelled on exactly this set
    (`hp (mergeTrackers pre alloc) < happy`): the verdict is a function of the layout that is pushed.
The happiness function is a parameter `hp`; `soh` is C08's model of `servers_of_happiness`
(`Tahoe.Happiness.serversOfHappiness`, reused, not copied), the instance the driver and the concrete
theorems use.  Mathlib-free, executable.
-/
namespace Tahoe.UploadDecision

abbrev Sharemap := List (Nat × List Nat)     -- shnum ↦ server ids (association list, no duplicate keys)

/-- `happinessutil.servers_of_happiness` (C08's model).  The code compares the integer with
`min_happiness`; the value is never negative (C08 `soh_is_maxMatchingSize`), so `toNat` loses nothing. -/
def soh (m : Sharemap) : Nat := (Tahoe.Happiness.serversOfHappiness m).toNat

def addPeer : Sharemap → Nat → Nat → Sharemap
  | [], sh, p => [(sh, [p])]
  | (s, ps) :: rest, sh, p =>
    if s = sh then (s, if p ∈ ps then ps else ps ++ [p]) :: rest else (s, ps) :: addPeer rest sh p

/-- `self.servermap[shareid].remove(peerid); if not self.servermap[shareid]: del …` -/
def removePeer : Sharemap → Nat → Nat → Sharemap
  | [], _, _ => []
  | (s, ps) :: rest, sh, p =>
    if s = sh then
      let ps' := ps.erase p
      if ps'.isEmpty then rest else (s, ps') :: rest
    else (s, ps) :: removePeer rest sh p

structure Enc where
  landlords : List (Nat × Nat)      -- shnum ↦ server id of the bucket writer still in use
  servermap : Sharemap
  aborted : List Nat := []          -- shnums whose bucket writer received abort()
  closed : List Nat := []           -- shnums whose close() was acknowledged
  failedEver : List Nat := []       -- shnums for which some write/close failed
  holes : List Nat := []            -- shnums for which a write (block, hashes, UEB, final flush) failed: bytes missing on the server
  closeCalled : List Nat := []      -- shnums on which close_all_shareholders called close()
  flushFailed : List Nat := []      -- shnums whose final flush inside close() failed: the remote close is never issued
  deriving Repr

/-- the shares a server may have made visible to readers: `close()` was called and the final flush did
not fail, so the remote `close` was (or may still be) issued.  Independent of the order of answers. -/
def Enc.mayBeVisible (e : Enc) : List Nat := e.closeCalled.filter (fun sh => sh ∉ e.flushFailed)

/-- merge_servers(preexisting, use_trackers) / set_shareholders -/
def mergeTrackers (pre : Sharemap) (alloc : List (Nat × Nat)) : Sharemap :=
  alloc.foldl (fun m a => addPeer m a.1 a.2) pre

/-- which remote call failed: a `write` of a put_* call (bytes missing on the server), the remote `close`
(every byte had been acknowledged), or the final flush `write` inside `WriteBucketProxy.close()` (bytes
missing, and the remote `close` is never issued) -/
inductive FailKind | write | closeCall | flush
  deriving Repr, DecidableEq

/-- the state change of `_remove_shareholder` -/
def dropShareholder (e : Enc) (sh : Nat) (k : FailKind) : Enc :=
  match e.landlords.lookup sh with
  | some peer => { e with landlords := e.landlords.filter (fun l => l.1 != sh),
                          servermap := removePeer e.servermap sh peer,
                          aborted := e.aborted ++ [sh],
                          failedEver := e.failedEver ++ [sh],
                          holes := if k = .closeCall then e.holes else e.holes ++ [sh],
                          flushFailed := if k = .flush then e.flushFailed ++ [sh] else e.flushFailed }
  | none => e            -- "they weren't in our list of landlords"

/-- `_remove_shareholder`: returns the new state and whether UploadUnhappinessError is raised.
The happiness of the *whole* remaining servermap is recomputed after every loss. -/
def removeShareholder (hp : Sharemap → Nat) (happy : Nat) (e : Enc) (sh : Nat) (k : FailKind) : Enc × Bool :=
  let e1 := dropShareholder e sh k
  (e1, hp e1.servermap < happy)

/-- `Encoder.err`: abort every remaining landlord -/
def abortAll (e : Enc) : Enc := { e with aborted := e.aborted ++ e.landlords.map (·.1) }

/-- one non-close phase: failures are processed in the given order; the first raise ends the upload -/
def writePhase (hp : Sharemap → Nat) (happy : Nat) : Enc → List Nat → Enc × Bool
  | e, [] => (e, false)
  | e, sh :: rest =>
    let (e1, raised) := removeShareholder hp happy e sh .write
    if raised then (abortAll e1, true) else writePhase hp happy e1 rest

/-- answers to `WriteBucketProxy.close()`: remote close acknowledged / remote close failed / the final
flush write failed -/
inductive CloseEv | ok (sh : Nat) | fail (sh : Nat) | flushFail (sh : Nat)
  deriving Repr

/-- answers that arrive after the UploadUnhappinessError (the DeferredList has fired, `err` has run):
`_remove_shareholder` still runs for each failure, its raise is eaten; bookkeeping only -/
def drainClose : Enc → List CloseEv → Enc
  | e, [] => e
  | e, .ok sh :: rest =>
    if (e.landlords.lookup sh).isSome ∧ sh ∉ e.closed
    then drainClose { e with closed := e.closed ++ [sh] } rest
    else drainClose e rest
  | e, .fail sh :: rest =>
    if sh ∈ e.closed then drainClose e rest else drainClose (dropShareholder e sh .closeCall) rest
  | e, .flushFail sh :: rest =>
    if sh ∈ e.closed then drainClose e rest else drainClose (dropShareholder e sh .flush) rest

/-- the close phase: acknowledgements and failures arrive in the given order.  Result: the state at the
verdict and, when UploadUnhappinessError was raised, the answers not yet seen (`none`: no raise). -/
def closePhase (hp : Sharemap → Nat) (happy : Nat) : Enc → List CloseEv → Enc × Option (List CloseEv)
  | e, [] => (e, none)
  | e, .ok sh :: rest =>
    if (e.landlords.lookup sh).isSome ∧ sh ∉ e.closed
    then closePhase hp happy { e with closed := e.closed ++ [sh] } rest
    else closePhase hp happy e rest
  | e, .fail sh :: rest =>
    if sh ∈ e.closed then closePhase hp happy e rest        -- one answer per close() call
    else
      let (e1, raised) := removeShareholder hp happy e sh .closeCall
      if raised then (abortAll e1, some rest) else closePhase hp happy e1 rest
  | e, .flushFail sh :: rest =>
    if sh ∈ e.closed then closePhase hp happy e rest
    else
      let (e1, raised) := removeShareholder hp happy e sh .flush
      if raised then (abortAll e1, some rest) else closePhase hp happy e1 rest

def writePhases (hp : Sharemap → Nat) (happy : Nat) : Enc → List (List Nat) → Enc × Bool
  | e, [] => (e, false)
  | e, ph :: rest =>
    let (e1, raised) := writePhase hp happy e ph
    if raised then (e1, true) else writePhases hp happy e1 rest

/-- `assertion`: `CHKUploader.set_shareholders` found one share number in two trackers' buckets -/
inductive Outcome | success (placed : List Nat) (sharemap : Sharemap) | unhappy | assertion
  deriving Repr, DecidableEq

/-- what `CHKUploader._encrypted_done` puts into UploadResults -/
structure UploadResults where
  sharemap : Sharemap          -- shnum ↦ servers   (DictOfSets)
  servermap : Sharemap         -- server ↦ shnums   (DictOfSets)
  pushed : Nat                 -- pushed_shares
  preexisting : Nat            -- preexisting_shares = len(already_serverids)
  deriving Repr, DecidableEq

/-- the (shnum, server) pairs reported: `for shnum in e.get_shares_placed(): server = _server_trackers[shnum]`
(a share number without tracker would be a KeyError; `placed ⊆ keys table`, so it does not happen) -/
def reportedPairs (table : List (Nat × Nat)) (placed : List Nat) : List (Nat × Nat) :=
  placed.filterMap (fun sh => (table.lookup sh).map (fun srv => (sh, srv)))

def uploadResults (pre : Sharemap) (table : List (Nat × Nat)) (placed : List Nat) : UploadResults :=
  let pairs := reportedPairs table placed
  { sharemap := pairs.foldl (fun m a => addPeer m a.1 a.2) [],
    servermap := pairs.foldl (fun m a => addPeer m a.2 a.1) [],
    pushed := placed.length,
    preexisting := pre.length }

structure Result where
  outcome : Outcome
  verdict : Enc                 -- the encoder's state when the outcome was decided
  final : Enc                   -- … after the answers that were still outstanding (= verdict unless unhappy in the close phase)
  results : Option UploadResults := none
  deriving Repr

/-- the whole upload decision: selector test, set_shareholders, then the encoder's phases, then close.
`closeEvs` is completed so that every landlord not mentioned closes successfully (honest remainder). -/
def upload (hp : Sharemap → Nat) (happy : Nat) (pre : Sharemap) (alloc : List (Nat × Nat))
    (phases : List (List Nat)) (closeEvs : List CloseEv) : Result :=
  let merged := mergeTrackers pre alloc
  let e0 : Enc := { landlords := alloc, servermap := merged }
  if hp merged < happy then ⟨.unhappy, abortAll e0, abortAll e0, none⟩        -- selector `_failed`
  else if ¬ (alloc.map (·.1)).Nodup then ⟨.assertion, e0, e0, none⟩   -- CHKUploader.set_shareholders assert
  else
    let (e1, r1) := writePhases hp happy e0 phases
    if r1 then ⟨.unhappy, e1, e1, none⟩ else
    let e1c : Enc := { e1 with closeCalled := e1.landlords.map (·.1) }     -- close_all_shareholders
    match closePhase hp happy e1c closeEvs with
    | (e2, some late) => ⟨.unhappy, e2, drainClose e2 late, none⟩
    | (e2, none) =>
      -- closes not scripted succeed
      let e3 := { e2 with closed := e2.closed ++ (e2.landlords.map (·.1)).filter (fun s => s ∉ e2.closed) }
      let placed := e3.landlords.map (·.1)
      ⟨.success placed e3.servermap, e3, e3, some (uploadResults pre alloc placed)⟩

end Tahoe.UploadDecision
