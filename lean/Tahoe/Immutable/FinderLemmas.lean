import Tahoe.Immutable.Finder
/-! Invariant of the ShareFinder model: a hungry finder with nothing queued and no query in flight
has announced `no_more_shares` (and has asked every server); servers are asked once, in order. -/
namespace Tahoe.Finder

def sendsOf : List FOut → List Nat
  | [] => []
  | .send srv _ :: r => srv :: sendsOf r
  | _ :: r => sendsOf r

theorem sendsOf_append (a b : List FOut) : sendsOf (a ++ b) = sendsOf a ++ sendsOf b := by
  induction a with
  | nil => rfl
  | cons x l ih => cases x <;> simp [sendsOf, ih]

/-- what the environment may do: answer / fail a query that is in flight, fire a timer that is armed,
run a turn that is queued -/
def FEvOk (s : Finder) : FEv → Prop
  | .response req _ => req ∈ s.pending.map (·.1)
  | .error req => req ∈ s.pending.map (·.1)
  | .overdue req => req ∈ s.timers
  | .turn => 0 < s.loops
  | _ => True

def FValid : Finder → List FEv → Prop
  | _, [] => True
  | s, e :: es => FEvOk s e ∧ FValid (step s e) es

structure FInv (servers0 : List Nat) (s : Finder) : Prop where
  maxPos : 0 < s.maxOutstanding
  /-- the finder never sits hungry with nothing to wait for unless it has said so -/
  answered : s.running = true → s.hungry = true → s.loops = 0 → s.pending = [] → s.told = true
  toldAll : s.told = true → s.servers = []
  exh : s.exhausted = true → s.servers = []
  /-- every server is asked at most once, in the order of the permuted list -/
  sent : sendsOf s.out ++ s.servers = servers0

theorem finv_init (mx : Nat) (servers : List Nat) (h : 0 < mx) :
    FInv servers { maxOutstanding := mx, servers := servers } := by
  constructor <;> simp [sendsOf, h]

/-- `loop()` re-establishes the invariant whatever `loops` was -/
theorem finv_of_loop {servers0 : List Nat} {s : Finder} (hm : 0 < s.maxOutstanding)
    (htold : s.told = true → s.servers = []) (hexh : s.exhausted = true → s.servers = [])
    (hsent : sendsOf s.out ++ s.servers = servers0)
    (hkeep : s.running = true → s.hungry = true → s.loops = 0 → s.pending = [] → s.told = true ∨ True) :
    FInv servers0 (loop s) := by
  unfold loop
  split
  · rename_i hr
    exact ⟨hm, by intro h; simp_all, htold, hexh, hsent⟩
  · split
    · rename_i hh
      exact ⟨hm, by intro _ h; simp_all, htold, hexh, hsent⟩
    · split
      · rename_i hfull
        refine ⟨hm, ?_, htold, hexh, hsent⟩
        intro _ _ _ hp
        rw [hp] at hfull
        simp at hfull
        omega
      · split
        · rename_i srv rest hex hsrv
          refine ⟨hm, by intro _ _ hl; simp at hl, ?_, ?_, ?_⟩
          · intro ht
            have := htold ht
            rw [hsrv] at this; simp at this
          · intro he; simp only at he; rw [hex] at he; simp at he
          · simp only [sendsOf_append, sendsOf, List.append_assoc, List.singleton_append]
            rw [← hsrv]; exact hsent
        · rename_i ex srvs hcase
          -- no server left (or the iterator is already None)
          have hnil : s.servers = [] := by
            cases hex : s.exhausted with
            | true => exact hexh hex
            | false =>
              cases hs : s.servers with
              | nil => rfl
              | cons a l => exact (hcase a l hex hs).elim
          split
          · rename_i hne
            refine ⟨hm, ?_, fun _ => hnil, fun _ => hnil, hsent⟩
            intro _ _ _ hp
            simp only at hp
            rw [hp] at hne; simp at hne
          · refine ⟨hm, fun _ _ _ _ => rfl, fun _ => hnil, fun _ => hnil, ?_⟩
            simp only [sendsOf_append, sendsOf, List.append_nil]
            exact hsent

theorem finv_step {servers0 : List Nat} {s : Finder} (h : FInv servers0 s) (e : FEv) : FInv servers0 (step s e) := by
  cases e with
  | hungry => exact ⟨h.maxPos, by intro _ _ hl; simp [step] at hl, by intro ht; simp [step] at ht, h.exh, h.sent⟩
  | turn =>
    simp only [step]
    split
    · exact h
    · exact finv_of_loop h.maxPos h.toldAll h.exh h.sent (fun _ _ _ _ => Or.inr trivial)
  | response req shnums =>
    simp only [step]
    split
    · exact ⟨h.maxPos, by intro _ _ hl; simp at hl, h.toldAll, h.exh, h.sent⟩
    · exact ⟨h.maxPos, by intro _ _ hl; simp at hl, h.toldAll, h.exh,
        by simpa [retired, sendsOf_append, sendsOf] using h.sent⟩
  | error req => exact ⟨h.maxPos, by intro _ _ hl; simp [step] at hl, h.toldAll, h.exh, h.sent⟩
  | overdue req =>
    simp only [step]
    split
    · exact ⟨h.maxPos, by intro _ _ hl; simp at hl, h.toldAll, h.exh, h.sent⟩
    · exact ⟨h.maxPos, h.answered, h.toldAll, h.exh, by simpa [sendsOf_append, sendsOf] using h.sent⟩
  | stop => exact ⟨h.maxPos, by intro hr; simp [step] at hr, h.toldAll, h.exh, h.sent⟩

theorem finv_run {servers0 : List Nat} : ∀ (es : List FEv) (s : Finder), FInv servers0 s → FInv servers0 (run s es) := by
  intro es
  induction es with
  | nil => intro s h; exact h
  | cons e es ih => intro s h; exact ih _ (finv_step h e)

end Tahoe.Finder
