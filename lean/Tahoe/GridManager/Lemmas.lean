import Tahoe.GridManager.Model
/-! Helper lemmas for C33 (kept apart from the property theorems). -/
namespace Tahoe.GridManager

variable {PK Sig Msg Id : Type}

/-- the certificate body that the pair (key, cert) contributes to `valid_certs`, if any -/
def contributes (verify : PK → Sig → Msg → Bool) (parse : Msg → Parsed Id)
    (k : PK) (c : SignedCert Sig Msg) (p : Parsed Id) : Prop :=
  verify k c.signature c.certificate = true ∧ parse c.certificate = p ∧ p ≠ .null ∧ p ≠ .invalid

theorem validateCert_some {verify : PK → Sig → Msg → Bool} {parse : Msg → Parsed Id}
    {k : PK} {c : SignedCert Sig Msg} {p : Parsed Id} :
    validateCert verify parse k c = .ok (some p) ↔ contributes verify parse k c p := by
  unfold validateCert contributes
  cases hv : verify k c.signature c.certificate
  · simp
  · cases hp : parse c.certificate <;> simp <;> (try (intro h; subst h; simp))

theorem validateCert_error {verify : PK → Sig → Msg → Bool} {parse : Msg → Parsed Id}
    {k : PK} {c : SignedCert Sig Msg} {e : Err} :
    validateCert verify parse k c = .error e →
      verify k c.signature c.certificate = true ∧ parse c.certificate = .invalid := by
  unfold validateCert
  cases hv : verify k c.signature c.certificate
  · simp
  · cases hp : parse c.certificate <;> simp

theorem scanKeys_mem {verify : PK → Sig → Msg → Bool} {parse : Msg → Parsed Id}
    (c : SignedCert Sig Msg) (ks : List PK) (acc r : Scan PK Sig Msg Id)
    (h : scanKeys verify parse c ks acc = .ok r) (p : Parsed Id) :
    p ∈ r.valid ↔ p ∈ acc.valid ∨ ∃ k ∈ ks, contributes verify parse k c p := by
  induction ks generalizing acc with
  | nil => simp [scanKeys] at h; subst h; simp
  | cons k ks ih =>
    unfold scanKeys at h
    split at h
    · simp at h
    · rename_i q hq
      rw [ih _ h]
      have hq' := validateCert_some.mp hq
      simp only [List.mem_append, List.mem_cons, List.not_mem_nil, or_false, exists_eq_or_imp]
      constructor
      · rintro ((h1 | h1) | h1)
        · exact Or.inl h1
        · subst h1; exact Or.inr (Or.inl hq')
        · exact Or.inr (Or.inr h1)
      · rintro (h1 | h1 | h1)
        · exact Or.inl (Or.inl h1)
        · obtain ⟨_, hp, _, _⟩ := h1
          obtain ⟨_, hp', _, _⟩ := hq'
          exact Or.inl (Or.inr (hp.symm.trans hp'))
        · exact Or.inr h1
    · rename_i hq
      rw [ih _ h]
      simp only [List.mem_cons, exists_eq_or_imp]
      constructor
      · rintro (h1 | h1)
        · exact Or.inl h1
        · exact Or.inr (Or.inr h1)
      · rintro (h1 | h1 | h1)
        · exact Or.inl h1
        · have := validateCert_some.mpr h1
          rw [hq] at this; simp at this
        · exact Or.inr h1

theorem scanCerts_mem {verify : PK → Sig → Msg → Bool} {parse : Msg → Parsed Id}
    (keys : List PK) (cs : List (SignedCert Sig Msg)) (acc r : Scan PK Sig Msg Id)
    (h : scanCerts verify parse keys cs acc = .ok r) (p : Parsed Id) :
    p ∈ r.valid ↔ p ∈ acc.valid ∨ ∃ c ∈ cs, ∃ k ∈ keys, contributes verify parse k c p := by
  induction cs generalizing acc with
  | nil => simp [scanCerts] at h; subst h; simp
  | cons c cs ih =>
    unfold scanCerts at h
    split at h
    · simp at h
    · rename_i acc' hacc
      rw [ih _ h, scanKeys_mem c keys acc acc' hacc]
      simp only [List.mem_cons, exists_eq_or_imp]
      constructor
      · rintro ((h1 | h1) | h1)
        · exact Or.inl h1
        · exact Or.inr (Or.inl h1)
        · exact Or.inr (Or.inr h1)
      · rintro (h1 | h1 | h1)
        · exact Or.inl (Or.inl h1)
        · exact Or.inl (Or.inr h1)
        · exact Or.inr h1

theorem scanKeys_ok {verify : PK → Sig → Msg → Bool} {parse : Msg → Parsed Id}
    (c : SignedCert Sig Msg) (ks : List PK) (acc : Scan PK Sig Msg Id)
    (hwf : ∀ k ∈ ks, verify k c.signature c.certificate = true → parse c.certificate ≠ .invalid) :
    ∃ r, scanKeys verify parse c ks acc = .ok r := by
  induction ks generalizing acc with
  | nil => exact ⟨acc, rfl⟩
  | cons k ks ih =>
    unfold scanKeys
    split
    · rename_i e he
      have := validateCert_error he
      exact absurd this.2 (hwf k (List.mem_cons_self) this.1)
    · exact ih _ (fun k' hk' => hwf k' (List.mem_cons_of_mem _ hk'))
    · exact ih _ (fun k' hk' => hwf k' (List.mem_cons_of_mem _ hk'))

theorem scanCerts_ok {verify : PK → Sig → Msg → Bool} {parse : Msg → Parsed Id}
    (keys : List PK) (cs : List (SignedCert Sig Msg)) (acc : Scan PK Sig Msg Id)
    (hwf : ∀ c ∈ cs, ∀ k ∈ keys, verify k c.signature c.certificate = true →
      parse c.certificate ≠ .invalid) :
    ∃ r, scanCerts verify parse keys cs acc = .ok r := by
  induction cs generalizing acc with
  | nil => exact ⟨acc, rfl⟩
  | cons c cs ih =>
    unfold scanCerts
    obtain ⟨r, hr⟩ := scanKeys_ok (verify := verify) (parse := parse) c keys acc
      (hwf c List.mem_cons_self)
    rw [hr]
    exact ih _ (fun c' hc' => hwf c' (List.mem_cons_of_mem _ hc'))

/-- `validate()` answers `True` only on the strength of a stored certificate body that names the
    server and whose expiry compares strictly later than `now` (no well-formedness assumption). -/
theorem check_true [DecidableEq Id] (server : Id) (now : Time) (l : List (Parsed Id))
    (h : check server now l = .ok true) :
    ∃ t, Parsed.dict (.time t) (.ascii server) ∈ l ∧ expiresAfter t now = .ok true := by
  induction l with
  | nil => simp [check] at h
  | cons p rest ih =>
    cases p with
    | invalid => simp [check] at h
    | null => simp [check] at h
    | nonDict => simp [check] at h
    | dict e pk =>
      cases e with
      | absent => simp [check] at h
      | notStr => simp [check] at h
      | unparsable => simp [check] at h
      | time t =>
        cases pk with
        | absent => simp [check] at h
        | notStr => simp [check] at h
        | nonAscii => simp [check] at h
        | ascii id =>
          by_cases hid : id = server
          · subst hid
            cases hexp : expiresAfter t now with
            | error err => simp [check, hexp] at h
            | ok b =>
              cases b with
              | true => exact ⟨t, List.mem_cons_self, hexp⟩
              | false =>
                simp [check, hexp] at h
                obtain ⟨t', ht', he'⟩ := ih h
                exact ⟨t', List.mem_cons_of_mem _ ht', he'⟩
          · simp [check, hid] at h
            obtain ⟨t', ht', he'⟩ := ih h
            exact ⟨t', List.mem_cons_of_mem _ ht', he'⟩

/-- all stored bodies are objects with a timezone-aware expiry and an ASCII public key -/
def WellFormed (p : Parsed Id) : Prop := ∃ e id, p = .dict (.time (.aware e)) (.ascii id)

theorem check_wellformed [DecidableEq Id] (server : Id) (now : Int) (l : List (Parsed Id))
    (hwf : ∀ p ∈ l, WellFormed p) :
    (check server (.aware now) l = .ok true ∨ check server (.aware now) l = .ok false) ∧
    (check server (.aware now) l = .ok true ↔
      ∃ e, Parsed.dict (.time (.aware e)) (.ascii server) ∈ l ∧ now < e) := by
  induction l with
  | nil => simp [check]
  | cons p rest ih =>
    obtain ⟨e, id, hp⟩ := hwf p List.mem_cons_self
    subst hp
    have ih' := ih (fun q hq => hwf q (List.mem_cons_of_mem _ hq))
    by_cases hid : id = server
    · subst hid
      by_cases hlt : now < e
      · have : check id (.aware now) (Parsed.dict (.time (.aware e)) (.ascii id) :: rest) = .ok true := by
          simp [check, expiresAfter, hlt]
        rw [this]
        exact ⟨Or.inl rfl, ⟨fun _ => ⟨e, List.mem_cons_self, hlt⟩, fun _ => rfl⟩⟩
      · have : check id (.aware now) (Parsed.dict (.time (.aware e)) (.ascii id) :: rest)
            = check id (.aware now) rest := by
          simp [check, expiresAfter, hlt]
        rw [this]
        refine ⟨ih'.1, ih'.2.trans ?_⟩
        constructor
        · rintro ⟨e', he', hlt'⟩; exact ⟨e', List.mem_cons_of_mem _ he', hlt'⟩
        · rintro ⟨e', he', hlt'⟩
          rcases List.mem_cons.mp he' with h1 | h1
          · cases h1; exact absurd hlt' hlt
          · exact ⟨e', h1, hlt'⟩
    · have : check server (.aware now) (Parsed.dict (.time (.aware e)) (.ascii id) :: rest)
          = check server (.aware now) rest := by
        simp [check, hid]
      rw [this]
      refine ⟨ih'.1, ih'.2.trans ?_⟩
      constructor
      · rintro ⟨e', he', hlt'⟩; exact ⟨e', List.mem_cons_of_mem _ he', hlt'⟩
      · rintro ⟨e', he', hlt'⟩
        rcases List.mem_cons.mp he' with h1 | h1
        · cases h1; exact absurd rfl hid
        · exact ⟨e', h1, hlt'⟩

/-- the symbolic scheme satisfies the hypothesis used by the theorems -/
theorem symVerify_unforgeable :
    Unforgeable (SK := Nat) (PK := Nat) (Sig := SymSig) (Msg := Nat) id SymSig.signed symVerify where
  complete := by intro sk m; simp [symVerify]
  sound := by
    intro k s m h
    simp [symVerify] at h
    exact ⟨k, rfl, h⟩

end Tahoe.GridManager
