import Tahoe.Base.DrvUtil
import Tahoe.GridManager.Model
import Tahoe.StorageClient.Upload
/-! Token parsers shared by the drivers `Drv/C33.lean` and `Drv/C32.lean` (certificates, times,
    announced servers).  Token formats are documented at the head of `Drv/C33.lean`. Mathlib-free. -/
namespace Tahoe.GMDrv
open Tahoe.Drv Tahoe.GridManager Tahoe.StorageClient

def parseTime (s : String) : Option Time :=
  match s.toList with
  | 'a' :: r => (String.ofList r).toInt?.map Time.aware
  | 'n' :: r => (String.ofList r).toInt?.map Time.naive
  | _ => none

def parseSig (s : String) : Option SymSig :=
  match s.toList with
  | 's' :: r => match (String.ofList r).splitOn "_" with
    | [k, m] => do pure (SymSig.signed (← k.toNat?) (← m.toNat?))
    | _ => none
  | 'j' :: r => (String.ofList r).toNat?.map SymSig.junk
  | _ => none

def showSig : SymSig → String
  | .signed k m => s!"s{k}_{m}"
  | .junk n => s!"j{n}"

def parseExp (s : String) : Option JExpires :=
  if s == "A" then some .absent else if s == "S" then some .notStr
  else if s == "U" then some .unparsable else (parseTime s).map JExpires.time

def parsePk (s : String) : Option (JPubKey Nat) :=
  if s == "A" then some .absent else if s == "S" then some .notStr
  else if s == "U" then some .nonAscii else
  match s.toList with
  | 'k' :: r => (String.ofList r).toNat?.map JPubKey.ascii
  | _ => none

def parseParsed (s : String) : Option (Parsed Nat) :=
  if s == "I" then some .invalid else if s == "N" then some .null
  else if s == "O" then some .nonDict else
  match s.splitOn "." with
  | ["D", e, p] => do pure (.dict (← parseExp e) (← parsePk p))
  | _ => none

def parseCert (s : String) : Option (SignedCert SymSig Nat × Parsed Nat) :=
  match s.splitOn "/" with
  | [m, sg, p] => do pure (⟨← m.toNat?, ← parseSig sg⟩, ← parseParsed p)
  | _ => none

def hexToNat (s : String) : Option Nat :=
  s.toList.foldlM (fun acc c => (hexVal c).map (fun v => acc * 16 + v)) 0

/-- the groups `S <id> <connected 0|1> <sha1 hex> <cert>…` of an `offer` line -/
def splitServers (toks : List String) : List (List String) :=
  (toks.foldr (fun t acc => if t == "S" then [] :: acc else
    match acc with
    | [] => [[t]]
    | g :: gs => (t :: g) :: gs) [[]]).filter (fun g => !g.isEmpty)

def parseAnnounced (g : List String) :
    Option (Announcement SymSig Nat × List (SignedCert SymSig Nat × Parsed Nat)) :=
  match g with
  | i :: c :: h :: certs => do
      -- a certificate token `U` is an entry `SignedCertificate.load` cannot decode
      let ents ← certs.mapM (fun t => if t == "U" then some none else (parseCert t).map some)
      let conn ← (if c == "0" then some false else if c == "1" then some true else none)
      pure (⟨← i.toNat?, conn, ents.map (fun e => e.map (·.1)), ← hexToNat h⟩, ents.filterMap id)
  | _ => none

/-- `offer|hist <keys> <preferred> <forUpload 0|1> <time> S <id> <connected> <sha1> <cert|U>… S …`
    → ids of `get_servers_for_psi` at that time (`-` if none).  `offer` (history = false): the groups are
    first announcements of distinct servers (`serversAtA`); `hist` (history = true): the groups are the
    announcements in order of arrival, the same server id may re-announce (`serversAfter`). -/
def handleServers (history : Bool) : List String → String
  | keysT :: prefT :: fuT :: timeT :: rest =>
    match parseNatList keysT, parseNatList prefT, parseTime timeT, (splitServers rest).mapM parseAnnounced with
    | some keys, some pref, some now, some srvs =>
      if fuT != "0" && fuT != "1" then "bad-op" else
      if rest.head? != some "S" && !rest.isEmpty then "bad-op" else
      let table := srvs.flatMap (·.2)
      let parse : Nat → Parsed Nat := fun m =>
        match table.find? (fun cp => cp.1.certificate == m) with
        | some cp => cp.2
        | none => .invalid
      let l := srvs.map (·.1)
      let res := if history then serversAfter symVerify parse keys pref (fuT == "1") now l
                 else serversAtA symVerify parse keys pref (fuT == "1") now l
      let out := res.map (fun s => toString s.id)
      if out.isEmpty then "-" else ",".intercalate out
    | _, _, _, _ => "bad-op"
  | _ => "bad-op"


end Tahoe.GMDrv
