/-!
Model of `allmydata/grid_manager.py`: `validate_grid_manager_certificate` and
`create_grid_manager_verifier` (the part of the grid-manager machinery that decides whether a
storage server is permitted for uploads).  Mathlib-free; executable (used by `Drv/C33.lean`).

What is abstract:
* Ed25519 is a parameter `verify : PK → Sig → Msg → Bool` (`ed25519.verify_signature` raising
  `BadSignature` = `false`).  `Unforgeable` is the explicit hypothesis used by the theorems;
  `symVerify` is a symbolic instance satisfying it (and the one the driver runs).
* `json.loads`, `datetime.fromisoformat` and `str.encode('ascii')` are a parameter
  `parse : Msg → Parsed Id` that classifies the certificate bytes by exactly the distinctions the
  code makes (which exception which access raises, or the values read).
* Datetimes are `Time`: an integer count of microseconds, tagged timezone-aware or naive
  (Python refuses to order an aware and a naive datetime: `TypeError`).
-/
namespace Tahoe.GridManager

/-- exception classes that can escape the modelled functions -/
inductive Err
  | json     -- `json.loads(alleged_cert.certificate)` raised (after the signature verified)
  | key      -- KeyError: `cert["expires"]` / `cert["public_key"]` missing
  | type     -- TypeError: subscripting a non-dict, `fromisoformat(non-str)`, aware-vs-naive `>`
  | value    -- ValueError: `datetime.fromisoformat` rejects the string
  | attr     -- AttributeError: `cert['public_key']` is not a `str` (no `.encode`)
  | unicode  -- UnicodeEncodeError: `cert['public_key'].encode('ascii')`
  deriving DecidableEq, Repr

inductive Time
  | naive (t : Int)
  | aware (t : Int)
  deriving DecidableEq, Repr

/-- what `datetime.fromisoformat(cert["expires"])` does -/
inductive JExpires
  | absent        -- no such key (KeyError)
  | notStr        -- value is not a string (TypeError)
  | unparsable    -- string is not ISO-8601 (ValueError)
  | time (t : Time)
  deriving DecidableEq, Repr

/-- what `cert['public_key'].encode('ascii')` does -/
inductive JPubKey (Id : Type)
  | absent        -- KeyError
  | notStr        -- AttributeError
  | nonAscii      -- UnicodeEncodeError
  | ascii (id : Id)
  deriving DecidableEq, Repr

/-- what `json.loads(certificate_bytes)` gives -/
inductive Parsed (Id : Type)
  | invalid                                   -- not JSON / not UTF-8: raises
  | null                                      -- JSON `null` → Python `None`
  | nonDict                                   -- list, number, string, boolean
  | dict (e : JExpires) (p : JPubKey Id)      -- an object; the two fields the verifier reads
  deriving DecidableEq, Repr

/-- `SignedCertificate(certificate: bytes, signature: bytes)` -/
structure SignedCert (Sig Msg : Type) where
  certificate : Msg
  signature : Sig
  deriving DecidableEq, Repr

section
variable {PK Sig Msg Id : Type}

/-- `validate_grid_manager_certificate(gm_key, alleged_cert)`: `none` = returns `None`
    (bad signature — or a correctly signed JSON `null`, which `json.loads` turns into `None`).
    The certificate is parsed only after the signature verified. -/
def validateCert (verify : PK → Sig → Msg → Bool) (parse : Msg → Parsed Id)
    (k : PK) (c : SignedCert Sig Msg) : Except Err (Option (Parsed Id)) :=
  if verify k c.signature c.certificate then
    match parse c.certificate with
    | .invalid => .error .json
    | .null => .ok none
    | p => .ok (some p)
  else .ok none

/-- accumulator of the double loop: `valid_certs` and the `bad_cert(key, alleged_cert)` calls -/
structure Scan (PK Sig Msg Id : Type) where
  valid : List (Parsed Id)
  bad : List (PK × SignedCert Sig Msg)

/-- inner loop `for key in keys:` for one certificate -/
def scanKeys (verify : PK → Sig → Msg → Bool) (parse : Msg → Parsed Id) (c : SignedCert Sig Msg) :
    List PK → Scan PK Sig Msg Id → Except Err (Scan PK Sig Msg Id)
  | [], acc => .ok acc
  | k :: ks, acc =>
    match validateCert verify parse k c with
    | .error e => .error e
    | .ok (some p) => scanKeys verify parse c ks { acc with valid := acc.valid ++ [p] }
    | .ok none => scanKeys verify parse c ks { acc with bad := acc.bad ++ [(k, c)] }

/-- outer loop `for alleged_cert in certs:` -/
def scanCerts (verify : PK → Sig → Msg → Bool) (parse : Msg → Parsed Id) (keys : List PK) :
    List (SignedCert Sig Msg) → Scan PK Sig Msg Id → Except Err (Scan PK Sig Msg Id)
  | [], acc => .ok acc
  | c :: cs, acc =>
    match scanKeys verify parse c keys acc with
    | .error e => .error e
    | .ok acc' => scanCerts verify parse keys cs acc'

/-- `expires > now` on Python datetimes -/
def expiresAfter : Time → Time → Except Err Bool
  | .aware e, .aware n => .ok (decide (e > n))
  | .naive e, .naive n => .ok (decide (e > n))
  | _, _ => .error .type

/-- body of the closure `validate()` once `now = now_fn()` is known: the loop over `valid_certs`.
    Order of evaluation as in the code: `fromisoformat(cert["expires"])`, then
    `cert['public_key'].encode('ascii')`, then `pc == public_key`, and only then `expires > now`. -/
def check [DecidableEq Id] (server : Id) (now : Time) : List (Parsed Id) → Except Err Bool
  | [] => .ok false
  | .dict e pk :: rest =>
    match e with
    | .absent => .error .key
    | .notStr => .error .type
    | .unparsable => .error .value
    | .time t =>
      match pk with
      | .absent => .error .key
      | .notStr => .error .attr
      | .nonAscii => .error .unicode
      | .ascii id =>
        if id = server then
          match expiresAfter t now with
          | .error err => .error err
          | .ok true => .ok true
          | .ok false => check server now rest
        else check server now rest
  | _ :: _ => .error .type      -- `cert["expires"]` on a list / number / string / boolean

/-- `create_grid_manager_verifier(keys, certs, public_key, now_fn)`: the outer `Except` is an
    exception while the verifier is being created, the returned function is `validate` with the
    value of `now_fn()` as argument.  `valid_certs` is computed once, here. -/
def verifier [DecidableEq Id] (verify : PK → Sig → Msg → Bool) (parse : Msg → Parsed Id)
    (keys : List PK) (certs : List (SignedCert Sig Msg)) (server : Id) :
    Except Err (Time → Except Err Bool) :=
  if keys.isEmpty then .ok (fun _ => .ok true)     -- `if not keys: return lambda: True`
  else
    match scanCerts verify parse keys certs ⟨[], []⟩ with
    | .error e => .error e
    | .ok s => .ok (fun now => check server now s.valid)

end

/-! ### The cryptographic hypothesis and a symbolic instance -/

/-- "verification succeeds only for signatures produced with the matching key":
    `sign sk m` verifies under `pub sk` for `m`, and nothing else verifies. -/
structure Unforgeable {SK PK Sig Msg : Type} (pub : SK → PK) (sign : SK → Msg → Sig)
    (verify : PK → Sig → Msg → Bool) : Prop where
  complete : ∀ sk m, verify (pub sk) (sign sk m) m = true
  sound : ∀ k s m, verify k s m = true → ∃ sk, pub sk = k ∧ s = sign sk m

/-- symbolic signatures: a free constructor for honest signatures, plus junk -/
inductive SymSig
  | signed (sk : Nat) (m : Nat)
  | junk (n : Nat)
  deriving DecidableEq, Repr

/-- symbolic Ed25519: secret key `n` has public key `n`; `sign = SymSig.signed` -/
def symVerify (k : Nat) (s : SymSig) (m : Nat) : Bool := s == SymSig.signed k m

end Tahoe.GridManager
