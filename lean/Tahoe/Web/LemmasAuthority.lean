import Tahoe.Web.Authority
/-! Helper lemmas for C41 (`Tahoe/Props/C41.lean`): read-only-ness is inherited along paths, every
modifying node method refuses a read-only handle without touching the grid, the traversal keeps the
"nothing writeable in reach" invariant, and every render method refuses under it. -/
namespace Tahoe.Web

/-- result `x` is a refusal that left the grid `g` untouched -/
def Refd {α : Type} (x : Grid × R α) (g : Grid) : Prop := x.1 = g ∧ x.2.refused = true

theorem refd_err {α : Type} (g : Grid) (e : Err) : Refd ((g, .err e) : Grid × R α) g := ⟨rfl, rfl⟩

/-! ### inheritance of read-only-ness -/

theorem childHandle_ro (g : Grid) (p : Handle) (l : Link) (h : p.w = false) :
    (childHandle g p l).w = false := by
  simp [childHandle, h]

theorem getChild?_ro {g : Grid} {h c : Handle} {n : Nat} (hw : h.w = false)
    (hc : getChild? g h n = some c) : c.w = false := by
  unfold getChild? at hc
  cases hl : lookup (entriesOf g h.addr) n with
  | none => simp [hl] at hc
  | some l =>
    simp [hl] at hc
    rw [← hc]; exact childHandle_ro g h l hw

theorem resolve_ro {g : Grid} {path : List Nat} : ∀ {h c : Handle}, h.w = false →
    resolve g h path = some c → c.w = false := by
  induction path with
  | nil => intro h c hw hr; simp [resolve] at hr; rw [← hr]; exact hw
  | cons n rest ih =>
    intro h c hw hr
    simp only [resolve] at hr
    cases hc : getChild? g h n with
    | none => simp [hc] at hr
    | some c1 =>
      simp only [hc] at hr
      exact ih (getChild?_ro hw hc) hr

/-! ### node methods on a read-only handle -/

theorem backingModify_ro (g : Grid) (h : Handle) (f) (hw : h.w = false) :
    Refd (backingModify g h f) g := by
  unfold backingModify
  cases g[h.addr]? with
  | none => exact refd_err g _
  | some o =>
    simp only
    by_cases hm : o.kind.isMutable = true
    · simp [hm, hw]; exact refd_err g _
    · simp [hm]; exact refd_err g _

theorem setNode_ro (g : Grid) (h : Handle) (n : Nat) (c : Handle) (ow : Repl) (hw : h.w = false) :
    setNode g h n c ow = (g, .err .notWriteable) := by
  simp [setNode, hw]

theorem deleteChild_ro (g : Grid) (h : Handle) (n : Nat) (hw : h.w = false) :
    deleteChild g h n = (g, .err .notWriteable) := by
  simp [deleteChild, hw]

theorem deleteMissing_ro (g : Grid) (h : Handle) (hw : h.w = false) :
    deleteMissing g h = (g, .err .notWriteable) := by
  simp [deleteMissing, hw]

theorem addFile_ro (g : Grid) (h : Handle) (n : Nat) (ow : Repl) (hw : h.w = false) :
    addFile g h n ow = (g, .err .notWriteable) := by
  simp [addFile, hw]

theorem createSubdirectory_ro (g : Grid) (h : Handle) (n : Nat) (kids) (m : Bool) (ow : Repl)
    (hw : h.w = false) : createSubdirectory g h n kids m ow = (g, .err .notWriteable) := by
  simp [createSubdirectory, hw]

theorem moveChildTo_ro (g : Grid) (h : Handle) (n : Nat) (np : Handle) (nn : Nat) (ow : Repl)
    (hw : h.w = false ∨ np.w = false) : moveChildTo g h n np nn ow = (g, .err .notWriteable) := by
  rcases hw with hw | hw <;> simp [moveChildTo, hw]

theorem setChildren_ro (g : Grid) (h : Handle) (kids) (ow : Repl) (hw : h.w = false) :
    Refd (setChildren g h kids ow) g := by
  unfold setChildren
  split
  · exact refd_err g _
  · exact backingModify_ro g h _ hw

theorem setUri_ro (g : Grid) (h : Handle) (n : Nat) (c : Cap) (ow : Repl) (hw : h.w = false) :
    Refd (setUri g h n c ow) g := by
  unfold setUri
  split
  · exact refd_err g _
  · split
    · exact refd_err g _
    · rw [setNode_ro g h n _ ow hw]; exact refd_err g _

theorem overwrite_ro (g : Grid) (h : Handle) (hw : h.w = false) : Refd (overwrite g h) g := by
  unfold overwrite
  cases g[h.addr]? with
  | none => exact refd_err g _
  | some o => simp [hw]; exact refd_err g _

/-! ### handlers -/

/-- nothing writeable is in reach of the handler: its node is read-only and so is the parent
directory it would have to change (if it has one) -/
def HRO : Handler → Prop
  | .dir n p => n.w = false ∧ ∀ pp nm, p = some (pp, nm) → pp.w = false
  | .file n p => n.w = false ∧ ∀ pp nm, p = some (pp, nm) → pp.w = false
  | .placeholder p _ => p.w = false
  | .unknown => True
  | .errorPage _ => True

/-- the handler's own node is read-only (its parent may be writeable) -/
def NodeRO : Handler → Prop
  | .dir n _ => n.w = false
  | _ => True

theorem HRO.nodeRO {hd : Handler} (h : HRO hd) : NodeRO hd := by
  cases hd <;> simp_all [HRO, NodeRO]

theorem makeHandlerFor_hro (g : Grid) (c p : Handle) (n : Nat) (hc : c.w = false) (hp : p.w = false) :
    HRO (makeHandlerFor g c (some (p, n))) := by
  unfold makeHandlerFor
  cases kindOf g c.addr with
  | none => simp [HRO]
  | some k =>
    simp only
    split
    · refine ⟨hc, ?_⟩; intro pp nm h; cases h; exact hp
    · refine ⟨hc, ?_⟩; intro pp nm h; cases h; exact hp

theorem rootHandler_hro (g : Grid) (c : Cap) (h : (capHandle g c).w = false) : HRO (rootHandler g c) := by
  unfold rootHandler
  split
  · simp [HRO]
  · unfold makeHandlerFor
    cases kindOf g (capHandle g c).addr with
    | none => simp [HRO]
    | some k =>
      simp only
      split <;> exact ⟨h, by intro pp nm hh; cases hh⟩

/-- a `getChild` step from a handler whose node is read-only: nothing changes, and the next handler
has nothing writeable in reach -/
theorem stepSeg_ro (g : Grid) (hd : Handler) (n : Nat) (term : Bool) (r : Req) (h : NodeRO hd) :
    (stepSeg g hd n term r).1 = g ∧
    ((stepSeg g hd n term r).2.refused = true ∨ ∃ hd', (stepSeg g hd n term r).2 = .ok hd' ∧ HRO hd') := by
  cases hd with
  | dir node parent =>
    have hw : node.w = false := h
    unfold stepSeg
    simp only
    cases hc : getChild? g node n with
    | none =>
      simp only [createSubdirectory_ro g node n _ _ _ hw]
      by_cases h1 : term = true
      · by_cases h2 : terminalMkdir r = true
        · simp [h1, h2, R.refused]
        · by_cases h3 : (r.meth == .put && (r.t == .none || r.t == .uri)) = true
          · simp only [h1, h2, h3]
            refine ⟨by simp, Or.inr ⟨.placeholder node n, by simp, hw⟩⟩
          · simp [h1, h2, h3, R.refused]
      · by_cases h2 : shouldCreate r = true
        · simp [h1, h2, R.refused]
        · simp [h1, h2, R.refused]
    | some ch =>
      have hcw := getChild?_ro hw hc
      simp only
      split
      · exact ⟨rfl, Or.inr ⟨_, rfl, trivial⟩⟩
      · exact ⟨rfl, Or.inr ⟨_, rfl, makeHandlerFor_hro g ch node n hcw hw⟩⟩
  | file node parent => exact ⟨rfl, Or.inr ⟨_, rfl, trivial⟩⟩
  | placeholder p nm => exact ⟨rfl, Or.inr ⟨_, rfl, trivial⟩⟩
  | unknown => exact ⟨rfl, Or.inr ⟨_, rfl, trivial⟩⟩
  | errorPage e => exact ⟨rfl, Or.inr ⟨_, rfl, trivial⟩⟩

/-- the traversal from a handler whose node is read-only -/
theorem traverse_ro (r : Req) (last : Nat) (path : List Nat) : ∀ (g : Grid) (hd : Handler), NodeRO hd →
    (path ≠ [] ∨ HRO hd) →
    (traverse g hd r last path).1 = g ∧
    ((traverse g hd r last path).2.refused = true ∨
      ∃ hd', (traverse g hd r last path).2 = .ok hd' ∧ HRO hd') := by
  induction path with
  | nil =>
    intro g hd _ h2
    rcases h2 with h2 | h2
    · exact absurd rfl h2
    · exact ⟨rfl, Or.inr ⟨hd, rfl, h2⟩⟩
  | cons n rest ih =>
    intro g hd h1 _
    have hs := stepSeg_ro g hd n (n == last) r h1
    unfold traverse
    rcases hres : stepSeg g hd n (n == last) r with ⟨g1, res⟩
    rw [hres] at hs
    simp only at hs
    obtain ⟨hg, hor⟩ := hs
    subst hg
    cases res with
    | err e => exact ⟨rfl, Or.inl rfl⟩
    | ok hd1 =>
      simp only
      rcases hor with hor | ⟨hd', heq, hro⟩
      · simp [R.refused] at hor
      · cases heq
        exact ih g1 hd1 hro.nodeRO (Or.inr hro)

/-! ### the handler tracks path resolution while the path exists -/

/-- the handler is for node `h` (whatever its parent), or it is a dead end -/
def Tracks (hd : Handler) (h : Handle) : Prop :=
  (∃ p, hd = .dir h p) ∨ (∃ p, hd = .file h p) ∨ hd = .unknown ∨ (∃ e, hd = .errorPage e) ∨
    (∃ p n, hd = .placeholder p n)

theorem tracks_nodeRO {hd : Handler} {h : Handle} (t : Tracks hd h) (hw : h.w = false) : NodeRO hd := by
  rcases t with ⟨p, rfl⟩ | ⟨p, rfl⟩ | rfl | ⟨e, rfl⟩ | ⟨p, n, rfl⟩ <;> simp [NodeRO, hw]

theorem makeHandlerFor_tracks (g : Grid) (c : Handle) (p) : Tracks (makeHandlerFor g c p) c := by
  unfold makeHandlerFor
  cases kindOf g c.addr with
  | none => exact Or.inr (Or.inr (Or.inl rfl))
  | some k =>
    simp only
    split
    · exact Or.inl ⟨p, rfl⟩
    · exact Or.inr (Or.inl ⟨p, rfl⟩)

/-- a step along an existing child keeps the grid and keeps tracking -/
theorem stepSeg_tracks (g : Grid) (hd : Handler) (h c : Handle) (n : Nat) (term : Bool) (r : Req)
    (t : Tracks hd h) (hc : getChild? g h n = some c) :
    ∃ hd1, stepSeg g hd n term r = (g, .ok hd1) ∧ Tracks hd1 c := by
  rcases t with ⟨p, rfl⟩ | ⟨p, rfl⟩ | rfl | ⟨e, rfl⟩ | ⟨p, m, rfl⟩
  · unfold stepSeg
    simp only [hc]
    split
    · exact ⟨_, rfl, Or.inr (Or.inr (Or.inr (Or.inl ⟨_, rfl⟩)))⟩
    · exact ⟨_, rfl, makeHandlerFor_tracks g c _⟩
  · exact ⟨_, rfl, Or.inr (Or.inr (Or.inr (Or.inl ⟨_, rfl⟩)))⟩
  · exact ⟨_, rfl, Or.inr (Or.inr (Or.inr (Or.inl ⟨_, rfl⟩)))⟩
  · exact ⟨_, rfl, Or.inr (Or.inr (Or.inr (Or.inl ⟨_, rfl⟩)))⟩
  · exact ⟨_, rfl, Or.inr (Or.inr (Or.inr (Or.inl ⟨_, rfl⟩)))⟩

/-- the traversal of `pre ++ post` where `pre` resolves (by plain `get`s) to a read-only node and at
least one more segment follows -/
theorem traverse_through (r : Req) (last : Nat) (post : List Nat) (hpost : post ≠ []) (g : Grid)
    (hdl : Handle) (hro : hdl.w = false) (pre : List Nat) :
    ∀ (hd : Handler) (h : Handle), Tracks hd h → resolve g h pre = some hdl →
    (traverse g hd r last (pre ++ post)).1 = g ∧
    ((traverse g hd r last (pre ++ post)).2.refused = true ∨
      ∃ hd', (traverse g hd r last (pre ++ post)).2 = .ok hd' ∧ HRO hd') := by
  induction pre with
  | nil =>
    intro hd h t hr
    simp only [resolve, Option.some.injEq] at hr
    subst hr
    exact traverse_ro r last post g hd (tracks_nodeRO t hro) (Or.inl hpost)
  | cons n rest ih =>
    intro hd h t hr
    simp only [resolve] at hr
    cases hc : getChild? g h n with
    | none => simp [hc] at hr
    | some c =>
      simp only [hc] at hr
      obtain ⟨hd1, hs, t1⟩ := stepSeg_tracks g hd h c n (n == last) r t hc
      simp only [List.cons_append, traverse, hs]
      exact ih hd1 c t1 hr

theorem rootHandler_tracks (g : Grid) (c : Cap) : Tracks (rootHandler g c) (capHandle g c) := by
  unfold rootHandler
  split
  · exact Or.inr (Or.inr (Or.inl rfl))
  · exact makeHandlerFor_tracks g _ _

/-! ### render methods under `HRO` -/

theorem replaceWithUpload_ro (g : Grid) (p : Handle) (n : Nat) (r : Req) (hp : p.w = false) :
    Refd (replaceWithUpload true g p n r) g := by
  unfold replaceWithUpload
  split
  · simp [hp]; exact refd_err g _
  · rw [addFile_ro g p n _ hp]; exact refd_err g _

theorem replaceWithCap_ro (g : Grid) (p : Handle) (n : Nat) (r : Req) (hp : p.w = false) :
    Refd (replaceWithCap g p n r) g := by
  unfold replaceWithCap
  split
  · exact refd_err g _
  · rw [setNode_ro g p n _ _ hp]; exact refd_err g _

theorem renderPlaceholder_ro (g : Grid) (p : Handle) (n : Nat) (r : Req) (hp : p.w = false) :
    Refd (renderPlaceholder true g p n r) g := by
  unfold renderPlaceholder
  split
  · exact replaceWithUpload_ro g p n r hp
  · exact replaceWithCap_ro g p n r hp
  · exact refd_err g _
  · split
    · exact refd_err g _
    · split
      · exact replaceWithUpload_ro g p n r hp
      · exact refd_err g _
  · exact refd_err g _

theorem withParent_ro (g : Grid) (parent : Option (Handle × Nat)) (e : Err) (k)
    (hp : ∀ pp nm, parent = some (pp, nm) → pp.w = false)
    (hk : ∀ p n, p.w = false → Refd (k p n) g) : Refd (withParent g parent e k) g := by
  unfold withParent
  cases parent with
  | none => exact refd_err g _
  | some pn =>
    obtain ⟨p, n⟩ := pn
    exact hk p n (hp p n rfl)

theorem renderFile_ro (g : Grid) (node : Handle) (parent) (r : Req)
    (h : HRO (.file node parent)) : Refd (renderFile true g node parent r) g := by
  obtain ⟨hn, hp⟩ := h
  unfold renderFile
  split
  · split
    · exact refd_err g _
    · split
      · simp [hn]; exact refd_err g _
      · split
        · exact refd_err g _
        · exact withParent_ro g parent _ _ hp (fun p n hpw => replaceWithUpload_ro g p n r hpw)
  · split
    · exact refd_err g _
    · exact withParent_ro g parent _ _ hp (fun p n hpw => replaceWithCap_ro g p n r hpw)
  · exact refd_err g _
  · split
    · exact refd_err g _
    · split
      · split
        · exact overwrite_ro g node hn
        · split
          · exact refd_err g _
          · exact withParent_ro g parent _ _ hp (fun p n hpw => replaceWithUpload_ro g p n r hpw)
      · exact refd_err g _
  · exact withParent_ro g parent _ _ hp
      (fun p n hpw => by rw [deleteChild_ro g p n hpw]; exact refd_err g _)

theorem dirPostUpload_ro (g : Grid) (r : Req) (n : Nat) : ∀ (fuel : Nat) (node : Handle),
    node.w = false → Refd (dirPostUpload true g r n fuel node) g := by
  intro fuel
  induction fuel with
  | zero => intro node _; exact refd_err g _
  | succ k ih =>
    intro node hw
    unfold dirPostUpload
    cases hc : getChild? g node n with
    | none => exact renderPlaceholder_ro g node n r hw
    | some ch =>
      have hcw := getChild?_ro hw hc
      simp only
      have hh := makeHandlerFor_hro g ch node n hcw hw
      cases hm : makeHandlerFor g ch (some (node, n)) with
      | file fnode fparent => rw [hm] at hh; exact renderFile_ro g fnode fparent r hh
      | dir dnode dp => rw [hm] at hh; exact ih dnode hh.1
      | placeholder _ _ => exact refd_err g _
      | unknown => exact refd_err g _
      | errorPage _ => exact refd_err g _

theorem okUnit_refd {g : Grid} {x : Grid × R Handle} (h : Refd x g) : Refd (okUnit x) g := by
  obtain ⟨g1, res⟩ := x
  obtain ⟨h1, h2⟩ := h
  cases res with
  | ok a => simp [R.refused] at h2
  | err e => exact ⟨h1, rfl⟩

/-- a directory handler with nothing writeable in reach: unchanged, and refused unless the request is
of the "already done" mkdir form -/
theorem renderDir_gen (g : Grid) (node : Handle) (parent) (r : Req) (hn : node.w = false)
    (hp' : r.meth = .post ∨ ∀ pp nm, parent = some (pp, nm) → pp.w = false) :
    (renderDir true g node parent r).1 = g ∧
    ((renderDir true g node parent r).2.refused = true ∨ r.alreadyDoneForm = true) := by
  have key : ∀ x : Grid × R Unit, Refd x g → x.1 = g ∧ (x.2.refused = true ∨ r.alreadyDoneForm = true) :=
    fun x hx => ⟨hx.1, Or.inl hx.2⟩
  unfold renderDir
  split
  · rename_i hm
    rcases hp' with hpost | hp
    · rw [hpost] at hm; cases hm
    · exact key _ (withParent_ro g parent _ _ hp
        (fun p n hpw => by rw [deleteChild_ro g p n hpw]; exact refd_err g _))
  · rename_i hm ht
    exact ⟨rfl, Or.inr (by simp [Req.alreadyDoneForm, hm, ht])⟩
  · rename_i hm ht
    rcases hp' with hpost | hp
    · rw [hpost] at hm; cases hm
    · split
      · exact key _ (refd_err g _)
      · exact key _ (withParent_ro g parent _ _ hp (fun p n hpw => replaceWithCap_ro g p n r hpw))
  · exact key _ (refd_err g _)
  · rename_i hm ht
    split
    · rename_i hnm
      exact ⟨rfl, Or.inr (by simp [Req.alreadyDoneForm, hm, ht, hnm])⟩
    · split
      · exact key _ (refd_err g _)
      · rw [createSubdirectory_ro g node _ _ _ _ hn]; exact key _ (refd_err g _)
  · rename_i hm ht
    split
    · rename_i hnm
      exact ⟨rfl, Or.inr (by simp [Req.alreadyDoneForm, hm, ht, hnm])⟩
    · rw [createSubdirectory_ro g node _ _ _ _ hn]; exact key _ (refd_err g _)
  · rename_i hm ht
    split
    · rename_i hnm
      exact ⟨rfl, Or.inr (by simp [Req.alreadyDoneForm, hm, ht, hnm])⟩
    · rw [createSubdirectory_ro g node _ _ _ _ hn]; exact key _ (refd_err g _)
  · split
    · exact key _ (refd_err g _)
    · exact key _ (dirPostUpload_ro g r _ _ node hn)
  · split
    · exact key _ (setUri_ro g node _ _ _ hn)
    · exact key _ (refd_err g _)
  · split
    · rw [deleteMissing_ro g node hn]; exact key _ (refd_err g _)
    · rw [deleteChild_ro g node _ hn]; exact key _ (refd_err g _)
  · split
    · rw [deleteMissing_ro g node hn]; exact key _ (refd_err g _)
    · rw [deleteChild_ro g node _ hn]; exact key _ (refd_err g _)
  · split
    · rw [moveChildTo_ro g node _ node _ _ (Or.inl hn)]; exact key _ (refd_err g _)
    · exact key _ (refd_err g _)
  · split
    · exact key _ (refd_err g _)
    · simp only
      split
      · rw [moveChildTo_ro g node _ node _ _ (Or.inl hn)]; exact key _ (refd_err g _)
      · split
        · exact key _ (refd_err g _)
        · split
          · exact key _ (refd_err g _)
          · split
            · exact key _ (refd_err g _)
            · rw [moveChildTo_ro g node _ _ _ _ (Or.inl hn)]; exact key _ (refd_err g _)
  · exact key _ (setChildren_ro g node _ _ hn)
  · exact key _ (refd_err g _)

theorem renderDir_ro (g : Grid) (node : Handle) (parent) (r : Req) (h : HRO (.dir node parent)) :
    (renderDir true g node parent r).1 = g ∧
    ((renderDir true g node parent r).2.refused = true ∨ r.alreadyDoneForm = true) :=
  renderDir_gen g node parent r h.1 (Or.inr h.2)

theorem render_ro (g : Grid) (hd : Handler) (r : Req) (h : HRO hd) :
    (render true g hd r).1 = g ∧
    ((render true g hd r).2.refused = true ∨ r.alreadyDoneForm = true) := by
  cases hd with
  | dir node parent => exact renderDir_ro g node parent r h
  | file node parent => exact ⟨(renderFile_ro g node parent r h).1, Or.inl (renderFile_ro g node parent r h).2⟩
  | placeholder p n => exact ⟨(renderPlaceholder_ro g p n r h).1, Or.inl (renderPlaceholder_ro g p n r h).2⟩
  | unknown => exact ⟨rfl, Or.inl rfl⟩
  | errorPage e => exact ⟨rfl, Or.inl rfl⟩

/-- from the traversal's outcome to the whole request -/
theorem serve_of_traverse (g : Grid) (c : Cap) (path : List Nat) (r : Req)
    (ht : (traverse g (rootHandler g c) r (path.getLast?.getD 0) path).1 = g ∧
      ((traverse g (rootHandler g c) r (path.getLast?.getD 0) path).2.refused = true ∨
        ∃ hd', (traverse g (rootHandler g c) r (path.getLast?.getD 0) path).2 = .ok hd' ∧ HRO hd')) :
    (serve true g c path r).1 = g ∧
    ((serve true g c path r).2.refused = true ∨ r.alreadyDoneForm = true) := by
  unfold serve
  rcases htr : traverse g (rootHandler g c) r (path.getLast?.getD 0) path with ⟨g1, res⟩
  rw [htr] at ht
  obtain ⟨hg, hor⟩ := ht
  simp only at hg
  subst hg
  cases res with
  | err e => exact ⟨rfl, Or.inl rfl⟩
  | ok hd =>
    rcases hor with hor | ⟨hd', heq, hro⟩
    · simp [R.refused] at hor
    · cases heq
      exact render_ro g1 hd r hro

/-! ### the addressed node itself is reached read-only (its parent may be writeable) -/

/-- dead-end handlers -/
def Dead (hd : Handler) : Prop :=
  hd = .unknown ∨ (∃ e, hd = .errorPage e)

/-- the handler is the one `make_handler_for` builds for node `h`, or a dead end -/
def TracksK (g : Grid) (hd : Handler) (h : Handle) : Prop :=
  (∃ p, hd = makeHandlerFor g h p) ∨ Dead hd

theorem stepSeg_dead (g : Grid) (hd : Handler) (n : Nat) (term : Bool) (r : Req) (h : Dead hd) :
    ∃ hd1, stepSeg g hd n term r = (g, .ok hd1) ∧ Dead hd1 := by
  rcases h with rfl | ⟨e, rfl⟩ <;> exact ⟨_, rfl, Or.inr ⟨_, rfl⟩⟩

theorem stepSeg_tracksK (g : Grid) (hd : Handler) (h c : Handle) (n : Nat) (term : Bool) (r : Req)
    (t : TracksK g hd h) (hc : getChild? g h n = some c) :
    ∃ hd1, stepSeg g hd n term r = (g, .ok hd1) ∧ TracksK g hd1 c := by
  rcases t with ⟨p, rfl⟩ | hdead
  · unfold makeHandlerFor
    cases kindOf g h.addr with
    | none => exact ⟨_, rfl, Or.inr (Or.inr ⟨_, rfl⟩)⟩
    | some k =>
      simp only
      split
      · unfold stepSeg
        simp only [hc]
        split
        · exact ⟨_, rfl, Or.inr (Or.inr ⟨_, rfl⟩)⟩
        · exact ⟨_, rfl, Or.inl ⟨_, rfl⟩⟩
      · exact ⟨_, rfl, Or.inr (Or.inr ⟨_, rfl⟩)⟩
  · obtain ⟨hd1, hs, hd⟩ := stepSeg_dead g hd n term r hdead
    exact ⟨hd1, hs, Or.inr hd⟩

/-- along a path that resolves, the traversal changes nothing and ends at the handler of the resolved node -/
theorem traverse_tracksK (r : Req) (last : Nat) (g : Grid) (path : List Nat) :
    ∀ (hd : Handler) (h hdl : Handle), TracksK g hd h → resolve g h path = some hdl →
    ∃ hd', traverse g hd r last path = (g, .ok hd') ∧ TracksK g hd' hdl := by
  induction path with
  | nil =>
    intro hd h hdl t hr
    simp only [resolve, Option.some.injEq] at hr
    subst hr
    exact ⟨hd, rfl, t⟩
  | cons n rest ih =>
    intro hd h hdl t hr
    simp only [resolve] at hr
    cases hc : getChild? g h n with
    | none => simp [hc] at hr
    | some c =>
      simp only [hc] at hr
      obtain ⟨hd1, hs, t1⟩ := stepSeg_tracksK g hd h c n (n == last) r t hc
      simp only [traverse, hs]
      exact ih hd1 c hdl t1 hr

theorem rootHandler_tracksK (g : Grid) (c : Cap) : TracksK g (rootHandler g c) (capHandle g c) := by
  unfold rootHandler
  split
  · exact Or.inr (Or.inl rfl)
  · exact Or.inl ⟨_, rfl⟩

/-- a POST rendered by the handler of a node reached read-only that is a directory or a mutable file -/
theorem render_post_target_ro (g : Grid) (hd : Handler) (hdl : Handle) (r : Req) (t : TracksK g hd hdl)
    (hw : hdl.w = false) (hpost : r.meth = .post) (hk : isDirAt g hdl.addr = true ∨ isMutableAt g hdl.addr = true) :
    (render true g hd r).1 = g ∧ ((render true g hd r).2.refused = true ∨ r.alreadyDoneForm = true) := by
  rcases t with ⟨p, rfl⟩ | hdead
  · unfold makeHandlerFor
    cases hkind : kindOf g hdl.addr with
    | none => exact ⟨rfl, Or.inl rfl⟩
    | some k =>
      simp only
      split
      · exact renderDir_gen g hdl p r hw (Or.inl hpost)
      · rename_i hnd
        have hmut : isMutableAt g hdl.addr = true := by
          rcases hk with hk | hk
          · simp [isDirAt, hkind] at hk; exact absurd hk hnd
          · exact hk
        have : Refd (renderFile true g hdl p r) g := by
          unfold renderFile
          rw [hpost]
          simp only
          repeat' split
          all_goals first
            | exact refd_err g _
            | exact overwrite_ro g hdl hw
            | (exfalso; simp_all)
        exact ⟨this.1, Or.inl this.2⟩
  · rcases hdead with rfl | ⟨e, rfl⟩
    · exact ⟨rfl, Or.inl rfl⟩
    · exact ⟨rfl, Or.inl rfl⟩

/-! ### directory contents as stored -/

/-- the grid model's `childHandle` is exactly `_unpack_contents` applied to the stored form of the link -/
theorem childHandle_eq_unpack (g : Grid) (parent : Handle) (n : Nat) (l : Link) :
    childHandle g parent l = unpackChild g parent.w (Link.toEntry n l) := by
  cases hp : parent.w <;> cases hl : l.rw <;> simp [childHandle, unpackChild, Link.toEntry, capHandle, hp, hl]

theorem children_eq_unpack (g : Grid) (h : Handle) :
    children g h = (unpackContents g h.w (storedEntries g h.addr)).map (·.2) := by
  simp only [children, unpackContents, storedEntries, List.map_map]
  apply List.map_congr_left
  intro e _
  exact childHandle_eq_unpack g h e.1 e.2

theorem unpackChild_ro (g : Grid) (e : Entry) (hro : e.ro.auth ≠ .write) : (unpackChild g false e).w = false := by
  simp only [unpackChild, Bool.false_eq_true, if_false, Option.getD_none, capHandle]
  cases h : e.ro.auth <;> simp_all

/-! ### node cache -/

/-- every cached node is the node its own key's cap string builds -/
def CacheOK (g : Grid) (c : NodeCache) : Prop := ∀ k h, (k, h) ∈ c → h = capHandle g k.cap

theorem cacheLookup_mem {c : NodeCache} {k : MemoKey} {h : Handle} (hl : cacheLookup c k = some h) :
    (k, h) ∈ c := by
  induction c with
  | nil => simp [cacheLookup] at hl
  | cons e rest ih =>
    obtain ⟨k', h'⟩ := e
    unfold cacheLookup at hl
    split at hl
    · rename_i heq
      have hk : k' = k := by simpa using heq
      cases hl
      subst hk
      exact List.mem_cons_self ..
    · exact List.mem_cons_of_mem _ (ih hl)

theorem createFromCap_ok (g : Grid) (c : NodeCache) (d : Bool) (cap : Cap) (hc : CacheOK g c) :
    (createFromCap g c d cap).1 = capHandle g cap ∧ CacheOK g (createFromCap g c d cap).2 := by
  unfold createFromCap
  cases hl : cacheLookup c ⟨d, cap⟩ with
  | some h => exact ⟨hc _ _ (cacheLookup_mem hl), hc⟩
  | none =>
    refine ⟨rfl, ?_⟩
    simp only
    split
    · intro k h hm
      rcases List.mem_cons.1 hm with heq | hm
      · cases heq; rfl
      · exact hc k h hm
    · exact hc

theorem evict_ok (g : Grid) (c : NodeCache) (keep) (hc : CacheOK g c) : CacheOK g (evict c keep) := by
  intro k h hm
  exact hc k h (List.mem_filter.1 hm).1

theorem runCache_ok (g : Grid) (ops : List CacheOp) : ∀ c, CacheOK g c →
    ∀ h ∈ runCache g c ops, ∃ cap, h = capHandle g cap := by
  induction ops with
  | nil => intro c _ h hm; simp [runCache] at hm
  | cons op rest ih =>
    intro c hc h hm
    cases op with
    | create d cap =>
      have ho := createFromCap_ok g c d cap hc
      simp only [runCache, List.mem_cons] at hm
      rcases hm with rfl | hm
      · exact ⟨cap, ho.1⟩
      · exact ih _ ho.2 h hm
    | collect keep =>
      simp only [runCache] at hm
      exact ih _ (evict_ok g c keep hc) h hm

/-! ### renderers -/

theorem children_ro (g : Grid) (h : Handle) (hw : h.w = false) : ∀ c ∈ children g h, c.w = false := by
  intro c hc
  simp only [children, List.mem_map] at hc
  obtain ⟨e, _, rfl⟩ := hc
  exact childHandle_ro g h e.2 hw

theorem capFields_ro (h : Handle) (hw : h.w = false) : ∀ c ∈ capFields h, c.auth ≠ .write := by
  intro c hc
  simp [capFields, getWriteUri, hw, getReadonlyUri, getVerifyUri] at hc
  rcases hc with rfl | rfl <;> simp

theorem getUri_ro (h : Handle) (hw : h.w = false) : (getUri h).auth ≠ .write := by
  simp [getUri, hw]

end Tahoe.Web
