/-
Model of `allmydata/web/filenode.py` `FileDownloader.parse_range_header` and the status / header /
body decision of `FileDownloader.render` (GET and HEAD).  Mathlib-free, executable; used by the
driver `Drv/C40.lean`.  Strings are `List Char`.

Modelled alphabet of the `Range` header: ASCII.  Python's `str.strip()` and `int()` also accept
non-ASCII white space and non-ASCII decimal digits; those are outside the model (the correspondence
run sends ASCII only).  Within ASCII, `int()` is modelled as written: white space stripped at both
ends, one optional sign, decimal digits with single underscores between digits.

`Variant.asIs` is the code as it is; `Variant.fixed` is the code with fixes/C40-range-edges.diff:
  * suffix range:      `first = max(0, filesize - int(last))`     (as is: `filesize - int(last)`)
  * open-ended range:  `last = max(first, filesize - 1)`          (as is: `filesize - 1`)
The driver runs `Variant.fixed`.
-/
namespace Tahoe.Web

abbrev Bytes := List UInt8
abbrev Str := List Char

inductive Variant | asIs | fixed
deriving DecidableEq, Repr

/-- ASCII white space as removed by `str.strip()` / ignored by `int()` -/
def isWs (c : Char) : Bool :=
  c == ' ' || c == '\t' || c == '\n' || c == '\r' || c == '\x0b' || c == '\x0c'
  || c == '\x1c' || c == '\x1d' || c == '\x1e' || c == '\x1f'

def strip (s : Str) : Str := ((s.dropWhile isWs).reverse.dropWhile isWs).reverse

def digitVal (c : Char) : Option Nat :=
  if '0' ≤ c ∧ c ≤ '9' then some (c.toNat - 48) else none

/-- the digit part of `int()`: `pd` = the previous character was a digit (an underscore is only
allowed between two digits); at least one digit -/
def pyDigits : Nat → Bool → Str → Option Nat
  | acc, pd, [] => if pd then some acc else none
  | acc, pd, c :: cs =>
    if c == '_' then (if pd then pyDigits acc false cs else none)
    else match digitVal c with
      | some d => pyDigits (10 * acc + d) true cs
      | none => none

/-- Python `int(s)` for ASCII `s`; `none` = ValueError -/
def pyInt (s : Str) : Option Int :=
  match strip s with
  | [] => none
  | c :: r =>
    if c == '-' then (pyDigits 0 false r).map (fun n => - (n : Int))
    else if c == '+' then (pyDigits 0 false r).map (fun n => (n : Int))
    else (pyDigits 0 false (c :: r)).map (fun n => (n : Int))

/-- `s.split(c, 1)` unpacked into two names; `none` = ValueError (separator absent) -/
def splitOnce (c : Char) : Str → Option (Str × Str)
  | [] => none
  | x :: xs => if x == c then some ([], xs) else (splitOnce c xs).map (fun p => (x :: p.1, p.2))

/-- `s.split(c)` (always at least one piece) -/
def splitAll (c : Char) : Str → List Str
  | [] => [[]]
  | x :: xs =>
    match splitAll c xs with
    | [] => [[]]                       -- unreachable
    | p :: ps => if x == c then [] :: p :: ps else (x :: p) :: ps

/-- the inner function `parse_range(r)`; `none` = ValueError -/
def parseRange (v : Variant) (size : Nat) (r : Str) : Option (Int × Int) :=
  match splitOnce '-' r with
  | none => none
  | some (a, b) =>
    let fl : Option (Int × Int) :=
      if a.isEmpty then
        -- suffix-byte-range-spec
        (pyInt b).map (fun n =>
          (match v with | .asIs => (size : Int) - n | .fixed => max 0 ((size : Int) - n), (size : Int) - 1))
      else
        match pyInt a with
        | none => none
        | some first =>
          if b.isEmpty then
            some (first, match v with | .asIs => (size : Int) - 1 | .fixed => max first ((size : Int) - 1))
          else (pyInt b).map (fun last => (first, last))
    match fl with
    | none => none
    | some (first, last) => if last < first then none else some (first, last)

/-- `parse_range_header(range_header)`; `none` = the header is ignored -/
def parseRangeHeader (v : Variant) (size : Nat) (h : Str) : Option (List (Int × Int)) :=
  match splitOnce '=' h with
  | none => none
  | some (units, rangeset) =>
    if units != "bytes".toList then none
    else (splitAll ',' rangeset).mapM (fun r => parseRange v size (strip r))

structure Resp where
  status : Nat
  contentRange : Option (Int × Int × Nat)     -- `bytes first-last/filesize`
  contentLength : Int                          -- meaningless for 416 (the error page sets its own)
  body : Bytes                                 -- for 416: not modelled (error text), `[]`
deriving DecidableEq, Repr

/-- `filenode.read(req, first, size)` on a node holding `file` -/
def nodeRead (file : Bytes) (first : Nat) (size : Option Nat) : Bytes :=
  match size with
  | none => file.drop first
  | some n => (file.drop first).take n

/-- `FileDownloader.render`: `hdr = none` when the request has no `Range` header -/
def render (v : Variant) (file : Bytes) (isHead : Bool) (hdr : Option Str) : Resp :=
  let filesize := file.length
  let full : Resp := ⟨200, none, filesize, if isHead then [] else nodeRead file 0 none⟩
  match hdr with
  | none => full
  | some h =>
    if h.isEmpty then full          -- `if rangeheader:`
    else match parseRangeHeader v filesize h with
      | none => full
      | some [] => full             -- unreachable: `split` yields at least one piece (`ranges[0]`)
      | some ((first, last) :: _) =>
        if first ≥ (filesize : Int) then ⟨416, none, 0, []⟩
        else
          let first := max 0 first
          let last := min ((filesize : Int) - 1) last
          let contentsize := last - first + 1
          ⟨206, some (first, last, filesize), contentsize,
            if isHead then [] else nodeRead file first.toNat (some contentsize.toNat)⟩

/-- `FileDownloader.render` over an arbitrary node: `size` is `filenode.get_size()` and `rd offset size` is what
`filenode.read(req, offset, size)` delivers.  `render v file` is the instance for a node that holds `file` in memory
(`Tahoe/Web/Lemmas.lean`: `render_eq_renderWith`); the real CHK / SDMF / MDMF nodes are other instances. -/
def renderWith (v : Variant) (filesize : Nat) (rd : Nat → Option Nat → Bytes) (isHead : Bool) (hdr : Option Str) : Resp :=
  let full : Resp := ⟨200, none, filesize, if isHead then [] else rd 0 none⟩
  match hdr with
  | none => full
  | some h =>
    if h.isEmpty then full
    else match parseRangeHeader v filesize h with
      | none => full
      | some [] => full
      | some ((first, last) :: _) =>
        if first ≥ (filesize : Int) then ⟨416, none, 0, []⟩
        else
          let first := max 0 first
          let last := min ((filesize : Int) - 1) last
          let contentsize := last - first + 1
          ⟨206, some (first, last, filesize), contentsize,
            if isHead then [] else rd first.toNat (some contentsize.toNat)⟩

end Tahoe.Web
