import Tahoe.Web.Range
/-
Model of `allmydata/web/filenode.py` `FileNodeHandler.render_GET` (for `t=""`, the plain download) and
`FileNodeHandler.render_HEAD`, i.e. the code between the URL dispatch and `FileDownloader.render`
(`Tahoe/Web/Range.lean`): the ETag of immutable files, twisted's `Request.setETag` with its
`If-None-Match` handling (304), then the range logic.  Mathlib-free, executable; driver `Drv/C40.lean`
(command `c40h`).

Not modelled: `t=json|info|uri|readonly-uri` of GET and the `bad t=` error of HEAD, `filename=` /
`save=` (Content-Type / Content-Disposition), and what twisted adds to a 304/416 on the wire.
-/
namespace Tahoe.Web

/-- ASCII white space as used by `bytes.split()` -/
def isWsB (c : Char) : Bool :=
  c == ' ' || c == '\t' || c == '\n' || c == '\r' || c == '\x0b' || c == '\x0c'

/-- `bytes.split()`: the maximal runs of non-white-space; `cur` is the current run, reversed -/
def splitWsAux : Str → Str → List Str
  | cur, [] => if cur.isEmpty then [] else [cur.reverse]
  | cur, c :: cs =>
    if isWsB c then (if cur.isEmpty then splitWsAux [] cs else cur.reverse :: splitWsAux [] cs)
    else splitWsAux (c :: cur) cs

def splitWs (s : Str) : List Str := splitWsAux [] s

/-- what the handler knows about the node: `is_mutable()` and `base32.b2a(get_storage_index())`
(`none` when the storage index is `None` — literal files — or empty) -/
structure NodeInfo where
  isMutable : Bool
  si : Option Str
deriving DecidableEq, Repr

/-- the tag passed to `req.setETag`: `b'%s-%s' % (b2a(si), t)` with `t = ""`; only for immutable nodes
with a storage index -/
def etagOf (n : NodeInfo) : Option Str :=
  if n.isMutable then none
  else match n.si with
    | none => none
    | some s => if s.isEmpty then none else some (s ++ ['-'])

/-- twisted `Request.setETag(etag)` for GET/HEAD: `true` = `http.CACHED` (status set to 304) -/
def setETagCached (etag : Str) (inm : Option Str) : Bool :=
  match inm with
  | none => false
  | some t =>
    if t.isEmpty then false
    else (splitWs t).contains etag || (splitWs t).contains ['*']

structure HResp where
  status : Nat
  etag : Option Str
  contentRange : Option (Int × Int × Nat)
  contentLength : Option Int        -- `none` for 304 / 416 (set by twisted / the error page)
  body : Bytes
deriving DecidableEq, Repr

def ofResp (e : Option Str) (r : Resp) : HResp :=
  if r.status == 416 then ⟨416, e, none, none, []⟩
  else ⟨r.status, e, r.contentRange, some r.contentLength, r.body⟩

def cached (e : Str) : HResp := ⟨304, some e, none, none, []⟩

/-- `render_GET` with `t=""`: ETag short-circuit for immutable nodes, then `FileDownloader(...)`
rendered for a GET request -/
def renderGET (v : Variant) (n : NodeInfo) (file : Bytes) (inm range : Option Str) : HResp :=
  if !n.isMutable then
    match (match n.si with | none => none | some s => if s.isEmpty then none else some (s ++ ['-'])) with
    | some e => if setETagCached e inm then cached e else ofResp (some e) (render v file false range)
    | none => ofResp none (render v file false range)
  else ofResp none (render v file false range)

/-- `render_HEAD` (no `t`): the same ETag short-circuit, then `FileDownloader(...)` rendered for a
HEAD request -/
def renderHEAD (v : Variant) (n : NodeInfo) (file : Bytes) (inm range : Option Str) : HResp :=
  if n.isMutable then ofResp none (render v file true range)
  else
    match n.si with
    | none => ofResp none (render v file true range)
    | some s =>
      if s.isEmpty then ofResp none (render v file true range)
      else if setETagCached (s ++ ['-']) inm then cached (s ++ ['-'])
      else ofResp (some (s ++ ['-'])) (render v file true range)

end Tahoe.Web
