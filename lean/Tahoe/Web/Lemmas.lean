import Tahoe.Web.Grammar
/-! Helper lemmas for the C40 theorems. -/
namespace Tahoe.Web

theorem digitChar_props : ∀ d : Fin 10,
    digitVal (digitChar d) = some d.val ∧ (digitChar d == '_') = false ∧ isWs (digitChar d) = false
    ∧ (digitChar d == '-') = false ∧ (digitChar d == '+') = false ∧ (digitChar d == ',') = false
    ∧ (digitChar d == '=') = false := by decide

theorem pyDigits_numStr (ds : Num) (acc : Nat) (pd : Bool) (h : ds ≠ [] ∨ pd = true) :
    pyDigits acc pd (numStr ds) = some (numValAux acc ds) := by
  induction ds generalizing acc pd with
  | nil => simp_all [numStr, pyDigits, numValAux]
  | cons d r ih =>
    have hd := digitChar_props d
    simp only [numStr, List.map_cons, pyDigits, hd.1, hd.2.1, Bool.false_eq_true, ↓reduceIte]
    have := ih (10 * acc + d.val) true (Or.inr rfl)
    simpa [numStr, numValAux] using this

theorem dropWhile_none {α} (p : α → Bool) (s : List α) (h : ∀ c ∈ s, p c = false) : s.dropWhile p = s := by
  cases s with
  | nil => rfl
  | cons a r => simp [List.dropWhile, h a (by simp)]

theorem strip_none (s : Str) (h : ∀ c ∈ s, isWs c = false) : strip s = s := by
  unfold strip
  rw [dropWhile_none _ _ h, dropWhile_none _ _ (by simpa using h)]
  simp

theorem numStr_noWs (ds : Num) : ∀ c ∈ numStr ds, isWs c = false := by
  intro c hc
  simp only [numStr, List.mem_map] at hc
  obtain ⟨d, _, rfl⟩ := hc
  exact (digitChar_props d).2.2.1

theorem pyInt_numStr (ds : Num) (h : ds ≠ []) : pyInt (numStr ds) = some (numVal ds : Int) := by
  unfold pyInt
  rw [strip_none _ (numStr_noWs ds)]
  cases ds with
  | nil => exact absurd rfl h
  | cons d r =>
    have hd := digitChar_props d
    have := pyDigits_numStr (d :: r) 0 false (Or.inl (by simp))
    simp only [numStr, List.map_cons] at this ⊢
    simp [hd.2.2.2.1, hd.2.2.2.2.1, this, numVal]

theorem splitOnce_append (c : Char) (a b : Str) (h : ∀ x ∈ a, (x == c) = false) :
    splitOnce c (a ++ c :: b) = some (a, b) := by
  induction a with
  | nil => simp [splitOnce]
  | cons x r ih =>
    have hx := h x (by simp)
    simp [splitOnce, hx, ih (fun y hy => h y (by simp [hy]))]

theorem splitOnce_not_mem (c : Char) (s a b : Str) (h : splitOnce c s = some (a, b)) : ∀ x ∈ a, (x == c) = false := by
  induction s generalizing a b with
  | nil => simp [splitOnce] at h
  | cons y r ih =>
    simp only [splitOnce] at h
    split at h
    · simp at h; obtain ⟨rfl, _⟩ := h; simp
    · rename_i hy
      cases hs : splitOnce c r with
      | none => simp [hs] at h
      | some p =>
        simp [hs] at h
        obtain ⟨rfl, rfl⟩ := h
        intro x hx
        simp at hx
        rcases hx with rfl | hx
        · simpa using hy
        · exact ih p.1 p.2 (by simp [hs]) x hx

theorem splitAll_none (c : Char) (s : Str) (h : ∀ x ∈ s, (x == c) = false) : splitAll c s = [s] := by
  induction s with
  | nil => rfl
  | cons x r ih =>
    simp [splitAll, ih (fun y hy => h y (by simp [hy])), h x (by simp)]

theorem splitAll_ne_nil (c : Char) (s : Str) : splitAll c s ≠ [] := by
  cases s with
  | nil => simp [splitAll]
  | cons x r =>
    simp only [splitAll]
    split
    · simp
    · split <;> simp

theorem splitAll_append (c : Char) (a b : Str) (h : ∀ x ∈ a, (x == c) = false) :
    splitAll c (a ++ c :: b) = a :: splitAll c b := by
  induction a with
  | nil =>
    simp only [List.nil_append, splitAll]
    cases hb : splitAll c b with
    | nil => exact absurd hb (splitAll_ne_nil c b)
    | cons p ps => simp
  | cons x r ih =>
    simp [splitAll, ih (fun y hy => h y (by simp [hy])), h x (by simp)]

end Tahoe.Web
