import Tahoe.Web.Grammar
/-! Helper lemmas for the C40 theorems. -/
namespace Tahoe.Web

theorem digitChar_props : ∀ d : Fin 10,
    digitVal (digitChar d) = some d.val ∧ (digitChar d == '_') = false ∧ isWs (digitChar d) = false
    ∧ (digitChar d == '-') = false ∧ (digitChar d == '+') = false ∧ (digitChar d == ',') = false
    ∧ (digitChar d == '=') = false := by decide

theorem pyDigits_numStr (ds : Num) (acc : Nat) (pd : Bool) (h : ds ≠ [] ∨ pd = true) :
    pyDigits acc pd (numStr ds) = some (numValAux acc ds) := by
  induction ds generalizing acc pd with
  | nil => simp_all [numStr, pyDigits, numValAux]
  | cons d r ih =>
    have hd := digitChar_props d
    simp only [numStr, List.map_cons, pyDigits, hd.1, hd.2.1, Bool.false_eq_true, ↓reduceIte]
    have := ih (10 * acc + d.val) true (Or.inr rfl)
    simpa [numStr, numValAux] using this

theorem dropWhile_none {α} (p : α → Bool) (s : List α) (h : ∀ c ∈ s, p c = false) : s.dropWhile p = s := by
  cases s with
  | nil => rfl
  | cons a r => simp [List.dropWhile, h a (by simp)]

theorem strip_none (s : Str) (h : ∀ c ∈ s, isWs c = false) : strip s = s := by
  unfold strip
  rw [dropWhile_none _ _ h, dropWhile_none _ _ (by simpa using h)]
  simp

theorem numStr_noWs (ds : Num) : ∀ c ∈ numStr ds, isWs c = false := by
  intro c hc
  simp only [numStr, List.mem_map] at hc
  obtain ⟨d, _, rfl⟩ := hc
  exact (digitChar_props d).2.2.1

theorem pyInt_numStr (ds : Num) (h : ds ≠ []) : pyInt (numStr ds) = some (numVal ds : Int) := by
  unfold pyInt
  rw [strip_none _ (numStr_noWs ds)]
  cases ds with
  | nil => exact absurd rfl h
  | cons d r =>
    have hd := digitChar_props d
    have := pyDigits_numStr (d :: r) 0 false (Or.inl (by simp))
    simp only [numStr, List.map_cons] at this ⊢
    simp [hd.2.2.2.1, hd.2.2.2.2.1, this, numVal]

theorem splitOnce_append (c : Char) (a b : Str) (h : ∀ x ∈ a, (x == c) = false) :
    splitOnce c (a ++ c :: b) = some (a, b) := by
  induction a with
  | nil => simp [splitOnce]
  | cons x r ih =>
    have hx := h x (by simp)
    simp [splitOnce, hx, ih (fun y hy => h y (by simp [hy]))]

theorem splitOnce_not_mem (c : Char) (s a b : Str) (h : splitOnce c s = some (a, b)) : ∀ x ∈ a, (x == c) = false := by
  induction s generalizing a b with
  | nil => simp [splitOnce] at h
  | cons y r ih =>
    simp only [splitOnce] at h
    split at h
    · simp at h; obtain ⟨rfl, _⟩ := h; simp
    · rename_i hy
      cases hs : splitOnce c r with
      | none => simp [hs] at h
      | some p =>
        simp [hs] at h
        obtain ⟨rfl, rfl⟩ := h
        intro x hx
        simp at hx
        rcases hx with rfl | hx
        · simpa using hy
        · exact ih p.1 p.2 (by simp [hs]) x hx

theorem splitAll_none (c : Char) (s : Str) (h : ∀ x ∈ s, (x == c) = false) : splitAll c s = [s] := by
  induction s with
  | nil => rfl
  | cons x r ih =>
    simp [splitAll, ih (fun y hy => h y (by simp [hy])), h x (by simp)]

theorem splitAll_ne_nil (c : Char) (s : Str) : splitAll c s ≠ [] := by
  cases s with
  | nil => simp [splitAll]
  | cons x r =>
    simp only [splitAll]
    split
    · simp
    · split <;> simp

theorem splitAll_append (c : Char) (a b : Str) (h : ∀ x ∈ a, (x == c) = false) :
    splitAll c (a ++ c :: b) = a :: splitAll c b := by
  induction a with
  | nil =>
    simp only [List.nil_append, splitAll]
    cases hb : splitAll c b with
    | nil => exact absurd hb (splitAll_ne_nil c b)
    | cons p ps => simp
  | cons x r ih =>
    simp [splitAll, ih (fun y hy => h y (by simp [hy])), h x (by simp)]

theorem numStr_ne (ds : Num) (c : Char) (hc : ∀ d : Fin 10, (digitChar d == c) = false) :
    ∀ x ∈ numStr ds, (x == c) = false := by
  intro x hx
  simp only [numStr, List.mem_map] at hx
  obtain ⟨d, _, rfl⟩ := hx
  exact hc d

theorem numStr_isEmpty (ds : Num) (h : ds ≠ []) : (numStr ds).isEmpty = false := by
  cases ds <;> simp_all [numStr]

theorem parseRange_range (v : Variant) (size : Nat) (f l : Num) (hf : f ≠ []) (hl : l ≠ []) :
    parseRange v size (Spec.range f l).str =
      if (numVal l : Int) < numVal f then none else some ((numVal f : Int), (numVal l : Int)) := by
  simp only [Spec.str, parseRange]
  rw [splitOnce_append _ _ _ (numStr_ne f '-' (fun d => (digitChar_props d).2.2.2.1))]
  simp [numStr_isEmpty f hf, numStr_isEmpty l hl, pyInt_numStr f hf, pyInt_numStr l hl]

theorem parseRange_open (v : Variant) (size : Nat) (f : Num) (hf : f ≠ []) :
    parseRange v size (Spec.openEnded f).str =
      match v with
      | .asIs => if (size : Int) - 1 < numVal f then none else some ((numVal f : Int), (size : Int) - 1)
      | .fixed => some ((numVal f : Int), max (numVal f : Int) ((size : Int) - 1)) := by
  simp only [Spec.str, parseRange]
  rw [splitOnce_append _ _ _ (numStr_ne f '-' (fun d => (digitChar_props d).2.2.2.1))]
  cases v <;> simp [numStr_isEmpty f hf, pyInt_numStr f hf]
  omega

theorem parseRange_suffix (v : Variant) (size : Nat) (n : Num) (hn : n ≠ []) :
    parseRange v size (Spec.suffix n).str =
      match v with
      | .asIs => if (size : Int) - 1 < (size : Int) - numVal n then none
                 else some ((size : Int) - numVal n, (size : Int) - 1)
      | .fixed => if (size : Int) - 1 < max 0 ((size : Int) - numVal n) then none
                  else some (max 0 ((size : Int) - numVal n), (size : Int) - 1) := by
  simp only [Spec.str, parseRange, splitOnce]
  cases v <;> simp [pyInt_numStr n hn]

theorem spec_noComma (s : Spec) : ∀ x ∈ s.str, (x == ',') = false := by
  have hd := numStr_ne (c := ',') (hc := fun d => (digitChar_props d).2.2.2.2.2.1)
  intro x hx
  cases s <;> simp only [Spec.str, List.mem_append, List.mem_cons] at hx
  · rcases hx with hx | rfl | hx
    · exact hd _ x hx
    · decide
    · exact hd _ x hx
  · rcases hx with hx | hx
    · exact hd _ x hx
    · simp at hx; subst hx; decide
  · rcases hx with rfl | hx
    · decide
    · exact hd _ x hx

theorem spec_noWs (s : Spec) : ∀ x ∈ s.str, isWs x = false := by
  have hd := numStr_noWs
  intro x hx
  cases s <;> simp only [Spec.str, List.mem_append, List.mem_cons] at hx
  · rcases hx with hx | rfl | hx
    · exact hd _ x hx
    · decide
    · exact hd _ x hx
  · rcases hx with hx | hx
    · exact hd _ x hx
    · simp at hx; subst hx; decide
  · rcases hx with rfl | hx
    · decide
    · exact hd _ x hx

theorem bytesEq_split (rest : Str) : splitOnce '=' ("bytes=".toList ++ rest) = some ("bytes".toList, rest) := by
  have : "bytes=".toList ++ rest = "bytes".toList ++ '=' :: rest := by
    have : "bytes=".toList = "bytes".toList ++ ['='] := by decide
    rw [this]; simp
  rw [this]
  exact splitOnce_append _ _ _ (by decide)

/-- a header carrying one grammar range is parsed as that range -/
theorem parseRangeHeader_single (v : Variant) (size : Nat) (s : Spec) :
    parseRangeHeader v size (hdrOf s) = (parseRange v size s.str).map (fun p => [p]) := by
  simp only [parseRangeHeader, hdrOf, bytesEq_split]
  rw [splitAll_none _ _ (spec_noComma s)]
  simp only [bne_self_eq_false, Bool.false_eq_true, ↓reduceIte, List.mapM_cons, List.mapM_nil,
    strip_none _ (spec_noWs s)]
  cases parseRange v size s.str <;> simp

theorem mem_strip {c : Char} {s : Str} (h : c ∈ strip s) : c ∈ s := by
  unfold strip at h
  have h1 := (List.dropWhile_sublist isWs).subset (List.mem_reverse.mp h)
  exact (List.dropWhile_sublist isWs).subset (List.mem_reverse.mp h1)

/-- a numeral without a minus sign is not negative -/
theorem pyInt_nonneg (s : Str) (v : Int) (hm : ∀ c ∈ s, (c == '-') = false) (h : pyInt s = some v) : 0 ≤ v := by
  unfold pyInt at h
  cases hs : strip s with
  | nil => simp [hs] at h
  | cons c r =>
    have hc : (c == '-') = false := hm c (mem_strip (by simp [hs]))
    simp only [hs, hc, Bool.false_eq_true, ↓reduceIte] at h
    split at h
    · cases hd : pyDigits 0 false r <;> simp [hd] at h; omega
    · cases hd : pyDigits 0 false (c :: r) <;> simp [hd] at h; omega

/-- what the repaired `parse_range` returns is an ordered pair of non-negative positions -/
theorem parseRange_fixed_bounds (size : Nat) (r : Str) (a b : Int)
    (h : parseRange .fixed size r = some (a, b)) : 0 ≤ a ∧ a ≤ b := by
  unfold parseRange at h
  cases hs : splitOnce '-' r with
  | none => simp [hs] at h
  | some p =>
    obtain ⟨x, y⟩ := p
    simp only [hs] at h
    by_cases hx : x.isEmpty
    · simp only [hx, ↓reduceIte] at h
      cases hy : pyInt y with
      | none => simp [hy] at h
      | some n =>
        simp only [hy, Option.map_some] at h
        split at h
        · simp at h
        · simp at h; omega
    · simp only [hx, Bool.false_eq_true, ↓reduceIte] at h
      cases hxi : pyInt x with
      | none => simp [hxi] at h
      | some first =>
        have hnn := pyInt_nonneg x first (splitOnce_not_mem '-' r x y hs) hxi
        simp only [hxi] at h
        by_cases hy : y.isEmpty
        · simp only [hy, ↓reduceIte] at h
          split at h
          · simp at h
          · simp at h; omega
        · simp only [hy, Bool.false_eq_true, ↓reduceIte] at h
          cases hyi : pyInt y with
          | none => simp [hyi] at h
          | some last =>
            simp only [hyi, Option.map_some] at h
            split at h
            · simp at h
            · simp at h; omega

theorem parseRangeHeader_head (v : Variant) (size : Nat) (h : Str) (p : Int × Int) (ps : List (Int × Int))
    (hp : parseRangeHeader v size h = some (p :: ps)) : ∃ r, parseRange v size r = some p := by
  unfold parseRangeHeader at hp
  cases hs : splitOnce '=' h with
  | none => simp [hs] at hp
  | some q =>
    simp only [hs] at hp
    split at hp
    · simp at hp
    · cases hl : splitAll ',' q.2 with
      | nil => simp [hl] at hp
      | cons r0 rest =>
        simp only [hl, List.mapM_cons] at hp
        cases h0 : parseRange v size (strip r0) with
        | none => simp [h0] at hp
        | some p0 =>
          simp only [h0] at hp
          cases hr : List.mapM (fun r => parseRange v size (strip r)) rest with
          | none => simp [hr] at hp
          | some l =>
            simp [hr] at hp
            exact ⟨strip r0, by rw [h0, hp.1]⟩

theorem splitAll_setStr (s : Spec) (rest : List Spec) :
    splitAll ',' (setStr s rest) = s.str :: rest.map Spec.str := by
  induction rest generalizing s with
  | nil => simp [setStr, splitAll_none _ _ (spec_noComma s)]
  | cons t r ih => simp [setStr, splitAll_append _ _ _ (spec_noComma s), ih]

theorem mapM_some_of_all {α β} (f : α → Option β) (l : List α) (h : ∀ t ∈ l, f t ≠ none) :
    ∃ ys, l.mapM f = some ys := by
  induction l with
  | nil => exact ⟨[], by simp⟩
  | cons a r ih =>
    obtain ⟨ys, hys⟩ := ih (fun t ht => h t (by simp [ht]))
    cases ha : f a with
    | none => exact absurd ha (h a (by simp))
    | some b => exact ⟨b :: ys, by simp [List.mapM_cons, ha, hys]⟩

/-- a set of grammar ranges whose later members `parse_range` accepts parses to the first range's
result followed by something -/
theorem parseRangeHeader_set (v : Variant) (size : Nat) (s : Spec) (rest : List Spec)
    (hrest : ∀ t ∈ rest, parseRange v size t.str ≠ none) :
    ∃ ys, parseRangeHeader v size (hdrOfSet s rest) = (parseRange v size s.str).map (fun p => p :: ys) := by
  obtain ⟨ys, hys⟩ := mapM_some_of_all (fun r => parseRange v size (strip r)) (rest.map Spec.str) (by
    intro t ht
    simp only [List.mem_map] at ht
    obtain ⟨u, hu, rfl⟩ := ht
    rw [strip_none _ (spec_noWs u)]
    exact hrest u hu)
  refine ⟨ys, ?_⟩
  simp only [parseRangeHeader, hdrOfSet, bytesEq_split, splitAll_setStr, bne_self_eq_false,
    Bool.false_eq_true, ↓reduceIte, List.mapM_cons, hys, strip_none _ (spec_noWs s)]
  cases parseRange v size s.str <;> simp

theorem render_eq_renderWith (v : Variant) (file : Bytes) (isHead : Bool) (hdr : Option Str) :
    render v file isHead hdr = renderWith v file.length (nodeRead file) isHead hdr := rfl

theorem nodeRead_sliceReader (file : Bytes) : SliceReader file (nodeRead file) :=
  ⟨by simp [nodeRead], fun _ _ _ _ => rfl⟩

/-- over any node whose `read` is a slice reader the repaired `render` answers exactly as over the in-memory file -/
theorem renderWith_sliceReader (file : Bytes) (rd : Nat → Option Nat → Bytes) (hrd : SliceReader file rd)
    (isHead : Bool) (hdr : Option Str) :
    renderWith .fixed file.length rd isHead hdr = render .fixed file isHead hdr := by
  cases hdr with
  | none => simp [render, renderWith, hrd.1, nodeRead]
  | some h =>
    simp only [render, renderWith]
    by_cases he : h.isEmpty
    · simp [he, hrd.1, nodeRead]
    · simp only [he, Bool.false_eq_true, ↓reduceIte]
      cases hp : parseRangeHeader .fixed file.length h with
      | none => simp [hrd.1, nodeRead]
      | some l =>
        cases l with
        | nil => simp [hrd.1, nodeRead]
        | cons p ps =>
          obtain ⟨a, b⟩ := p
          obtain ⟨r, hr⟩ := parseRangeHeader_head _ _ _ _ _ hp
          obtain ⟨h0, hab⟩ := parseRange_fixed_bounds _ _ _ _ hr
          simp only
          by_cases hge : a ≥ (file.length : Int)
          · simp [hge]
          · simp only [hge, ↓reduceIte]
            cases isHead
            · have := hrd.2 (max 0 a).toNat (min ((file.length : Int) - 1) b - max 0 a + 1).toNat (by omega) (by omega)
              simp [this, nodeRead]
            · simp

end Tahoe.Web
