import Tahoe.Web.Range
/-!
The single-range part of the RFC 7233 grammar, used to state the C40 theorems:

  byte-ranges-specifier = "bytes=" ( first-byte-pos "-" [ last-byte-pos ] / "-" suffix-length )
  first-byte-pos, last-byte-pos, suffix-length = 1*DIGIT

A numeral is a non-empty list of decimal digits (leading zeroes allowed, as in `1*DIGIT`).
-/
namespace Tahoe.Web

abbrev Num := List (Fin 10)

def digitChar (d : Fin 10) : Char := Char.ofNat (48 + d.val)
def numStr (ds : Num) : Str := ds.map digitChar
def numValAux (acc : Nat) (ds : Num) : Nat := ds.foldl (fun a d => 10 * a + d.val) acc
/-- the value of a decimal numeral -/
def numVal (ds : Num) : Nat := numValAux 0 ds

inductive Spec
  | range (first last : Num)      -- `first-last`
  | openEnded (first : Num)       -- `first-`
  | suffix (len : Num)            -- `-len`

def Spec.str : Spec → Str
  | .range f l => numStr f ++ '-' :: numStr l
  | .openEnded f => numStr f ++ ['-']
  | .suffix n => '-' :: numStr n

/-- `1*DIGIT`: every numeral has at least one digit -/
def Spec.wf : Spec → Prop
  | .range f l => f ≠ [] ∧ l ≠ []
  | .openEnded f => f ≠ []
  | .suffix n => n ≠ []

/-- a `Range` header carrying one range -/
def hdrOf (s : Spec) : Str := "bytes=".toList ++ s.str

/-- `s,t1,t2,…` -/
def setStr : Spec → List Spec → Str
  | s, [] => s.str
  | s, t :: rest => s.str ++ ',' :: setStr t rest

/-- a `Range` header carrying a comma-separated set of ranges -/
def hdrOfSet (s : Spec) (rest : List Spec) : Str := "bytes=".toList ++ setStr s rest

/-- the bytes `file[first..last]` (inclusive) -/
def slice (file : Bytes) (first last : Nat) : Bytes := (file.drop first).take (last + 1 - first)

/-- the full-file answer -/
def fullResp (file : Bytes) (isHead : Bool) : Resp :=
  ⟨200, none, file.length, if isHead then [] else file⟩

/-- what `FileDownloader.render` needs from `filenode.read(consumer, offset, size)`: the whole file for
`(0, None)`, and `file[offset : offset+size]` for a non-empty range inside the file.  For literal nodes this is
C04 `read_slice_literal`, for immutable (CHK) nodes C04 `read_slice` (upload → read pipeline), for mutable
(SDMF / MDMF) nodes C09 `read_range_slice` / `read_to_end`. -/
def SliceReader (file : Bytes) (rd : Nat → Option Nat → Bytes) : Prop :=
  rd 0 none = file ∧ ∀ first n, 0 < n → first + n ≤ file.length → rd first (some n) = (file.drop first).take n

end Tahoe.Web
