import Tahoe.Web.Handler
/-! Helper lemmas for the handler-level C40 theorems. -/
namespace Tahoe.Web

/-- `FileDownloader.render` for HEAD is the GET answer with the body removed (every header, both variants) -/
theorem render_head_eq (v : Variant) (file : Bytes) (hdr : Option Str) :
    render v file true hdr = { render v file false hdr with body := [] } := by
  simp only [render]
  cases hdr with
  | none => simp
  | some h =>
    simp only
    split
    · simp
    · split
      · simp
      · simp
      · split <;> simp

theorem ofResp_head (e : Option Str) (r : Resp) :
    ofResp e { r with body := [] } = { ofResp e r with body := [] } := by
  unfold ofResp
  split <;> simp

theorem renderGET_eq (v : Variant) (n : NodeInfo) (file : Bytes) (inm range : Option Str) :
    renderGET v n file inm range =
      match etagOf n with
      | some e => if setETagCached e inm then cached e else ofResp (some e) (render v file false range)
      | none => ofResp none (render v file false range) := by
  unfold renderGET etagOf
  cases n.isMutable <;> simp
  cases n.si with
  | none => simp
  | some s => by_cases hs : s = [] <;> simp [hs]

theorem renderHEAD_eq (v : Variant) (n : NodeInfo) (file : Bytes) (inm range : Option Str) :
    renderHEAD v n file inm range =
      match etagOf n with
      | some e => if setETagCached e inm then cached e else ofResp (some e) (render v file true range)
      | none => ofResp none (render v file true range) := by
  unfold renderHEAD etagOf
  cases n.isMutable <;> simp
  cases n.si with
  | none => simp
  | some s => by_cases hs : s = [] <;> simp [hs]

end Tahoe.Web
