/-!
C41 — authority model of the web API (Mathlib-free, executable).

Two layers.

* **Node layer** (transcribed from `dirnode.py` / `mutable/filenode.py`): a grid is a list of objects
  (mutable / immutable directories and files); a *handle* is what `NodeMaker.create_from_cap` builds:
  an address plus "holds the write key" (`w`).  Children obtained from a directory handle inherit
  read-only-ness (`DirectoryNode._unpack_contents`: `rw_uri` is decrypted only when the directory
  itself is writeable; immutable objects never have a write cap).  Every modifying node method is
  modelled with the guard the code has, in the position the code has it:
  `if self.is_readonly(): return defer.fail(NotWriteableError())` for `set_node`, `add_file`, `delete`,
  `create_subdirectory`, `move_child_to`; **no** dirnode-level guard in `set_children` (the refusal
  comes from the backing file: `MutableFileVersion.modify` starts with `assert not self.is_readonly()`
  for a read-only mutable file, and an immutable file node has no `modify` attribute at all);
  `MutableFileNode.overwrite` likewise ends in `MutableFileVersion.overwrite`'s assertion.
* **Dispatch table** (written from `web/root.py`, `web/directory.py`, `web/filenode.py`): the
  traversal `getChild` / `_got_child` (including creation of intermediate directories and of the
  final directory for the mkdir family, placeholders for PUT) and the `render_PUT/POST/DELETE`
  methods, as the sequence of node methods each request invokes.  Its faithfulness is what the
  correspondence run of `harness/props/c41.py` checks.

Deviations: names are `Nat` (no normalisation, no empty path segments); metadata (`no-write`) is not
modelled; `when_done` redirects, `t=check`/deep operations, `/uri` unlinked creation, `/file` and
`/named` are outside the table (the last two accept only GET/HEAD).  `fixed = true` is the proposed
repair `fixes/C41-mutable-upload-readonly-parent.diff` (check the parent before
`client.create_mutable_file`); `fixed = false` is the code as it is.
-/
namespace Tahoe.Web

inductive Kind | mdir | idir | mfile | ifile
  deriving DecidableEq, Repr

def Kind.isMutable : Kind → Bool
  | .mdir | .mfile => true
  | _ => false

def Kind.isDir : Kind → Bool
  | .mdir | .idir => true
  | _ => false

/-- a directory entry: target address and whether the entry carries a write cap (`rwcapdata`) -/
structure Link where
  addr : Nat
  rw : Bool
  deriving DecidableEq, Repr

structure Obj where
  kind : Kind
  entries : List (Nat × Link)
  ver : Nat
  deriving DecidableEq, Repr

/-- the grid: address = index; shares are never garbage-collected here, so objects only get added -/
abbrev Grid := List Obj

/-- a node object: `w` = "holds the write key" = `not node.is_readonly()` -/
structure Handle where
  addr : Nat
  w : Bool
  deriving DecidableEq, Repr

inductive Auth | write | read | verify
  deriving DecidableEq, Repr

/-- a capability string presented by the HTTP client -/
structure Cap where
  addr : Nat
  auth : Auth
  deriving DecidableEq, Repr

inductive Err
  | notWriteable        -- dirnode: NotWriteableError (no HTTP code of its own -> 500)
  | assertion           -- AssertionError (500)
  | attributeError      -- AttributeError (500)
  | existingChild       -- ExistingChildError (409)
  | noSuchChild         -- NoSuchChildError (404)
  | webError            -- WebError, default code (400)
  | conflict            -- ErrorPage(CONFLICT): a file is in the way (409)
  | badRequest          -- ErrorPage(BAD_REQUEST): files have no children (400)
  | notAllowed          -- resource without render_<METHOD> (405 / 501)
  | notFound            -- NoResource (404)
  | mustBeDeepImmutable -- MustBeDeepImmutableError (400)
  deriving DecidableEq, Repr

/-- `humanize_exception` / Twisted's status for the error class; the second component says the error
was raised inside `getChild` (then an error without a code of its own reaches
`ErrorPage(None, …)` and the response is written without a status line) -/
def Err.code : Err → Nat
  | .notWriteable | .assertion | .attributeError => 500
  | .existingChild | .conflict => 409
  | .noSuchChild | .notFound => 404
  | .webError | .badRequest | .mustBeDeepImmutable => 400
  | .notAllowed => 405

inductive R (α : Type) where
  | ok (a : α)
  | err (e : Err)
  deriving DecidableEq, Repr

def R.refused {α : Type} : R α → Bool
  | .ok _ => false
  | .err _ => true

inductive Repl | yes | no | onlyFiles
  deriving DecidableEq, Repr

/-! ## node layer -/

def kindOf (g : Grid) (a : Nat) : Option Kind := (g[a]?).map (·.kind)

def isMutableAt (g : Grid) (a : Nat) : Bool :=
  match kindOf g a with
  | some k => k.isMutable
  | none => false

def isDirAt (g : Grid) (a : Nat) : Bool :=
  match kindOf g a with
  | some k => k.isDir
  | none => false

/-- `NodeMaker.create_from_cap(rw_uri, ro_uri)` for a directory entry unpacked by a directory reached
through `parent` (`_unpack_contents`: `rw_uri` only if `writeable`) -/
def childHandle (g : Grid) (parent : Handle) (l : Link) : Handle :=
  ⟨l.addr, parent.w && l.rw && isMutableAt g l.addr⟩

/-- node for a cap string given in the request (`create_node_from_uri`) -/
def capHandle (g : Grid) (c : Cap) : Handle :=
  ⟨c.addr, (c.auth == .write) && isMutableAt g c.addr⟩

def lookup (es : List (Nat × Link)) (n : Nat) : Option Link :=
  match es with
  | [] => none
  | (m, l) :: rest => if m == n then some l else lookup rest n

def entriesOf (g : Grid) (a : Nat) : List (Nat × Link) :=
  match g[a]? with
  | some o => o.entries
  | none => []

/-- `dirnode.get(name)` (pure read) -/
def getChild? (g : Grid) (h : Handle) (name : Nat) : Option Handle :=
  (lookup (entriesOf g h.addr) name).map (childHandle g h)

/-- path resolution by repeated `get` (`get_child_at_path`) -/
def resolve (g : Grid) (h : Handle) : List Nat → Option Handle
  | [] => some h
  | n :: rest =>
    match getChild? g h n with
    | some c => resolve g c rest
    | none => none

/-- what `_pack_contents` stores for a child node: the write cap only if the node has one -/
def linkOf (h : Handle) : Link := ⟨h.addr, h.w⟩

def setEntry (es : List (Nat × Link)) (n : Nat) (l : Link) : List (Nat × Link) :=
  match es with
  | [] => [(n, l)]
  | (m, x) :: rest => if m == n then (m, l) :: rest else (m, x) :: setEntry rest n l

def delEntry (es : List (Nat × Link)) (n : Nat) : List (Nat × Link) :=
  es.filter (fun e => !(e.1 == n))

/-- `Adder.modify`: all-or-nothing; `overwrite=False` refuses an existing name, `ONLY_FILES` refuses
an existing directory -/
def addEntries (g : Grid) (es : List (Nat × Link)) (ow : Repl) : List (Nat × Link) → R (List (Nat × Link))
  | [] => .ok es
  | (n, l) :: rest =>
    match lookup es n with
    | some old =>
      if ow == .no then .err .existingChild
      else if ow == .onlyFiles && isDirAt g old.addr then .err .existingChild
      else addEntries g (setEntry es n l) ow rest
    | none => addEntries g (setEntry es n l) ow rest

/-- `self._node.modify(modifier)` on the file backing a directory: an immutable file node has no
`modify`; a read-only mutable one trips `assert not self.is_readonly()` before the modifier runs -/
def backingModify (g : Grid) (h : Handle)
    (f : List (Nat × Link) → R (List (Nat × Link))) : Grid × R Unit :=
  match g[h.addr]? with
  | none => (g, .err .attributeError)
  | some o =>
    if !o.kind.isMutable then (g, .err .attributeError)
    else if !h.w then (g, .err .assertion)
    else match f o.entries with
      | .err e => (g, .err e)
      | .ok es => (g.set h.addr { o with entries := es, ver := o.ver + 1 }, .ok ())

/-- `DirectoryNode.set_node` / `set_nodes` -/
def setNode (g : Grid) (h : Handle) (name : Nat) (child : Handle) (ow : Repl) : Grid × R Unit :=
  if !h.w then (g, .err .notWriteable)
  else backingModify g h (fun es => addEntries g es ow [(name, linkOf child)])

/-- `_create_and_validate_node(..., deep_immutable = not self.is_mutable())` over the given kids -/
def kidsAllowed (g : Grid) (parentMutable : Bool) (kids : List (Nat × Link)) : Bool :=
  parentMutable || kids.all (fun k => !(isMutableAt g k.2.addr))

/-- `DirectoryNode.set_children` (takes caps; note: no `is_readonly` guard of its own).  A kid given
by write cap is stored with it, a kid given by read cap without. -/
def setChildren (g : Grid) (h : Handle) (kids : List (Nat × Link)) (ow : Repl) : Grid × R Unit :=
  if !kidsAllowed g (isMutableAt g h.addr) kids then (g, .err .mustBeDeepImmutable)
  else backingModify g h (fun es =>
    addEntries g es ow (kids.map (fun k => (k.1, linkOf (childHandle g ⟨0, true⟩ k.2)))))

/-- `DirectoryNode.set_uri`: the child node is built and validated first
(`deep_immutable = not self.is_mutable()`), then `set_node` -/
def setUri (g : Grid) (h : Handle) (name : Nat) (c : Cap) (ow : Repl) : Grid × R Unit :=
  if c.auth == .verify then (g, .err .webError)      -- MustNotBeUnknownRWError (400); not exercised
  else if !(isMutableAt g h.addr) && isMutableAt g c.addr then (g, .err .mustBeDeepImmutable)
  else setNode g h name (capHandle g c) ow

/-- `DirectoryNode.delete` -/
def deleteChild (g : Grid) (h : Handle) (name : Nat) : Grid × R Unit :=
  if !h.w then (g, .err .notWriteable)
  else backingModify g h (fun es =>
    match lookup es name with
    | none => .err .noSuchChild
    | some _ => .ok (delEntry es name))

/-- `delete` of a name no directory contains (the web layer maps a missing `name=` to the empty name) -/
def deleteMissing (g : Grid) (h : Handle) : Grid × R Unit :=
  if !h.w then (g, .err .notWriteable)
  else backingModify g h (fun _ => .err .noSuchChild)

/-- `DirectoryNode.add_file`: guard, then upload (a new immutable object), then `set_node` -/
def addFile (g : Grid) (h : Handle) (name : Nat) (ow : Repl) : Grid × R Handle :=
  if !h.w then (g, .err .notWriteable)
  else
    let g1 := g ++ [⟨.ifile, [], 0⟩]
    let child : Handle := ⟨g.length, false⟩
    match setNode g1 h name child ow with
    | (g2, .ok _) => (g2, .ok child)
    | (g2, .err e) => (g2, .err e)

/-- `DirectoryNode.create_subdirectory`: guard, (immutable: children must be deep-immutable, checked
while packing, before anything is uploaded), create the new directory, then `Adder` on self -/
def createSubdirectory (g : Grid) (h : Handle) (name : Nat) (kids : List (Nat × Link))
    (mutable_ : Bool) (ow : Repl) : Grid × R Handle :=
  if !h.w then (g, .err .notWriteable)
  else if !kidsAllowed g mutable_ kids then (g, .err .mustBeDeepImmutable)
  else
    let stored := kids.map (fun k => (k.1, linkOf (childHandle g ⟨0, true⟩ k.2)))
    let g1 := g ++ [⟨if mutable_ then .mdir else .idir, stored, 0⟩]
    let child : Handle := ⟨g.length, mutable_⟩
    match backingModify g1 h (fun es => addEntries g1 es ow [(name, linkOf child)]) with
    | (g2, .ok _) => (g2, .ok child)
    | (g2, .err e) => (g2, .err e)

/-- `DirectoryNode.move_child_to` -/
def moveChildTo (g : Grid) (h : Handle) (name : Nat) (np : Handle) (newName : Nat) (ow : Repl) :
    Grid × R Unit :=
  if !h.w || !np.w then (g, .err .notWriteable)
  else if np.addr == h.addr && newName == name then (g, .ok ())   -- "redundant rename/relink"
  else match getChild? g h name with
    | none => (g, .err .noSuchChild)
    | some child =>
      match setNode g np newName child ow with
      | (g1, .err e) => (g1, .err e)
      | (g1, .ok _) => deleteChild g1 h name

/-- `MutableFileNode.overwrite` (and `MutableFileVersion.update` behind the web layer's own check) -/
def overwrite (g : Grid) (h : Handle) : Grid × R Unit :=
  match g[h.addr]? with
  | none => (g, .err .assertion)
  | some o =>
    if !h.w then (g, .err .assertion)
    else (g.set h.addr { o with ver := o.ver + 1 }, .ok ())

/-- `client.create_mutable_file`: no authority needed, a new object appears on the grid -/
def createMutableFile (g : Grid) : Grid × Handle :=
  (g ++ [⟨.mfile, [], 0⟩], ⟨g.length, true⟩)

/-! ## directory contents as stored (`_pack_normalized_children` / `DirectoryNode._unpack_contents`) -/

/-- one serialized entry: name, `ro_uri` in clear, `rwcapdata` = the child's write cap encrypted under the
directory's write key (absent when the child has no write cap) -/
structure Entry where
  name : Nat
  ro : Cap
  rwdata : Option Cap
  deriving DecidableEq, Repr

/-- `_pack_normalized_children` for one child node: `rw_uri = child.get_write_uri()`, `ro_uri = child.get_readonly_uri()` -/
def packChild (name : Nat) (child : Handle) : Entry :=
  ⟨name, ⟨child.addr, .read⟩, if child.w then some ⟨child.addr, .write⟩ else none⟩

/-- `_unpack_contents` for one entry as read by a view of the directory that is `writeable` or not:
`rw_uri` is decrypted only `if writeable` (a read-only view has no write key to decrypt with), then
`create_from_cap(rw_uri, ro_uri)` builds the child from `rw_uri or ro_uri` -/
def unpackChild (g : Grid) (writeable : Bool) (e : Entry) : Handle :=
  capHandle g ((if writeable then e.rwdata else none).getD e.ro)

def unpackContents (g : Grid) (writeable : Bool) (es : List Entry) : List (Nat × Handle) :=
  es.map (fun e => (e.name, unpackChild g writeable e))

/-- the stored form of a `Link` of the grid model -/
def Link.toEntry (n : Nat) (l : Link) : Entry :=
  ⟨n, ⟨l.addr, .read⟩, if l.rw then some ⟨l.addr, .write⟩ else none⟩

/-- the stored entries of the directory at `a` -/
def storedEntries (g : Grid) (a : Nat) : List Entry := (entriesOf g a).map (fun e => Link.toEntry e.1 e.2)

/-! ## the gateway's node cache (`NodeMaker.create_from_cap`) -/

/-- memo key: `b"I" + bigcap` / `b"M" + bigcap` -/
structure MemoKey where
  deepImm : Bool
  cap : Cap
  deriving DecidableEq, Repr

/-- `NodeMaker._node_cache` (a `WeakValueDictionary`: entries may vanish at any time, see `evict`) -/
abbrev NodeCache := List (MemoKey × Handle)

def cacheLookup (c : NodeCache) (k : MemoKey) : Option Handle :=
  match c with
  | [] => none
  | (k', h) :: rest => if k' == k then some h else cacheLookup rest k

/-- `create_from_cap(writecap, readcap)` with `bigcap = writecap or readcap`: a cached node is returned as
it is; otherwise the node is built from the cap string alone and cached only if it is mutable.
(`deep_immutable` only enters the key here; unknown / verify caps are never cached.) -/
def createFromCap (g : Grid) (c : NodeCache) (deepImm : Bool) (bigcap : Cap) : Handle × NodeCache :=
  match cacheLookup c ⟨deepImm, bigcap⟩ with
  | some h => (h, c)
  | none =>
    let h := capHandle g bigcap
    (h, if isMutableAt g bigcap.addr && !(bigcap.auth == .verify) then (⟨deepImm, bigcap⟩, h) :: c else c)

/-- garbage collection of the weak dictionary: any subset of the entries survives -/
def evict (c : NodeCache) (keep : MemoKey → Bool) : NodeCache := c.filter (fun e => keep e.1)

/-- a history of the cache: lookups (holding the node) and collections -/
inductive CacheOp
  | create (deepImm : Bool) (cap : Cap)
  | collect (keep : MemoKey → Bool)

/-- run a history; returns the nodes handed out, in order -/
def runCache (g : Grid) : NodeCache → List CacheOp → List Handle
  | _, [] => []
  | c, .create d cap :: rest => (createFromCap g c d cap).1 :: runCache g (createFromCap g c d cap).2 rest
  | c, .collect keep :: rest => runCache g (evict c keep) rest

/-! ## web layer: requests -/

inductive Meth | put | post | delete
  deriving DecidableEq, Repr

/-- the `t=` argument (`del` is `t=delete`, `unlink` is `t=unlink`: they differ in
`should_create_intermediate_directories`) -/
inductive T | none | mkdir | mkdirWithChildren | mkdirImmutable | upload | uri | del | unlink
            | rename | relink | setChildren | bad
  deriving DecidableEq, Repr

structure Req where
  meth : Meth
  t : T
  name : Option Nat := Option.none          -- name= / from_name=
  toName : Option Nat := Option.none        -- to_name=
  toDir : Option (Cap × List Nat) := Option.none   -- to_dir=CAP/path
  cap : Option Cap := Option.none           -- uri= or the request body of t=uri
  kids : List (Nat × Link) := []            -- JSON children (body)
  repl : Repl := .yes                       -- replace=
  mutableFmt : Bool := false                -- format=sdmf|mdmf
  offset : Bool := false                    -- offset= present (and >= 0)
  deriving DecidableEq, Repr

/-- `should_create_intermediate_directories` -/
def shouldCreate (r : Req) : Bool :=
  (r.meth == .put || r.meth == .post) && !(r.t == .del || r.t == .rename)

/-- the requests whose final path element is created by the traversal itself -/
def terminalMkdir (r : Req) : Bool :=
  (r.meth == .post && (r.t == .mkdir || r.t == .mkdirWithChildren || r.t == .mkdirImmutable)) ||
  (r.meth == .put && r.t == .mkdir)

/-- requests that are answered with the URI of the directory they address when it already exists
("our job was done by the traversal"): nothing is left to modify -/
def Req.alreadyDoneForm (r : Req) : Bool :=
  (r.meth == .put && r.t == .mkdir) ||
  (r.meth == .post && (r.t == .mkdir || r.t == .mkdirWithChildren || r.t == .mkdirImmutable) && r.name.isNone)

inductive Handler
  | dir (node : Handle) (parent : Option (Handle × Nat))
  | file (node : Handle) (parent : Option (Handle × Nat))
  | placeholder (parent : Handle) (name : Nat)
  | unknown
  | errorPage (e : Err)
  deriving DecidableEq, Repr

/-- `make_handler_for` -/
def makeHandlerFor (g : Grid) (h : Handle) (parent : Option (Handle × Nat)) : Handler :=
  match kindOf g h.addr with
  | some k => if k.isDir then .dir h parent else .file h parent
  | none => .unknown

/-- `URIHandler.getChild`: verify caps (of any kind) become `UnknownNode`s -/
def rootHandler (g : Grid) (c : Cap) : Handler :=
  if c.auth == .verify then .unknown else makeHandlerFor g (capHandle g c) none

/-- one `getChild(name)` step; `terminal` = this is the last path segment -/
def stepSeg (g : Grid) (hd : Handler) (name : Nat) (terminal : Bool) (r : Req) : Grid × R Handler :=
  match hd with
  | .dir node _ =>
    match getChild? g node name with
    | none =>
      if !terminal then
        if shouldCreate r then
          match createSubdirectory g node name [] true .yes with
          | (g1, .ok c) => (g1, .ok (.dir c (some (node, name))))
          | (g1, .err e) => (g1, .err e)
        else (g, .err .noSuchChild)
      else if terminalMkdir r then
        let kids := if r.t == .mkdirWithChildren || r.t == .mkdirImmutable then r.kids else []
        match createSubdirectory g node name kids (!(r.t == .mkdirImmutable)) .yes with
        | (g1, .ok c) => (g1, .ok (.dir c (some (node, name))))
        | (g1, .err e) => (g1, .err e)
      else if r.meth == .put && (r.t == .none || r.t == .uri) then
        (g, .ok (.placeholder node name))
      else (g, .err .noSuchChild)
    | some ch =>
      if !terminal && shouldCreate r && !(isDirAt g ch.addr) then (g, .ok (.errorPage .conflict))
      else (g, .ok (makeHandlerFor g ch (some (node, name))))
  | .file _ _ => (g, .ok (.errorPage (if shouldCreate r then .conflict else .badRequest)))
  | .errorPage e => (g, .ok (.errorPage e))
  | .placeholder _ _ => (g, .ok (.errorPage .notFound))
  | .unknown => (g, .ok (.errorPage .notFound))

/-- the `getChild` chain.  `_got_child` computes `terminal` by comparing the *name* of the segment
with the name of the last segment of the request path (not the position): `last`. -/
def traverse (g : Grid) (hd : Handler) (r : Req) (last : Nat) : List Nat → Grid × R Handler
  | [] => (g, .ok hd)
  | n :: rest =>
    match stepSeg g hd n (n == last) r with
    | (g1, .ok hd1) => traverse g1 hd1 r last rest
    | (g1, .err e) => (g1, .err e)

/-! ## web layer: render methods -/

/-- `ReplaceMeMixin.replace_me_with_a_child` / `replace_me_with_a_formpost` -/
def replaceWithUpload (fixed : Bool) (g : Grid) (parent : Handle) (name : Nat) (r : Req) : Grid × R Unit :=
  if r.mutableFmt then
    if fixed && !parent.w then (g, .err .notWriteable)
    else
      let (g1, nn) := createMutableFile g
      setNode g1 parent name nn r.repl
  else
    match addFile g parent name r.repl with
    | (g1, .ok _) => (g1, .ok ())
    | (g1, .err e) => (g1, .err e)

/-- `replace_me_with_a_childcap` -/
def replaceWithCap (g : Grid) (parent : Handle) (name : Nat) (r : Req) : Grid × R Unit :=
  match r.cap with
  | none => (g, .err .webError)
  | some c => setNode g parent name (capHandle g c) r.repl

def withParent (g : Grid) (parent : Option (Handle × Nat)) (e : Err)
    (k : Handle → Nat → Grid × R Unit) : Grid × R Unit :=
  match parent with
  | none => (g, .err e)
  | some (p, n) => k p n

def renderPlaceholder (fixed : Bool) (g : Grid) (p : Handle) (n : Nat) (r : Req) : Grid × R Unit :=
  match r.meth, r.t with
  | .put, .none => replaceWithUpload fixed g p n r
  | .put, .uri => replaceWithCap g p n r
  | .put, _ => (g, .err .webError)
  | .post, t =>
    if r.repl == .onlyFiles then (g, .err .webError)     -- boolean_of_arg(replace) comes first
    else if t == .upload then replaceWithUpload fixed g p n r
    else (g, .err .webError)
  | .delete, _ => (g, .err .notAllowed)

def renderFile (fixed : Bool) (g : Grid) (node : Handle) (parent : Option (Handle × Nat)) (r : Req) :
    Grid × R Unit :=
  match r.meth, r.t with
  | .put, .none =>
    if r.repl == .no then (g, .err .existingChild)
    else if isMutableAt g node.addr then
      if !node.w then (g, .err .webError)
      else overwrite g node            -- replace_my_contents / update_my_contents
    else if r.offset then (g, .err .webError)
    else withParent g parent .assertion (fun p n => replaceWithUpload fixed g p n r)
  | .put, .uri =>
    if r.repl == .no then (g, .err .existingChild)
    else withParent g parent .assertion (fun p n => replaceWithCap g p n r)
  | .put, _ => (g, .err .webError)
  | .post, t =>
    if r.repl == .onlyFiles then (g, .err .webError)     -- boolean_of_arg(replace) comes first
    else if t == .upload then
      if isMutableAt g node.addr then overwrite g node   -- no is_readonly test in the web layer here
      else if r.repl == .no then (g, .err .existingChild)
      else withParent g parent .assertion (fun p n => replaceWithUpload fixed g p n r)
    else (g, .err .webError)
  | .delete, _ => withParent g parent .assertion (fun p n => deleteChild g p n)

/-- POST t=upload addressed to a directory with name= : `_POST_upload` looks the name up and calls
`child.render(req)` on a placeholder or on the child's handler.  When the child is a *directory* its
own `render_POST` sees the same `t=upload&name=` and descends again; `fuel` bounds the descent (the
code has no bound: a cycle of directories linked under that one name would not terminate). -/
def dirPostUpload (fixed : Bool) (g : Grid) (r : Req) (n : Nat) : Nat → Handle → Grid × R Unit
  | 0, _ => (g, .err .assertion)
  | fuel + 1, node =>
    match getChild? g node n with
    | none => renderPlaceholder fixed g node n r
    | some ch =>
      match makeHandlerFor g ch (some (node, n)) with
      | .file fnode fparent => renderFile fixed g fnode fparent r
      | .dir dnode _ => dirPostUpload fixed g r n fuel dnode
      | _ => (g, .err .notAllowed)

def okUnit (x : Grid × R Handle) : Grid × R Unit :=
  match x with
  | (g, .ok _) => (g, .ok ())
  | (g, .err e) => (g, .err e)

def renderDir (fixed : Bool) (g : Grid) (node : Handle) (parent : Option (Handle × Nat)) (r : Req) :
    Grid × R Unit :=
  match r.meth, r.t with
  | .delete, _ => withParent g parent .assertion (fun p n => deleteChild g p n)
  | .put, .mkdir => (g, .ok ())
  | .put, .uri =>
    if r.repl == .no then (g, .err .existingChild)
    else withParent g parent .attributeError (fun p n => replaceWithCap g p n r)
  | .put, _ => (g, .err .webError)
  | .post, .mkdir =>
    match r.name with
    | none => (g, .ok ())
    | some n =>
      if r.repl == .onlyFiles then (g, .err .webError)   -- boolean_of_arg(replace)
      else okUnit (createSubdirectory g node n [] true r.repl)
  | .post, .mkdirWithChildren =>
    match r.name with
    | none => (g, .ok ())
    | some n => okUnit (createSubdirectory g node n r.kids true .no)
  | .post, .mkdirImmutable =>
    match r.name with
    | none => (g, .ok ())
    | some n => okUnit (createSubdirectory g node n r.kids false .no)
  | .post, .upload =>
    match r.name with
    | none => (g, .err .webError)
    | some n => dirPostUpload fixed g r n (g.length + 1) node
  | .post, .uri =>
    match r.cap, r.name with
    | some c, some n => setUri g node n c r.repl
    | _, _ => (g, .err .webError)
  | .post, .del | .post, .unlink =>
    match r.name with
    | none => deleteMissing g node       -- a missing name= means the empty name
    | some n => deleteChild g node n
  | .post, .rename =>
    match r.name, r.toName, r.toDir with
    | some n, some tn, none => moveChildTo g node n node tn r.repl
    | _, _, _ => (g, .err .webError)
  | .post, .relink =>
    match r.name with
    | none => (g, .err .webError)
    | some n =>
      let tn := r.toName.getD n
      match r.toDir with
      | none => moveChildTo g node n node tn r.repl
      | some (c, path) =>
        if !(isDirAt g c.addr) || c.auth == .verify then (g, .err .webError)
        else match resolve g (capHandle g c) path with
          | none => (g, .err .noSuchChild)
          | some np =>
            if !(isDirAt g np.addr) then (g, .err .webError)
            else moveChildTo g node n np tn r.repl
  | .post, .setChildren => setChildren g node r.kids r.repl
  | .post, _ => (g, .err .webError)

def render (fixed : Bool) (g : Grid) (hd : Handler) (r : Req) : Grid × R Unit :=
  match hd with
  | .errorPage e => (g, .err e)
  | .unknown => (g, .err .notAllowed)
  | .placeholder p n => renderPlaceholder fixed g p n r
  | .file node parent => renderFile fixed g node parent r
  | .dir node parent => renderDir fixed g node parent r

/-- the whole request `METHOD /uri/<cap>/<path…>?t=…` -/
def serve (fixed : Bool) (g : Grid) (c : Cap) (path : List Nat) (r : Req) : Grid × R Unit :=
  match traverse g (rootHandler g c) r (path.getLast?.getD 0) path with
  | (g1, .ok hd) => render fixed g1 hd r
  | (g1, .err e) => (g1, .err e)

/-! ## error responses: which cap strings the body of a refused request shows -/

/-- the cap strings in the request *URL* (path and query string): the root cap, `uri=` of a POST, `to_dir=` -/
def requestUrlCaps (c : Cap) (r : Req) : List Cap :=
  [c] ++ (if r.meth == .post then r.cap.toList else []) ++ (r.toDir.map (·.1)).toList

/-- `humanize_exception` texts, the "file in the way" / "no such child" pages and the traceback page name
exception classes, child names and source lines only; the one page that echoes anything of the request is
Twisted's 405 "Method Not Allowed" page (POST to a resource without `render_POST`), which prints the request URI -/
def refusedBodyCaps (c : Cap) (r : Req) (e : Err) : List Cap :=
  if e == .notAllowed && r.meth == .post then requestUrlCaps c r else []

/-! ## renderers: which cap strings a response shows -/

def getWriteUri (h : Handle) : Option Cap := if h.w then some ⟨h.addr, .write⟩ else none
def getReadonlyUri (h : Handle) : Cap := ⟨h.addr, .read⟩
def getVerifyUri (h : Handle) : Cap := ⟨h.addr, .verify⟩
/-- `node.get_uri()`: the strongest cap the node object holds -/
def getUri (h : Handle) : Cap := if h.w then ⟨h.addr, .write⟩ else ⟨h.addr, .read⟩

def capFields (h : Handle) : List Cap :=
  (getWriteUri h).toList ++ [getReadonlyUri h, getVerifyUri h]

def children (g : Grid) (h : Handle) : List Handle :=
  (entriesOf g h.addr).map (fun e => childHandle g h e.2)

/-- `_directory_json_metadata` / `_file_json_metadata`: rw_uri, ro_uri, verify_uri of the node and of
each child -/
def renderJson (g : Grid) (h : Handle) : List Cap :=
  capFields h ++ (children g h).flatMap capFields

/-- `MoreInfo`: directory write/read/verify caps and those of the backing file (same authority) -/
def renderInfo (_g : Grid) (h : Handle) : List Cap :=
  capFields h ++ capFields h ++ [getUri h]

/-- `DirectoryAsHTML`: links built from `get_uri()` of each child; the node's own `get_uri()` (form
actions) and the "Read-Only Version" link appear only when the node is writeable.  (The upload form
also echoes the request's own URL; that is the client's cap, not part of this list.) -/
def renderHtml (g : Grid) (h : Handle) : List Cap :=
  (if h.w then [getUri h, getReadonlyUri h] else []) ++ (children g h).map getUri

/-- `GET ?t=uri` -/
def renderUri (h : Handle) : List Cap := [getUri h]

/-- `GET ?t=readonly-uri` -/
def renderReadonlyUri (h : Handle) : List Cap := [getReadonlyUri h]

end Tahoe.Web
