import Tahoe.Generated.Identity
/-!
Model of `==`, `!=` and `hash()` on capability objects and node objects (C43).

Transcribed per class from
* `uri.py` `_BaseURI.__eq__/__ne__/__hash__` (inherited unchanged by the 18 concrete cap classes),
  `uri.py` `UnknownURI`,
* `immutable/filenode.py` `ImmutableFileNode.__eq__/__ne__/__hash__`,
* `immutable/literal.py` `_ImmutableFileNodeBase.__eq__/__ne__/__hash__` (`LiteralFileNode`),
* `mutable/filenode.py` `MutableFileNode.__eq__/__ne__/__hash__`,
* `dirnode.py` `DirectoryNode`,
* `unknown.py` `UnknownNode.__eq__/__ne__` (defines `__eq__` and no `__hash__`: unhashable).

A Python object is abstracted to (class, `id()`, the cap string(s) it holds).  The operators are the
CPython protocol: `a == b` calls `type(a).__eq__(a, b)`; on `NotImplemented` the reflected
`type(b).__eq__(b, a)`; on `NotImplemented` again, identity.  (The "right operand is a proper subclass
that overrides the method" priority rule never applies: no modelled class is a proper subclass of another
modelled class with a different `__eq__`.)  `object.__eq__` answers `True` for the same object and
`NotImplemented` otherwise; `object.__ne__` inverts `__eq__` unless that is `NotImplemented`.

Two variants are given where the shipped code and the proposed repair differ:
* `Variant.shipped` — the code as it was in /repo at the pinned commit:
  `ImmutableFileNode.__ne__` returns `self.u.__eq__(other.u)` (sic), `DirectoryNode` and `UnknownURI`
  define none of the three methods (object identity), `UnknownNode` defines `__eq__` and no `__hash__` (unhashable);
* `Variant.fixed` — fixes/C43-ne.diff (`__ne__` returns `self.u.__ne__(other.u)`),
  fixes/C43-dirnode-eq.diff and fixes/C43-unknownuri-eq.diff (class-and-cap-string equality, like
  `MutableFileNode`), fixes/applied/C43-unknownnode-hash.diff (`UnknownNode.__hash__` =
  `hash((self.__class__, self.ro_uri, self.rw_uri))`).  All four are committed in /repo.
The driver and the property theorems use `fixed`; `shipped` carries the counterexample theorems.

Hash values are symbolic (`HashVal`): CPython's `hash(bytes)`, `hash(None)`, `object.__hash__` (a function of
the address) and the tuple hash (a function of the component hashes) are left uninterpreted; the theorem
`eq_implies_hash_eq` holds for every interpretation.
-/
namespace Tahoe.Identity
open Tahoe.Generated

abbrev Bytes := List UInt8

/-- the concrete subclasses of `_BaseURI` -/
inductive UriKind
  | chk | chkVerifier | lit
  | ssk | sskRo | sskVerifier
  | mdmf | mdmfRo | mdmfVerifier
  | dir2 | dir2Ro | dir2Chk | dir2Lit | dir2Mdmf | dir2MdmfRo
  | dir2MdmfVerifier | dir2Verifier | dir2ChkVerifier
  deriving DecidableEq, Repr

def UriKind.all : List UriKind :=
  [.chk, .chkVerifier, .lit, .ssk, .sskRo, .sskVerifier, .mdmf, .mdmfRo, .mdmfVerifier,
   .dir2, .dir2Ro, .dir2Chk, .dir2Lit, .dir2Mdmf, .dir2MdmfRo, .dir2MdmfVerifier, .dir2Verifier, .dir2ChkVerifier]

/-- Python class name of the kind (as listed by the extractor in `URI_CLASSES`). -/
def UriKind.className : UriKind → String
  | .chk => "CHKFileURI" | .chkVerifier => "CHKFileVerifierURI" | .lit => "LiteralFileURI"
  | .ssk => "WriteableSSKFileURI" | .sskRo => "ReadonlySSKFileURI" | .sskVerifier => "SSKVerifierURI"
  | .mdmf => "WriteableMDMFFileURI" | .mdmfRo => "ReadonlyMDMFFileURI" | .mdmfVerifier => "MDMFVerifierURI"
  | .dir2 => "DirectoryURI" | .dir2Ro => "ReadonlyDirectoryURI" | .dir2Chk => "ImmutableDirectoryURI"
  | .dir2Lit => "LiteralDirectoryURI" | .dir2Mdmf => "MDMFDirectoryURI" | .dir2MdmfRo => "ReadonlyMDMFDirectoryURI"
  | .dir2MdmfVerifier => "MDMFDirectoryURIVerifier" | .dir2Verifier => "DirectoryURIVerifier"
  | .dir2ChkVerifier => "ImmutableDirectoryURIVerifier"

/-- what `to_string()` of the class starts with (taken from the source by the extractor) -/
def UriKind.pre : UriKind → Bytes
  | .chk => Identity.PREFIX_CHKFileURI | .chkVerifier => Identity.PREFIX_CHKFileVerifierURI
  | .lit => Identity.PREFIX_LiteralFileURI
  | .ssk => Identity.PREFIX_WriteableSSKFileURI | .sskRo => Identity.PREFIX_ReadonlySSKFileURI
  | .sskVerifier => Identity.PREFIX_SSKVerifierURI
  | .mdmf => Identity.PREFIX_WriteableMDMFFileURI | .mdmfRo => Identity.PREFIX_ReadonlyMDMFFileURI
  | .mdmfVerifier => Identity.PREFIX_MDMFVerifierURI
  | .dir2 => Identity.PREFIX_DirectoryURI | .dir2Ro => Identity.PREFIX_ReadonlyDirectoryURI
  | .dir2Chk => Identity.PREFIX_ImmutableDirectoryURI | .dir2Lit => Identity.PREFIX_LiteralDirectoryURI
  | .dir2Mdmf => Identity.PREFIX_MDMFDirectoryURI | .dir2MdmfRo => Identity.PREFIX_ReadonlyMDMFDirectoryURI
  | .dir2MdmfVerifier => Identity.PREFIX_MDMFDirectoryURIVerifier
  | .dir2Verifier => Identity.PREFIX_DirectoryURIVerifier
  | .dir2ChkVerifier => Identity.PREFIX_ImmutableDirectoryURIVerifier

/-- an instance of a `_BaseURI` subclass, seen through `to_string()` = class prefix ++ rest -/
structure Uri where
  kind : UriKind
  body : Bytes
  deriving DecidableEq, Repr

def Uri.toString (u : Uri) : Bytes := u.kind.pre ++ u.body

/-- A Python object, abstracted to its class, its `id()` and the cap strings it holds. -/
inductive Obj
  /-- instance of a concrete `_BaseURI` subclass -/
  | uri (id : Nat) (u : Uri)
  /-- `uri.UnknownURI(_uri)`; `_uri` may be `None` (`UnknownNode.get_readcap()` of a write-only node) -/
  | unknownUri (id : Nat) (s : Option Bytes)
  /-- `ImmutableFileNode`, `self.u` -/
  | immNode (id : Nat) (u : Uri)
  /-- `LiteralFileNode`, `self.u` -/
  | litNode (id : Nat) (u : Uri)
  /-- `MutableFileNode`, `self._uri` -/
  | mutNode (id : Nat) (u : Uri)
  /-- `DirectoryNode`, `self._uri` -/
  | dirNode (id : Nat) (u : Uri)
  /-- `UnknownNode`, `self.rw_uri`, `self.ro_uri` (as stored by the constructor) -/
  | unknownNode (id : Nat) (rw ro : Option Bytes)
  /-- an object of an unrelated type that inherits `object`'s comparison (e.g. the tests' `NotANode()`);
      a `str`/`bytes` operand behaves the same against all modelled classes (`str.__eq__` answers
      `NotImplemented` for a non-str) -/
  | other (id : Nat)
  deriving DecidableEq, Repr

def Obj.id : Obj → Nat
  | .uri i _ | .unknownUri i _ | .immNode i _ | .litNode i _ | .mutNode i _ | .dirNode i _
  | .unknownNode i _ _ | .other i => i

/-- result of a rich-comparison method: `True`, `False` or `NotImplemented` -/
inductive R | t | f | ni
  deriving DecidableEq, Repr

def R.ofBool (b : Bool) : R := if b then .t else .f

inductive Variant | shipped | fixed
  deriving DecidableEq, Repr

/-- `_BaseURI.__eq__(self, them)` with `them` known to be a `_BaseURI`:
    `self.to_string() == them.to_string()` -/
def uriStrEq (u v : Uri) : Bool := u.toString == v.toString

/-- `object.__eq__` -/
def objectEq (a b : Obj) : R := if a.id == b.id then .t else .ni

/-- `type(a).__eq__(a, b)` -/
def eqMethod (var : Variant) (a b : Obj) : R :=
  match a with
  | .uri _ u =>                                    -- _BaseURI.__eq__
    match b with
    | .uri _ v => .ofBool (uriStrEq u v)           -- isinstance(them, _BaseURI)
    | _ => .f
  | .unknownUri _ s =>
    match var with
    | .shipped => objectEq a b                     -- no __eq__ defined
    | .fixed =>                                    -- isinstance(them, UnknownURI) → self._uri == them._uri
      match b with
      | .unknownUri _ s' => .ofBool (s == s')
      | _ => .f
  | .immNode _ u =>                                -- ImmutableFileNode.__eq__
    match b with
    | .immNode _ v => .ofBool (uriStrEq u v)       -- self.u.__eq__(other.u)
    | _ => .f
  | .litNode _ u =>                                -- _ImmutableFileNodeBase.__eq__
    match b with
    | .litNode _ v => .ofBool (uriStrEq u v)       -- self.u == other.u
    | _ => .f
  | .mutNode _ u =>                                -- MutableFileNode.__eq__
    match b with
    | .mutNode _ v => .ofBool (uriStrEq u v)       -- type(self) == type(them) → self._uri == them._uri
    | _ => .f
  | .dirNode _ u =>
    match var with
    | .shipped => objectEq a b                     -- no __eq__ defined
    | .fixed =>
      match b with
      | .dirNode _ v => .ofBool (uriStrEq u v)     -- type(self) == type(them) → self._uri == them._uri
      | _ => .f
  | .unknownNode _ rw ro =>                        -- UnknownNode.__eq__
    match b with
    | .unknownNode _ rw' ro' => .ofBool (ro' == ro && rw' == rw)
    | _ => .f
  | .other _ => objectEq a b

/-- the operator `a == b` (truth value of the result) -/
def pyEq (var : Variant) (a b : Obj) : Bool :=
  match eqMethod var a b with
  | .t => true
  | .f => false
  | .ni =>
    match eqMethod var b a with
    | .t => true
    | .f => false
    | .ni => a.id == b.id

/-- `object.__ne__`: delegates to `__eq__` and inverts the result unless it is `NotImplemented` -/
def objectNe (var : Variant) (a b : Obj) : R :=
  match eqMethod var a b with
  | .t => .f
  | .f => .t
  | .ni => .ni

/-- `type(a).__ne__(a, b)` -/
def neMethod (var : Variant) (a b : Obj) : R :=
  match a with
  | .uri _ u =>                                    -- _BaseURI.__ne__
    match b with
    | .uri _ v => .ofBool (u.toString != v.toString)
    | _ => .t
  | .unknownUri _ _ =>
    match var with
    | .shipped => objectNe var a b
    | .fixed => .ofBool (!(pyEq var a b))          -- not (self == them)
  | .immNode _ u =>                                -- ImmutableFileNode.__ne__
    match b with
    | .immNode _ v =>
      match var with
      | .shipped => .ofBool (uriStrEq u v)         -- return self.u.__eq__(other.u)   (sic)
      | .fixed => .ofBool (u.toString != v.toString) -- return self.u.__ne__(other.u)
    | _ => .t
  | .litNode _ _ => .ofBool (!(pyEq var a b))      -- return not self == other
  | .mutNode _ _ => .ofBool (!(pyEq var a b))      -- return not (self == them)
  | .dirNode _ _ =>
    match var with
    | .shipped => objectNe var a b
    | .fixed => .ofBool (!(pyEq var a b))
  | .unknownNode _ _ _ => .ofBool (!(pyEq var a b)) -- return not (self == other)
  | .other _ => objectNe var a b

/-- the operator `a != b` -/
def pyNe (var : Variant) (a b : Obj) : Bool :=
  match neMethod var a b with
  | .t => true
  | .f => false
  | .ni =>
    match neMethod var b a with
    | .t => true
    | .f => false
    | .ni => a.id != b.id

/-- symbolic hash values -/
inductive HashVal
  | ofBytes (s : Bytes)                       -- hash(b"...")
  | ofNone                                    -- hash(None)
  | ofIdent (id : Nat)                        -- object.__hash__(x)
  | ofClassAnd (cls : String) (h : HashVal)   -- hash((SomeClass, x)) with hash(x) = h
  | ofPair (h1 h2 : HashVal)                  -- the (x, y) part of hash((SomeClass, x, y))
  deriving DecidableEq, Repr

/-- `hash(x)` of a `bytes`-or-`None` attribute -/
def hashOpt : Option Bytes → HashVal
  | some b => .ofBytes b
  | none => .ofNone

/-- `hash(a)`; `none` = `TypeError: unhashable type` -/
def hashMethod (var : Variant) : Obj → Option HashVal
  | .uri _ u => some (.ofBytes u.toString)                       -- self.to_string().__hash__()
  | .unknownUri i s =>
    match var with
    | .shipped => some (.ofIdent i)
    | .fixed => some (match s with | some b => .ofBytes b | none => .ofNone)   -- hash(self.to_string())
  | .immNode _ u => some (.ofBytes u.toString)                   -- self.u.__hash__()
  | .litNode _ u => some (.ofBytes u.toString)                   -- self.u.__hash__()
  | .mutNode _ u => some (.ofClassAnd "MutableFileNode" (.ofBytes u.toString)) -- hash((self.__class__, self._uri))
  | .dirNode i u =>
    match var with
    | .shipped => some (.ofIdent i)
    | .fixed => some (.ofClassAnd "DirectoryNode" (.ofBytes u.toString))
  | .unknownNode _ rw ro =>
    match var with
    | .shipped => none                                           -- __eq__ without __hash__ ⇒ __hash__ = None
    | .fixed =>                                                  -- hash((self.__class__, self.ro_uri, self.rw_uri))
      some (.ofClassAnd "UnknownNode" (.ofPair (hashOpt ro) (hashOpt rw)))
  | .other i => some (.ofIdent i)

/-- an interpretation of the symbolic hash values as machine integers -/
structure HashInterp where
  bytes : Bytes → Int
  none_ : Int
  ident : Nat → Int
  tuple : String → Int → Int
  pair : Int → Int → Int

def HashInterp.eval (I : HashInterp) : HashVal → Int
  | .ofBytes s => I.bytes s
  | .ofNone => I.none_
  | .ofIdent i => I.ident i
  | .ofClassAnd c h => I.tuple c (I.eval h)
  | .ofPair a b => I.pair (I.eval a) (I.eval b)

/-! ### what the property statement talks about -/

def Obj.isCap : Obj → Bool
  | .uri _ _ | .unknownUri _ _ => true
  | _ => false

def Obj.isNode : Obj → Bool
  | .immNode _ _ | .litNode _ _ | .mutNode _ _ | .dirNode _ _ | .unknownNode _ _ _ => true
  | _ => false

/-- The capability strings an object carries, as (cap, additional read cap):
    `to_string()` for cap objects, `get_uri()` for the known node classes, and the stored pair
    `(rw_uri, ro_uri)` for an `UnknownNode` (the only class that holds two independent strings). -/
def caps : Obj → Option (Option Bytes × Option Bytes)
  | .uri _ u => some (some u.toString, none)
  | .unknownUri _ s => some (s, none)
  | .immNode _ u | .litNode _ u | .mutNode _ u | .dirNode _ u => some (some u.toString, none)
  | .unknownNode _ rw ro => some (rw, ro)
  | .other _ => none

/-- Class invariants established by the constructors / by `NodeMaker._create_from_single_cap`:
    `ImmutableFileNode.__init__` asserts `CHKFileURI`, `LiteralFileNode.__init__` asserts `LiteralFileURI`,
    the node maker builds `MutableFileNode`s from the four SSK/MDMF read/write classes only,
    `wrap_dirnode_cap` yields one of the six directory cap classes, and `UnknownNode.__init__` never stores
    a `rw_uri` without a `ro_uri`. -/
def WF : Obj → Prop
  | .immNode _ u => u.kind = .chk
  | .litNode _ u => u.kind = .lit
  | .mutNode _ u => u.kind = .ssk ∨ u.kind = .sskRo ∨ u.kind = .mdmf ∨ u.kind = .mdmfRo
  | .dirNode _ u => u.kind = .dir2 ∨ u.kind = .dir2Ro ∨ u.kind = .dir2Chk ∨ u.kind = .dir2Lit
                    ∨ u.kind = .dir2Mdmf ∨ u.kind = .dir2MdmfRo
  | .unknownNode _ rw ro => rw.isSome → ro.isSome
  | _ => True

instance (o : Obj) : Decidable (WF o) := by
  cases o <;> simp only [WF] <;> infer_instance

/-- `uri.from_string` is a function: a string held by an `UnknownURI` (it did not parse, or failed its
    `ro.`/`imm.` constraint) is not also the `to_string()` of a parsed cap object. -/
def ParseFunctional (a b : Obj) : Prop :=
  match a, b with
  | .uri _ u, .unknownUri _ s => s ≠ some u.toString
  | .unknownUri _ s, .uri _ u => s ≠ some u.toString
  | _, _ => True

/-- `id()` identifies objects: two descriptions with the same id describe the same object. -/
def IdConsistent (a b : Obj) : Prop := a.id = b.id → a = b

end Tahoe.Identity
