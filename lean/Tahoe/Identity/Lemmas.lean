import Tahoe.Identity.Model
/-! Helper lemmas for C43: the class prefixes are pairwise prefix-free, hence `to_string()` determines
    the cap class and the rest of the string. -/
namespace Tahoe.Identity

theorem pre_isPrefixOf_iff (k1 k2 : UriKind) : k1.pre.isPrefixOf k2.pre = true ↔ k1 = k2 := by
  cases k1 <;> cases k2 <;> decide

theorem toString_inj (u v : Uri) (h : u.toString = v.toString) : u = v := by
  obtain ⟨k1, b1⟩ := u
  obtain ⟨k2, b2⟩ := v
  simp only [Uri.toString] at h
  have hk : k1 = k2 := by
    rcases List.prefix_or_prefix_of_prefix (l₁ := k1.pre) (l₂ := k2.pre) (l₃ := k1.pre ++ b1)
        (List.prefix_append _ _) (h ▸ List.prefix_append _ _) with hp | hp
    · exact (pre_isPrefixOf_iff k1 k2).mp (List.isPrefixOf_iff_prefix.mpr hp)
    · exact ((pre_isPrefixOf_iff k2 k1).mp (List.isPrefixOf_iff_prefix.mpr hp)).symm
  subst hk
  have := List.append_cancel_left h
  subst this
  rfl

theorem uriStrEq_iff (u v : Uri) : uriStrEq u v = true ↔ u = v := by
  simp only [uriStrEq, beq_iff_eq]
  exact ⟨toString_inj u v, fun h => h ▸ rfl⟩

set_option linter.unusedSimpArgs false in
/-- transitivity of `==` (512 class combinations; the proof of `C43.eq_transitive`) -/
theorem pyEq_trans (a b c : Obj) (hab : IdConsistent a b) (hbc : IdConsistent b c)
    (h1 : pyEq .fixed a b = true) (h2 : pyEq .fixed b c = true) : pyEq .fixed a c = true := by
  cases a <;> cases b <;>
    simp_all [pyEq, eqMethod, objectEq, R.ofBool, uriStrEq, Obj.id, IdConsistent] <;>
    cases c <;> (try simp_all [pyEq, eqMethod, objectEq, R.ofBool, uriStrEq, Obj.id, IdConsistent]) <;>
    (try grind)

end Tahoe.Identity
