import Tahoe.Storage.LemmasLease
import Tahoe.Storage.SlotSpec
/-!
Bucket-level helper lemmas (C23 refinement of requests, C24 atomicity).
-/
namespace Tahoe.Storage.Slot
open Tahoe.Base.File Tahoe.Storage Tahoe.Storage.Mutable

/-- every container of the bucket satisfies the container invariant, and share numbers are distinct
    (file names in a directory) -/
structure BucketWF (b : Bucket) : Prop where
  wf : ∀ p ∈ b, WF p.2
  nodup : (b.map (·.1)).Nodup

/-- abstraction: the byte array of every share -/
def absBucket (b : Bucket) : Spec.Slot := b.map fun p => (p.1, absData p.2)

theorem lookup_mem {b : Bucket} {n : Nat} {f : File} (h : lookup b n = some f) : (n, f) ∈ b := by
  unfold lookup at h
  cases hf : b.find? (·.1 == n) with
  | none => simp [hf] at h
  | some p =>
    simp only [hf, Option.map_some, Option.some.injEq] at h
    have h1 := List.find?_some hf
    have h2 := List.mem_of_find?_eq_some hf
    simp only [beq_iff_eq] at h1
    obtain ⟨a, c⟩ := p
    simp only at h1 h
    subst h1; subst h
    exact h2

theorem lookup_abs (b : Bucket) (n : Nat) : lookup (absBucket b) n = (lookup b n).map absData := by
  unfold lookup absBucket
  induction b with
  | nil => rfl
  | cons p rest ih =>
    simp only [List.map_cons, List.find?_cons]
    by_cases h : p.1 == n
    · simp [h]
    · simp only [h]; exact ih

theorem erase_abs (b : Bucket) (n : Nat) : absBucket (erase b n) = erase (absBucket b) n := by
  simp [erase, absBucket, List.filter_map, Function.comp_def]

theorem store_abs (b : Bucket) (n : Nat) (f : File) :
    absBucket (store b n f) = store (absBucket b) n (absData f) := by
  unfold store
  rw [lookup_abs]
  cases h : lookup b n with
  | none =>
    simp only [Option.map_none, Option.isSome_none]
    simp [absBucket]
  | some g =>
    simp only [Option.map_some, Option.isSome_some, if_true]
    unfold absBucket
    simp only [List.map_map]
    apply List.map_congr_left
    intro p _
    by_cases hp : p.1 = n <;> simp [hp]

theorem keys_erase (b : Bucket) (n : Nat) : (erase b n).map (·.1) = (b.map (·.1)).filter (· != n) := by
  simp [erase, List.filter_map, Function.comp_def]

theorem lookup_none_not_mem {b : Bucket} {n : Nat} (h : lookup b n = none) : n ∉ b.map (·.1) := by
  unfold lookup at h
  simp only [Option.map_eq_none_iff] at h
  intro hm
  rw [List.mem_map] at hm
  obtain ⟨p, hp, e⟩ := hm
  have := List.find?_eq_none.mp h p hp
  simp [e] at this

theorem BucketWF.erase {b : Bucket} (h : BucketWF b) (n : Nat) : BucketWF (erase b n) := by
  refine ⟨fun p hp => h.wf p (List.mem_filter.mp hp).1, ?_⟩
  rw [keys_erase]
  exact h.nodup.filter _

theorem BucketWF.store {b : Bucket} (h : BucketWF b) (n : Nat) {f : File} (hf : WF f) : BucketWF (store b n f) := by
  unfold Slot.store
  cases hl : Slot.lookup b n with
  | some g =>
    simp only [Option.isSome_some, if_true]
    refine ⟨?_, ?_⟩
    · intro p hp
      rw [List.mem_map] at hp
      obtain ⟨q, hq, e⟩ := hp
      split at e
      · subst e; exact hf
      · subst e; exact h.wf q hq
    · have : (b.map fun p => if p.1 == n then (n, f) else p).map (·.1) = b.map (·.1) := by
        rw [List.map_map]
        apply List.map_congr_left
        intro p _
        by_cases hp : p.1 = n <;> simp [hp]
      rw [this]; exact h.nodup
  | none =>
    simp only [Option.isSome_none, Bool.false_eq_true, if_false]
    refine ⟨?_, ?_⟩
    · intro p hp
      rw [List.mem_append] at hp
      rcases hp with hp | hp
      · exact h.wf p hp
      · simp only [List.mem_singleton] at hp; subst hp; exact hf
    · rw [List.map_append, List.nodup_append]
      refine ⟨h.nodup, by simp, ?_⟩
      intro a ha c hc
      simp only [List.map_cons, List.map_nil, List.mem_singleton] at hc
      subst hc
      intro e; subst e
      exact lookup_none_not_mem hl ha

theorem BucketWF.nil : BucketWF [] := ⟨fun _ h => by simp at h, by simp⟩

theorem BucketWF.lookup {b : Bucket} (h : BucketWF b) {n : Nat} {f : File} (e : lookup b n = some f) : WF f :=
  h.wf (n, f) (lookup_mem e)

theorem lookup_of_mem {b : Bucket} (hn : (b.map (·.1)).Nodup) {n : Nat} {f : File} (hm : (n, f) ∈ b) :
    lookup b n = some f := by
  unfold lookup
  induction b with
  | nil => simp at hm
  | cons p rest ih =>
    simp only [List.map_cons, List.nodup_cons] at hn
    simp only [List.find?_cons]
    rcases List.mem_cons.mp hm with e | hm'
    · subst e; simp
    · have : ¬ (p.1 == n) = true := by
        intro e
        have e' : p.1 = n := by simpa using e
        apply hn.1
        rw [e', List.mem_map]
        exact ⟨(n, f), hm', rfl⟩
      simp only [this]
      exact ih hn.2 hm'

/-- storing back a value with the same abstraction at an existing key does not change the abstraction -/
theorem store_abs_same {b : Bucket} (hb : BucketWF b) (n : Nat) (f g : File) (e : lookup b n = some f)
    (hd : absData g = absData f) : absBucket (store b n g) = absBucket b := by
  unfold store
  simp only [e, Option.isSome_some, if_true]
  unfold absBucket
  rw [List.map_map]
  apply List.map_congr_left
  intro p hp
  by_cases hpn : p.1 = n
  · have : lookup b n = some p.2 := lookup_of_mem hb.nodup (by rw [← hpn]; exact hp)
    rw [e] at this
    simp only [Option.some.injEq] at this
    simp [Function.comp, hpn, hd, this]
  · simp [Function.comp, hpn]

/-! ### the write phase and the lease phase of a request -/

/-- every write vector that is going to be applied ends at or below `MAX_SIZE` -/
def TwFits (tw : List (Nat × TW)) : Prop := ∀ p ∈ tw, p.2.newLength ≠ some 0 → FitsAll p.2.datav

theorem sizesOk_iff (tw : List (Nat × TW)) : sizesOk tw = true ↔ TwFits tw := by
  unfold sizesOk TwFits FitsAll
  simp only [List.all_eq_true, Bool.or_eq_true, beq_iff_eq, decide_eq_true_eq]
  constructor
  · intro h p hp hne q hq
    rcases h p hp with e | e
    · exact absurd e hne
    · exact e q hq
  · intro h p hp
    by_cases e : p.2.newLength = some 0
    · exact Or.inl e
    · exact Or.inr (fun q hq => h p hp e q hq)

theorem targetFile_wf {b : Bucket} (hb : BucketWF b) (nodeid we : Bytes) (n : Nat) : WF (targetFile nodeid we b n) := by
  unfold targetFile
  split
  · rename_i f e; exact hb.lookup e
  · exact create_wf _ _ _

theorem targetFile_abs (b : Bucket) (nodeid we : Bytes) (n : Nat) :
    absData (targetFile nodeid we b n) = Spec.dataOf (absBucket b) n := by
  unfold targetFile Spec.dataOf
  rw [lookup_abs]
  split
  · rename_i f e; simp [e]
  · rename_i e; simp [e, absData_create]

/-- when every applied vector fits, the write phase cannot fail and computes the specification's
    "apply every write vector to every named share" -/
theorem evalWrites_ok (nodeid we : Bytes) (tw : List (Nat × TW)) :
    ∀ (b : Bucket) (rem : List Nat), BucketWF b → TwFits tw →
      ∃ b' rem', evalWrites nodeid we b tw rem = (b', rem', none) ∧ BucketWF b' ∧
        absBucket b' = Spec.evalWrites (absBucket b) tw := by
  induction tw with
  | nil => intro b rem hb _; exact ⟨b, rem.reverse, rfl, hb, rfl⟩
  | cons p rest ih =>
    intro b rem hb hfit
    obtain ⟨n, t⟩ := p
    have hrest : TwFits rest := fun q hq => hfit q (List.mem_cons_of_mem _ hq)
    simp only [evalWrites]
    by_cases h0 : t.newLength == some 0
    · simp only [h0, if_true]
      obtain ⟨b', rem', e, w, a⟩ := ih (erase b n) rem (hb.erase n) hrest
      refine ⟨b', rem', e, w, ?_⟩
      rw [a, erase_abs]; simp only [Spec.evalWrites, h0, if_true]
    · simp only [h0]
      have hne : t.newLength ≠ some 0 := by simpa using h0
      obtain ⟨f', e1, wf', d', _⟩ := writev_ok _ (targetFile_wf hb nodeid we n) t.datav t.newLength
        (hfit (n, t) (List.mem_cons_self ..) hne)
      rw [e1]
      obtain ⟨b', rem', e, w, a⟩ := ih (store b n f') (n :: rem) (hb.store n wf') hrest
      refine ⟨b', rem', e, w, ?_⟩
      rw [a, store_abs, d', targetFile_abs]
      simp only [Spec.evalWrites, h0]
      rfl

/-- in general (even when a vector is too large and the loop is interrupted) the bucket stays well formed -/
theorem evalWrites_wf (nodeid we : Bytes) (tw : List (Nat × TW)) :
    ∀ (b : Bucket) (rem : List Nat), BucketWF b → BucketWF (evalWrites nodeid we b tw rem).1 := by
  induction tw with
  | nil => intro b rem hb; exact hb
  | cons p rest ih =>
    intro b rem hb
    obtain ⟨n, t⟩ := p
    simp only [evalWrites]
    by_cases h0 : t.newLength == some 0
    · simp only [h0, if_true]; exact ih _ _ (hb.erase n)
    · simp only [h0]
      have hw := writev_any _ (targetFile_wf hb nodeid we n) t.datav t.newLength
      generalize writev (targetFile nodeid we b n) t.datav t.newLength = r at *
      obtain ⟨f', e⟩ := r
      cases e with
      | none => exact ih _ _ (hb.store n hw.1)
      | some e => exact hb.store n hw.1

/-- the lease phase never touches share data -/
theorem renewShares_abs (env : Env) (li : Lease) (ns : List Nat) :
    ∀ b : Bucket, BucketWF b →
      BucketWF (renewShares env li b ns).1 ∧ absBucket (renewShares env li b ns).1 = absBucket b := by
  induction ns with
  | nil => intro b hb; exact ⟨hb, rfl⟩
  | cons n rest ih =>
    intro b hb
    simp only [renewShares]
    cases hl : lookup b n with
    | none => exact ih b hb
    | some f =>
      simp only
      have lw := addOrRenew_spec env.h f (hb.lookup hl) env.avail li
      have hd := lw.data (hb.lookup hl)
      generalize addOrRenew env.h f env.avail li = r at *
      obtain ⟨f', e⟩ := r
      have hs := store_abs_same hb n f f' hl hd
      cases e with
      | none =>
        obtain ⟨a, c⟩ := ih (store b n f') (hb.store n lw.wf)
        exact ⟨a, c.trans hs⟩
      | some e => exact ⟨hb.store n lw.wf, hs⟩

/-- the lease phase can only fail with the errors of `add_lease` -/
theorem renewShares_err (env : Env) (li : Lease) (ns : List Nat) :
    ∀ b : Bucket, ∀ e, (renewShares env li b ns).2 = some e →
      e = .noSpace ∨ e = .structError ∨ e = .unknownVersion := by
  induction ns with
  | nil => intro b e h; simp [renewShares] at h
  | cons n rest ih =>
    intro b e h
    simp only [renewShares] at h
    cases hl : lookup b n with
    | none => simp only [hl] at h; exact ih b e h
    | some f =>
      simp only [hl] at h
      have hk := addOrRenew_err env.h f env.avail li
      generalize addOrRenew env.h f env.avail li = r at *
      obtain ⟨f', e'⟩ := r
      cases e' with
      | none => simp only at h; exact ih _ e h
      | some e' =>
        simp only [Option.some.injEq] at h
        subst h
        exact hk e' rfl

/-- a request keeps every container well formed and share numbers distinct — whatever its outcome
    (error, failed test, success) and for the repaired as well as the unrepaired server -/
theorem rtw_wf (b : Bucket) (hb : BucketWF b) (q : Req) : BucketWF (q.run b).bucket := by
  unfold Req.run rtw
  split
  · exact hb
  · simp only
    split
    · exact hb
    · split
      · exact hb
      · have hw := evalWrites_wf q.env.nodeid q.we q.tw b [] hb
        split
        · rename_i e; rw [e] at hw; exact hw
        · rename_i b1 rem e; rw [e] at hw
          split
          · exact hw
          · have hr := (renewShares_abs q.env (makeLease q.env q.renew q.cancel) rem b1 hw).1
            split
            · rename_i e2; rw [e2] at hr; exact hr
            · rename_i e2; rw [e2] at hr; exact hr

theorem evalTests_eq (b : Bucket) (tw : List (Nat × TW)) : evalTests b tw = Spec.evalTests (absBucket b) tw := by
  unfold evalTests Spec.evalTests
  congr 1
  funext p
  obtain ⟨n, t⟩ := p
  simp only [Spec.dataOf, lookup_abs]
  cases lookup b n with
  | none => simp [checkTestvEmpty_eq]
  | some f => simp [checkTestv_eq]

theorem evalReads_eq (b : Bucket) (rv : List (Nat × Nat)) : evalReads b rv = Spec.evalReads (absBucket b) rv := by
  unfold evalReads Spec.evalReads absBucket
  rw [List.map_map]
  apply List.map_congr_left
  intro p _
  simp [readv_eq]

/-! ### removing a share from the bucket (`unlink`) -/

theorem lookup_erase_self (b : Bucket) (n : Nat) : lookup (erase b n) n = none := by
  unfold lookup erase
  induction b with
  | nil => rfl
  | cons p rest ih =>
    by_cases h : p.1 = n
    · simp only [List.filter_cons, h, bne_self_eq_false, Bool.false_eq_true, if_false]; exact ih
    · have h' : (p.1 != n) = true := by simpa using h
      have h'' : ¬ (p.1 == n) = true := by simpa using h
      simp only [List.filter_cons, h', if_true, List.find?_cons, h'']; exact ih

theorem lookup_erase_ne (b : Bucket) (n m : Nat) (hne : m ≠ n) : lookup (erase b n) m = lookup b m := by
  unfold lookup erase
  induction b with
  | nil => rfl
  | cons p rest ih =>
    by_cases h : p.1 = n
    · subst h
      have hm : (p.1 == m) = false := by simpa using fun e : p.1 = m => hne e.symm
      simp only [List.filter_cons, bne_self_eq_false, Bool.false_eq_true, if_false, List.find?_cons, hm]
      exact ih
    · have h' : (p.1 != n) = true := by simpa using h
      simp only [List.filter_cons, h', if_true, List.find?_cons]
      by_cases hm : (p.1 == m) = true
      · simp [hm]
      · simp only [hm]; exact ih

end Tahoe.Storage.Slot
