import Tahoe.Base.File
import Tahoe.Generated.Storage
import Tahoe.Storage.Lease
/-!
Byte-exact model of the mutable share container (storage/mutable.py `MutableShareFile`,
storage/mutable_schema.py).  A container is the list of bytes of its file:

    0   32  magic            84  8  data length (a)        100  4*92  four lease slots
    32  20  nodeid           92  8  extra-lease offset (e)  468  (a)   share data
    52  32  write enabler                                   e    4 + n*92  extra lease count, records

Every function names the Python function it transcribes.  Layout numbers are written as literals
(100, 92, 468, …) so that `omega` can use them; `Tahoe/Props/C23.lean` pins each of them to the
value extracted from the source (`layout_constants`), so a changed constant breaks that theorem.

Deviations from Python, all excluded by the invariant `WF`:
* a short `f.read(8)` makes `struct.unpack` raise; the model unpacks whatever bytes there are;
* `struct.pack(">Q", n)` for `n ≥ 2^64` raises; the model packs `n mod 2^64` (`WF` bounds every
  packed value by `468 + MAX_SIZE < 2^64`).
-/
namespace Tahoe.Storage.Mutable
open Tahoe.Base.File Tahoe.Storage

/-- `MutableShareFile.MAX_SIZE = MAX_MUTABLE_SHARE_SIZE` (from the source) -/
def MAX_SIZE : Nat := Tahoe.Generated.Storage.mut_MAX_SIZE

theorem MAX_SIZE_lt : 468 + MAX_SIZE < 2 ^ 64 := by decide

/-- `schema_from_header(header)`: compare the first 32 bytes with the two magic strings -/
def schemaOf (f : File) : Option Schema :=
  let m := pread f 0 32
  if m = Tahoe.Generated.Storage.mut_MAGIC_V2 then some .v2
  else if m = Tahoe.Generated.Storage.mut_MAGIC_V1 then some .v1
  else none

def magicOf : Schema → Bytes
  | .v1 => Tahoe.Generated.Storage.mut_MAGIC_V1
  | .v2 => Tahoe.Generated.Storage.mut_MAGIC_V2

/-- `_read_data_length` -/
def dataLength (f : File) : Nat := unpackBE (pread f 84 8)
/-- `_read_extra_lease_offset` -/
def extOff (f : File) : Nat := unpackBE (pread f 92 8)
/-- `_read_num_extra_leases` -/
def numExtra (f : File) : Nat := unpackBE (pread f (extOff f) 4)
/-- the write enabler field (`_read_write_enabler_and_nodeid`) -/
def enabler (f : File) : Bytes := pread f 52 32
def enablerNodeid (f : File) : Bytes := pread f 32 20

/-- `_write_data_length` -/
def writeDataLength (f : File) (n : Nat) : File := pwrite f 84 (packU64 n)
/-- `_write_extra_lease_offset` -/
def writeExtOff (f : File) (n : Nat) : File := pwrite f 92 (packU64 n)

/-- `mutable_schema._header` / `MutableShareFile.create`: fixed header, four blank lease slots,
    extra-lease count 0 (`nodeid` and `we` are `struct.pack`ed as `20s` / `32s`) -/
def create (s : Schema) (nodeid we : Bytes) : File :=
  magicOf s ++ fixN 20 nodeid ++ fixN 32 we ++ packU64 0 ++ packU64 468 ++ zeros (4 * 92) ++ packU32 0

/-- `_read_share_data` -/
def readShareData (f : File) (off len : Nat) : Bytes :=
  let dl := dataLength f
  let len' := if off + len > dl then dl - off else len      -- max(0, data_length-offset)
  if len' = 0 then [] else pread f (468 + off) len'

/-- `readv` -/
def readv (f : File) (rv : List (Nat × Nat)) : List Bytes := rv.map fun (o, l) => readShareData f o l

/-- `_change_container_size` (an error leaves the file untouched) -/
def changeContainerSize (f : File) (newSize : Nat) : Except Err File :=
  if newSize > MAX_SIZE then .error .dataTooLarge else
  let old := extOff f
  let new := 468 + newSize
  if new < old then .ok f else
  let size := 4 + numExtra f * 92
  let blk := pread f old size
  let f1 := pwrite f old (zeros size)
  let f2 := pwrite f1 new blk
  .ok (writeExtOff f2 new)

/-- the container-enlarging step of `_write_share_data`:
    `if self.DATA_OFFSET+offset+length > extra_lease_offset: self._change_container_size(f, offset+length)` -/
def growStep (f : File) (need : Nat) : Except Err File :=
  if 468 + need > extOff f then changeContainerSize f need else .ok f

/-- `_write_share_data` (an error leaves the file untouched: the only raising statements come
    before the first write) -/
def writeShareData (f : File) (off : Nat) (d : Bytes) : Except Err File :=
  let len := d.length
  let dl := dataLength f
  if off + len ≥ dl then
    match growStep f (off + len) with
    | .error e => .error e
    | .ok f1 =>
      if ¬ (468 + off + len ≤ extOff f1) then .error .assertFail else     -- the `assert`
      let f2 := if off > dl then pwrite f1 (468 + dl) (zeros (off - dl)) else f1
      let f3 := writeDataLength f2 (off + len)
      .ok (pwrite f3 (468 + off) d)
  else
    .ok (pwrite f (468 + off) d)

/-- the `for (offset, data) in datav` loop of `writev`: stops at the first error, keeping the writes
    already made -/
def writeAll : File → List (Nat × Bytes) → File × Option Err
  | f, [] => (f, none)
  | f, (o, d) :: rest =>
    match writeShareData f o d with
    | .ok f' => writeAll f' rest
    | .error e => (f, some e)

/-- the `new_length` tail of `writev` -/
def applyNewLength (f : File) : Option Nat → File
  | none => f
  | some n => if n < dataLength f then writeDataLength f n else f

/-- `MutableShareFile.writev(datav, new_length)` -/
def writev (f : File) (datav : List (Nat × Bytes)) (newLength : Option Nat) : File × Option Err :=
  match writeAll f datav with
  | (f', none) => (applyNewLength f' newLength, none)
  | (f', some e) => (f', some e)

/-- `testv_compare(data, b"eq", specimen)` over `check_testv` -/
def checkTestv (f : File) (tv : List (Nat × Nat × Bytes)) : Bool :=
  tv.all fun (o, l, spec) => readShareData f o l == spec

/-- `EmptyShare.check_testv` -/
def checkTestvEmpty (tv : List (Nat × Nat × Bytes)) : Bool :=
  tv.all fun (_, _, spec) => ([] : Bytes) == spec

/-! ### leases (mutable container) -/

/-- offset of lease slot `i` for reading/overwriting (`_read_lease_record`); `none` = `IndexError` -/
def slotOff (f : File) (i : Nat) : Option Nat :=
  if i < 4 then some (100 + i * 92)
  else if i - 4 < numExtra f then some (extOff f + 4 + (i - 4) * 92)
  else none

/-- `_read_lease_record`: outer `none` = `IndexError`, inner `none` = empty slot (`owner_num == 0`) -/
def readLeaseRecord (f : File) (i : Nat) : Option (Option Lease) :=
  match slotOff f i with
  | none => none
  | some o =>
    let l := parseMut (pread f o 92)
    some (if l.owner = 0 then none else some l)

/-- `_get_num_lease_slots` -/
def numLeaseSlots (f : File) : Nat := 4 + numExtra f

/-- `_enumerate_leases`: (slot number, stored lease) of every non-empty slot -/
def enumerateLeases (f : File) : List (Nat × Lease) :=
  (List.range (numLeaseSlots f)).filterMap fun i =>
    match readLeaseRecord f i with
    | some (some l) => some (i, l)
    | _ => none

/-- `get_leases` -/
def getLeases (f : File) : List Lease := (enumerateLeases f).map (·.2)

/-- `_get_first_empty_lease_slot` -/
def firstEmptySlot (f : File) : Option Nat :=
  (List.range (numLeaseSlots f)).find? fun i => readLeaseRecord f i == some none

/-- `_write_lease_record(f, lease_number, lease_info)` with the record already serialized -/
def writeLeaseRecord (f : File) (i : Nat) (rec : Bytes) : File :=
  let eo := extOff f
  let n := numExtra f
  if i < 4 then pwrite f (100 + i * 92) rec
  else if i - 4 < n then pwrite f (eo + 4 + (i - 4) * 92) rec
  else
    let f1 := pwrite f eo (packU32 (n + 1))        -- `_write_num_extra_leases(f, n+1)`
    pwrite f1 (eo + 4 + (i - 4) * 92) rec

/-- `add_lease(available_space, lease_info)`; `l` is already in stored form -/
def addLease (f : File) (avail : Nat) (l : Lease) : File × Option Err :=
  match firstEmptySlot f with
  | some i => (writeLeaseRecord f i (serMut l), none)
  | none =>
    if 92 > avail then (f, some .noSpace)
    -- `_write_num_extra_leases`: `struct.pack(">L", num_extra_leases+1)` raises before any write
    else if numExtra f + 1 ≥ 2 ^ 32 then (f, some .structError)
    else (writeLeaseRecord f (numLeaseSlots f) (serMut l), none)

/-- the search of `renew_lease` -/
def findRenew (h : Bytes → Bytes) (s : Schema) (secret : Bytes) : List (Nat × Lease) → Option (Nat × Lease)
  | [] => none
  | (i, l) :: rest => if isRenewSecret h s l secret then some (i, l) else findRenew h s secret rest

/-- `renew_lease(renew_secret, new_expire_time, allow_backdate=False)` -/
def renewLease (h : Bytes → Bytes) (f : File) (secret : Bytes) (newExpire : Nat) : File × Option Err :=
  match schemaOf f with
  | none => (f, some .unknownVersion)
  | some s =>
    match findRenew h s secret (enumerateLeases f) with
    | none => (f, some .indexError)
    | some (i, l) =>
      if newExpire > l.expire then
        (writeLeaseRecord f i (serMut { l with expire := newExpire }), none)
      else (f, none)

/-- `add_or_renew_lease(available_space, lease_info)`; `li` is the cleartext lease -/
def addOrRenew (h : Bytes → Bytes) (f : File) (avail : Nat) (li : Lease) : File × Option Err :=
  match schemaOf f with
  | none => (f, some .unknownVersion)
  | some s =>
    match renewLease h f li.renew li.expire with
    | (f', none) => (f', none)
    | (_, some .indexError) => addLease f avail (toStored h s li)
    | (f', some e) => (f', some e)

/-- the record-blanking loop of `cancel_lease` over the matching slots -/
def blankSlots (f : File) (rec : Bytes) : List Nat → File
  | [] => f
  | i :: rest => blankSlots (writeLeaseRecord f i rec) rec rest

/-- `MutableShareFile.cancel_lease(cancel_secret)`: every listed lease with that cancel secret is
    overwritten IN PLACE by the serialized blank lease (`_pack_leases` is a no-op, so holes remain);
    if no lease remains the file is unlinked (`none`).  Returns (file, freed space, error). -/
def cancelLease (h : Bytes → Bytes) (f : File) (secret : Bytes) : Option File × Nat × Option Err :=
  match schemaOf f with
  | none => (some f, 0, some .unknownVersion)
  | some s =>
    let L := enumerateLeases f
    let hit := L.filter fun p => isCancelSecret h s p.2 secret
    if hit.isEmpty then (some f, 0, some .indexError) else
    let f' := blankSlots f (serMut (toStored h s blankLease)) (hit.map (·.1))
    if L.length - hit.length = 0 then (none, f'.length, none) else (some f', 0, none)

/-! ### invariant and abstraction (DESIGN.md Appendix A.3) -/

/-- container invariant: the data region lies below the extra-lease block, the container size is
    at most `MAX_SIZE`, and the file holds the whole extra-lease block -/
structure WF (f : File) : Prop where
  data_le : 468 + dataLength f ≤ extOff f
  ext_le : extOff f ≤ 468 + MAX_SIZE
  len_ge : extOff f + 4 + numExtra f * 92 ≤ f.length

/-- the share's data as a byte array -/
def absData (f : File) : Bytes := pread f 468 (dataLength f)

/-- raw bytes of the four fixed lease slots -/
def slots4 (f : File) : Bytes := pread f 100 368
/-- raw bytes of the extra-lease block (count + records) -/
def leaseBlock (f : File) : Bytes := pread f (extOff f) (4 + numExtra f * 92)

end Tahoe.Storage.Mutable
