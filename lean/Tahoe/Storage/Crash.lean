import Tahoe.Base.FsOp
import Tahoe.Storage.Immutable
import Tahoe.Storage.Mutable
/-!
Tahoe.Storage.Crash — the immutable storage operations (C22 model) given as the list of primitive
file operations they perform, in program order (C29).  A crash is a prefix of that list; restart =
`StorageServer.__init__`: `_clean_incomplete()` (`fileutil.rm_dir(incoming)`) and reopening the
containers that are in the final directories.  Mathlib-free.

Program order transcribed (storage/immutable.py, storage/server.py):
* `BucketWriter.__init__` → `ShareFile(create=True)`: `make_dirs(dirname(incominghome))`,
  `open(home,'wb')` + `f.write(header)`; `add_lease`: record at `_lease_offset + n*72`, then the count at 8.
* `BucketWriter.write` → `write_share_data`: one `seek; write` at `12 + offset`.
* `BucketWriter.close`: `make_dirs(dirname(finalhome))`, `rename(incoming, final)`,
  `rmdir(incoming/<prefix>/<si>)`, then (only if that succeeded) `rmdir(incoming/<prefix>)`.
* `BucketWriter.abort`: `os.remove(incominghome)`, `rmdir(parent)` if `listdir(parent)` is empty.
* `ShareFile.add_or_renew_lease` on an existing share: renew = at most one record rewrite; add =
  record at `_lease_offset + n*72`, THEN the count at 8 (two writes: the C29 crash window).
-/
namespace Tahoe.Storage.Crash
open Tahoe.Base.File Tahoe.Base.FsOp Tahoe.Storage.Imm

inductive Path where
  | fin (k : Key)          -- shares/<prefix>/<si>/<shnum>
  | inc (k : Key)          -- shares/incoming/<prefix>/<si>/<shnum>
  | finDir (si : Nat)      -- shares/<prefix>/<si>
  | incDir (si : Nat)      -- shares/incoming/<prefix>/<si>
  | incPrefix (si : Nat)   -- shares/incoming/<prefix>
deriving DecidableEq, Repr

abbrev IFs := Fs Path
abbrev IOp := FsOp Path

/-- storage-level operations on one share -/
inductive SOp where
  | create (k : Key) (size : Nat) (rec : Bytes)     -- BucketWriter.__init__
  | write (k : Key) (off : Nat) (data : Bytes)      -- accepted BucketWriter.write
  | close (k : Key) (lastOfSi : Bool)               -- BucketWriter.close
  | abort (k : Key) (lastOfSi : Bool)               -- BucketWriter.abort / disconnected / timeout
  | lease (k : Key) (rec : Bytes) (avail : Nat)     -- add_or_renew_lease on an existing share
  | mkFinDir (si : Nat)                             -- make_dirs(sharedir/si_dir) at the end of allocate_buckets

/-- primitive writes of `renew_lease` (at most one record rewrite); `none` = IndexError -/
def renewOps (p : Path) (lo : Nat) (rec : Bytes) : Nat → List Bytes → Option (List IOp)
  | _, [] => none
  | i, l :: rest =>
    if renewSecretOf l = renewSecretOf rec then
      if expiryOf rec > expiryOf l then
        some [.pwrite p (lo + i * 72) (pread l 0 68 ++ pread rec 68 4)]
      else some []
    else renewOps p lo rec (i + 1) rest

/-- primitive writes of `add_or_renew_lease` on the container `f` stored at `p` -/
def leaseOps (p : Path) (f : File) (rec : Bytes) (avail : Nat) : List IOp :=
  match openLeaseOffset f with
  | none => []
  | some lo =>
    match renewOps p lo rec 0 (getLeases lo f) with
    | some ops => ops
    | none =>
      if 72 > avail then []
      else if numLeases f + 1 < 2 ^ 32 then
        [.pwrite p (lo + numLeases f * 72) rec, .pwrite p 8 (packBE 4 (numLeases f + 1))]
      else []

/-- the primitive operations of one storage operation, in program order -/
def fsops (fs : IFs) : SOp → List IOp
  | .create k size rec =>
    [.mkdir (.incDir k.1), .create (.inc k), .pwrite (.inc k) 0 (header size),
     .pwrite (.inc k) (size + 12) rec, .pwrite (.inc k) 8 (packBE 4 1)]
  | .write k off data => [.pwrite (.inc k) (12 + off) data]
  | .close k last =>
    [.mkdir (.finDir k.1), .rename (.inc k) (.fin k), .rmdir (.incDir k.1)] ++
      (if last then [.rmdir (.incPrefix k.1)] else [])
  | .abort k last => [.unlink (.inc k)] ++ (if last then [.rmdir (.incDir k.1)] else [])
  | .lease k rec avail =>
    match fs (.fin k) with
    | some f => leaseOps (.fin k) f rec avail
    | none => []
  | .mkFinDir si => [.mkdir (.finDir si)]

/-- the files a storage operation is entitled to change ("the share being written") -/
def targets : SOp → List Path
  | .create k _ _ => [.inc k]
  | .write k _ _ => [.inc k]
  | .close k _ => [.inc k, .fin k]
  | .abort k _ => [.inc k]
  | .lease k _ _ => [.fin k]
  | .mkFinDir _ => []

/-- restart: `_clean_incomplete` removes everything under incoming/; final files are reopened as is -/
def restart (fs : IFs) : IFs := fun p =>
  match p with
  | .inc _ => none
  | q => fs q

/-- state after a crash at primitive index `n` of storage operation `op`, then restart -/
def crashAt (fs : IFs) (op : SOp) (n : Nat) : IFs := restart (run fs ((fsops fs op).take n))

/-- a crash in the MIDDLE of a primitive operation: of a `pwrite` only the first `j` bytes of the data
    reach the file (a torn write); every other primitive operation is atomic (not done at all) -/
def tornOp (j : Nat) : IOp → List IOp
  | .pwrite p off d => [.pwrite p off (d.take j)]
  | _ => []

/-- state after the first `n` primitive operations of `op`, the `n`-th one torn after `j` bytes, then
    restart -/
def tornAt (fs : IFs) (op : SOp) (n j : Nat) : IFs :=
  restart (run fs ((fsops fs op).take n ++ (((fsops fs op)[n]?).map (tornOp j)).getD []))

/-- what a reader of a reopened container sees: (data, leases) -/
def reopen (f : File) : Option (Bytes × List Bytes) :=
  match openLeaseOffset f with
  | none => none
  | some lo => some (readShareData lo f 0 (shareLength f), getLeases lo f)

/-- file system of a server state of the C22 model -/
def fsOfServer (s : Server) : IFs := fun p =>
  match p with
  | .fin k => getK k s.final
  | .inc k => (getK k s.incoming).map (·.2)
  | _ => none

/-! ### mutable containers: the extra-lease append of `MutableShareFile.add_lease`

When the four lease slots of the header and every extra slot are occupied, `_write_lease_record`
first writes the incremented extra-lease COUNT (4 bytes at `extra_lease_offset`) and then the 92-byte
record at the end of the extra-lease area (which is the end of the file).  (Container layout and
`extOff`/`numExtra` from `Tahoe/Storage/Mutable.lean`.) -/

/-- primitive writes of the extra-slot branch of `_write_lease_record`, in program order -/
def mutAddExtraLeaseOps (p : Path) (f : File) (rec : Bytes) : List IOp :=
  [.pwrite p (Mutable.extOff f) (packU32 (Mutable.numExtra f + 1)),
   .pwrite p (Mutable.extOff f + 4 + Mutable.numExtra f * 92) rec]

/-- can a (restarted) server enumerate the leases?  `_read_lease_record` reads 92 bytes for every
    counted slot and `unserialize` raises `struct.error` on a short read, which `_enumerate_leases`
    does not catch: `get_leases`, `add_lease` (first-empty-slot search) and the lease crawler fail. -/
def mutLeasesReadable (f : File) : Bool :=
  decide (Mutable.extOff f + 4 + Mutable.numExtra f * 92 ≤ f.length)

/-- share data of a mutable container as `readv` returns it -/
def mutData (f : File) : Bytes := pread f 468 (Mutable.dataLength f)

end Tahoe.Storage.Crash
