import Tahoe.Base.File
import Tahoe.Generated.Storage
/-!
Tahoe.Storage.Immutable — executable model of immutable share storage (C22, C28; reused by C29).

Mirrors `storage/immutable.py` (`ShareFile`, `BucketWriter`, `BucketReader`) and the immutable
part of `storage/server.py` (`allocate_buckets`, `bucket_writer_closed`, `get_buckets`,
`allocated_size`, `get_available_space`).  Mathlib-free.

Layout constants are written as the literals 12 (`0x0c`, header `>LLL`) and 72 (`LEASE_SIZE`,
`>L32s32sL`) so that `omega` can use them; `Tahoe/Props/C22.lean` pins them to the values the
extractor reads from the live source (`layout_constants`).

Deviations (all named where they occur):
* Python ints: `_lease_offset = filesize - n*72` is a `Nat` (truncated) subtraction; it can only
  differ from Python on a file shorter than its lease area, which no modelled operation creates
  (`WFFinal`/`WFInc` invariants in `Lemmas.lean`).
* A lease record is an opaque 72-byte string supplied by the caller (the harness serialises it
  with the real `HashedLeaseSerializer`); `is_renew_secret` = equality of bytes `[4,36)` (the
  stored blake2b hash) and the expiry is the `>L` at `[68,72)`.
* `_bucket_writers[incominghome]` and the file at `incominghome` are created and removed together
  by the code (BucketWriter.__init__ / close / abort), so they are one association list
  `incoming : List (Key × (Writer × File))`; the `BucketWriter` *handle* a client holds is the
  `wid` stored in the writer (a closed/aborted handle is a `wid` no longer in the list).
* `RangeMap` (shim in harness/shims, all values `True`) = sorted list of disjoint, non-adjacent
  `(start, stop)`; `set` is modelled as one ordered insertion pass (`rmSet`).
* the iteration order of the `sharenums` set and the `os.listdir` order of existing shares are
  parameters of `allocate` (lists).
* C28 repair modelled (fixes/C28-readonly.diff): a read-only server creates no BucketWriter
  whatever the size; `allocLoopUnfixed` below is the code as it is in the unrepaired tree.
-/
namespace Tahoe.Storage.Imm
open Tahoe.Base.File

abbrev Key := Nat × Nat          -- (storage index, share number)

/-! ### association lists keyed by `Key` -/

def getK {α : Type} (k : Key) (l : List (Key × α)) : Option α :=
  match l with
  | [] => none
  | (k', v) :: rest => if k' = k then some v else getK k rest

def eraseK {α : Type} (k : Key) (l : List (Key × α)) : List (Key × α) :=
  l.filter (fun e => e.1 ≠ k)

def setK {α : Type} (k : Key) (v : α) (l : List (Key × α)) : List (Key × α) :=
  (k, v) :: eraseK k l

/-! ### ShareFile container -/

/-- `_Schema.header(max_size)`: `struct.pack(">LLL", 2, min(2**32-1, max_size), 0)` -/
def header (maxSize : Nat) : File :=
  packBE 4 2 ++ packBE 4 (min (2 ^ 32 - 1) maxSize) ++ packBE 4 0

def version (f : File) : Nat := unpackBE (pread f 0 4)

/-- `_read_num_leases`: `>L` at 0x08 -/
def numLeases (f : File) : Nat := unpackBE (pread f 8 4)

/-- `ShareFile.__init__(create=False)`: `_lease_offset = filesize - num_leases*72`;
    `none` = `struct.error` (short header) or `UnknownImmutableContainerVersionError`. -/
def openLeaseOffset (f : File) : Option Nat :=
  if f.length < 12 then none
  else if version f = 1 ∨ version f = 2 then some (f.length - numLeases f * 72)
  else none

/-- `_length` of an opened share -/
def shareLength (f : File) : Nat := f.length - 12 - numLeases f * 72

/-- `read_share_data(offset, length)` with `self._lease_offset = lo` -/
def readShareData (lo : Nat) (f : File) (off len : Nat) : Bytes :=
  let seekpos := 12 + off
  let actual := min len (lo - seekpos)
  if actual = 0 then [] else pread f seekpos actual

/-- `_write_lease_record(f, i, lease)` -/
def writeLeaseRecord (lo : Nat) (f : File) (i : Nat) (rec : Bytes) : File :=
  pwrite f (lo + i * 72) rec

/-- `add_lease`: count read from the file, record written at `lo + n*72`, then the count.
    `none` = `struct.error` when `n+1` does not fit `>L` (raised before anything is written). -/
def addLease (lo : Nat) (f : File) (rec : Bytes) : Option File :=
  let n := numLeases f
  if n + 1 < 2 ^ 32 then some (pwrite (writeLeaseRecord lo f n rec) 8 (packBE 4 (n + 1)))
  else none

/-- `get_leases`: `num_leases` records of 72 bytes from `lo`; an empty read is skipped -/
def getLeases (lo : Nat) (f : File) : List Bytes :=
  (List.range (numLeases f)).filterMap (fun i =>
    let d := pread f (lo + i * 72) 72
    if d.length = 0 then none else some d)

def renewSecretOf (r : Bytes) : Bytes := pread r 4 32
def expiryOf (r : Bytes) : Nat := unpackBE (pread r 68 4)

/-- loop of `renew_lease(renew_secret, new_expire_time)` over `enumerate(get_leases())`;
    `none` = `IndexError`.  The renewed record keeps the old owner and secrets. -/
def renewLoop (lo : Nat) (f : File) (rec : Bytes) : Nat → List Bytes → Option File
  | _, [] => none
  | i, l :: rest =>
    if renewSecretOf l = renewSecretOf rec then
      if expiryOf rec > expiryOf l then
        some (writeLeaseRecord lo f i (pread l 0 68 ++ pread rec 68 4))
      else some f
    else renewLoop lo f rec (i + 1) rest

def renewLease (lo : Nat) (f : File) (rec : Bytes) : Option File :=
  renewLoop lo f rec 0 (getLeases lo f)

inductive LeaseRes where
  | ok (f : File)
  | noSpace
  | structError

/-- `add_or_renew_lease(available_space, lease_info)` -/
def addOrRenew (avail : Nat) (lo : Nat) (f : File) (rec : Bytes) : LeaseRes :=
  match renewLease lo f rec with
  | some f' => .ok f'
  | none =>
    if 72 > avail then .noSpace
    else match addLease lo f rec with
      | some f' => .ok f'
      | none => .structError

/-! ### RangeMap (all values True) -/

abbrev Ranges := List (Nat × Nat)

def rmMem (w : Ranges) (x : Nat) : Bool := w.any (fun r => decide (r.1 ≤ x) && decide (x < r.2))

/-- `RangeMap.set(True, a, b)` (cut, append, sort, merge equal neighbours) as one ordered pass -/
def rmSet : Ranges → Nat → Nat → Ranges
  | [], a, b => [(a, b)]
  | (s, e) :: rest, a, b =>
    if e < a then (s, e) :: rmSet rest a b
    else if b < s then (a, b) :: (s, e) :: rest
    else rmSet rest (min s a) (max e b)

/-- `RangeMap.ranges(a, b)`: clipped to the window, empty pieces dropped -/
def rmRanges (w : Ranges) (a b : Nat) : Ranges :=
  w.filterMap (fun r =>
    let cs := max r.1 a
    let ce := min r.2 b
    if cs < ce then some (cs, ce) else none)

/-- `sum(mr.stop - mr.start for mr in ranges())` -/
def rmTotal (w : Ranges) : Nat := (w.map (fun r => r.2 - r.1)).sum

/-! ### BucketWriter -/

structure Writer where
  wid : Nat                -- identity of the BucketWriter object (handle held by the client)
  maxSize : Nat
  written : Ranges         -- `_already_written`
  deadline : Nat           -- time at which the `callLater(30*60, _abort_due_to_timeout)` fires
deriving Repr

inductive WriteRes where
  | ok (finished : Bool)
  | conflict               -- ConflictingWriteError
  | tooLarge               -- DataTooLargeError
  | valueError             -- RangeMap.set(True, off, off) on an empty write
  | closed                 -- AlreadyCancelled / AlreadyCalled from `_timeout.reset`
deriving Repr, DecidableEq

/-- the conflict loop of `BucketWriter.write`: some already-written chunk in the window differs -/
def conflicts (w : Writer) (f : File) (off : Nat) (data : Bytes) : Bool :=
  (rmRanges w.written off (off + data.length)).any (fun c =>
    readShareData (w.maxSize + 12) f c.1 (c.2 - c.1) != pread data (c.1 - off) (c.2 - c.1))

/-- `BucketWriter.write(offset, data)` after the timeout reset (done by the caller `writeOp`) -/
def bwWrite (w : Writer) (f : File) (off : Nat) (data : Bytes) : Writer × File × WriteRes :=
  if conflicts w f off data then (w, f, .conflict)
  else if off + data.length > w.maxSize then (w, f, .tooLarge)      -- write_share_data
  else
    let f' := pwrite f (12 + off) data
    if data.length = 0 then (w, f', .valueError)                     -- RangeMap.set: stop <= start
    else
      let wr := rmSet w.written off (off + data.length)
      ({ w with written := wr }, f', .ok (rmTotal wr == w.maxSize))

/-- `ShareFile(incominghome, create=True, max_size)` + `add_lease(lease_info)` in
    `BucketWriter.__init__` -/
def newContainer (size : Nat) (rec : Bytes) : File :=
  pwrite (writeLeaseRecord (size + 12) (header size) 0 rec) 8 (packBE 4 1)

/-! ### StorageServer -/

structure Server where
  readonly : Bool
  reserved : Nat
  now : Nat
  nextId : Nat
  final : List (Key × File)                    -- shares/<si>/<shnum>
  incoming : List (Key × (Writer × File))      -- shares/incoming/<si>/<shnum> + _bucket_writers
  /-- `FoolscapStorageServer._bucket_writer_disconnect_markers`: handle ↦ connection (canary) whose
      loss aborts it.  Entries of closed handles are left in place (the code pops them; a stale
      entry is harmless because aborting a closed handle does nothing). -/
  conns : List (Nat × Nat) := []

def Server.empty (readonly : Bool) (reserved : Nat) : Server :=
  { readonly, reserved, now := 0, nextId := 0, final := [], incoming := [], conns := [] }

/-- `StorageServer.allocated_size()` -/
def allocatedSize (s : Server) : Nat := (s.incoming.map (fun e => e.2.1.maxSize)).sum

/-- `get_available_space()`; `free` is what the disk reports for a non-privileged user
    (`fileutil.get_disk_stats(...)['avail'] = max(free - reserved, 0)`) -/
def availableSpace (s : Server) (free : Nat) : Nat :=
  if s.readonly then 0 else free - s.reserved

/-- what `os.statvfs(sharedir)` reports (the fields `fileutil.get_disk_stats` reads) -/
structure StatVfs where
  frsize : Nat      -- f_frsize: fundamental block size, the unit of the three counts below
  bsize : Nat       -- f_bsize: preferred I/O size (NOT the unit of the counts)
  blocks : Nat
  bfree : Nat
  bavail : Nat
deriving Repr

/-- `get_disk_stats(...)['free_for_nonroot'] = s.f_frsize * s.f_bavail`: the bytes really free for
    the server; this is the `free` argument of `availableSpace` / `allocate` -/
def freeBytes (st : StatVfs) : Nat := st.frsize * st.bavail

/-- `get_disk_stats(whichdir, reserved_space)['avail'] = max(free_for_nonroot - reserved_space, 0)` -/
def diskAvail (st : StatVfs) (reserved : Nat) : Nat := freeBytes st - reserved

/-- `get_shares(si)`: share numbers present in the final directory of `si` -/
def finalShnums (s : Server) (si : Nat) : List Nat :=
  (s.final.filter (fun e => e.1.1 == si)).map (fun e => e.1.2)

/-- `_add_or_renew_leases(alreadygot.values(), lease_info)` over the listdir order `order`;
    stops at the first exception (shares handled before it keep their renewed leases). -/
def leaseLoop (avail : Nat) (rec : Bytes) (si : Nat) :
    List (Key × File) → List Nat → List (Key × File) × Option LeaseRes
  | fin, [] => (fin, none)
  | fin, sh :: rest =>
    match getK (si, sh) fin with
    | none => leaseLoop avail rec si fin rest
    | some f =>
      match openLeaseOffset f with
      | none => leaseLoop avail rec si fin rest   -- not reachable for files the server wrote
      | some lo =>
        match addOrRenew avail lo f rec with
        | .ok f' => leaseLoop avail rec si (setK (si, sh) f' fin) rest
        | e => (fin, some e)

structure AllocOut where
  already : List Nat
  writers : List (Nat × Nat)     -- (shnum, wid) in creation order
deriving Repr

def mkWriter (s : Server) (size : Nat) : Writer :=
  { wid := s.nextId, maxSize := size, written := [], deadline := s.now + 30 * 60 }

/-- the `for shnum in sharenums` loop of `allocate_buckets`, with the C28 repair -/
def allocLoop (si size : Nat) (rec : Bytes) :
    Server → Int → List Nat → Server × List (Nat × Nat)
  | s, _, [] => (s, [])
  | s, remaining, sh :: rest =>
    if (getK (si, sh) s.final).isSome then allocLoop si size rec s remaining rest
    else if (getK (si, sh) s.incoming).isSome then allocLoop si size rec s remaining rest
    else if s.readonly then allocLoop si size rec s remaining rest          -- C28 repair
    else if remaining ≥ (size : Int) then
      let w := mkWriter s size
      let s' := { s with nextId := s.nextId + 1,
                         incoming := ((si, sh), (w, newContainer size rec)) :: s.incoming }
      let r := allocLoop si size rec s' (remaining - size) rest
      (r.1, (sh, w.wid) :: r.2)
    else allocLoop si size rec s remaining rest

/-- the same loop as it is in the unrepaired tree (no read-only test of its own) -/
def allocLoopUnfixed (si size : Nat) (rec : Bytes) :
    Server → Int → List Nat → Server × List (Nat × Nat)
  | s, _, [] => (s, [])
  | s, remaining, sh :: rest =>
    if (getK (si, sh) s.final).isSome then allocLoopUnfixed si size rec s remaining rest
    else if (getK (si, sh) s.incoming).isSome then allocLoopUnfixed si size rec s remaining rest
    else if remaining ≥ (size : Int) then
      let w := mkWriter s size
      let s' := { s with nextId := s.nextId + 1,
                         incoming := ((si, sh), (w, newContainer size rec)) :: s.incoming }
      let r := allocLoopUnfixed si size rec s' (remaining - size) rest
      (r.1, (sh, w.wid) :: r.2)
    else allocLoopUnfixed si size rec s remaining rest

/-- `allocate_buckets(si, renew, cancel, sharenums, allocated_size)`; `none` output = exception
    raised by the lease loop (NoSpace / struct.error), state = what had been done before it. -/
def allocateWith (loop : Nat → Nat → Bytes → Server → Int → List Nat → Server × List (Nat × Nat))
    (s : Server) (si : Nat) (shs : List Nat) (size : Nat) (rec : Bytes)
    (free : Nat) (order : List Nat) : Server × Except LeaseRes AllocOut :=
  let avail := availableSpace s free
  let remaining : Int := (avail : Int) - (allocatedSize s : Int)
  let already := finalShnums s si
  match leaseLoop avail rec si s.final order with
  | (fin, some e) => ({ s with final := fin }, .error e)
  | (fin, none) =>
    let r := loop si size rec { s with final := fin } remaining shs
    (r.1, .ok { already := already, writers := r.2 })

def allocate := allocateWith allocLoop
def allocateUnfixed := allocateWith allocLoopUnfixed

/-- the live writer whose handle is `wid` -/
def findWid (wid : Nat) : List (Key × (Writer × File)) → Option (Key × (Writer × File))
  | [] => none
  | e :: rest => if e.2.1.wid = wid then some e else findWid wid rest

/-- `bw.write(offset, data)` through the handle `wid` -/
def writeOp (s : Server) (wid off : Nat) (data : Bytes) : Server × WriteRes :=
  match findWid wid s.incoming with
  | none => (s, .closed)
  | some (k, (w, f)) =>
    let w0 := { w with deadline := s.now + 30 * 60 }          -- `_timeout.reset(30*60)` comes first
    let r := bwWrite w0 f off data
    ({ s with incoming := setK k (r.1, r.2.1) s.incoming }, r.2.2)

/-- `bw.close()`: rename incoming → final, `bucket_writer_closed`.  `false` = precondition
    failure on a closed handle. -/
def closeOp (s : Server) (wid : Nat) : Server × Bool :=
  match findWid wid s.incoming with
  | none => (s, false)
  | some (k, (_, f)) =>
    ({ s with final := setK k f s.final, incoming := eraseK k s.incoming }, true)

/-- the HTTP storage server's PATCH handler (`http_server.write_share_data`): `bucket.write(...)`,
    and `bucket.close()` as soon as `write` answers "finished" (201 CREATED instead of 200 OK) -/
def httpWriteOp (s : Server) (wid off : Nat) (data : Bytes) : Server × WriteRes :=
  let r := writeOp s wid off data
  match r.2 with
  | .ok true => ((closeOp r.1 wid).1, r.2)
  | _ => r

/-- `bw.abort()` / `bw.disconnected()` / `_abort_due_to_timeout()`: remove the incoming file and
    release the reservation; silently nothing on a closed handle. -/
def abortOp (s : Server) (wid : Nat) : Server :=
  match findWid wid s.incoming with
  | none => s
  | some (k, _) => { s with incoming := eraseK k s.incoming }

/-- `FoolscapStorageServer.remote_allocate_buckets(..., canary)`: `allocate_buckets`, then one
    `canary.notifyOnDisconnect(bw.disconnected)` per new writer, remembered per writer. -/
def allocateConn (s : Server) (c : Nat) (si : Nat) (shs : List Nat) (size : Nat) (rec : Bytes)
    (free : Nat) (order : List Nat) : Server × Except LeaseRes AllocOut :=
  let r := allocate s si shs size rec free order
  match r.2 with
  | .ok o => ({ r.1 with conns := r.1.conns ++ o.writers.map (fun p => (p.2, c)) }, r.2)
  | .error _ => r

/-- the handles registered on connection `c`, in registration order -/
def widsOfConn (s : Server) (c : Nat) : List Nat :=
  (s.conns.filter (fun p => p.2 == c)).map (·.1)

/-- the connection `c` is lost: every watcher still registered on its canary fires
    `bw.disconnected()`, i.e. every unfinished upload of that connection is aborted (a watcher of a
    closed/aborted writer was unregistered: aborting such a handle does nothing). -/
def disconnectOp (s : Server) (c : Nat) : Server := (widsOfConn s c).foldl abortOp s

/-- the server process is killed and a new `StorageServer` is started on the same directory:
    `_clean_incomplete()` removes everything under incoming/, `_bucket_writers` starts empty, and no
    BucketWriter handle, canary registration or timer of the old process exists any more -/
def restartOp (s : Server) : Server := { s with incoming := [], conns := [] }

/-- `clock.advance(dt)`: every timeout with `deadline <= now` fires (abort) -/
def advanceOp (s : Server) (dt : Nat) : Server :=
  let now := s.now + dt
  { s with now := now, incoming := s.incoming.filter (fun e => decide (now < e.2.1.deadline)) }

/-- `get_buckets(si)[shnum].read(offset, length)`; `none` = KeyError (share not visible) -/
def readOp (s : Server) (k : Key) (off len : Nat) : Option Bytes :=
  match getK k s.final with
  | none => none
  | some f =>
    match openLeaseOffset f with
    | none => none
    | some lo => some (readShareData lo f off len)

/-- `get_buckets(si)`: visible share numbers with `BucketReader.get_length()` -/
def listOp (s : Server) (si : Nat) : List (Nat × Nat) :=
  (finalShnums s si).filterMap (fun sh =>
    match getK (si, sh) s.final with
    | none => none
    | some f => some (sh, shareLength f))

/-- the share is visible to readers (`shnum in get_buckets(si)`) -/
def visible (s : Server) (k : Key) : Bool := (getK k s.final).isSome

/-! ### operations as data (for histories) -/

inductive Op where
  | alloc (si : Nat) (shs : List Nat) (size : Nat) (rec : Bytes) (free : Nat) (order : List Nat)
  | write (wid off : Nat) (data : Bytes)
  | close (wid : Nat)
  | abort (wid : Nat)          -- also `disconnected()`
  | advance (dt : Nat)         -- clock; fires the 30-minute timeouts
  | read (k : Key) (off len : Nat)
  | list (si : Nat)

def step (s : Server) : Op → Server
  | .alloc si shs size rec free order => (allocate s si shs size rec free order).1
  | .write wid off data => (writeOp s wid off data).1
  | .close wid => (closeOp s wid).1
  | .abort wid => abortOp s wid
  | .advance dt => advanceOp s dt
  | .read _ _ _ => s
  | .list _ => s

def run (s : Server) (ops : List Op) : Server := ops.foldl step s

/-- operations as an uploader sees them: the direct calls above, or through the Foolscap front end
    (`remote_allocate_buckets` on a connection, loss of a connection) -/
inductive FOp where
  | direct (op : Op)
  | allocConn (c : Nat) (si : Nat) (shs : List Nat) (size : Nat) (rec : Bytes) (free : Nat) (order : List Nat)
  | disconnect (c : Nat)
  | restart

def fstep (s : Server) : FOp → Server
  | .direct op => step s op
  | .allocConn c si shs size rec free order => (allocateConn s c si shs size rec free order).1
  | .disconnect c => disconnectOp s c
  | .restart => restartOp s

def frun (s : Server) (ops : List FOp) : Server := ops.foldl fstep s

end Tahoe.Storage.Imm
