import Tahoe.Storage.LemmasLease
/-!
Helper lemmas for C25 about the lease functions of the IMMUTABLE container (`Tahoe.Storage.ImmL`):
read-after-write on the 72-byte record array, `add_lease`, `renew_lease`, `cancel_lease`.
-/
namespace Tahoe.Storage.ImmL
open Tahoe.Base.File Tahoe.Storage

/-- the share data of an immutable container: everything between the 12-byte header and the leases -/
def dataOf (f : File) : Bytes := pread f 12 (leaseOffset f - 12)

/-- the raw 72 bytes of lease record `i` -/
def recAt (f : File) (i : Nat) : Bytes := pread f (leaseOffset f + i * 72) 72

theorem lo_facts {f : File} (hwf : WF f) : 12 ≤ leaseOffset f ∧ leaseOffset f + numLeases f * 72 = f.length := by
  unfold leaseOffset; have := hwf.2; omega

theorem numLeases_lt {f : File} (hwf : WF f) : numLeases f < 2 ^ 32 := by
  unfold numLeases
  have h := unpackBE_lt (pread f 8 4)
  rw [length_pread_of_le _ _ _ (by have := hwf.2; omega)] at h
  simpa using h

theorem length_recAt {f : File} (hwf : WF f) {i : Nat} (hi : i < numLeases f) : (recAt f i).length = 72 := by
  unfold recAt
  apply length_pread_of_le
  have := (lo_facts hwf).2
  have : (i + 1) * 72 ≤ numLeases f * 72 := Nat.mul_le_mul_right 72 hi
  omega

theorem filterMap_eq_map' {α β : Type} (l : List α) (f : α → Option β) (g : α → β)
    (h : ∀ x ∈ l, f x = some (g x)) : l.filterMap f = l.map g := by
  induction l with
  | nil => rfl
  | cons a t ih =>
    simp only [List.filterMap_cons, h a (List.mem_cons_self ..), List.map_cons]
    rw [ih (fun x hx => h x (List.mem_cons_of_mem _ hx))]

/-- under the invariant every record is complete, so `get_leases` is the parse of each record -/
theorem getLeases_eq {f : File} (hwf : WF f) :
    getLeases f = (List.range (numLeases f)).map (fun i => parseImm (recAt f i)) := by
  unfold getLeases
  apply filterMap_eq_map'
  intro i hi
  have hl := length_recAt hwf (List.mem_range.mp hi)
  unfold recAt at hl
  simp only [hl]
  rfl

theorem length_getLeases {f : File} (hwf : WF f) : (getLeases f).length = numLeases f := by
  rw [getLeases_eq hwf]; simp

theorem getElem?_getLeases {f : File} (hwf : WF f) (j : Nat) :
    (getLeases f)[j]? = if j < numLeases f then some (parseImm (recAt f j)) else none := by
  rw [getLeases_eq hwf, List.getElem?_map]
  by_cases hj : j < numLeases f
  · rw [if_pos hj, List.getElem?_range hj]; rfl
  · rw [if_neg hj, List.getElem?_eq_none (by simp; omega)]; rfl

/-! ### record round trip -/

theorem parseImm_serImm (l : Lease) (ho : l.owner < 2 ^ 32) (he : l.expire < 2 ^ 32)
    (hr : l.renew.length = 32) (hc : l.cancel.length = 32) (hn : l.nodeid = []) :
    parseImm (serImm l) = l := by
  unfold parseImm serImm
  rw [fixN_of_length _ _ hr, fixN_of_length _ _ hc]
  simp only [List.append_assoc]
  have e0 : pread (packU32 l.owner ++ (l.renew ++ (l.cancel ++ packU32 l.expire))) 0 4 = packU32 l.owner :=
    pread_append_prefix _ _ _ (by simp)
  have e1 : pread (packU32 l.owner ++ (l.renew ++ (l.cancel ++ packU32 l.expire))) 4 32 = l.renew := by
    rw [pread_append_of_le _ _ _ _ (by simp)]; simp only [length_packU32, Nat.sub_self]
    exact pread_append_prefix _ _ _ (by omega)
  have e2 : pread (packU32 l.owner ++ (l.renew ++ (l.cancel ++ packU32 l.expire))) 36 32 = l.cancel := by
    rw [pread_append_of_le _ _ _ _ (by simp), pread_append_of_le _ _ _ _ (by simp; omega)]
    simp only [length_packU32, hr]
    exact pread_append_prefix _ _ _ (by omega)
  have e3 : pread (packU32 l.owner ++ (l.renew ++ (l.cancel ++ packU32 l.expire))) 68 4 = packU32 l.expire := by
    rw [pread_append_of_le _ _ _ _ (by simp), pread_append_of_le _ _ _ _ (by simp; omega),
      pread_append_of_le _ _ _ _ (by simp; omega)]
    simp only [length_packU32, hr, hc]
    have := pread_all (packU32 l.expire)
    rw [length_packU32] at this
    exact this
  rw [e0, e1, e2, e3, unpackBE_packU32 _ ho, unpackBE_packU32 _ he]
  cases l; simp only at hn; subst hn; rfl

theorem parseImm_fields (d : Bytes) (hd : d.length = 72) :
    (parseImm d).owner < 2 ^ 32 ∧ (parseImm d).expire < 2 ^ 32 ∧ (parseImm d).renew.length = 32 ∧
    (parseImm d).cancel.length = 32 ∧ (parseImm d).nodeid = [] := by
  unfold parseImm
  have a := unpackBE_lt (pread d 0 4)
  have b := unpackBE_lt (pread d 68 4)
  rw [length_pread_of_le _ _ _ (by omega)] at a b
  refine ⟨by simpa using a, by simpa using b, ?_, ?_, rfl⟩ <;> exact length_pread_of_le _ _ _ (by omega)

/-- re-serializing a parsed record gives the record back -/
theorem serImm_parseImm (d : Bytes) (hd : d.length = 72) : serImm (parseImm d) = d := by
  unfold serImm parseImm
  simp only
  rw [packU32_unpackBE _ (length_pread_of_le _ _ _ (by omega)),
    packU32_unpackBE _ (length_pread_of_le _ _ _ (by omega)),
    fixN_of_length _ _ (length_pread_of_le _ _ _ (by omega)),
    fixN_of_length _ _ (length_pread_of_le _ _ _ (by omega))]
  have h1 := pread_append d 0 4 32
  have h2 := pread_append d 0 36 32
  have h3 := pread_append d 0 68 4
  simp only [Nat.zero_add] at h1 h2 h3
  have hall := pread_all d
  rw [hd] at hall
  rw [← h1, ← h2, ← h3]
  exact hall

/-! ### read-after-write on the record array -/

/-- what overwriting record `i` (an existing record) establishes -/
structure RecWrote (f g : File) (i : Nat) (rec : Bytes) : Prop where
  len : g.length = f.length
  num : numLeases g = numLeases f
  lo : leaseOffset g = leaseOffset f
  schema : schemaOf g = schemaOf f
  wf : WF g
  data : dataOf g = dataOf f
  recs : ∀ j, j < numLeases f → recAt g j = if j = i then rec else recAt f j

theorem write_spec (f : File) (hwf : WF f) (i : Nat) (hi : i < numLeases f) (rec : Bytes) (hrec : rec.length = 72) :
    RecWrote f (pwrite f (leaseOffset f + i * 72) rec) i rec := by
  obtain ⟨hlo, hend⟩ := lo_facts hwf
  have hi72 : (i + 1) * 72 ≤ numLeases f * 72 := Nat.mul_le_mul_right 72 hi
  have hl : (pwrite f (leaseOffset f + i * 72) rec).length = f.length :=
    length_pwrite_of_le _ _ _ (by omega)
  have fr : ∀ o m, (o + m ≤ leaseOffset f + i * 72 ∨ leaseOffset f + i * 72 + 72 ≤ o) →
      pread (pwrite f (leaseOffset f + i * 72) rec) o m = pread f o m := by
    intro o m hor; apply pread_pwrite_disj; rw [hrec]; omega
  have hnum : numLeases (pwrite f (leaseOffset f + i * 72) rec) = numLeases f :=
    congrArg unpackBE (fr 8 4 (Or.inl (by omega)))
  have hlo' : leaseOffset (pwrite f (leaseOffset f + i * 72) rec) = leaseOffset f := by
    show (pwrite f (leaseOffset f + i * 72) rec).length - numLeases (pwrite f (leaseOffset f + i * 72) rec) * 72
      = leaseOffset f
    rw [hl, hnum]; rfl
  have hsch : schemaOf (pwrite f (leaseOffset f + i * 72) rec) = schemaOf f := by
    unfold schemaOf; rw [fr 0 4 (Or.inl (by omega))]
  refine ⟨hl, hnum, hlo', hsch, ⟨by rw [hsch]; exact hwf.1, by rw [hnum, hl]; exact hwf.2⟩, ?_, ?_⟩
  · unfold dataOf; rw [hlo']; exact fr _ _ (Or.inl (by omega))
  · intro j hj
    unfold recAt; rw [hlo']
    by_cases hji : j = i
    · subst hji
      rw [if_pos rfl]
      have := pread_pwrite_eq f (leaseOffset f + j * 72) rec
      rw [hrec] at this; exact this
    · rw [if_neg hji]
      apply fr
      rcases Nat.lt_or_gt_of_ne hji with h | h
      · left; have : (j + 1) * 72 ≤ i * 72 := Nat.mul_le_mul_right 72 h; omega
      · right; have : (i + 1) * 72 ≤ j * 72 := Nat.mul_le_mul_right 72 h; omega

theorem RecWrote.getElem? {f g : File} {i : Nat} {rec : Bytes} (hwf : WF f) (w : RecWrote f g i rec) (j : Nat) :
    (getLeases g)[j]? = if j = i ∧ j < numLeases f then some (parseImm rec) else (getLeases f)[j]? := by
  rw [getElem?_getLeases w.wf, getElem?_getLeases hwf, w.num]
  by_cases hj : j < numLeases f
  · simp only [hj, if_true, and_true]
    rw [w.recs j hj]
    by_cases hji : j = i <;> simp [hji]
  · simp [hj]

/-! ### `renew_lease` search -/

theorem findRenew_some {h : Bytes → Bytes} {s : Schema} {sec : Bytes} {L : List Lease} {k i : Nat} {l : Lease}
    (e : findRenew h s sec L k = some (i, l)) : k ≤ i ∧ L[i - k]? = some l ∧ isRenewSecret h s l sec = true := by
  induction L generalizing k with
  | nil => simp [findRenew] at e
  | cons x rest ih =>
    simp only [findRenew] at e
    split at e
    · rename_i hm
      simp only [Option.some.injEq, Prod.mk.injEq] at e
      obtain ⟨rfl, rfl⟩ := e
      exact ⟨Nat.le_refl _, by simp, hm⟩
    · obtain ⟨a, b, c⟩ := ih e
      refine ⟨by omega, ?_, c⟩
      have : i - k = (i - (k + 1)) + 1 := by omega
      rw [this, List.getElem?_cons_succ]; exact b

/-- a listed lease is the parse of a complete record -/
theorem listed_lease {f : File} (hwf : WF f) {i : Nat} {l : Lease} (h : (getLeases f)[i]? = some l) :
    i < numLeases f ∧ l = parseImm (recAt f i) ∧ l.owner < 2 ^ 32 ∧ l.expire < 2 ^ 32 ∧ l.renew.length = 32 ∧
    l.cancel.length = 32 ∧ l.nodeid = [] := by
  rw [getElem?_getLeases hwf] at h
  split at h
  · rename_i hi
    simp only [Option.some.injEq] at h
    subst h
    exact ⟨hi, rfl, parseImm_fields _ (length_recAt hwf hi)⟩
  · simp at h

/-- list form of the read-after-write lemma: overwriting record `i` replaces entry `i` of `get_leases` -/
theorem RecWrote.getLeases {f g : File} {i : Nat} {rec : Bytes} (hwf : WF f) (w : RecWrote f g i rec) :
    getLeases g = (getLeases f).set i (parseImm rec) := by
  apply List.ext_getElem?; intro j
  rw [w.getElem? hwf j, List.getElem?_set, length_getLeases hwf]
  by_cases hji : j = i
  · subst hji
    by_cases hj : j < numLeases f <;> simp [hj, getElem?_getLeases hwf]
  · have : ¬ i = j := fun h => hji h.symm
    simp [hji, this]

/-! ### `add_lease`: a record appended at the end of the file -/

structure Appended (f g : File) (rec : Bytes) : Prop where
  len : g.length = f.length + 72
  num : numLeases g = numLeases f + 1
  lo : leaseOffset g = leaseOffset f
  schema : schemaOf g = schemaOf f
  wf : WF g
  data : dataOf g = dataOf f
  recs : ∀ j, j < numLeases f → recAt g j = recAt f j
  last : recAt g (numLeases f) = rec

theorem append_spec (f : File) (hwf : WF f) (rec : Bytes) (hrec : rec.length = 72) (hn : numLeases f + 1 < 2 ^ 32) :
    Appended f (pwrite (pwrite f (leaseOffset f + numLeases f * 72) rec) 8 (packU32 (numLeases f + 1))) rec := by
  obtain ⟨hlo, hend⟩ := lo_facts hwf
  rw [hend]
  have hl1 : (pwrite f f.length rec).length = f.length + 72 := by
    rw [length_pwrite, hrec]; simp
  have hl2 : (pwrite (pwrite f f.length rec) 8 (packU32 (numLeases f + 1))).length = f.length + 72 := by
    rw [length_pwrite_of_le _ _ _ (by rw [length_packU32, hl1]; omega), hl1]
  have fr2 : ∀ o m, (o + m ≤ 8 ∨ 12 ≤ o) →
      pread (pwrite (pwrite f f.length rec) 8 (packU32 (numLeases f + 1))) o m = pread (pwrite f f.length rec) o m := by
    intro o m hor; apply pread_pwrite_disj; rw [length_packU32, hl1]; omega
  have fr1 : ∀ o m, o + m ≤ f.length → pread (pwrite f f.length rec) o m = pread f o m := by
    intro o m hor; apply pread_pwrite_disj; omega
  have hnum : numLeases (pwrite (pwrite f f.length rec) 8 (packU32 (numLeases f + 1))) = numLeases f + 1 := by
    unfold numLeases
    have := pread_pwrite_eq (pwrite f f.length rec) 8 (packU32 (unpackBE (pread f 8 4) + 1))
    rw [length_packU32] at this
    rw [this]; exact unpackBE_packU32 _ hn
  have hlo' : leaseOffset (pwrite (pwrite f f.length rec) 8 (packU32 (numLeases f + 1))) = leaseOffset f := by
    show (pwrite (pwrite f f.length rec) 8 (packU32 (numLeases f + 1))).length
      - numLeases (pwrite (pwrite f f.length rec) 8 (packU32 (numLeases f + 1))) * 72 = leaseOffset f
    rw [hl2, hnum]; omega
  have hsch : schemaOf (pwrite (pwrite f f.length rec) 8 (packU32 (numLeases f + 1))) = schemaOf f := by
    unfold schemaOf; rw [fr2 0 4 (Or.inl (by omega)), fr1 0 4 (by omega)]
  refine ⟨hl2, hnum, hlo', hsch, ⟨by rw [hsch]; exact hwf.1, by rw [hnum, hl2]; have := hwf.2; omega⟩, ?_, ?_, ?_⟩
  · unfold dataOf; rw [hlo', fr2 _ _ (Or.inr (Nat.le_refl _)), fr1 _ _ (by omega)]
  · intro j hj
    have : (j + 1) * 72 ≤ numLeases f * 72 := Nat.mul_le_mul_right 72 hj
    unfold recAt; rw [hlo', fr2 _ _ (Or.inr (by omega)), fr1 _ _ (by omega)]
  · unfold recAt; rw [hlo', fr2 _ _ (Or.inr (by omega)), hend]
    have := pread_pwrite_eq f f.length rec
    rw [hrec] at this; exact this

theorem Appended.getLeases {f g : File} {rec : Bytes} (hwf : WF f) (w : Appended f g rec) :
    getLeases g = getLeases f ++ [parseImm rec] := by
  apply List.ext_getElem?; intro j
  rw [getElem?_getLeases w.wf, w.num]
  by_cases hj : j < numLeases f
  · rw [List.getElem?_append_left (by rw [length_getLeases hwf]; exact hj), getElem?_getLeases hwf,
      if_pos hj, if_pos (by omega), w.recs j hj]
  · rw [List.getElem?_append_right (by rw [length_getLeases hwf]; omega), length_getLeases hwf]
    by_cases hje : j = numLeases f
    · subst hje; simp [w.last]
    · have a : ¬ (j < numLeases f + 1) := by omega
      have b : j - numLeases f ≠ 0 := by omega
      rw [if_neg a]
      cases hk : j - numLeases f with
      | zero => exact absurd hk b
      | succ k => simp

/-! ### `cancel_lease`: re-pack, rewrite the count, truncate -/

theorem pread_truncate (f : File) (n o m : Nat) (h : o + m ≤ n) (hn : n ≤ f.length) :
    pread (truncate f n) o m = pread f o m := by
  apply List.ext_getElem?; intro i
  rw [getElem?_pread, getElem?_pread, getElem?_truncate]
  by_cases hi : i < m
  · have a : o + i < n := by omega
    have b : o + i < f.length := by omega
    simp [hi, a, b]
  · simp [hi]

/-- the re-packing loop: records `i, i+1, …` receive the serialized leases, nothing below moves -/
theorem rewrite_spec (lo : Nat) (L : List Lease) :
    ∀ (f : File) (i : Nat), lo + (i + L.length) * 72 ≤ f.length →
      (rewriteLeases f lo L i).length = f.length ∧
      (∀ o m, o + m ≤ lo + i * 72 → pread (rewriteLeases f lo L i) o m = pread f o m) ∧
      (∀ k l, L[k]? = some l → pread (rewriteLeases f lo L i) (lo + (i + k) * 72) 72 = serImm l) := by
  induction L with
  | nil => intro f i _; exact ⟨rfl, fun _ _ _ => rfl, fun k l h => by simp at h⟩
  | cons x rest ih =>
    intro f i hlen
    simp only [List.length_cons] at hlen
    simp only [rewriteLeases, writeLeaseRecord]
    have hl0 : (pwrite f (lo + i * 72) (serImm x)).length = f.length :=
      length_pwrite_of_le _ _ _ (by rw [length_serImm]; omega)
    obtain ⟨a, b, c⟩ := ih (pwrite f (lo + i * 72) (serImm x)) (i + 1) (by rw [hl0]; omega)
    refine ⟨a.trans hl0, ?_, ?_⟩
    · intro o m hom
      rw [b o m (by omega)]
      apply pread_pwrite_disj; left; omega
    · intro k l hk
      cases k with
      | zero =>
        simp only [List.getElem?_cons_zero, Option.some.injEq] at hk
        subst hk
        rw [Nat.add_zero, b _ _ (by omega)]
        have := pread_pwrite_eq f (lo + i * 72) (serImm x)
        rw [length_serImm] at this; exact this
      | succ k =>
        simp only [List.getElem?_cons_succ] at hk
        have := c k l hk
        have e : i + (k + 1) = i + 1 + k := by omega
        rw [e]; exact this

theorem cancel_file_aux (f f1 : File) (hwf : WF f) (keep : List Lease)
    (hsub : ∀ l ∈ keep, ∃ j : Nat, (getLeases f)[j]? = some l) (hle : keep.length ≤ numLeases f)
    (r1 : f1.length = f.length)
    (r2 : ∀ o m, o + m ≤ leaseOffset f + 0 * 72 → pread f1 o m = pread f o m)
    (r3 : ∀ k l, keep[k]? = some l → pread f1 (leaseOffset f + (0 + k) * 72) 72 = serImm l)
    (g : File) (hg : g = truncate (pwrite f1 8 (packU32 keep.length)) (leaseOffset f + keep.length * 72)) :
    WF g ∧ getLeases g = keep ∧ dataOf g = dataOf f ∧ schemaOf g = schemaOf f ∧
    numLeases g = keep.length ∧ leaseOffset g = leaseOffset f ∧ g.length = leaseOffset f + keep.length * 72 := by
  obtain ⟨hlo, hend⟩ := lo_facts hwf
  have hm72 : keep.length * 72 ≤ numLeases f * 72 := Nat.mul_le_mul_right 72 hle
  have hl2 : (pwrite f1 8 (packU32 keep.length)).length = f.length := by
    rw [length_pwrite_of_le _ _ _ (by rw [length_packU32, r1]; omega), r1]
  have hlg : g.length = leaseOffset f + keep.length * 72 := by rw [hg]; exact length_truncate _ _
  have thru : ∀ o m, o + m ≤ leaseOffset f + keep.length * 72 → (o + m ≤ 8 ∨ 12 ≤ o) → pread g o m = pread f1 o m := by
    intro o m h1 h2
    rw [hg, pread_truncate _ _ _ _ h1 (by rw [hl2]; omega)]
    apply pread_pwrite_disj; rw [length_packU32, r1]; omega
  have hnum : numLeases g = keep.length := by
    unfold numLeases
    rw [hg, pread_truncate _ _ _ _ (by omega) (by rw [hl2]; omega)]
    have := pread_pwrite_eq f1 8 (packU32 keep.length)
    rw [length_packU32] at this
    rw [this]; exact unpackBE_packU32 _ (by have := numLeases_lt hwf; omega)
  have hlo' : leaseOffset g = leaseOffset f := by
    show g.length - numLeases g * 72 = leaseOffset f
    rw [hlg, hnum]; omega
  have hsch : schemaOf g = schemaOf f := by
    unfold schemaOf; rw [thru 0 4 (by omega) (Or.inl (by omega)), r2 0 4 (by omega)]
  have hwfg : WF g := ⟨by rw [hsch]; exact hwf.1, by rw [hnum, hlg]; omega⟩
  refine ⟨hwfg, ?_, ?_, hsch, hnum, hlo', hlg⟩
  · apply List.ext_getElem?; intro k
    rw [getElem?_getLeases hwfg, hnum]
    by_cases hk : k < keep.length
    · rw [if_pos hk]
      have hk' : keep[k]? = some keep[k] := List.getElem?_eq_getElem hk
      have hk72 : (k + 1) * 72 ≤ keep.length * 72 := Nat.mul_le_mul_right 72 hk
      unfold recAt
      rw [hlo', thru _ _ (by omega) (Or.inr (by omega))]
      have := r3 k _ hk'
      rw [Nat.zero_add] at this
      rw [this, hk']
      obtain ⟨j, hj⟩ := hsub _ (List.getElem_mem hk)
      obtain ⟨_, _, a, b, c, d, e⟩ := listed_lease hwf hj
      rw [parseImm_serImm _ a b c d e]
    · rw [if_neg hk, List.getElem?_eq_none (by omega)]
  · unfold dataOf; rw [hlo', thru _ _ (by omega) (Or.inr (Nat.le_refl _)), r2 _ _ (by omega)]

/-- what a successful `cancel_lease` that keeps `keep` (all of them leases read from `f`) leaves behind -/
theorem cancel_file_spec (f : File) (hwf : WF f) (keep : List Lease)
    (hsub : ∀ l ∈ keep, ∃ j : Nat, (getLeases f)[j]? = some l) (hle : keep.length ≤ numLeases f)
    (g : File) (hg : g = truncate (pwrite (rewriteLeases f (leaseOffset f) keep 0) 8 (packU32 keep.length))
               (leaseOffset f + keep.length * 72)) :
    WF g ∧ getLeases g = keep ∧ dataOf g = dataOf f ∧ schemaOf g = schemaOf f ∧
    numLeases g = keep.length ∧ leaseOffset g = leaseOffset f ∧ g.length = leaseOffset f + keep.length * 72 := by
  obtain ⟨hlo, hend⟩ := lo_facts hwf
  have hm72 : keep.length * 72 ≤ numLeases f * 72 := Nat.mul_le_mul_right 72 hle
  obtain ⟨r1, r2, r3⟩ := rewrite_spec (leaseOffset f) keep f 0 (by omega)
  exact cancel_file_aux f _ hwf keep hsub hle r1 r2 r3 g hg

/-! ### `write_share_data` and the container of an open upload -/

/-- an accepted data write (bound `m` with `12 + m ≤ lease offset`) stays inside the share-data area -/
theorem writeShareData_spec (f : File) (hwf : WF f) (m : Nat) (hm : 12 + m ≤ leaseOffset f) (off : Nat) (d : Bytes)
    (g : File) (h : writeShareData f (some m) off d = .ok g) :
    g.length = f.length ∧ numLeases g = numLeases f ∧ leaseOffset g = leaseOffset f ∧ schemaOf g = schemaOf f ∧
    WF g ∧ (∀ o k, leaseOffset f ≤ o → pread g o k = pread f o k) ∧ (∀ j, recAt g j = recAt f j) ∧
    getLeases g = getLeases f := by
  obtain ⟨hlo, hend⟩ := lo_facts hwf
  simp only [writeShareData] at h
  split at h
  · simp at h
  · rename_i hfit
    simp only [Except.ok.injEq] at h
    subst h
    have hl : (pwrite f (12 + off) d).length = f.length := length_pwrite_of_le _ _ _ (by omega)
    have fr : ∀ o k, (o + k ≤ 12 ∨ leaseOffset f ≤ o) → pread (pwrite f (12 + off) d) o k = pread f o k := by
      intro o k hor; apply pread_pwrite_disj; omega
    have hnum : numLeases (pwrite f (12 + off) d) = numLeases f := congrArg unpackBE (fr 8 4 (Or.inl (by omega)))
    have hlo' : leaseOffset (pwrite f (12 + off) d) = leaseOffset f := by
      show (pwrite f (12 + off) d).length - numLeases (pwrite f (12 + off) d) * 72 = leaseOffset f
      rw [hl, hnum]; rfl
    have hsch : schemaOf (pwrite f (12 + off) d) = schemaOf f := by
      unfold schemaOf; rw [fr 0 4 (Or.inl (by omega))]
    have hwfg : WF (pwrite f (12 + off) d) := ⟨by rw [hsch]; exact hwf.1, by rw [hnum, hl]; exact hwf.2⟩
    have hrec : ∀ j, recAt (pwrite f (12 + off) d) j = recAt f j := by
      intro j; unfold recAt; rw [hlo']; exact fr _ _ (Or.inr (by omega))
    refine ⟨hl, hnum, hlo', hsch, hwfg, fun o k ho => fr o k (Or.inr ho), hrec, ?_⟩
    rw [getLeases_eq hwfg, getLeases_eq hwf, hnum]
    apply List.map_congr_left
    intro j _; rw [hrec j]

/-- the container `BucketWriter.__init__` creates: well formed, one lease, lease offset `12 + max_size` -/
theorem createWithLease_spec (h : Bytes → Bytes) (size : Nat) (li : Lease) :
    WF (createWithLease h size li) ∧ leaseOffset (createWithLease h size li) = 12 + size ∧
    numLeases (createWithLease h size li) = 1 ∧ schemaOf (createWithLease h size li) = some .v2 := by
  unfold createWithLease
  simp only
  generalize hrec : serImm (toStored h .v2 li) = rec
  have hrl : rec.length = 72 := by rw [← hrec]; exact length_serImm _
  generalize hf0 : packU32 2 ++ packU32 (min (2 ^ 32 - 1) size) ++ packU32 0 = f0
  have hl0 : f0.length = 12 := by rw [← hf0]; simp
  have h04 : pread f0 0 4 = packU32 2 := by
    rw [← hf0, List.append_assoc]; exact pread_append_prefix _ _ _ (by simp)
  have hl1 : (pwrite f0 (12 + size) rec).length = 12 + size + 72 := by
    rw [length_pwrite, hrl, hl0]; simp
  have hl2 : (pwrite (pwrite f0 (12 + size) rec) 8 (packU32 1)).length = 12 + size + 72 := by
    rw [length_pwrite_of_le _ _ _ (by rw [length_packU32, hl1]; omega), hl1]
  have hnum : numLeases (pwrite (pwrite f0 (12 + size) rec) 8 (packU32 1)) = 1 := by
    unfold numLeases
    have := pread_pwrite_eq (pwrite f0 (12 + size) rec) 8 (packU32 1)
    rw [length_packU32] at this
    rw [this]; exact unpackBE_packU32 1 (by omega)
  have hsch : schemaOf (pwrite (pwrite f0 (12 + size) rec) 8 (packU32 1)) = some .v2 := by
    unfold schemaOf
    rw [pread_pwrite_disj _ _ _ _ _ (Or.inl ⟨by omega, by rw [hl1]; omega⟩),
      pread_pwrite_disj _ _ _ _ _ (Or.inl ⟨by omega, by rw [hl0]; omega⟩), h04]
    have : unpackBE (packU32 2) = 2 := unpackBE_packU32 2 (by omega)
    simp [this]
  have hlo : leaseOffset (pwrite (pwrite f0 (12 + size) rec) 8 (packU32 1)) = 12 + size := by
    show (pwrite (pwrite f0 (12 + size) rec) 8 (packU32 1)).length
      - numLeases (pwrite (pwrite f0 (12 + size) rec) 8 (packU32 1)) * 72 = 12 + size
    rw [hl2, hnum]; omega
  exact ⟨⟨by rw [hsch]; rfl, by rw [hnum, hl2]; omega⟩, hlo, hnum, hsch⟩

end Tahoe.Storage.ImmL
