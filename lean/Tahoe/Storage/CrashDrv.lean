import Tahoe.Base.DrvUtil
import Tahoe.Storage.ImmDrv
import Tahoe.Storage.Crash
/-!
Line handler of the C29 driver.  `c29 <readonly 0|1> <reserved> <history ops…> ! <test op>`:
the history (protocol of ImmDrv) builds a server state; the test op is then expanded to its
primitive file operations and, for every crash index n = 0..len, the final-directory files after
crash + restart are printed.  Test ops: `A:…` (allocate_buckets, as in ImmDrv), `W:wid:off:hex`,
`C:wid`, `X:wid`, `AL:si:rechex:free:order` (StorageServer.add_lease over the listdir order),
`RL:si:rechex:order` (StorageServer.renew_lease).
Output: `ops=<op;op;…>|<dump n=0>|<dump n=1>|…|T<n>.<j>=<dump>…` (dump = `F.si.sh=hex,…`; `T<n>.<j>`: the
`n`-th primitive operation is a write torn after `j` bytes, for j = 1 and j = half of its length).
-/
namespace Tahoe.Storage.CrashDrv
open Tahoe.Drv Tahoe.Storage.Imm Tahoe.Storage.Crash Tahoe.Storage.ImmDrv Tahoe.Base.FsOp

def showPath : Path → String
  | .fin k => s!"F.{k.1}.{k.2}"
  | .inc k => s!"I.{k.1}.{k.2}"
  | .finDir si => s!"FD.{si}"
  | .incDir si => s!"ID.{si}"
  | .incPrefix _ => "IP"   -- SIs may share a prefix directory: printed without the SI

def showOp : IOp → String
  | .create p => s!"create:{showPath p}"
  | .pwrite p off d => s!"pwrite:{showPath p}:{off}:{hexOfBytes d}"
  | .truncate p n => s!"truncate:{showPath p}:{n}"
  | .rename a b => s!"rename:{showPath a}:{showPath b}"
  | .unlink p => s!"unlink:{showPath p}"
  | .mkdir p => s!"mkdir:{showPath p}"
  | .rmdir p => s!"rmdir:{showPath p}"

/-- lease operations over the existing shares of `si` in listdir order, stopping at the first
    exception (NoSpace / struct.error); `true` = completed without exception -/
def leaseSOps (s : Server) (si : Nat) (rec : Bytes) (avail : Nat) : List Nat → List SOp × Bool
  | [] => ([], true)
  | sh :: rest =>
    match getK (si, sh) s.final with
    | none => leaseSOps s si rec avail rest
    | some f =>
      match openLeaseOffset f with
      | none => leaseSOps s si rec avail rest
      | some lo =>
        match addOrRenew avail lo f rec with
        | .ok _ => let r := leaseSOps s si rec avail rest; (SOp.lease (si, sh) rec avail :: r.1, r.2)
        | _ => ([], false)

/-- `StorageServer.renew_lease(si, renew_secret)`: `ShareFile.renew_lease` on every share in listdir
    order; stops at the first `IndexError` (no lease with that renew secret on a share) -/
def renewSOps (s : Server) (si : Nat) (rec : Bytes) : List Nat → List SOp
  | [] => []
  | sh :: rest =>
    match getK (si, sh) s.final with
    | none => renewSOps s si rec rest
    | some f =>
      match openLeaseOffset f with
      | none => renewSOps s si rec rest
      | some lo =>
        match renewLease lo f rec with
        | some _ => SOp.lease (si, sh) rec 0 :: renewSOps s si rec rest
        | none => []

def lastOfSi (s : Server) (k : Key) : Bool :=
  !(s.incoming.any (fun e => e.1.1 == k.1 && e.1.2 != k.2))

def sopsOf (s : Server) (op : String) : Option (List SOp) :=
  match op.splitOn ":" with
  | ["A", si, shs, size, rec, free, order] => do
    let si ← si.toNat?
    let shs ← parseNatList shs
    let size ← size.toNat?
    let rec ← bytesOfHex rec
    let free ← free.toNat?
    let order ← parseNatList order
    let l := leaseSOps s si rec (availableSpace s free) order
    if !l.2 then pure l.1 else
    match (allocate s si shs size rec free order).2 with
    | .ok o =>
      let cr := o.writers.map (fun p => SOp.create (si, p.1) size rec)
      pure (l.1 ++ cr ++ (if cr.isEmpty then [] else [SOp.mkFinDir si]))
    | .error _ => pure l.1
  | ["AL", si, rec, free, order] => do
    let si ← si.toNat?
    pure (leaseSOps s si (← bytesOfHex rec) (availableSpace s (← free.toNat?)) (← parseNatList order)).1
  | ["RL", si, rec, order] => do
    pure (renewSOps s (← si.toNat?) (← bytesOfHex rec) (← parseNatList order))
  | ["W", wid, off, d] => do
    let wid ← wid.toNat?
    let off ← off.toNat?
    let d ← bytesOfHex d
    match findWid wid s.incoming, (writeOp s wid off d).2 with
    | some e, .ok _ => pure [SOp.write e.1 off d]
    | _, _ => pure []
  | ["C", wid] => do
    match findWid (← wid.toNat?) s.incoming with
    | some e => pure [SOp.close e.1 (lastOfSi s e.1)]
    | none => pure []
  | ["X", wid] => do
    match findWid (← wid.toNat?) s.incoming with
    | some e => pure [SOp.abort e.1 (lastOfSi s e.1)]
    | none => pure []
  | _ => none

def dumpFin (keys : List Key) (fs : IFs) : String :=
  showFiles "F" (keys.filterMap (fun k => (fs (.fin k)).map (fun f => (k, f))))

def splitBang : List String → List String → Option (List String × List String)
  | _, [] => none
  | acc, t :: rest => if t == "!" then some (acc.reverse, rest) else splitBang (t :: acc) rest

def dedupKeys (l : List Key) : List Key := l.foldr (fun k acc => if acc.contains k then acc else k :: acc) []

def handle : List String → String
  | ["c29m", fhex, rechex] =>
    -- mutable container `fhex`, extra-lease append of the 92-byte record `rechex`: the primitive writes,
    -- and for every crash index whether the leases are still enumerable / the share data unchanged
    match bytesOfHex fhex, bytesOfHex rechex with
    | some f, some rec =>
      let p := Path.fin (0, 0)
      let fs0 : IFs := fun q => if q = p then some f else none
      let ops := mutAddExtraLeaseOps p f rec
      let st := (List.range (ops.length + 1)).map (fun n => Tahoe.Base.FsOp.run fs0 (ops.take n) p)
      let rd := st.map (fun o => match o with | some g => if mutLeasesReadable g then "1" else "0" | none => "x")
      let dt := st.map (fun o => match o with | some g => if mutData g == mutData f then "1" else "0" | none => "x")
      "ops=" ++ ";".intercalate (ops.map showOp) ++ "|r=" ++ ",".intercalate rd ++ "|d=" ++ ",".intercalate dt
    | _, _ => "bad-op"
  | "c29" :: ro :: reserved :: toks =>
    match (if ro == "0" then some false else if ro == "1" then some true else none), reserved.toNat?,
          splitBang [] toks with
    | some ro, some rs, some (hist, [test]) =>
      match (hist.foldlM (fun (s : Server) op => (stepOp s op).map (·.1)) (Server.empty ro rs)) with
      | none => "bad-op"
      | some s =>
        match sopsOf s test with
        | none => "bad-op"
        | some sops =>
          let fs0 := fsOfServer s
          let ops := sops.flatMap (fsops fs0)
          let newKeys := sops.filterMap (fun o => match o with | .close k _ => some k | _ => none)
          let keys := dedupKeys (s.final.map (·.1) ++ newKeys)
          let dumps := (List.range (ops.length + 1)).map (fun n =>
            dumpFin keys (restart (Tahoe.Base.FsOp.run fs0 (ops.take n))))
          -- torn writes: every pwrite torn after 1 byte and after half of its bytes
          let torn := (List.range ops.length).flatMap (fun n =>
            match (ops[n]? : Option IOp) with
            | some (FsOp.pwrite p off d) =>
              let js := if d.length / 2 > 1 then [1, d.length / 2] else (if d.length ≥ 1 then [1] else [])
              js.map (fun j => s!"T{n}.{j}=" ++
                dumpFin keys (restart (Tahoe.Base.FsOp.run fs0 (ops.take n ++ tornOp j (FsOp.pwrite p off d)))))
            | _ => [])
          "ops=" ++ (if ops.isEmpty then "-" else ";".intercalate (ops.map showOp)) ++ "|" ++ "|".intercalate (dumps ++ torn)
    | _, _, _ => "bad-op"
  | _ => "bad-op"

end Tahoe.Storage.CrashDrv
