import Tahoe.Storage.Slot
import Tahoe.Storage.Spec
/-!
The abstract specification of a storage index for C23/C24: a finite map from share numbers to
byte arrays (association list), and what a read-test-write request does to it.
-/
namespace Tahoe.Storage.Spec
open Tahoe.Base.File Tahoe.Storage.Slot

/-- share number ↦ byte array (the same association-list shape as a `Bucket`, so `lookup`, `erase`
    and `store` of `Tahoe.Storage.Slot` are reused) -/
abbrev Slot := List (Nat × Bytes)

/-- a missing share reads as empty -/
def dataOf (a : Slot) (n : Nat) : Bytes := (lookup a n).getD []

/-- all test vectors of the request hold on the current data -/
def evalTests (a : Slot) (tw : List (Nat × TW)) : Bool :=
  tw.all fun (n, t) => testv (dataOf a n) t.testv

def evalReads (a : Slot) (rv : List (Nat × Nat)) : List (Nat × List Bytes) :=
  a.map fun (n, d) => (n, readv d rv)

/-- apply EVERY write vector of the request to EVERY share it names; `new_length = 0` deletes -/
def evalWrites : Slot → List (Nat × TW) → Slot
  | a, [] => a
  | a, (n, t) :: rest =>
    if t.newLength == some 0 then evalWrites (erase a n) rest
    else evalWrites (store a n (writev (dataOf a n) t.datav t.newLength)) rest

def slotReadv (a : Slot) (shares : List Nat) (rv : List (Nat × Nat)) : List (Nat × List Bytes) :=
  (a.filter fun p => shares.isEmpty || shares.contains p.1).map fun (n, d) => (n, readv d rv)

end Tahoe.Storage.Spec
