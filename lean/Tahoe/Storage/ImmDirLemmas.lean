import Tahoe.Storage.ImmDirs
import Tahoe.Storage.ImmConnLemmas
/-! Lemmas about the directory structure model (ImmDirs): what `abort` / `close` remove, and the
    invariant "the bucket directory of every incoming file exists".  Mathlib-free. -/
namespace Tahoe.Storage.Imm
open Tahoe.Base.File

theorem mem_addDir (dirs : List Dir) (d x : Dir) : x ∈ addDir dirs d ↔ x = d ∨ x ∈ dirs := by
  simp only [addDir]
  split
  · rename_i h
    simp only [List.contains_eq_mem, decide_eq_true_eq] at h
    constructor
    · exact Or.inr
    · rintro (rfl | h') <;> assumption
  · simp

theorem mem_allocDirs_of_mem (pre : Nat → Nat) (dirs : List Dir) (si : Nat) (a : Bool) (x : Dir)
    (h : x ∈ dirs) : x ∈ allocDirs pre dirs si a := by
  simp only [allocDirs]; split
  · simp only [mem_addDir]; simp [h]
  · exact h

theorem incDir_mem_allocDirs (pre : Nat → Nat) (dirs : List Dir) (si : Nat) :
    Dir.incDir si ∈ allocDirs pre dirs si true ∧ Dir.finDir si ∈ allocDirs pre dirs si true := by
  simp [allocDirs, mem_addDir]

theorem rmIncDir_some (inc : Inc) (dirs : List Dir) (si : Nat) (d2 : List Dir)
    (h : rmIncDir inc dirs si = some d2) :
    d2 = dirs.filter (fun d => d != .incDir si) ∧ Dir.incDir si ∈ dirs ∧ ∀ e ∈ inc, e.1.1 ≠ si := by
  simp only [rmIncDir] at h
  split at h
  · rename_i hc
    simp only [Bool.and_eq_true, List.contains_eq_mem, decide_eq_true_eq, incDirEmpty, Bool.not_eq_true',
      List.any_eq_false, beq_iff_eq] at hc
    simp only [Option.some.injEq] at h
    exact ⟨h.symm, hc.1, fun e he => by simpa using hc.2 e he⟩
  · simp at h

theorem rmIncDir_none (inc : Inc) (dirs : List Dir) (si : Nat) (h : rmIncDir inc dirs si = none)
    (he : incDirEmpty inc si = true) : Dir.incDir si ∉ dirs := by
  simp only [rmIncDir, he, Bool.and_true] at h
  split at h
  · simp at h
  · rename_i hc; simpa using hc

theorem rmIncPrefix_some (pre : Nat → Nat) (dirs : List Dir) (p : Nat) (d3 : List Dir)
    (h : rmIncPrefix pre dirs p = some d3) : d3 = dirs.filter (fun d => d != .incPrefix p) := by
  simp only [rmIncPrefix] at h
  split at h
  · simp only [Option.some.injEq] at h; exact h.symm
  · simp at h

/-- `abort` on a live handle: what it does to files and directories, whatever the state -/
theorem dAbort_exact (d : DServer) (wid : Nat) (k : Key) (v : Writer × File)
    (hf : findWid wid d.srv.incoming = some (k, v)) :
    ((dAbort d wid).2 = false → (dAbort d wid).1.srv = abortOp d.srv wid) ∧
    (dAbort d wid).1.srv.final = d.srv.final ∧
    (∀ x, x ≠ Dir.incDir k.1 → (x ∈ (dAbort d wid).1.dirs ↔ x ∈ d.dirs)) ∧
    (∀ x, x ∈ (dAbort d wid).1.dirs → x ∈ d.dirs) ∧
    (Dir.incDir k.1 ∈ d.dirs → Dir.incDir k.1 ∉ (dAbort d wid).1.dirs →
        ∀ e ∈ (dAbort d wid).1.srv.incoming, e.1.1 ≠ k.1) ∧
    ((dAbort d wid).2 = true → Dir.incDir k.1 ∉ d.dirs) := by
  have hab : (abortOp d.srv wid).final = d.srv.final ∧ (abortOp d.srv wid).incoming = eraseK k d.srv.incoming := by
    simp [abortOp, hf]
  simp only [dAbort, hf]
  split
  · rename_i hempty
    split
    · rename_i dirs' hrm
      obtain ⟨hd, hmem, hne⟩ := rmIncDir_some _ _ _ _ hrm
      subst hd
      refine ⟨fun _ => rfl, hab.1, ?_, ?_, ?_, by simp⟩
      · intro x hx; simp [List.mem_filter, hx]
      · intro x hx; exact (List.mem_filter.mp hx).1
      · intro _ _ e he; rw [hab.2] at he; exact hne e he
    · rename_i hrm
      have := rmIncDir_none _ _ _ hrm hempty
      exact ⟨by simp, rfl, fun _ _ => Iff.rfl, fun _ h => h, fun h1 _ => absurd h1 this, fun _ => this⟩
  · exact ⟨fun _ => rfl, hab.1, fun _ _ => Iff.rfl, fun _ h => h, fun h1 h2 => absurd h1 h2, by simp⟩

/-- the bucket directory of every incoming file exists -/
def IncDirsExist (d : DServer) : Prop := ∀ e ∈ d.srv.incoming, Dir.incDir e.1.1 ∈ d.dirs

theorem dAbort_inv (d : DServer) (h : IncDirsExist d) (wid : Nat) :
    (dAbort d wid).2 = false ∧ (dAbort d wid).1.srv = abortOp d.srv wid ∧ IncDirsExist (dAbort d wid).1 := by
  cases hf : findWid wid d.srv.incoming with
  | none => simp [dAbort, abortOp, hf]; exact h
  | some e =>
    obtain ⟨k, v⟩ := e
    obtain ⟨hem, _⟩ := findWid_mem wid _ _ hf
    have hk : Dir.incDir k.1 ∈ d.dirs := h _ hem
    have ex := dAbort_exact d wid k v hf
    have hnr : (dAbort d wid).2 = false := by
      cases hb : (dAbort d wid).2 with
      | false => rfl
      | true => exact absurd hk (ex.2.2.2.2.2 hb)
    have hsrv := ex.1 hnr
    refine ⟨hnr, hsrv, ?_⟩
    intro e he
    have he' : e ∈ d.srv.incoming := by
      rw [hsrv] at he
      simp only [abortOp, hf] at he
      exact (List.mem_filter.mp he).1
    by_cases hx : Dir.incDir e.1.1 = Dir.incDir k.1
    · by_cases hin : Dir.incDir k.1 ∈ (dAbort d wid).1.dirs
      · rw [hx]; exact hin
      · have := ex.2.2.2.2.1 hk hin e he
        simp only [Dir.incDir.injEq] at hx
        exact absurd hx this
    · exact (ex.2.2.1 _ hx).mpr (h e he')

theorem dAbortAll_inv (wids : List Nat) (d : DServer) (h : IncDirsExist d) :
    IncDirsExist (dAbortAll d wids) ∧ (dAbortAll d wids).srv = wids.foldl abortOp d.srv := by
  induction wids generalizing d with
  | nil => exact ⟨h, rfl⟩
  | cons w rest ih =>
    simp only [dAbortAll, List.foldl_cons]
    have e := dAbort_inv d h w
    have r := ih (dAbort d w).1 e.2.2
    simp only [dAbortAll] at r
    exact ⟨r.1, by rw [r.2, e.2.1]⟩

theorem allocLoop_mem (si size : Nat) (rec : Bytes) (shs : List Nat) (s : Server) (rem : Int)
    (e : Key × (Writer × File)) (he : e ∈ (allocLoop si size rec s rem shs).1.incoming) :
    e ∈ s.incoming ∨ (e.1.1 = si ∧ (allocLoop si size rec s rem shs).2 ≠ []) := by
  induction shs generalizing s rem with
  | nil => left; simpa [allocLoop] using he
  | cons sh rest ih =>
    by_cases c1 : (getK (si, sh) s.final).isSome = true
    · simp only [allocLoop, c1, ↓reduceIte] at he ⊢; exact ih s rem he
    · by_cases c2 : (getK (si, sh) s.incoming).isSome = true
      · simp only [allocLoop, c1, c2, ↓reduceIte] at he ⊢; exact ih s rem he
      · by_cases c3 : s.readonly = true
        · simp only [allocLoop, c1, c2, c3, ↓reduceIte] at he ⊢; exact ih s rem he
        · by_cases c4 : rem ≥ (size : Int)
          · simp only [allocLoop, c1, c2, c3, c4, ↓reduceIte] at he ⊢
            rcases ih _ _ he with h1 | h1
            · simp only [List.mem_cons] at h1
              rcases h1 with rfl | h1
              · right; simp
              · left; exact h1
            · right; exact ⟨h1.1, by simp⟩
          · simp only [allocLoop, c1, c2, c3, c4, ↓reduceIte] at he ⊢; exact ih s rem he

theorem allocate_mem (s : Server) (si : Nat) (shs : List Nat) (size : Nat) (rec : Bytes) (free : Nat)
    (order : List Nat) (e : Key × (Writer × File))
    (he : e ∈ (allocate s si shs size rec free order).1.incoming) :
    e ∈ s.incoming ∨ (e.1.1 = si ∧ accepted (allocate s si shs size rec free order).2 = true) := by
  simp only [allocate, allocateWith] at he ⊢
  generalize leaseLoop (availableSpace s free) rec si s.final order = ll at he ⊢
  obtain ⟨fin', err⟩ := ll
  cases err with
  | some x => left; exact he
  | none =>
    simp only at he ⊢
    rcases allocLoop_mem si size rec shs _ _ e he with h | h
    · left; exact h
    · right; refine ⟨h.1, ?_⟩
      simp only [accepted, Bool.not_eq_true', List.isEmpty_eq_false_iff]
      exact h.2

theorem allocateConn_snd (s : Server) (c si : Nat) (shs : List Nat) (size : Nat) (rec : Bytes)
    (free : Nat) (order : List Nat) :
    (allocateConn s c si shs size rec free order).2 = (allocate s si shs size rec free order).2 := by
  simp only [allocateConn]
  generalize allocate s si shs size rec free order = r
  obtain ⟨r1, r2⟩ := r
  cases r2 <;> rfl

/-- every front-end operation keeps the bucket directories of the incoming files in place -/
theorem dfstep_inv (pre : Nat → Nat) (d : DServer) (h : IncDirsExist d) (op : FOp) :
    IncDirsExist (dfstep pre d op) := by
  have alloc : ∀ (srv' : Server) (si : Nat) (acc : Bool),
      (∀ e ∈ srv'.incoming, e ∈ d.srv.incoming ∨ (e.1.1 = si ∧ acc = true)) →
      IncDirsExist { srv := srv', dirs := allocDirs pre d.dirs si acc } := by
    intro srv' si acc hm e he
    rcases hm e he with h1 | ⟨h1, h2⟩
    · exact mem_allocDirs_of_mem pre _ _ _ _ (h e h1)
    · subst h2; rw [h1]; exact (incDir_mem_allocDirs pre d.dirs si).1
  cases op with
  | allocConn c si shs size rec free order =>
    simp only [dfstep]
    apply alloc
    intro e he
    rw [(allocateConn_fields d.srv c si shs size rec free order).2] at he
    rw [allocateConn_snd]
    exact allocate_mem d.srv si shs size rec free order e he
  | disconnect c => exact (dAbortAll_inv _ d h).1
  | restart => intro e he; simp [dfstep, restartOp] at he
  | direct o =>
    cases o with
    | alloc si shs size rec free order =>
      simp only [dfstep]
      exact alloc _ si _ (fun e he => allocate_mem d.srv si shs size rec free order e he)
    | write wid off data =>
      simp only [dfstep]
      intro e he
      simp only [writeOp] at he
      cases hf : findWid wid d.srv.incoming with
      | none => simp only [hf] at he; exact h e he
      | some x =>
        obtain ⟨k, w, f⟩ := x
        simp only [hf, setK, List.mem_cons] at he
        rcases he with rfl | he
        · show Dir.incDir k.1 ∈ d.dirs; exact h (k, w, f) (findWid_mem wid _ _ hf).1
        · exact h e (List.mem_filter.mp he).1
    | close wid =>
      simp only [dfstep, dClose]
      cases hf : findWid wid d.srv.incoming with
      | none => exact h
      | some x =>
        obtain ⟨k, v⟩ := x
        have hinc : (closeOp d.srv wid).1.incoming = eraseK k d.srv.incoming := by simp [closeOp, hf]
        simp only
        intro e he
        simp only [hinc] at he
        have he0 : e ∈ d.srv.incoming := (List.mem_filter.mp he).1
        have h1 : Dir.incDir e.1.1 ∈ addDir (addDir d.dirs (.finPrefix (pre k.1))) (.finDir k.1) := by
          simp only [mem_addDir]; exact Or.inr (Or.inr (h e he0))
        simp only [hinc]
        split
        · exact h1
        · rename_i d2 hrm
          obtain ⟨hd2, _, hne⟩ := rmIncDir_some _ _ _ _ hrm
          have h2 : Dir.incDir e.1.1 ∈ d2 := by
            rw [hd2]; simp only [List.mem_filter, h1, true_and, bne_iff_ne, ne_eq, Dir.incDir.injEq]
            exact hne e he
          split
          · exact h2
          · rename_i d3 hrp
            rw [rmIncPrefix_some _ _ _ _ hrp]
            simp [List.mem_filter, h2]
    | abort wid => exact (dAbort_inv d h wid).2.2
    | advance dt =>
      simp only [dfstep]
      exact (dAbortAll_inv _ d h).1
    | read k off len => exact h
    | list si => exact h

theorem dfrun_inv (pre : Nat → Nat) (d : DServer) (h : IncDirsExist d) (ops : List FOp) :
    IncDirsExist (dfrun pre d ops) := by
  induction ops generalizing d with
  | nil => exact h
  | cons op rest ih => simp only [dfrun, List.foldl_cons]; exact ih _ (dfstep_inv pre d h op)

theorem dAbort_removes_empty (d : DServer) (wid : Nat) (k : Key) (v : Writer × File)
    (hf : findWid wid d.srv.incoming = some (k, v)) (hr : (dAbort d wid).2 = false)
    (he : ∀ e ∈ eraseK k d.srv.incoming, e.1.1 ≠ k.1) : Dir.incDir k.1 ∉ (dAbort d wid).1.dirs := by
  have hempty : incDirEmpty (eraseK k d.srv.incoming) k.1 = true := by
    simp only [incDirEmpty, Bool.not_eq_true', List.any_eq_false, beq_iff_eq]
    intro e hx; simpa using he e hx
  simp only [dAbort, hf, hempty, if_true] at hr ⊢
  split
  · rename_i dirs' hrm
    rw [(rmIncDir_some _ _ _ _ hrm).1]; simp [List.mem_filter]
  · rename_i hrm; simp [hrm] at hr

/-- reachable-state invariant of the server with its directory tree -/
structure DInv (d : DServer) : Prop where
  wf : WF d.srv
  wfh : WFH d.srv
  dirs : IncDirsExist d

theorem dClose_srv (pre : Nat → Nat) (d : DServer) (wid : Nat) : (dClose pre d wid).srv = (closeOp d.srv wid).1 := by
  simp only [dClose]
  cases hf : findWid wid d.srv.incoming with
  | none => simp [closeOp, hf]
  | some x => obtain ⟨k, v⟩ := x; rfl

theorem dfstep_dinv (pre : Nat → Nat) (d : DServer) (h : DInv d) (op : FOp) (ok : FOpOk op) :
    DInv (dfstep pre d op) := by
  refine ⟨?_, ?_, dfstep_inv pre d h.dirs op⟩
  · cases op with
    | allocConn c si shs size rec free order => exact (fstep_inv d.srv h.wf h.wfh (.allocConn c si shs size rec free order) ok).1
    | disconnect c =>
      simp only [dfstep, (dAbortAll_inv _ d h.dirs).2]
      exact (wf_foldl_abort _ d.srv h.wf).1
    | restart => exact (fstep_inv d.srv h.wf h.wfh .restart ok).1
    | direct o =>
      cases o with
      | alloc si shs size rec free order => exact (fstep_inv d.srv h.wf h.wfh (.direct (.alloc si shs size rec free order)) ok).1
      | write wid off data => exact (fstep_inv d.srv h.wf h.wfh (.direct (.write wid off data)) ok).1
      | close wid => simp only [dfstep, dClose_srv]; exact (fstep_inv d.srv h.wf h.wfh (.direct (.close wid)) ok).1
      | abort wid => simp only [dfstep, (dAbort_inv d h.dirs wid).2.1]; exact (fstep_inv d.srv h.wf h.wfh (.direct (.abort wid)) ok).1
      | advance dt =>
        simp only [dfstep, (dAbortAll_inv _ d h.dirs).2]
        have e := (wf_foldl_abort (expiredWids d.srv (d.srv.now + dt)) d.srv h.wf).1
        exact ⟨e.incKeys, e.inc, e.fin, e.disj⟩
      | read k off len => exact h.wf
      | list si => exact h.wf
  · cases op with
    | allocConn c si shs size rec free order => exact (fstep_inv d.srv h.wf h.wfh (.allocConn c si shs size rec free order) ok).2
    | disconnect c =>
      simp only [dfstep, (dAbortAll_inv _ d h.dirs).2]
      exact wfh_foldl_abort _ d.srv h.wfh
    | restart => exact (fstep_inv d.srv h.wf h.wfh .restart ok).2
    | direct o =>
      cases o with
      | alloc si shs size rec free order => exact (fstep_inv d.srv h.wf h.wfh (.direct (.alloc si shs size rec free order)) ok).2
      | write wid off data => exact (fstep_inv d.srv h.wf h.wfh (.direct (.write wid off data)) ok).2
      | close wid => simp only [dfstep, dClose_srv]; exact (fstep_inv d.srv h.wf h.wfh (.direct (.close wid)) ok).2
      | abort wid => simp only [dfstep, (dAbort_inv d h.dirs wid).2.1]; exact (fstep_inv d.srv h.wf h.wfh (.direct (.abort wid)) ok).2
      | advance dt =>
        simp only [dfstep, (dAbortAll_inv _ d h.dirs).2]
        have e := wfh_foldl_abort (expiredWids d.srv (d.srv.now + dt)) d.srv h.wfh
        exact ⟨e.widLt, e.widNodup, e.connLt, e.connNodup⟩
      | read k off len => exact h.wfh
      | list si => exact h.wfh

theorem dinv_empty (ro : Bool) (rs : Nat) : DInv (DServer.empty ro rs) :=
  ⟨wf_empty ro rs, wfh_empty ro rs, by simp [IncDirsExist, DServer.empty, Server.empty]⟩

theorem dfrun_dinv (pre : Nat → Nat) (d : DServer) (h : DInv d) (ops : List FOp) (ok : ∀ o ∈ ops, FOpOk o) :
    DInv (dfrun pre d ops) := by
  induction ops generalizing d with
  | nil => exact h
  | cons op rest ih =>
    simp only [dfrun, List.foldl_cons]
    exact ih _ (dfstep_dinv pre d h op (ok op List.mem_cons_self)) (fun o ho => ok o (List.mem_cons_of_mem _ ho))

end Tahoe.Storage.Imm
