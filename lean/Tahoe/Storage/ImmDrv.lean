import Tahoe.Base.DrvUtil
import Tahoe.Storage.Immutable
import Tahoe.Storage.ImmDirs
/-!
Line handler shared by the drivers of C22 and C28 (`lean/Drv/C22.lean`, `lean/Drv/C28.lean`).

One whole history per line:  `imm <readonly 0|1> <reserved> op op …`  with
  `A:si:shs:size:rechex:free:order[:conn]`  allocate_buckets (shs / order: comma lists or `-`); with
        `conn`: FoolscapStorageServer.remote_allocate_buckets on connection (canary) `conn`
  `Z`               the server process is killed and restarted on the same directory → `ok`
  `K:conn`          the connection is lost (its canary fires the registered watchers) → `ok`
        → `a=<already sorted>|w=<shnum>.<wid>,…`  or  `NoSpace` / `StructError`
  `W:wid:off:hex`   bw.write   → `ok.T|ok.F|conflict|toolarge|valueerror|closed` `/` ranges after
  `H:wid:off:hex`   HTTP PATCH: bw.write, then bw.close as soon as write answers finished → `created|ok|conflict|…` `/` ranges
  `C:wid`           bw.close   → `ok|closed`
  `X:wid`           bw.abort / bw.disconnected → `ok`
  `T:dt`            clock.advance(dt) → `ok`
  `R:si:sh:off:len` get_buckets(si)[sh].read(off,len) → hex | `absent`
  `L:si`            get_buckets(si) → `sh.len,…` sorted
  `S`               allocated_size()
  `D`               all container bytes: `F.si.sh=hex,…;I.si.sh=hex,…` sorted
Output: one field per op joined by a space.
-/
namespace Tahoe.Storage.ImmDrv
open Tahoe.Drv Tahoe.Storage.Imm

def insSorted {α : Type} (lt : α → α → Bool) (x : α) : List α → List α
  | [] => [x]
  | y :: ys => if lt x y then x :: y :: ys else y :: insSorted lt x ys

def sortBy {α : Type} (lt : α → α → Bool) (l : List α) : List α := l.foldr (insSorted lt) []

def keyLt (a b : Key) : Bool := a.1 < b.1 || (a.1 == b.1 && a.2 < b.2)

def showList (l : List String) : String := if l.isEmpty then "-" else ",".intercalate l

def showRanges (w : Ranges) : String := showList (w.map (fun r => s!"{r.1}-{r.2}"))

def showWrite : WriteRes → String
  | .ok true => "ok.T" | .ok false => "ok.F" | .conflict => "conflict" | .tooLarge => "toolarge"
  | .valueError => "valueerror" | .closed => "closed"

def showFiles (tag : String) (l : List (Key × Tahoe.Base.File.File)) : String :=
  showList ((sortBy (fun a b => keyLt a.1 b.1) l).map
    (fun e => s!"{tag}.{e.1.1}.{e.1.2}={hexOfBytes e.2}"))

/-- the `free` field of an `A` token: plain bytes, or `<f_bavail>x<f_frsize>x<f_bsize>` (a statvfs
    record; the model's disk-stats step `freeBytes` turns it into bytes) -/
def parseFree (t : String) : Option Nat :=
  match t.splitOn "x" with
  | [n] => n.toNat?
  | [ba, fr, bs] => do
    pure (freeBytes { frsize := (← fr.toNat?), bsize := (← bs.toNat?), blocks := 0, bfree := (← ba.toNat?), bavail := (← ba.toNat?) })
  | _ => none

def stepOp (s : Server) (op : String) : Option (Server × String) :=
  match op.splitOn ":" with
  | ["A", si, shs, size, rec, free, order] => do
    let r := allocate s (← si.toNat?) (← parseNatList shs) (← size.toNat?) (← bytesOfHex rec)
                (← parseFree free) (← parseNatList order)
    match r.2 with
    | .ok o =>
      let al := showList ((sortBy (fun a b => decide (a < b)) o.already).map toString)
      let ws := showList (o.writers.map (fun p => s!"{p.1}.{p.2}"))
      pure (r.1, s!"a={al}|w={ws}")
    | .error .noSpace => pure (r.1, "NoSpace")
    | .error _ => pure (r.1, "StructError")
  | ["A", si, shs, size, rec, free, order, conn] => do
    let r := allocateConn s (← conn.toNat?) (← si.toNat?) (← parseNatList shs) (← size.toNat?) (← bytesOfHex rec)
                (← parseFree free) (← parseNatList order)
    match r.2 with
    | .ok o =>
      let al := showList ((sortBy (fun a b => decide (a < b)) o.already).map toString)
      let ws := showList (o.writers.map (fun p => s!"{p.1}.{p.2}"))
      pure (r.1, s!"a={al}|w={ws}")
    | .error .noSpace => pure (r.1, "NoSpace")
    | .error _ => pure (r.1, "StructError")
  | ["K", conn] => do pure (disconnectOp s (← conn.toNat?), "ok")
  | ["Z"] => some (restartOp s, "ok")
  | ["W", wid, off, d] => do
    let wid ← wid.toNat?
    let r := writeOp s wid (← off.toNat?) (← bytesOfHex d)
    let rs := match findWid wid r.1.incoming with
      | some e => showRanges e.2.1.written
      | none => "x"
    pure (r.1, s!"{showWrite r.2}/{rs}")
  | ["H", wid, off, d] => do
    let wid ← wid.toNat?
    let r := httpWriteOp s wid (← off.toNat?) (← bytesOfHex d)
    let rs := match findWid wid r.1.incoming with
      | some e => showRanges e.2.1.written
      | none => "x"
    let out := match r.2 with
      | .ok true => "created" | .ok false => "ok" | other => showWrite other
    pure (r.1, s!"{out}/{rs}")
  | ["C", wid] => do
    let r := closeOp s (← wid.toNat?)
    pure (r.1, if r.2 then "ok" else "closed")
  | ["X", wid] => do pure (abortOp s (← wid.toNat?), "ok")
  | ["T", dt] => do pure (advanceOp s (← dt.toNat?), "ok")
  | ["R", si, sh, off, len] => do
    match readOp s ((← si.toNat?), (← sh.toNat?)) (← off.toNat?) (← len.toNat?) with
    | some b => pure (s, hexOfBytes b)
    | none => pure (s, "absent")
  | ["L", si] => do
    let l := sortBy (fun a b => decide (a.1 < b.1)) (listOp s (← si.toNat?))
    pure (s, showList (l.map (fun p => s!"{p.1}.{p.2}")))
  | ["S"] => some (s, toString (allocatedSize s))
  | ["D"] => some (s, showFiles "F" s.final ++ ";" ++ showFiles "I" (s.incoming.map (fun e => (e.1, e.2.2))))
  | _ => none

def runOps (s : Server) (acc : List String) : List String → Option (List String)
  | [] => some acc.reverse
  | op :: rest => match stepOp s op with
    | some (s', out) => runOps s' (out :: acc) rest
    | none => none

/-! ### `immd`: the same histories on the server with its directory tree (ImmDirs) -/

def parseFOp (s : Server) (op : String) : Option (List FOp) :=
  match op.splitOn ":" with
  | ["H", wid, off, d] => do
    let wid ← wid.toNat?
    let off ← off.toNat?
    let d ← bytesOfHex d
    pure ([.direct (.write wid off d)] ++
      (match (writeOp s wid off d).2 with | .ok true => [.direct (.close wid)] | _ => []))
  | ["A", si, shs, size, rec, free, order] => do
    pure ([.direct (.alloc (← si.toNat?) (← parseNatList shs) (← size.toNat?) (← bytesOfHex rec)
      (← parseFree free) (← parseNatList order))])
  | ["A", si, shs, size, rec, free, order, conn] => do
    pure ([.allocConn (← conn.toNat?) (← si.toNat?) (← parseNatList shs) (← size.toNat?) (← bytesOfHex rec)
      (← parseFree free) (← parseNatList order)])
  | ["K", conn] => do pure [.disconnect (← conn.toNat?)]
  | ["Z"] => some [.restart]
  | ["W", wid, off, d] => do pure [.direct (.write (← wid.toNat?) (← off.toNat?) (← bytesOfHex d))]
  | ["C", wid] => do pure [.direct (.close (← wid.toNat?))]
  | ["X", wid] => do pure [.direct (.abort (← wid.toNat?))]
  | ["T", dt] => do pure [.direct (.advance (← dt.toNat?))]
  | ["R", _, _, _, _] => some []
  | ["L", _] => some []
  | ["S"] => some []
  | ["D"] => some []
  | _ => none

def showDir : Dir → String
  | .incPrefix p => s!"IP.{p}" | .incDir si => s!"ID.{si}" | .finPrefix p => s!"FP.{p}" | .finDir si => s!"FD.{si}"

def dirRank : Dir → Nat × Nat
  | .finDir si => (0, si) | .finPrefix p => (1, p) | .incDir si => (2, si) | .incPrefix p => (3, p)

def showDirs (dirs : List Dir) : String :=
  showList ((sortBy (fun a b => keyLt (dirRank a) (dirRank b)) dirs).map showDir)

def parsePre (t : String) : Option (Nat → Nat) := do
  let pairs ← (t.splitOn ",").mapM (fun p => match p.splitOn "=" with
    | [a, b] => do pure ((← a.toNat?), (← b.toNat?))
    | _ => none)
  pure (fun si => ((pairs.find? (fun p => p.1 == si)).map (·.2)).getD 0)

/-- every op prints `<result of the op as in imm>#<directories after it>`; a `!` marks a state
    whose incoming/final keys differ between `dfstep` and the plain server step (never expected) -/
def runDOps (pre : Nat → Nat) (d : DServer) (acc : List String) : List String → Option (List String)
  | [] => some acc.reverse
  | op :: rest =>
    match stepOp d.srv op, parseFOp d.srv op with
    | some (s', out), some fops =>
      let d' := dfrun pre d fops
      let same := (sortBy keyLt (d'.srv.incoming.map (·.1)) == sortBy keyLt (s'.incoming.map (·.1))) &&
                  (sortBy keyLt (d'.srv.final.map (·.1)) == sortBy keyLt (s'.final.map (·.1))) &&
                  allocatedSize d'.srv == allocatedSize s'
      runDOps pre d' (s!"{out}#{showDirs d'.dirs}{if same then "" else "!"}" :: acc) rest
    | _, _ => none

def handle : List String → String
  | "immd" :: ro :: reserved :: pre :: ops =>
    match (if ro == "0" then some false else if ro == "1" then some true else none), reserved.toNat?, parsePre pre with
    | some ro, some rs, some pre =>
      match runDOps pre (DServer.empty ro rs) [] ops with
      | some outs => if outs.isEmpty then "-" else " ".intercalate outs
      | none => "bad-op"
    | _, _, _ => "bad-op"
  | "imm" :: ro :: reserved :: ops =>
    match (if ro == "0" then some false else if ro == "1" then some true else none), reserved.toNat? with
    | some ro, some rs =>
      match runOps (Server.empty ro rs) [] ops with
      | some outs => if outs.isEmpty then "-" else " ".intercalate outs
      | none => "bad-op"
    | _, _ => "bad-op"
  | _ => "bad-op"

end Tahoe.Storage.ImmDrv
