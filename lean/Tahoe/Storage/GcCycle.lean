import Tahoe.Storage.Crawler
import Tahoe.Storage.Expire
/-!
# The lease crawler over whole schedules: `ShareCrawler` driving `LeaseCheckingCrawler.process_bucket`

Composition of the two models: the crawler machine (`Crawler.step`: slices, kills, restarts) decides
WHICH buckets are handed to `process_bucket` and when; every such call runs the expirer
(`Expire.processBucket`) on the share files that are in the bucket directory at that moment, with
the clock of that slice.  This is the glue `class LeaseCheckingCrawler(ShareCrawler)` provides by
overriding `process_bucket`.

* The world maps a bucket name to the share files present in its directory: share number, share
  type, leases.  A share file unlinked by `cancel_lease` disappears from the directory (the next
  `os.listdir(bucketdir)` does not list it); the bucket directory itself stays (the crawler never
  removes it), so the prefix listings `ls` are independent of the world.
* `process_bucket` iterates `os.listdir(bucketdir)`; a share whose `process_share` raises ends the
  call: the shares before it keep their new state, the ones after it are untouched
  (`processBucketW`).  That such an exception also aborts the slice is NOT modelled here (it needs
  shared cancel secrets - the open findings); the theorems assume `WellFormedLeases` everywhere.
* a killed slice still has run its first `k` `process_bucket` calls: their effects on the share files
  stay (`applyLog` over the log of the event).
* the clock (`time.time()` read by `process_share` / `get_age`) is one value per event.
-/
namespace Tahoe.Storage.GcCycle
open Tahoe.Storage.Crawler Tahoe.Storage.Expire

/-- the share files present in one bucket directory, in listdir order: number, type, leases -/
abbrev Bucket := List (Nat × ShareType × List Lease)
abbrev World := Nat → Bucket

/-- one `process_bucket` call on the files of a bucket directory -/
def processBucketW (cfg : Config) (now : Int) (bk : Bucket) : Bucket :=
  let r := processBucket cfg now (bk.map (fun s => (s.2.1, s.2.2)))
  ((bk.zip r.shares).filterMap (fun (s, res) =>
      if res.2.share.present then some (s.1, res.1, res.2.share.leases) else none))
    ++ bk.drop r.shares.length

/-- the calls of one event, applied to the share files in order -/
def applyLog (cfg : Config) (now : Int) (w : World) : List Entry → World
  | [] => w
  | e :: es => applyLog cfg now (fun b => if b = e.bucket then processBucketW cfg now (w b) else w b) es

/-- a crawler event together with the clock during it -/
structure GEvent where
  ev : Event
  now : Int

/-- a whole schedule of the lease crawler: crawler state, share files, log of calls -/
def gcRun (cfg : Config) (np : Nat) : St → World → List GEvent → St × World × List Entry
  | s, w, [] => (s, w, [])
  | s, w, g :: gs =>
    let r := step np s g.ev
    let w' := applyLog cfg g.now w r.2
    let r2 := gcRun cfg np r.1 w' gs
    (r2.1, r2.2.1, r.2 ++ r2.2.2)

end Tahoe.Storage.GcCycle
