import Tahoe.Storage.Crash
import Tahoe.Storage.ImmLemmas
/-! Helper lemmas for C29 (crash prefixes of the immutable storage operations). Mathlib-free. -/
namespace Tahoe.Storage.Crash
open Tahoe.Base.File Tahoe.Base.FsOp Tahoe.Storage.Imm

theorem renewOps_touch (p : Path) (lo : Nat) (rec : Bytes) (i : Nat) (ls : List Bytes) (ops : List IOp)
    (h : renewOps p lo rec i ls = some ops) : ∀ op ∈ ops, ∀ q ∈ touches op, q = p := by
  induction ls generalizing i with
  | nil => simp [renewOps] at h
  | cons l rest ih =>
    simp only [renewOps] at h
    split at h
    · split at h
      · simp only [Option.some.injEq] at h; subst h
        intro op ho q hq
        simp only [List.mem_singleton] at ho; subst ho
        simpa [touches] using hq
      · simp only [Option.some.injEq] at h; subst h; simp
    · exact ih (i + 1) h

theorem leaseOps_touch (p : Path) (f : File) (rec : Bytes) (avail : Nat) :
    ∀ op ∈ leaseOps p f rec avail, ∀ q ∈ touches op, q = p := by
  simp only [leaseOps]
  split
  · simp
  · split
    · rename_i ops hops; exact renewOps_touch p _ rec 0 _ ops hops
    · split
      · simp
      · split
        · intro op ho q hq
          simp only [List.mem_cons, List.mem_nil_iff, or_false] at ho
          rcases ho with rfl | rfl <;> simpa [touches] using hq
        · simp

/-- every primitive operation of a storage operation touches only that operation's targets -/
theorem fsops_touch (fs : IFs) (sop : SOp) : ∀ op ∈ fsops fs sop, ∀ q ∈ touches op, q ∈ targets sop := by
  cases sop with
  | create k size rec =>
    intro op ho q hq
    simp only [fsops, List.mem_cons, List.mem_nil_iff, or_false] at ho
    rcases ho with rfl | rfl | rfl | rfl | rfl <;> simp_all [touches, targets]
  | write k off data =>
    intro op ho q hq
    simp only [fsops, List.mem_singleton] at ho; subst ho; simp_all [touches, targets]
  | close k last =>
    intro op ho q hq
    cases last <;> simp only [fsops, List.mem_cons, List.mem_append, List.mem_nil_iff, or_false, if_true,
      Bool.false_eq_true, if_false] at ho
    · rcases ho with rfl | rfl | rfl <;> simp_all [touches, targets]
    · rcases ho with (rfl | rfl | rfl) | rfl <;> simp_all [touches, targets]
  | abort k last =>
    intro op ho q hq
    cases last <;> simp only [fsops, List.mem_cons, List.mem_append, List.mem_nil_iff, or_false, if_true,
      Bool.false_eq_true, if_false] at ho
    · subst ho; simp_all [touches, targets]
    · rcases ho with rfl | rfl <;> simp_all [touches, targets]
  | lease k rec avail =>
    intro op ho q hq
    simp only [fsops] at ho
    split at ho
    · rename_i f _
      have := leaseOps_touch (.fin k) f rec avail op ho q hq
      simp [targets, this]
    · simp at ho
  | mkFinDir si =>
    intro op ho q hq
    simp only [fsops, List.mem_singleton] at ho; subst ho; simp [touches] at hq

theorem tornOp_touch (j : Nat) (op : IOp) : ∀ o ∈ tornOp j op, ∀ q ∈ touches o, q ∈ touches op := by
  cases op <;> simp [tornOp, touches]

theorem close_torn_nil (fs : IFs) (k : Key) (last : Bool) (n j : Nat) :
    (((fsops fs (.close k last))[n]?).map (tornOp j)).getD [] = [] := by
  cases last <;> rcases n with _ | _ | _ | _ | n <;> simp [fsops, tornOp]

theorem run_pwrite_same (fs : IFs) (p : Path) (f : File) (h : fs p = some f) (o : Nat) (d : Bytes) :
    run fs [.pwrite p o d] p = some (pwrite f o d) := by
  simp [Tahoe.Base.FsOp.run, apply, h, upd]

theorem run_pwrite2_same (fs : IFs) (p : Path) (f : File) (h : fs p = some f) (o1 : Nat) (d1 : Bytes)
    (o2 : Nat) (d2 : Bytes) :
    run fs [.pwrite p o1 d1, .pwrite p o2 d2] p = some (pwrite (pwrite f o1 d1) o2 d2) := by
  simp [Tahoe.Base.FsOp.run, apply, h, upd]

/-- `renewOps` is `renewLoop` expressed as primitive writes -/
theorem renewOps_spec (p : Path) (lo : Nat) (f : File) (rec : Bytes) (i : Nat) (ls : List Bytes) :
    (renewOps p lo rec i ls = none ∧ renewLoop lo f rec i ls = none) ∨
    (renewOps p lo rec i ls = some [] ∧ renewLoop lo f rec i ls = some f) ∨
    (∃ o d, renewOps p lo rec i ls = some [.pwrite p o d] ∧ renewLoop lo f rec i ls = some (pwrite f o d)) := by
  induction ls generalizing i with
  | nil => left; simp [renewOps, renewLoop]
  | cons l rest ih =>
    simp only [renewOps, renewLoop]
    split
    · split
      · right; right; exact ⟨_, _, rfl, rfl⟩
      · right; left; exact ⟨rfl, rfl⟩
    · exact ih (i + 1)

theorem reopen_data (f : File) (h : WFFin f) : (reopen f).map (·.1) = some (shareData f) := by
  have hl := h.len
  simp only [reopen, openLeaseOffset_wf f h, Option.map_some, readShareData_eq, shareData, shareLength]
  congr 2; omega

/-- layout facts of a mutable container whose extra-lease area ends the file -/
structure MutWF (f : File) : Prop where
  ext : 468 + Mutable.dataLength f ≤ Mutable.extOff f
  full : Mutable.extOff f + 4 + Mutable.numExtra f * 92 = f.length
  cnt : Mutable.numExtra f + 1 < 2 ^ 32

theorem mut_after_count_write (f : File) (h : MutWF f) :
    let f1 := pwrite f (Mutable.extOff f) (packU32 (Mutable.numExtra f + 1))
    f1.length = f.length ∧ Mutable.extOff f1 = Mutable.extOff f ∧
    Mutable.numExtra f1 = Mutable.numExtra f + 1 ∧ Mutable.dataLength f1 = Mutable.dataLength f ∧
    mutData f1 = mutData f := by
  have hext := h.ext
  have hfull := h.full
  have hl : (pwrite f (Mutable.extOff f) (packU32 (Mutable.numExtra f + 1))).length = f.length :=
    length_pwrite_of_le _ _ _ (by simp; omega)
  have he : Mutable.extOff (pwrite f (Mutable.extOff f) (packU32 (Mutable.numExtra f + 1))) = Mutable.extOff f := by
    simp only [Mutable.extOff]
    rw [pread_pwrite_lt f _ _ 92 8 (by simp only [Mutable.extOff] at hext; omega) (by omega)]
  have hd : Mutable.dataLength (pwrite f (Mutable.extOff f) (packU32 (Mutable.numExtra f + 1))) = Mutable.dataLength f := by
    simp only [Mutable.dataLength]
    rw [pread_pwrite_lt f _ _ 84 8 (by omega) (by omega)]
  refine ⟨hl, he, ?_, hd, ?_⟩
  · show unpackBE (pread _ (Mutable.extOff (pwrite f (Mutable.extOff f) (packU32 (Mutable.numExtra f + 1)))) 4) = _
    rw [he]
    have := pread_pwrite_eq f (Mutable.extOff f) (packU32 (Mutable.numExtra f + 1))
    rw [length_packU32] at this
    rw [this]
    exact unpackBE_packU32 _ h.cnt
  · simp only [mutData, hd]
    exact pread_pwrite_lt f _ _ 468 _ hext (by omega)

theorem mut_after_record_write (f : File) (h : MutWF f) (rec : Bytes) (hr : rec.length = 92) :
    let f1 := pwrite f (Mutable.extOff f) (packU32 (Mutable.numExtra f + 1))
    let f2 := pwrite f1 (Mutable.extOff f + 4 + Mutable.numExtra f * 92) rec
    mutLeasesReadable f2 = true ∧ mutData f2 = mutData f := by
  intro f1 f2
  obtain ⟨hl, he, hn, hd, hdat⟩ := mut_after_count_write f h
  have hext := h.ext
  have hfull := h.full
  have hl1 : f1.length = f.length := hl
  have hl2 : f2.length = f.length + 92 := by
    show (pwrite f1 _ rec).length = _
    rw [length_pwrite]; simp [hr]; omega
  have he2 : Mutable.extOff f2 = Mutable.extOff f := by
    show unpackBE (pread (pwrite f1 _ rec) 92 8) = _
    rw [pread_pwrite_lt f1 _ _ 92 8 (by omega) (by omega)]; exact he
  have hn2 : Mutable.numExtra f2 = Mutable.numExtra f + 1 := by
    show unpackBE (pread (pwrite f1 _ rec) (Mutable.extOff f2) 4) = _
    rw [he2, pread_pwrite_lt f1 _ _ (Mutable.extOff f) 4 (by omega) (by omega)]
    have : Mutable.numExtra f1 = Mutable.numExtra f + 1 := hn
    simp only [Mutable.numExtra] at this
    have he1 : Mutable.extOff f1 = Mutable.extOff f := he
    rw [he1] at this; exact this
  have hd2 : Mutable.dataLength f2 = Mutable.dataLength f := by
    show unpackBE (pread (pwrite f1 _ rec) 84 8) = _
    rw [pread_pwrite_lt f1 _ _ 84 8 (by omega) (by omega)]; exact hd
  refine ⟨?_, ?_⟩
  · simp only [mutLeasesReadable, he2, hn2, hl2, decide_eq_true_eq]; omega
  · simp only [mutData, hd2]
    have hd1 : Mutable.dataLength f1 = Mutable.dataLength f := hd
    rw [show pread f2 468 (Mutable.dataLength f) = pread f1 468 (Mutable.dataLength f) from
      pread_pwrite_lt f1 _ _ 468 _ (by omega) (by omega)]
    have := hdat; simp only [mutData] at this; rw [hd] at this; exact this

end Tahoe.Storage.Crash
