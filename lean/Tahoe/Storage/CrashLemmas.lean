import Tahoe.Storage.Crash
import Tahoe.Storage.ImmLemmas
/-! Helper lemmas for C29 (crash prefixes of the immutable storage operations). Mathlib-free. -/
namespace Tahoe.Storage.Crash
open Tahoe.Base.File Tahoe.Base.FsOp Tahoe.Storage.Imm

theorem renewOps_touch (p : Path) (lo : Nat) (rec : Bytes) (i : Nat) (ls : List Bytes) (ops : List IOp)
    (h : renewOps p lo rec i ls = some ops) : ∀ op ∈ ops, ∀ q ∈ touches op, q = p := by
  induction ls generalizing i with
  | nil => simp [renewOps] at h
  | cons l rest ih =>
    simp only [renewOps] at h
    split at h
    · split at h
      · simp only [Option.some.injEq] at h; subst h
        intro op ho q hq
        simp only [List.mem_singleton] at ho; subst ho
        simpa [touches] using hq
      · simp only [Option.some.injEq] at h; subst h; simp
    · exact ih (i + 1) h

theorem leaseOps_touch (p : Path) (f : File) (rec : Bytes) (avail : Nat) :
    ∀ op ∈ leaseOps p f rec avail, ∀ q ∈ touches op, q = p := by
  simp only [leaseOps]
  split
  · simp
  · split
    · rename_i ops hops; exact renewOps_touch p _ rec 0 _ ops hops
    · split
      · simp
      · split
        · intro op ho q hq
          simp only [List.mem_cons, List.mem_nil_iff, or_false] at ho
          rcases ho with rfl | rfl <;> simpa [touches] using hq
        · simp

/-- every primitive operation of a storage operation touches only that operation's targets -/
theorem fsops_touch (fs : IFs) (sop : SOp) : ∀ op ∈ fsops fs sop, ∀ q ∈ touches op, q ∈ targets sop := by
  cases sop with
  | create k size rec =>
    intro op ho q hq
    simp only [fsops, List.mem_cons, List.mem_nil_iff, or_false] at ho
    rcases ho with rfl | rfl | rfl | rfl | rfl <;> simp_all [touches, targets]
  | write k off data =>
    intro op ho q hq
    simp only [fsops, List.mem_singleton] at ho; subst ho; simp_all [touches, targets]
  | close k last =>
    intro op ho q hq
    cases last <;> simp only [fsops, List.mem_cons, List.mem_append, List.mem_nil_iff, or_false, if_true,
      Bool.false_eq_true, if_false] at ho
    · rcases ho with rfl | rfl | rfl <;> simp_all [touches, targets]
    · rcases ho with (rfl | rfl | rfl) | rfl <;> simp_all [touches, targets]
  | abort k last =>
    intro op ho q hq
    cases last <;> simp only [fsops, List.mem_cons, List.mem_append, List.mem_nil_iff, or_false, if_true,
      Bool.false_eq_true, if_false] at ho
    · subst ho; simp_all [touches, targets]
    · rcases ho with rfl | rfl <;> simp_all [touches, targets]
  | lease k rec avail =>
    intro op ho q hq
    simp only [fsops] at ho
    split at ho
    · rename_i f _
      have := leaseOps_touch (.fin k) f rec avail op ho q hq
      simp [targets, this]
    · simp at ho
  | mkFinDir si =>
    intro op ho q hq
    simp only [fsops, List.mem_singleton] at ho; subst ho; simp [touches] at hq

theorem run_pwrite_same (fs : IFs) (p : Path) (f : File) (h : fs p = some f) (o : Nat) (d : Bytes) :
    run fs [.pwrite p o d] p = some (pwrite f o d) := by
  simp [Tahoe.Base.FsOp.run, apply, h, upd]

theorem run_pwrite2_same (fs : IFs) (p : Path) (f : File) (h : fs p = some f) (o1 : Nat) (d1 : Bytes)
    (o2 : Nat) (d2 : Bytes) :
    run fs [.pwrite p o1 d1, .pwrite p o2 d2] p = some (pwrite (pwrite f o1 d1) o2 d2) := by
  simp [Tahoe.Base.FsOp.run, apply, h, upd]

/-- `renewOps` is `renewLoop` expressed as primitive writes -/
theorem renewOps_spec (p : Path) (lo : Nat) (f : File) (rec : Bytes) (i : Nat) (ls : List Bytes) :
    (renewOps p lo rec i ls = none ∧ renewLoop lo f rec i ls = none) ∨
    (renewOps p lo rec i ls = some [] ∧ renewLoop lo f rec i ls = some f) ∨
    (∃ o d, renewOps p lo rec i ls = some [.pwrite p o d] ∧ renewLoop lo f rec i ls = some (pwrite f o d)) := by
  induction ls generalizing i with
  | nil => left; simp [renewOps, renewLoop]
  | cons l rest ih =>
    simp only [renewOps, renewLoop]
    split
    · split
      · right; right; exact ⟨_, _, rfl, rfl⟩
      · right; left; exact ⟨rfl, rfl⟩
    · exact ih (i + 1)

theorem reopen_data (f : File) (h : WFFin f) : (reopen f).map (·.1) = some (shareData f) := by
  have hl := h.len
  simp only [reopen, openLeaseOffset_wf f h, Option.map_some, readShareData_eq, shareData, shareLength]
  congr 2; omega

end Tahoe.Storage.Crash
