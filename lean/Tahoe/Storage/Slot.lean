import Tahoe.Storage.Mutable
/-!
Server-level model of one storage index ("slot" / bucket directory) — storage/server.py
`StorageServer.slot_testv_and_readv_and_writev` with its helpers
`_collect_mutable_shares_for_storage_index`, `_evaluate_test_vectors`, `_evaluate_read_vectors`,
`_evaluate_write_vectors`, `_make_lease_info`, `_add_or_renew_leases`, `_allocate_slot_share`;
`slot_readv`; `add_lease`; `renew_lease`; `get_slot_leases` / `get_leases`.

A bucket is an association list `share number ↦ container file bytes`; a Python `dict` request is an
association list in insertion order (keys are distinct — `Nodup` hypotheses in the theorems).

`precheck := true` models the REPAIRED server (fixes/C24-precheck.diff: every write vector that is
going to be applied is size-checked before the first write); `precheck := false` is the code as it
stands in the unchanged tree, kept for the negation witness `all_or_nothing_counterexample`.
-/
namespace Tahoe.Storage.Slot
open Tahoe.Base.File Tahoe.Storage Tahoe.Storage.Mutable

abbrev Bucket := List (Nat × File)

/-- one entry of `TestAndWriteVectorsForShares`: (testv, datav, new_length) -/
structure TW where
  testv : List (Nat × Nat × Bytes)
  datav : List (Nat × Bytes)
  newLength : Option Nat
  deriving Repr

/-- server-side context of a request -/
structure Env where
  h : Bytes → Bytes          -- blake2b (abstract)
  nodeid : Bytes             -- `self.my_nodeid`
  now : Nat                  -- `self._clock.seconds()`
  avail : Nat                -- `self.get_available_space()`
  precheck : Bool            -- repaired server?

def renewalTime : Nat := Tahoe.Generated.Storage.DEFAULT_RENEWAL_TIME

def lookup (b : Bucket) (n : Nat) : Option File := (b.find? (·.1 == n)).map (·.2)

def erase (b : Bucket) (n : Nat) : Bucket := b.filter (·.1 != n)

/-- replace the file of share `n`, or append a new entry -/
def store (b : Bucket) (n : Nat) (f : File) : Bucket :=
  if (lookup b n).isSome then b.map (fun p => if p.1 == n then (n, f) else p) else b ++ [(n, f)]

/-- `_collect_mutable_shares_for_storage_index`: every existing share must carry the request's write
    enabler (`MutableShareFile(...)` raises for an unknown magic, `check_write_enabler` for a mismatch) -/
def collect (b : Bucket) (we : Bytes) : Option Err :=
  match b.find? (fun p => (schemaOf p.2).isNone) with
  | some _ => some .unknownVersion
  | none =>
    if b.all (fun p => enabler p.2 == we) then none else some .badWriteEnabler

/-- `_evaluate_test_vectors` (a missing share is compared as an `EmptyShare`) -/
def evalTests (b : Bucket) (tw : List (Nat × TW)) : Bool :=
  tw.all fun (n, t) =>
    match lookup b n with
    | some f => checkTestv f t.testv
    | none => checkTestvEmpty t.testv

/-- `_evaluate_read_vectors`: every existing share is read -/
def evalReads (b : Bucket) (rv : List (Nat × Nat)) : List (Nat × List Bytes) :=
  b.map fun (n, f) => (n, readv f rv)

/-- the proposed pre-check: every write vector that is going to be applied (`new_length != 0`)
    must end at or below `MAX_SIZE` -/
def sizesOk (tw : List (Nat × TW)) : Bool :=
  tw.all fun (_, t) => t.newLength == some 0 || t.datav.all fun (o, d) => o + d.length ≤ MAX_SIZE

/-- the container a write vector is applied to: the existing share, or a new one allocated by
    `_allocate_slot_share` (NEWEST schema = v2, the server's nodeid, the request's write enabler) -/
def targetFile (nodeid we : Bytes) (b : Bucket) (n : Nat) : File :=
  match lookup b n with
  | some f => f
  | none => create .v2 nodeid we

/-- `_evaluate_write_vectors`: returns the bucket, the share numbers that remain (in request order)
    and the error that interrupted the loop, if any.  New shares are created with the NEWEST schema
    (v2), the server's nodeid and the request's write enabler. -/
def evalWrites (nodeid we : Bytes) : Bucket → List (Nat × TW) → List Nat → Bucket × List Nat × Option Err
  | b, [], rem => (b, rem.reverse, none)
  | b, (n, t) :: rest, rem =>
    if t.newLength == some 0 then
      evalWrites nodeid we (erase b n) rest rem
    else
      match writev (targetFile nodeid we b n) t.datav t.newLength with
      | (f', none) => evalWrites nodeid we (store b n f') rest (n :: rem)
      | (f', some e) => (store b n f', rem.reverse, some e)

/-- `_make_lease_info` -/
def makeLease (env : Env) (renew cancel : Bytes) : Lease :=
  { owner := 1, expire := env.now + renewalTime, renew := renew, cancel := cancel, nodeid := env.nodeid }

/-- `_add_or_renew_leases` over mutable shares `ns` (stops at the first error) -/
def renewShares (env : Env) (li : Lease) : Bucket → List Nat → Bucket × Option Err
  | b, [] => (b, none)
  | b, n :: rest =>
    match lookup b n with
    | none => renewShares env li b rest
    | some f =>
      match addOrRenew env.h f env.avail li with
      | (f', none) => renewShares env li (store b n f') rest
      | (f', some e) => (store b n f', some e)

structure RTWResult where
  bucket : Bucket
  /-- `Except.error` = the exception raised; `ok (testv_is_good, read_data)` -/
  out : Except Err (Bool × List (Nat × List Bytes))

/-- the exception raised by the request, if any -/
def RTWResult.err (r : RTWResult) : Option Err :=
  match r.out with
  | .error e => some e
  | .ok _ => none

/-- `slot_testv_and_readv_and_writev(storage_index, secrets, tw_vectors, r_vector, renew_leases)` -/
def rtw (env : Env) (b : Bucket) (we renew cancel : Bytes) (tw : List (Nat × TW))
    (rv : List (Nat × Nat)) (renewLeases : Bool) : RTWResult :=
  match collect b we with
  | some e => ⟨b, .error e⟩
  | none =>
    let good := evalTests b tw
    let reads := evalReads b rv
    if !good then ⟨b, .ok (false, reads)⟩ else
    if env.precheck && !sizesOk tw then ⟨b, .error .dataTooLarge⟩ else
    match evalWrites env.nodeid we b tw [] with
    | (b1, _, some e) => ⟨b1, .error e⟩
    | (b1, rem, none) =>
      if !renewLeases then ⟨b1, .ok (true, reads)⟩ else
      match renewShares env (makeLease env renew cancel) b1 rem with
      | (b2, some e) => ⟨b2, .error e⟩
      | (b2, none) => ⟨b2, .ok (true, reads)⟩

/-- one read-test-write request with all its parameters -/
structure Req where
  env : Env
  we : Bytes
  renew : Bytes
  cancel : Bytes
  tw : List (Nat × TW)
  rv : List (Nat × Nat)
  renewLeases : Bool

def Req.run (b : Bucket) (q : Req) : RTWResult := rtw q.env b q.we q.renew q.cancel q.tw q.rv q.renewLeases

/-- the bucket after a history of requests -/
def runAll (b : Bucket) (qs : List Req) : Bucket := qs.foldl (fun b q => (q.run b).bucket) b

/-- `slot_readv(storage_index, shares, readv)`: an empty `shares` list selects every share -/
def slotReadv (b : Bucket) (shares : List Nat) (rv : List (Nat × Nat)) : List (Nat × List Bytes) :=
  (b.filter fun p => shares.isEmpty || shares.contains p.1).map fun (n, f) => (n, readv f rv)

/-! ### server-level lease calls on a bucket that may mix mutable and immutable containers -/

inductive Kind where
  | mutable | immutable | other
  deriving DecidableEq

/-- the container type test of `_iter_share_files` (mutable magic first, then immutable version) -/
def kindOf (f : File) : Kind :=
  if (Mutable.schemaOf f).isSome then .mutable
  else if (ImmL.schemaOf f).isSome then .immutable
  else .other

/-- `get_leases()` of a share file of either kind (`get_slot_leases` / `get_leases` at the server) -/
def leasesOf (f : File) : List Lease :=
  match kindOf f with
  | .mutable => Mutable.getLeases f
  | .immutable => ImmL.getLeases f
  | .other => []

def shareAddOrRenew (env : Env) (f : File) (li : Lease) : File × Option Err :=
  match kindOf f with
  | .mutable => Mutable.addOrRenew env.h f env.avail li
  | .immutable => ImmL.addOrRenew env.h f env.avail li
  | .other => (f, none)

def shareRenew (env : Env) (f : File) (secret : Bytes) (newExpire : Nat) : File × Option Err :=
  match kindOf f with
  | .mutable => Mutable.renewLease env.h f secret newExpire
  | .immutable => ImmL.renewLease env.h f secret newExpire
  | .other => (f, none)

/-- `sf.cancel_lease(cancel_secret)` on share `n` of the bucket, as `LeaseCheckingCrawler` calls it on each
    share file; the share disappears from the bucket when its last lease is cancelled.
    `none` = there is no such share file. -/
def shareCancel (env : Env) (b : Bucket) (n : Nat) (secret : Bytes) : Option (Bucket × Nat × Option Err) :=
  match lookup b n with
  | none => none
  | some f =>
    let r := match kindOf f with
      | .mutable => Mutable.cancelLease env.h f secret
      | .immutable => ImmL.cancelLease env.h f secret
      | .other => (some f, 0, some .unknownVersion)
    match r with
    | (none, freed, e) => some (erase b n, freed, e)
    | (some f', freed, e) => some (store b n f', freed, e)

/-- `StorageServer.add_lease`: `add_or_renew_lease` on every share file, in directory order
    (the order of the association list); stops at the first error -/
def addLeaseAll (env : Env) (li : Lease) : Bucket → Bucket × Option Err
  | [] => ([], none)
  | (n, f) :: rest =>
    match shareAddOrRenew env f li with
    | (f', none) => let (r, e) := addLeaseAll env li rest; ((n, f') :: r, e)
    | (f', some e) => ((n, f') :: rest, some e)

def serverAddLease (env : Env) (b : Bucket) (renew cancel : Bytes) : Bucket × Option Err :=
  addLeaseAll env (makeLease env renew cancel) b

def renewAll (env : Env) (secret : Bytes) (newExpire : Nat) : Bucket → Bucket × Option Err
  | [] => ([], none)
  | (n, f) :: rest =>
    match shareRenew env f secret newExpire with
    | (f', none) => let (r, e) := renewAll env secret newExpire rest; ((n, f') :: r, e)
    | (f', some e) => ((n, f') :: rest, some e)

/-- an immutable upload in progress: (share number, allocated size = the writer's `_max_size`, incoming file) -/
abbrev Incoming := List (Nat × Nat × File)

/-- `StorageServer.allocate_buckets(storage_index, renew, cancel, {n}, allocated_size)` on a bucket of immutable
    shares: the lease is added to / renewed on every share already held (`owner_num = 0`), then — unless share `n`
    exists or is being uploaded, or space is short — a `BucketWriter` is created: a new incoming container
    holding the lease.  Returns (bucket, incoming, writer created?, error). -/
def allocate (env : Env) (b : Bucket) (inc : Incoming) (n size : Nat) (renew cancel : Bytes) :
    Bucket × Incoming × Bool × Option Err :=
  let li : Lease := { owner := 0, expire := env.now + renewalTime, renew := renew, cancel := cancel, nodeid := env.nodeid }
  match addLeaseAll env li b with
  | (b', some e) => (b', inc, false, some e)
  | (b', none) =>
    let remaining := env.avail - (inc.map (·.2.1)).sum
    if (lookup b' n).isSome || (inc.find? (·.1 == n)).isSome then (b', inc, false, none)
    else if remaining ≥ size then (b', inc ++ [(n, size, ImmL.createWithLease env.h size li)], true, none)
    else (b', inc, false, none)

/-- `BucketWriter.write(offset, data)` for non-overlapping writes (the conflict check against earlier writes is
    C22's subject): `ShareFile.write_share_data` on the incoming file -/
def bucketWrite (inc : Incoming) (n off : Nat) (d : Bytes) : Option (Incoming × Option Err) :=
  match inc.find? (·.1 == n) with
  | none => none
  | some (_, size, f) =>
    match ImmL.writeShareData f (some size) off d with
    | .error e => some (inc, some e)
    | .ok f' => some (inc.map (fun p => if p.1 == n then (n, size, f') else p), none)

/-- `BucketWriter.close()`: the incoming file is renamed to its final place in the bucket -/
def bucketClose (b : Bucket) (inc : Incoming) (n : Nat) : Option (Bucket × Incoming) :=
  match inc.find? (·.1 == n) with
  | none => none
  | some (_, _, f) => some (store b n f, inc.filter (·.1 != n))

/-- `StorageServer.renew_lease`: `IndexError` when the bucket holds no share file at all -/
def serverRenewLease (env : Env) (b : Bucket) (secret : Bytes) : Bucket × Option Err :=
  if (b.filter fun p => kindOf p.2 != .other).isEmpty then (b, some .indexError)
  else renewAll env secret (env.now + renewalTime) b

end Tahoe.Storage.Slot
