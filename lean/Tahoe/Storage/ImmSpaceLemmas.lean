import Tahoe.Storage.ImmServerLemmas
/-! Space-accounting lemmas (C28) for the allocation loop of the immutable-storage model. -/
namespace Tahoe.Storage.Imm
open Tahoe.Base.File

/-- the loop adds exactly `size` per accepted share, and accepts only what `remaining` allows -/
theorem allocLoop_space (si size : Nat) (rec : Bytes) (shs : List Nat) (s : Server) (rem : Int) :
    let r := allocLoop si size rec s rem shs
    allocatedSize r.1 = allocatedSize s + r.2.length * size ∧
    (r.2 ≠ [] → ((r.2.length * size : Nat) : Int) ≤ rem) := by
  induction shs generalizing s rem with
  | nil => simp [allocLoop]
  | cons sh rest ih =>
    simp only [allocLoop]
    split
    · exact ih s rem
    · split
      · exact ih s rem
      · split
        · exact ih s rem
        · split
          · rename_i hge
            have e := ih { s with nextId := s.nextId + 1, incoming := ((si, sh), (mkWriter s size, newContainer size rec)) :: s.incoming } (rem - size)
            simp only at e ⊢
            obtain ⟨e1, e2⟩ := e
            refine ⟨?_, fun _ => ?_⟩
            · rw [e1]
              simp only [allocatedSize, List.map_cons, List.sum_cons, mkWriter, List.length_cons]
              rw [Nat.add_mul]; omega
            · simp only [List.length_cons]
              by_cases hn : (allocLoop si size rec { s with nextId := s.nextId + 1, incoming := ((si, sh), (mkWriter s size, newContainer size rec)) :: s.incoming } (rem - size) rest).2 = []
              · simp [hn]; omega
              · have := e2 hn
                rw [Nat.add_mul]; push_cast at this ⊢; omega
          · exact ih s rem

/-- the unrepaired loop obeys the same space bound -/
theorem allocLoopUnfixed_space (si size : Nat) (rec : Bytes) (shs : List Nat) (s : Server) (rem : Int) :
    let r := allocLoopUnfixed si size rec s rem shs
    allocatedSize r.1 = allocatedSize s + r.2.length * size ∧
    (r.2 ≠ [] → ((r.2.length * size : Nat) : Int) ≤ rem) := by
  induction shs generalizing s rem with
  | nil => simp [allocLoopUnfixed]
  | cons sh rest ih =>
    simp only [allocLoopUnfixed]
    split
    · exact ih s rem
    · split
      · exact ih s rem
      · split
        · rename_i hge
          have e := ih { s with nextId := s.nextId + 1, incoming := ((si, sh), (mkWriter s size, newContainer size rec)) :: s.incoming } (rem - size)
          simp only at e ⊢
          obtain ⟨e1, e2⟩ := e
          refine ⟨?_, fun _ => ?_⟩
          · rw [e1]
            simp only [allocatedSize, List.map_cons, List.sum_cons, mkWriter, List.length_cons]
            rw [Nat.add_mul]; omega
          · simp only [List.length_cons]
            by_cases hn : (allocLoopUnfixed si size rec { s with nextId := s.nextId + 1, incoming := ((si, sh), (mkWriter s size, newContainer size rec)) :: s.incoming } (rem - size) rest).2 = []
            · simp [hn]; omega
            · have := e2 hn
              rw [Nat.add_mul]; push_cast at this ⊢; omega
        · exact ih s rem

theorem allocLoop_readonly (si size : Nat) (rec : Bytes) (shs : List Nat) (s : Server) (rem : Int)
    (hro : s.readonly = true) : allocLoop si size rec s rem shs = (s, []) := by
  induction shs generalizing rem with
  | nil => simp [allocLoop]
  | cons sh rest ih => simp only [allocLoop, hro, if_true, ih]; split <;> (try split) <;> rfl

end Tahoe.Storage.Imm
