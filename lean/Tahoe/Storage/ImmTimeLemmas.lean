import Tahoe.Storage.ImmRangeLemmas
/-! The 30-minute upload timeout: every upload in progress has a deadline in `(now, now + 1800]`, a
    write attempt through a live handle moves it to exactly `now + 1800`, and the clock removes an
    upload exactly when its deadline is reached.  Mathlib-free. -/
namespace Tahoe.Storage.Imm
open Tahoe.Base.File

/-- every upload in progress times out in the future, at most 30 minutes from now -/
def WFT (s : Server) : Prop := ∀ e ∈ s.incoming, s.now < e.2.1.deadline ∧ e.2.1.deadline ≤ s.now + 30 * 60

theorem bwWrite_deadline (w : Writer) (f : File) (off : Nat) (data : Bytes) :
    (bwWrite w f off data).1.deadline = w.deadline := by
  simp only [bwWrite]
  split
  · rfl
  · split
    · rfl
    · split <;> rfl

theorem allocLoop_deadline (si size : Nat) (rec : Bytes) (shs : List Nat) (s : Server) (rem : Int) :
    (allocLoop si size rec s rem shs).1.now = s.now ∧
    ∀ e ∈ (allocLoop si size rec s rem shs).1.incoming, e ∈ s.incoming ∨ e.2.1.deadline = s.now + 30 * 60 := by
  induction shs generalizing s rem with
  | nil => exact ⟨rfl, fun e he => Or.inl he⟩
  | cons sh rest ih =>
    simp only [allocLoop]
    split
    · exact ih s rem
    · split
      · exact ih s rem
      · split
        · exact ih s rem
        · split
          · have e := ih { s with nextId := s.nextId + 1, incoming := ((si, sh), (mkWriter s size, newContainer size rec)) :: s.incoming } (rem - size)
            refine ⟨e.1, fun x hx => ?_⟩
            rcases e.2 x hx with h1 | h1
            · simp only [List.mem_cons] at h1
              rcases h1 with rfl | h1
              · right; rfl
              · left; exact h1
            · right; exact h1
          · exact ih s rem

theorem wft_allocate (s : Server) (h : WFT s) (si : Nat) (shs : List Nat) (size : Nat) (rec : Bytes)
    (free : Nat) (order : List Nat) :
    WFT (allocate s si shs size rec free order).1 ∧ (allocate s si shs size rec free order).1.now = s.now := by
  simp only [allocate, allocateWith]
  generalize leaseLoop (availableSpace s free) rec si s.final order = ll
  obtain ⟨fin', err⟩ := ll
  cases err with
  | some x => exact ⟨h, rfl⟩
  | none =>
    simp only
    have e := allocLoop_deadline si size rec shs { s with final := fin' }
      ((availableSpace s free : Int) - (allocatedSize s : Int))
    refine ⟨fun x hx => ?_, e.1⟩
    rw [e.1]
    rcases e.2 x hx with h1 | h1
    · exact h x h1
    · rw [h1]; exact ⟨by show s.now < s.now + 30 * 60; omega, Nat.le_refl _⟩

theorem wft_of_sublist {s s' : Server} (h : WFT s) (hi : s'.incoming.Sublist s.incoming) (hn : s'.now = s.now) :
    WFT s' := fun e he => by rw [hn]; exact h e (hi.subset he)

theorem abortOp_sub (s : Server) (wid : Nat) :
    (abortOp s wid).incoming.Sublist s.incoming ∧ (abortOp s wid).now = s.now := by
  simp only [abortOp]
  cases findWid wid s.incoming with
  | none => exact ⟨List.Sublist.refl _, rfl⟩
  | some e => obtain ⟨k, v⟩ := e; exact ⟨List.filter_sublist, rfl⟩

theorem foldl_abort_sub (wids : List Nat) (s : Server) :
    (wids.foldl abortOp s).incoming.Sublist s.incoming ∧ (wids.foldl abortOp s).now = s.now := by
  induction wids generalizing s with
  | nil => exact ⟨List.Sublist.refl _, rfl⟩
  | cons w rest ih =>
    simp only [List.foldl_cons]
    have a := abortOp_sub s w
    have r := ih (abortOp s w)
    exact ⟨r.1.trans a.1, r.2.trans a.2⟩

theorem wft_fstep (s : Server) (h : WFT s) (op : FOp) : WFT (fstep s op) := by
  cases op with
  | allocConn c si shs size rec free order =>
    have e := wft_allocate s h si shs size rec free order
    have f := allocateConn_fields s c si shs size rec free order
    intro x hx
    simp only [fstep] at hx ⊢
    rw [f.2] at hx
    have hn : (allocateConn s c si shs size rec free order).1.now = (allocate s si shs size rec free order).1.now := by
      simp only [allocateConn]
      cases (allocate s si shs size rec free order).2 <;> rfl
    rw [hn]; exact e.1 x hx
  | disconnect c =>
    have e := foldl_abort_sub (widsOfConn s c) s
    exact wft_of_sublist h e.1 e.2
  | restart => intro e he; simp [fstep, restartOp] at he
  | direct o =>
    cases o with
    | alloc si shs size rec free order => exact (wft_allocate s h si shs size rec free order).1
    | write wid off data =>
      simp only [fstep, step, writeOp]
      cases hf : findWid wid s.incoming with
      | none => exact h
      | some x =>
        obtain ⟨k, w, f⟩ := x
        intro e he
        simp only [setK, List.mem_cons] at he
        rcases he with rfl | he
        · simp only [bwWrite_deadline]
          exact ⟨by show s.now < s.now + 30 * 60; omega, Nat.le_refl _⟩
        · exact h e (List.mem_filter.mp he).1
    | close wid =>
      simp only [fstep, step, closeOp]
      cases hf : findWid wid s.incoming with
      | none => exact h
      | some x => obtain ⟨k, w, f⟩ := x; exact wft_of_sublist h List.filter_sublist rfl
    | abort wid => have e := abortOp_sub s wid; exact wft_of_sublist h e.1 e.2
    | advance dt =>
      intro e he
      simp only [fstep, step, advanceOp, List.mem_filter, decide_eq_true_eq] at he ⊢
      have := h e he.1
      exact ⟨he.2, by omega⟩
    | read k off len => exact h
    | list si => exact h

theorem wft_frun (s : Server) (h : WFT s) (ops : List FOp) : WFT (frun s ops) := by
  induction ops generalizing s with
  | nil => exact h
  | cons op rest ih => simp only [frun, List.foldl_cons]; exact ih _ (wft_fstep s h op)

/-- looking a handle up after a filter, when handles are distinct -/
theorem findWid_filter (p : Key × (Writer × File) → Bool) (wid : Nat) (l : Inc)
    (hn : (l.map (fun e => e.2.1.wid)).Nodup) :
    findWid wid (l.filter p) = match findWid wid l with
      | some e => if p e then some e else none
      | none => none := by
  induction l with
  | nil => simp [findWid]
  | cons x rest ih =>
    simp only [List.map_cons, List.nodup_cons, List.mem_map, not_exists, not_and] at hn
    by_cases hx : x.2.1.wid = wid
    · simp only [findWid, hx, ↓reduceIte, List.filter_cons]
      by_cases hp : p x = true
      · simp [hp, findWid, hx]
      · simp only [hp, Bool.false_eq_true, ↓reduceIte]
        apply findWid_eq_none
        intro y hy hyw
        exact hn.1 y (List.mem_filter.mp hy).1 (hyw.trans hx.symm)
    · simp only [findWid, hx, ↓reduceIte, List.filter_cons]
      by_cases hp : p x = true
      · simp only [hp, ↓reduceIte, findWid, hx]; exact ih hn.2
      · simp only [hp, Bool.false_eq_true, ↓reduceIte]; exact ih hn.2

end Tahoe.Storage.Imm
