import Tahoe.Storage.Immutable
/-!
Tahoe.Storage.ImmDirs — the directory structure under `shares/` next to the C22 server model:
`shares/<prefix>/<si>/` (final bucket directory), `shares/incoming/<prefix>/<si>/` (incoming bucket
directory) and the two prefix directories.  Mirrors the directory handling of
`BucketWriter.__init__` / `allocate_buckets` (`make_dirs`), `BucketWriter.close`
(`make_dirs(final)`, rename, `try: rmdir(incoming si dir); rmdir(incoming prefix) except
EnvironmentError: pass`) and `BucketWriter.abort` (`os.remove`, `if not os.listdir(parent):
os.rmdir(parent)`, THEN `closed = True; ss.bucket_writer_closed(self, 0)`).  Mathlib-free.

`pre si` is the prefix directory of storage index `si` (first two base32 characters; several storage
indexes may share one).  `os.rmdir` is modelled with its failure cases (`none` = EnvironmentError:
missing or non-empty directory) so that the exception flow of `abort` (an exception before
`bucket_writer_closed` would leave the reservation in place) and of `close` (exceptions swallowed)
is explicit.
-/
namespace Tahoe.Storage.Imm

inductive Dir where
  | incPrefix (p : Nat)
  | incDir (si : Nat)
  | finPrefix (p : Nat)
  | finDir (si : Nat)
deriving DecidableEq, Repr

structure DServer where
  srv : Server
  dirs : List Dir          -- existing directories below shares/ (shares/ and shares/incoming/ always exist)

def DServer.empty (ro : Bool) (rs : Nat) : DServer := { srv := Server.empty ro rs, dirs := [] }

def addDir (dirs : List Dir) (d : Dir) : List Dir := if dirs.contains d then dirs else d :: dirs

/-- `os.listdir(incoming/<prefix>/<si>)` is empty -/
def incDirEmpty (inc : List (Key × (Writer × File))) (si : Nat) : Bool := !(inc.any (fun e => e.1.1 == si))

/-- `os.listdir(incoming/<prefix>)` is empty -/
def incPrefixEmpty (pre : Nat → Nat) (dirs : List Dir) (p : Nat) : Bool :=
  !(dirs.any (fun d => match d with | .incDir si => pre si == p | _ => false))

/-- `os.rmdir(incoming/<prefix>/<si>)`; `none` = EnvironmentError -/
def rmIncDir (inc : List (Key × (Writer × File))) (dirs : List Dir) (si : Nat) : Option (List Dir) :=
  if dirs.contains (.incDir si) && incDirEmpty inc si then some (dirs.filter (fun d => d != .incDir si)) else none

/-- `os.rmdir(incoming/<prefix>)`; `none` = EnvironmentError -/
def rmIncPrefix (pre : Nat → Nat) (dirs : List Dir) (p : Nat) : Option (List Dir) :=
  if dirs.contains (.incPrefix p) && incPrefixEmpty pre dirs p then some (dirs.filter (fun d => d != .incPrefix p))
  else none

/-- directories made by an `allocate_buckets` call that created at least one writer:
    `make_dirs(dirname(incominghome))` per writer, `make_dirs(sharedir/si_dir)` at the end -/
def allocDirs (pre : Nat → Nat) (dirs : List Dir) (si : Nat) (accepted : Bool) : List Dir :=
  if accepted then
    addDir (addDir (addDir (addDir dirs (.incPrefix (pre si))) (.incDir si)) (.finPrefix (pre si))) (.finDir si)
  else dirs

/-- `BucketWriter.abort()` with its directory cleanup.  The flag is `true` when `os.rmdir` raised:
    the statements after it (`closed = True`, `bucket_writer_closed`) would then be skipped, i.e.
    the reservation would NOT be released (state returned unchanged; `abort_never_raises` shows the
    flag is never set in a reachable state). -/
def dAbort (d : DServer) (wid : Nat) : DServer × Bool :=
  match findWid wid d.srv.incoming with
  | none => (d, false)
  | some (k, _) =>
    let inc' := eraseK k d.srv.incoming                 -- os.remove(self.incominghome)
    if incDirEmpty inc' k.1 then                        -- if not os.listdir(parentdir):
      match rmIncDir inc' d.dirs k.1 with               --     os.rmdir(parentdir)
      | some dirs' => ({ srv := abortOp d.srv wid, dirs := dirs' }, false)
      | none => (d, true)
    else ({ srv := abortOp d.srv wid, dirs := d.dirs }, false)

/-- `BucketWriter.close()` with its directory handling; rmdir failures are swallowed, and the second
    rmdir is attempted only if the first succeeded -/
def dClose (pre : Nat → Nat) (d : DServer) (wid : Nat) : DServer :=
  match findWid wid d.srv.incoming with
  | none => d
  | some (k, _) =>
    let srv' := (closeOp d.srv wid).1
    let dirs1 := addDir (addDir d.dirs (.finPrefix (pre k.1))) (.finDir k.1)
    let dirs2 := match rmIncDir srv'.incoming dirs1 k.1 with
      | none => dirs1
      | some d2 => match rmIncPrefix pre d2 (pre k.1) with
        | none => d2
        | some d3 => d3
    { srv := srv', dirs := dirs2 }

def dAbortAll (d : DServer) (wids : List Nat) : DServer := wids.foldl (fun acc w => (dAbort acc w).1) d

def accepted (r : Except LeaseRes AllocOut) : Bool :=
  match r with
  | .ok o => !o.writers.isEmpty
  | .error _ => false

/-- handles of the uploads whose timeout fires when the clock reaches `now` -/
def expiredWids (s : Server) (now : Nat) : List Nat :=
  (s.incoming.filter (fun e => decide (e.2.1.deadline ≤ now))).map (fun e => e.2.1.wid)

/-- one front-end operation on the server with its directory tree -/
def dfstep (pre : Nat → Nat) (d : DServer) : FOp → DServer
  | .direct (.alloc si shs size rec free order) =>
    let r := allocate d.srv si shs size rec free order
    { srv := r.1, dirs := allocDirs pre d.dirs si (accepted r.2) }
  | .allocConn c si shs size rec free order =>
    let r := allocateConn d.srv c si shs size rec free order
    { srv := r.1, dirs := allocDirs pre d.dirs si (accepted r.2) }
  | .direct (.write wid off data) => { d with srv := (writeOp d.srv wid off data).1 }
  | .direct (.close wid) => dClose pre d wid
  | .direct (.abort wid) => (dAbort d wid).1
  | .direct (.advance dt) =>
    let d' := dAbortAll d (expiredWids d.srv (d.srv.now + dt))
    { d' with srv := { d'.srv with now := d.srv.now + dt } }
  | .disconnect c => dAbortAll d (widsOfConn d.srv c)
  | .direct (.read _ _ _) => d
  | .direct (.list _) => d
  | .restart =>           -- `fileutil.rm_dir(incomingdir)` then `make_dirs(incomingdir)`
    { srv := restartOp d.srv,
      dirs := d.dirs.filter (fun x => match x with | .incDir _ => false | .incPrefix _ => false | _ => true) }

def dfrun (pre : Nat → Nat) (d : DServer) (ops : List FOp) : DServer := ops.foldl (dfstep pre) d

end Tahoe.Storage.Imm
