import Tahoe.Base.File
import Tahoe.Generated.Storage
/-!
Lease records and their serializers (storage/lease.py, storage/lease_schema.py), and the lease
functions of the IMMUTABLE container (storage/immutable.py ShareFile.{get_leases, add_lease,
renew_lease, add_or_renew_lease}).  The mutable container's lease functions are in
`Tahoe/Storage/Mutable.lean`.

Modelling decisions
* `blake2b` is ABSTRACT: every function that needs it takes `h : Bytes → Bytes`.
* `timing_safe_compare(a, b)` (SHA-256d of both sides under a random tag, compared) is modelled as
  `a == b`.
* `struct.pack("32s", x)` pads with zero bytes / truncates to 32 (`fixN`).  `struct.pack(">L", n)`
  raises `struct.error` for `n ≥ 2^32`; the model packs `n mod 2^32` — theorems that depend on it
  carry the hypothesis `n < 2^32` (expiry times before the year 2106, fewer than 2^32 leases).
* A lease read back from a container is kept in its STORED form (`renew`/`cancel` are the 32 bytes in
  the file: the cleartext secret in a v1 container, `blake2b secret` in a v2 container), which is what
  `LeaseInfo` resp. `HashedLeaseInfo._lease_info` hold.
-/
namespace Tahoe.Storage
open Tahoe.Base.File

inductive Err where
  | badWriteEnabler | dataTooLarge | noSpace | indexError | unknownVersion | assertFail | structError
  deriving DecidableEq, Repr

def Err.toString : Err → String
  | .badWriteEnabler => "BadWriteEnabler"
  | .dataTooLarge => "DataTooLarge"
  | .noSpace => "NoSpace"
  | .indexError => "IndexError"
  | .unknownVersion => "UnknownVersion"
  | .assertFail => "AssertionError"
  | .structError => "StructError"

/-- container schema version: v1 stores lease secrets in cleartext, v2 stores `blake2b secret` -/
inductive Schema where
  | v1 | v2
  deriving DecidableEq, Repr

/-- a lease as held in memory after `unserialize` (secrets in stored form), or a cleartext
    `LeaseInfo` built by the server (`_make_lease_info`) -/
structure Lease where
  owner : Nat
  expire : Nat
  renew : Bytes
  cancel : Bytes
  nodeid : Bytes      -- 20 bytes in mutable containers; `[]` (Python `None`) in immutable ones
  deriving DecidableEq, Repr

/-- `struct.pack("<n>s", b)` -/
def fixN (n : Nat) (b : Bytes) : Bytes := (b ++ zeros (n - b.length)).take n

@[simp] theorem length_fixN (n : Nat) (b : Bytes) : (fixN n b).length = n := by
  simp [fixN]; omega

theorem fixN_of_length (n : Nat) (b : Bytes) (h : b.length = n) : fixN n b = b := by
  subst h; simp [fixN, zeros]

/-- `LeaseInfo.to_mutable_data`: `>LL32s32s20s` -/
def serMut (l : Lease) : Bytes :=
  packU32 l.owner ++ packU32 l.expire ++ fixN 32 l.renew ++ fixN 32 l.cancel ++ fixN 20 l.nodeid

/-- `LeaseInfo.from_mutable_data` (Python raises `struct.error` unless `data` has 92 bytes; the
    container invariant guarantees it) -/
def parseMut (d : Bytes) : Lease :=
  { owner := unpackBE (pread d 0 4), expire := unpackBE (pread d 4 4),
    renew := pread d 8 32, cancel := pread d 40 32, nodeid := pread d 72 20 }

/-- `LeaseInfo.to_immutable_data`: `>L32s32sL` -/
def serImm (l : Lease) : Bytes :=
  packU32 l.owner ++ fixN 32 l.renew ++ fixN 32 l.cancel ++ packU32 l.expire

/-- `LeaseInfo.from_immutable_data` (`nodeid=None`) -/
def parseImm (d : Bytes) : Lease :=
  { owner := unpackBE (pread d 0 4), renew := pread d 4 32, cancel := pread d 36 32,
    expire := unpackBE (pread d 68 4), nodeid := [] }

@[simp] theorem length_serMut (l : Lease) : (serMut l).length = 92 := by simp [serMut]
@[simp] theorem length_serImm (l : Lease) : (serImm l).length = 72 := by simp [serImm]

/-- `HashedLeaseSerializer._hash_lease_info` / `CleartextLeaseSerializer`: the form of a
    server-built cleartext lease that is written into a container of schema `s` -/
def toStored (h : Bytes → Bytes) (s : Schema) (l : Lease) : Lease :=
  match s with
  | .v1 => l
  | .v2 => { l with renew := h l.renew, cancel := h l.cancel }

/-- `LeaseInfo.is_renew_secret` (v1) / `HashedLeaseInfo.is_renew_secret` (v2) on a stored lease -/
def isRenewSecret (h : Bytes → Bytes) (s : Schema) (stored : Lease) (candidate : Bytes) : Bool :=
  match s with
  | .v1 => stored.renew == candidate
  | .v2 => stored.renew == h candidate

/-- `LeaseInfo.is_cancel_secret` (v1) / `HashedLeaseInfo.is_cancel_secret` (v2) on a stored lease.  The lease
    crawler passes the `_HashedCancelSecret` it read off the lease itself, which compares the stored hash
    directly — the same verdict as hashing the cleartext secret. -/
def isCancelSecret (h : Bytes → Bytes) (s : Schema) (stored : Lease) (candidate : Bytes) : Bool :=
  match s with
  | .v1 => stored.cancel == candidate
  | .v2 => stored.cancel == h candidate

/-- the `blank_lease` of `MutableShareFile.cancel_lease` (a cleartext `LeaseInfo`: the v2 serializer
    hashes its all-zero secrets like any others) -/
def blankLease : Lease :=
  { owner := 0, expire := 0, renew := zeros 32, cancel := zeros 32, nodeid := zeros 20 }

/-! ### immutable container: lease functions (storage/immutable.py ShareFile) -/
namespace ImmL

/-- `schema_from_version(struct.unpack(">L", header[:4]))` -/
def schemaOf (f : File) : Option Schema :=
  let v := unpackBE (pread f 0 4)
  if v = 1 then some .v1 else if v = 2 then some .v2 else none

/-- `_read_num_leases` / the `num_leases` field read by `__init__` and `get_leases` (offset 8) -/
def numLeases (f : File) : Nat := unpackBE (pread f 8 4)

/-- `ShareFile.__init__` (open existing): `_lease_offset = filesize - num_leases * LEASE_SIZE`.
    (Python's value is negative for a corrupt short file; `Nat` subtraction gives 0 — excluded by
    the container invariant `ImmL.WF`.) -/
def leaseOffset (f : File) : Nat := f.length - numLeases f * 72

/-- `ShareFile._schema.header(max_size)` followed by `max_size` bytes of share data `data`
    (a closed share written completely), with no leases yet — used by examples and the driver -/
def fresh (version : Nat) (data : Bytes) : File :=
  packU32 version ++ packU32 (min (2 ^ 32 - 1) data.length) ++ packU32 0 ++ data

/-- `ShareFile.get_leases` (the records, in order, in stored form).  Python reads 72 bytes at a time
    from `_lease_offset`; an empty read is skipped (cannot happen under `ImmL.WF`). -/
def getLeases (f : File) : List Lease :=
  (List.range (numLeases f)).filterMap fun i =>
    let d := pread f (leaseOffset f + i * 72) 72
    if d.length = 0 then none else some (parseImm d)

/-- `ShareFile._write_lease_record` -/
def writeLeaseRecord (f : File) (lo i : Nat) (l : Lease) : File := pwrite f (lo + i * 72) (serImm l)

/-- `ShareFile.add_lease` (`lo` is the instance's `_lease_offset`, fixed at open time) -/
def addLease (h : Bytes → Bytes) (f : File) (l : Lease) : File :=
  match schemaOf f with
  | none => f
  | some s =>
    let lo := leaseOffset f
    let n := numLeases f
    let f1 := writeLeaseRecord f lo n (toStored h s l)
    pwrite f1 8 (packU32 (n + 1))

/-- search of `renew_lease`: index and stored lease of the first record matching the secret -/
def findRenew (h : Bytes → Bytes) (s : Schema) (secret : Bytes) : List Lease → Nat → Option (Nat × Lease)
  | [], _ => none
  | l :: rest, i => if isRenewSecret h s l secret then some (i, l) else findRenew h s secret rest (i + 1)

/-- `ShareFile.renew_lease(renew_secret, new_expire_time, allow_backdate=False)` -/
def renewLease (h : Bytes → Bytes) (f : File) (secret : Bytes) (newExpire : Nat) : File × Option Err :=
  match schemaOf f with
  | none => (f, some .unknownVersion)
  | some s =>
    match findRenew h s secret (getLeases f) 0 with
    | none => (f, some .indexError)
    | some (i, l) =>
      if newExpire > l.expire then
        (writeLeaseRecord f (leaseOffset f) i { l with expire := newExpire }, none)
      else (f, none)

/-- `ShareFile.add_or_renew_lease(available_space, lease_info)` (`li` is the cleartext lease) -/
def addOrRenew (h : Bytes → Bytes) (f : File) (avail : Nat) (li : Lease) : File × Option Err :=
  match renewLease h f li.renew li.expire with
  | (f', none) => (f', none)
  | (_, some .indexError) =>
      if 72 > avail then (f, some .noSpace) else (addLease h f li, none)
  | (f', some e) => (f', some e)

/-- the loop `for i, lease in enumerate(leases): self._write_lease_record(f, i, lease)` of `cancel_lease` -/
def rewriteLeases (f : File) (lo : Nat) : List Lease → Nat → File
  | [], _ => f
  | l :: rest, i => rewriteLeases (writeLeaseRecord f lo i l) lo rest (i + 1)

/-- `ShareFile.cancel_lease(cancel_secret)`: the remaining leases are re-packed in order, the count
    rewritten and the file truncated; `none` = the file was unlinked (no lease left).
    Returns (file, freed space, error). -/
def cancelLease (h : Bytes → Bytes) (f : File) (secret : Bytes) : Option File × Nat × Option Err :=
  match schemaOf f with
  | none => (some f, 0, some .unknownVersion)
  | some s =>
    let leases := getLeases f
    let keep := leases.filter fun l => !isCancelSecret h s l secret
    let removed := leases.length - keep.length
    if removed = 0 then (some f, 0, some .indexError) else
    let lo := leaseOffset f
    let f1 := rewriteLeases f lo keep 0
    let f2 := pwrite f1 8 (packU32 keep.length)
    let f3 := truncate f2 (lo + keep.length * 72)
    if keep.length = 0 then (none, 72 * removed + f3.length, none)
    else (some f3, 72 * removed, none)

/-- `ShareFile(filename, max_size, create=True)` followed by `add_lease(lease_info)` — what `BucketWriter.__init__`
    does: a 12-byte header (NEWEST schema = v2, lease count 0), then the lease record written at the instance's
    `_lease_offset = max_size + 0x0c` (the share-data area in between is a hole of zero bytes), then count 1 -/
def createWithLease (h : Bytes → Bytes) (maxSize : Nat) (li : Lease) : File :=
  let f0 := packU32 2 ++ packU32 (min (2 ^ 32 - 1) maxSize) ++ packU32 0
  let f1 := pwrite f0 (12 + maxSize) (serImm (toStored h .v2 li))
  pwrite f1 8 (packU32 1)

/-- `ShareFile.write_share_data(offset, data)`; `maxSize` is the instance's `_max_size` (`None` for a
    container opened on an existing file).  `offset` counts from the start of the share DATA. -/
def writeShareData (f : File) (maxSize : Option Nat) (off : Nat) (d : Bytes) : Except Err File :=
  match maxSize with
  | some m => if off + d.length > m then .error .dataTooLarge else .ok (pwrite f (12 + off) d)
  | none => .ok (pwrite f (12 + off) d)

/-- container invariant: valid version, header present, the lease area fits -/
def WF (f : File) : Prop :=
  (schemaOf f).isSome ∧ 12 + numLeases f * 72 ≤ f.length

end ImmL
end Tahoe.Storage
