import Tahoe.Base.File
/-!
The abstract specification of C23: a mutable share is a growable byte array.
(`splice` is defined in `Tahoe.Base.File`: positions past the end are zero-filled.)
-/
namespace Tahoe.Storage.Spec
open Tahoe.Base.File

/-- apply the write vectors in order: `a[off:off+len(d)] = d`, the gap past the end zero-filled -/
def writeAll (a : Bytes) (dv : List (Nat × Bytes)) : Bytes := dv.foldl (fun a p => splice a p.1 p.2) a

/-- a smaller `new_length` truncates, a larger one (or `None`) is ignored -/
def newLength (a : Bytes) : Option Nat → Bytes
  | none => a
  | some n => if n < a.length then a.take n else a

/-- `writev(datav, new_length)` on a byte array -/
def writev (a : Bytes) (dv : List (Nat × Bytes)) (nl : Option Nat) : Bytes := newLength (writeAll a dv) nl

/-- clipped read -/
def read (a : Bytes) (off len : Nat) : Bytes := pread a off len

def readv (a : Bytes) (rv : List (Nat × Nat)) : List Bytes := rv.map fun (o, l) => read a o l

/-- test vectors: every specimen equals the clipped read -/
def testv (a : Bytes) (tv : List (Nat × Nat × Bytes)) : Bool := tv.all fun (o, l, s) => read a o l == s

end Tahoe.Storage.Spec
