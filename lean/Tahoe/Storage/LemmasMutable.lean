import Tahoe.Storage.Mutable
import Tahoe.Storage.Spec
/-!
Helper lemmas for C23/C24/C25 about the mutable container model: frame lemmas for the header
fields, the specification of `_change_container_size` and `_write_share_data`, and their lifting to
`writev`.  (Property theorems are in `Tahoe/Props/C23.lean`.)
-/
namespace Tahoe.Storage.Mutable
open Tahoe.Base.File Tahoe.Storage

/-- everything that is not share data: header identity fields, fixed lease slots, extra-lease block -/
structure SameMeta (f f' : File) : Prop where
  hdr : pread f' 0 84 = pread f 0 84
  s4 : slots4 f' = slots4 f
  num : numExtra f' = numExtra f
  blk : leaseBlock f' = leaseBlock f

theorem SameMeta.refl (f : File) : SameMeta f f := ⟨rfl, rfl, rfl, rfl⟩

theorem SameMeta.trans {f g k : File} (a : SameMeta f g) (b : SameMeta g k) : SameMeta f k :=
  ⟨b.hdr.trans a.hdr, b.s4.trans a.s4, b.num.trans a.num, b.blk.trans a.blk⟩

theorem WF.len100 {f : File} (h : WF f) : 472 ≤ f.length := by
  have := h.data_le; have := h.len_ge; omega

theorem length_absData {f : File} (h : WF f) : (absData f).length = dataLength f := by
  unfold absData
  apply length_pread_of_le
  have := h.data_le; have := h.len_ge; omega

theorem unpack_packU64_small (n : Nat) (h : n ≤ 468 + MAX_SIZE) : unpackBE (packU64 n) = n := by
  apply unpackBE_packU64
  have := MAX_SIZE_lt; omega

/-! ### `_change_container_size` -/

structure Grown (f f1 : File) (need : Nat) : Prop where
  ext_ge : need ≤ extOff f1
  ext_le : extOff f1 ≤ 468 + MAX_SIZE
  ext_mono : extOff f ≤ extOff f1
  frame : ∀ o m, o + m ≤ extOff f → (o + m ≤ 92 ∨ 100 ≤ o) → pread f1 o m = pread f o m
  num : numExtra f1 = numExtra f
  blk : leaseBlock f1 = leaseBlock f
  len_ge : extOff f1 + 4 + numExtra f1 * 92 ≤ f1.length

theorem ccs_spec (f : File) (hwf : WF f) (n : Nat) (hn : n ≤ MAX_SIZE) (hgrow : extOff f ≤ 468 + n) :
    ∃ f1, changeContainerSize f n = .ok f1 ∧ Grown f f1 (468 + n) := by
  have hlen := hwf.len_ge
  have hdata := hwf.data_le
  have h1 : ¬ (n > MAX_SIZE) := by omega
  have h2 : ¬ (468 + n < extOff f) := by omega
  simp only [changeContainerSize, h1, h2, if_false]
  refine ⟨_, rfl, ?_⟩
  generalize hold : extOff f = old at *
  generalize hsize : 4 + numExtra f * 92 = size at *
  have hblk : (pread f old size).length = size := length_pread_of_le f old size (by omega)
  have hz : (zeros size).length = size := length_zeros size
  have hl1 : (pwrite f old (zeros size)).length = f.length := length_pwrite_of_le _ _ _ (by omega)
  have hl2 : (pwrite (pwrite f old (zeros size)) (468 + n) (pread f old size)).length
      = max f.length (468 + n + size) := by
    rw [length_pwrite, hblk, hl1]; have : size ≠ 0 := by omega
    simp [this]
  have hl3 : (writeExtOff (pwrite (pwrite f old (zeros size)) (468 + n) (pread f old size)) (468 + n)).length
      = max f.length (468 + n + size) := by
    unfold writeExtOff
    rw [length_pwrite_of_le _ _ _ (by rw [hl2, length_packU64]; omega), hl2]
  -- reading through the final header write
  have hthru : ∀ o m, (o + m ≤ 92 ∨ 100 ≤ o) → o + m ≤ max f.length (468 + n + size) →
      pread (writeExtOff (pwrite (pwrite f old (zeros size)) (468 + n) (pread f old size)) (468 + n)) o m
        = pread (pwrite (pwrite f old (zeros size)) (468 + n) (pread f old size)) o m := by
    intro o m h hle
    unfold writeExtOff
    apply pread_pwrite_disj
    rw [length_packU64, hl2]; omega
  have hext : extOff (writeExtOff (pwrite (pwrite f old (zeros size)) (468 + n) (pread f old size)) (468 + n))
      = 468 + n := by
    unfold extOff writeExtOff
    have := pread_pwrite_eq (pwrite (pwrite f old (zeros size)) (468 + n) (pread f old size)) 92 (packU64 (468 + n))
    rw [length_packU64] at this
    rw [this, unpack_packU64_small _ (by omega)]
  have hnum4 : pread (writeExtOff (pwrite (pwrite f old (zeros size)) (468 + n) (pread f old size)) (468 + n)) (468 + n) 4
      = pread f old 4 := by
    rw [hthru _ _ (Or.inr (by omega)) (by omega)]
    rw [pread_pwrite_sub _ _ _ _ _ (Nat.le_refl _) (by rw [hblk]; omega)]
    rw [Nat.sub_self, pread_pread _ _ _ _ _ (by omega)]; simp
  have hnum : numExtra (writeExtOff (pwrite (pwrite f old (zeros size)) (468 + n) (pread f old size)) (468 + n))
      = numExtra f := by
    unfold numExtra; rw [hext, hnum4, hold]
  refine ⟨by rw [hext]; omega, by rw [hext]; omega, by rw [hext]; omega, ?_, hnum, ?_, ?_⟩
  · intro o m hom hor
    rw [hthru o m hor (by omega)]
    rw [pread_pwrite_lt _ _ _ _ _ (by omega) (by rw [hl1]; omega)]
    rw [pread_pwrite_lt _ _ _ _ _ (by omega) (by omega)]
  · unfold leaseBlock
    rw [hnum, hext, hsize, hold]
    rw [hthru _ _ (Or.inr (by omega)) (by omega)]
    have := pread_pwrite_eq (pwrite f old (zeros size)) (468 + n) (pread f old size)
    rw [hblk] at this
    exact this
  · rw [hnum, hext, hl3]; omega

/-! ### the in-container part of `_write_share_data`: zero fill, new data length, data -/

/-- zero fill of `[dl, off)`, then the data-length field, then the data (growth branch) -/
def fillAndWrite (f1 : File) (dl off : Nat) (d : Bytes) : File :=
  pwrite (writeDataLength (if off > dl then pwrite f1 (468 + dl) (zeros (off - dl)) else f1) (off + d.length))
    (468 + off) d

structure Filled (f1 g : File) (off : Nat) (d : Bytes) : Prop where
  len : g.length = f1.length
  frame : ∀ o m, (o + m ≤ 84 ∨ (92 ≤ o ∧ o + m ≤ 468) ∨ extOff f1 ≤ o) → pread g o m = pread f1 o m
  dlen : dataLength g = off + d.length
  data : pread g 468 (off + d.length) = splice (pread f1 468 (dataLength f1)) off d

theorem fill_spec (f1 : File) (off : Nat) (d : Bytes)
    (hfit : 468 + off + d.length ≤ extOff f1) (hmax : extOff f1 ≤ 468 + MAX_SIZE)
    (hlen : extOff f1 + 4 ≤ f1.length) (hdl : 468 + dataLength f1 ≤ extOff f1)
    (hgrow : dataLength f1 ≤ off + d.length) :
    Filled f1 (fillAndWrite f1 (dataLength f1) off d) off d := by
  generalize hdlv : dataLength f1 = dl at *
  generalize heo : extOff f1 = eo at *
  -- f2: zero fill
  have hf2 : ∃ f2, (if off > dl then pwrite f1 (468 + dl) (zeros (off - dl)) else f1) = f2 ∧
      f2.length = f1.length ∧
      (∀ i, f2[i]? = if 468 + dl ≤ i ∧ i < 468 + off then some 0 else f1[i]?) := by
    refine ⟨_, rfl, ?_, ?_⟩
    · split
      · exact length_pwrite_of_le _ _ _ (by rw [length_zeros]; omega)
      · rfl
    · intro i
      split
      · rw [getElem?_pwrite_of_le _ _ _ _ (by rw [length_zeros]; omega), length_zeros]
        by_cases hi : 468 + dl ≤ i ∧ i < 468 + off
        · have a : 468 + dl ≤ i ∧ i < 468 + dl + (off - dl) := by omega
          have b : i - (468 + dl) < off - dl := by omega
          rw [if_pos a, if_pos hi, getElem?_zeros, if_pos b]
        · have a : ¬ (468 + dl ≤ i ∧ i < 468 + dl + (off - dl)) := by omega
          rw [if_neg a, if_neg hi]
      · have a : ¬ (468 + dl ≤ i ∧ i < 468 + off) := by omega
        rw [if_neg a]
  obtain ⟨f2, hf2e, hl2, hp2⟩ := hf2
  unfold fillAndWrite
  rw [hf2e]
  -- f3: data length field
  have hl3 : (writeDataLength f2 (off + d.length)).length = f1.length := by
    unfold writeDataLength
    rw [length_pwrite_of_le _ _ _ (by rw [length_packU64]; omega), hl2]
  have hp3 : ∀ i, (writeDataLength f2 (off + d.length))[i]? =
      if 84 ≤ i ∧ i < 92 then (packU64 (off + d.length))[i - 84]? else f2[i]? := by
    intro i
    unfold writeDataLength
    rw [getElem?_pwrite_of_le _ _ _ _ (by rw [length_packU64]; omega), length_packU64]
  generalize hf3 : writeDataLength f2 (off + d.length) = f3 at *
  have hl4 : (pwrite f3 (468 + off) d).length = f1.length := by
    rw [length_pwrite_of_le _ _ _ (by omega), hl3]
  have hp4 : ∀ i, (pwrite f3 (468 + off) d)[i]? =
      if 468 + off ≤ i ∧ i < 468 + off + d.length then d[i - (468 + off)]? else f3[i]? := by
    intro i
    rw [getElem?_pwrite_of_le _ _ _ _ (by omega)]
  refine ⟨hl4, ?_, ?_, ?_⟩
  · intro o m hor
    apply List.ext_getElem?; intro i
    rw [getElem?_pread, getElem?_pread]
    by_cases hi : i < m
    · rw [if_pos hi, if_pos hi, hp4, hp3, hp2]
      have a : ¬ (468 + off ≤ o + i ∧ o + i < 468 + off + d.length) := by omega
      have b : ¬ (84 ≤ o + i ∧ o + i < 92) := by omega
      have c : ¬ (468 + dl ≤ o + i ∧ o + i < 468 + off) := by omega
      rw [if_neg a, if_neg b, if_neg c]
    · rw [if_neg hi, if_neg hi]
  · unfold dataLength
    have : pread (pwrite f3 (468 + off) d) 84 8 = packU64 (off + d.length) := by
      apply List.ext_getElem?; intro i
      rw [getElem?_pread]
      by_cases hi : i < 8
      · rw [if_pos hi, hp4, hp3]
        have a : ¬ (468 + off ≤ 84 + i ∧ 84 + i < 468 + off + d.length) := by omega
        have b : 84 ≤ 84 + i ∧ 84 + i < 92 := by omega
        rw [if_neg a, if_pos b]; congr 1; omega
      · rw [if_neg hi]
        exact (List.getElem?_eq_none (by rw [length_packU64]; omega)).symm
    rw [this, unpack_packU64_small _ (by omega)]
  · rw [hdlv]
    apply List.ext_getElem?; intro i
    have hal : (pread f1 468 dl).length = dl := length_pread_of_le _ _ _ (by omega)
    rw [getElem?_pread, getElem?_splice, hal, hp4, hp3, hp2, getElem?_pread]
    have b : ¬ (84 ≤ 468 + i ∧ 468 + i < 92) := by omega
    rw [if_neg b]
    by_cases h1 : i < off
    · have a : ¬ (468 + off ≤ 468 + i ∧ 468 + i < 468 + off + d.length) := by omega
      have h0 : i < off + d.length := by omega
      rw [if_pos h0, if_neg a, if_pos h1]
      by_cases h2 : i < dl
      · have c : ¬ (468 + dl ≤ 468 + i ∧ 468 + i < 468 + off) := by omega
        rw [if_neg c, if_pos h2, if_pos h2]
      · have c : 468 + dl ≤ 468 + i ∧ 468 + i < 468 + off := by omega
        rw [if_pos c, if_neg h2]
    · rw [if_neg h1]
      by_cases h0 : i < off + d.length
      · have a : 468 + off ≤ 468 + i ∧ 468 + i < 468 + off + d.length := by omega
        rw [if_pos h0, if_pos a, if_pos h0]; congr 1; omega
      · have c : ¬ (i < dl) := by omega
        rw [if_neg h0, if_neg h0, if_neg c]

/-- a file that agrees with `f` outside the data-length field and the container area has the same
    extra-lease offset, lease count and metadata -/
theorem meta_of_frame (f g : File)
    (frame : ∀ o m, (o + m ≤ 84 ∨ (92 ≤ o ∧ o + m ≤ 468) ∨ extOff f ≤ o) → pread g o m = pread f o m) :
    extOff g = extOff f ∧ numExtra g = numExtra f ∧ SameMeta f g := by
  have he : extOff g = extOff f := by
    unfold extOff; rw [frame 92 8 (Or.inr (Or.inl (by omega)))]
  have hn : numExtra g = numExtra f := by
    unfold numExtra; rw [he, frame _ 4 (Or.inr (Or.inr (Nat.le_refl _)))]
  refine ⟨he, hn, ?_, ?_, hn, ?_⟩
  · exact frame 0 84 (Or.inl (by omega))
  · unfold slots4; exact frame 100 368 (Or.inr (Or.inl (by omega)))
  · unfold leaseBlock; rw [he, hn]; exact frame _ _ (Or.inr (Or.inr (Nat.le_refl _)))

/-- what a successful `_write_share_data` establishes -/
structure Wrote (f f' : File) (off : Nat) (d : Bytes) : Prop where
  wf : WF f'
  data : absData f' = splice (absData f) off d
  same : SameMeta f f'
  ext_mono : extOff f ≤ extOff f'

theorem wsd_err (f : File) (hwf : WF f) (off : Nat) (d : Bytes) (h : off + d.length > MAX_SIZE) :
    writeShareData f off d = .error .dataTooLarge := by
  have h1 := hwf.data_le; have h2 := hwf.ext_le
  have a : off + d.length ≥ dataLength f := by omega
  have b : 468 + (off + d.length) > extOff f := by omega
  simp only [writeShareData, growStep, a, b, if_true, changeContainerSize, h]

theorem wsd_ok (f : File) (hwf : WF f) (off : Nat) (d : Bytes) (h : off + d.length ≤ MAX_SIZE) :
    ∃ f', writeShareData f off d = .ok f' ∧ Wrote f f' off d := by
  have hdata := hwf.data_le; have hext := hwf.ext_le; have hlen := hwf.len_ge
  by_cases hg : off + d.length ≥ dataLength f
  · -- growth branch
    have hstep : ∃ f1, growStep f (off + d.length) = Except.ok f1 ∧ Grown f f1 (468 + off + d.length) := by
      unfold growStep
      by_cases hc : 468 + (off + d.length) > extOff f
      · rw [if_pos hc]
        obtain ⟨f1, e, g⟩ := ccs_spec f hwf (off + d.length) h (by omega)
        exact ⟨f1, e, by rw [← Nat.add_assoc] at g; exact g⟩
      · rw [if_neg hc]
        exact ⟨f, rfl, ⟨by omega, hext, Nat.le_refl _, fun _ _ _ _ => rfl, rfl, rfl, hlen⟩⟩
    obtain ⟨f1, he1, gr⟩ := hstep
    have hdl1 : dataLength f1 = dataLength f := by
      unfold dataLength; rw [gr.frame 84 8 (by omega) (Or.inl (by omega))]
    have hassert : ¬ ¬ (468 + off + d.length ≤ extOff f1) := by have := gr.ext_ge; omega
    have hres : writeShareData f off d = .ok (fillAndWrite f1 (dataLength f1) off d) := by
      simp only [writeShareData, hg, if_true, he1, hassert, if_false, fillAndWrite, hdl1]
    have fl := fill_spec f1 off d gr.ext_ge gr.ext_le (by have := gr.len_ge; omega)
      (by rw [hdl1]; have := gr.ext_mono; omega) (by rw [hdl1]; exact hg)
    generalize fillAndWrite f1 (dataLength f1) off d = g at *
    have fr : ∀ o m, (o + m ≤ 84 ∨ (92 ≤ o ∧ o + m ≤ 468) ∨ extOff f1 ≤ o) → pread g o m = pread f1 o m := fl.frame
    obtain ⟨me, mn, ms⟩ := meta_of_frame f1 g fr
    have sm1 : SameMeta f f1 := by
      refine ⟨gr.frame 0 84 (by omega) (Or.inl (by omega)), ?_, gr.num, gr.blk⟩
      unfold slots4; exact gr.frame 100 368 (by omega) (Or.inr (by omega))
    refine ⟨g, hres, ⟨?_, ?_, ?_⟩, ?_, sm1.trans ms, by rw [me]; exact gr.ext_mono⟩
    · rw [fl.dlen, me]; have := gr.ext_ge; omega
    · rw [me]; exact gr.ext_le
    · rw [me, mn, fl.len]; exact gr.len_ge
    · unfold absData
      rw [fl.dlen, fl.data, hdl1, gr.frame 468 (dataLength f) (by omega) (Or.inr (by omega))]
  · -- in-place branch
    have hres : writeShareData f off d = .ok (pwrite f (468 + off) d) := by
      simp only [writeShareData, hg, if_false]
    have hl : (pwrite f (468 + off) d).length = f.length := length_pwrite_of_le _ _ _ (by omega)
    have hp : ∀ i, (pwrite f (468 + off) d)[i]? =
        if 468 + off ≤ i ∧ i < 468 + off + d.length then d[i - (468 + off)]? else f[i]? := by
      intro i; rw [getElem?_pwrite_of_le _ _ _ _ (by omega)]
    generalize pwrite f (468 + off) d = g at *
    have fr : ∀ o m, (o + m ≤ 84 ∨ (92 ≤ o ∧ o + m ≤ 468) ∨ extOff f ≤ o) → pread g o m = pread f o m := by
      intro o m hor
      apply List.ext_getElem?; intro i
      rw [getElem?_pread, getElem?_pread]
      by_cases hi : i < m
      · have a : ¬ (468 + off ≤ o + i ∧ o + i < 468 + off + d.length) := by omega
        rw [if_pos hi, if_pos hi, hp, if_neg a]
      · rw [if_neg hi, if_neg hi]
    obtain ⟨me, mn, ms⟩ := meta_of_frame f g fr
    have hdl : dataLength g = dataLength f := by
      unfold dataLength
      apply congrArg
      apply List.ext_getElem?; intro i
      rw [getElem?_pread, getElem?_pread]
      by_cases hi : i < 8
      · have a : ¬ (468 + off ≤ 84 + i ∧ 84 + i < 468 + off + d.length) := by omega
        rw [if_pos hi, if_pos hi, hp, if_neg a]
      · rw [if_neg hi, if_neg hi]
    refine ⟨g, hres, ⟨?_, ?_, ?_⟩, ?_, ms, by rw [me]; exact Nat.le_refl _⟩
    · rw [hdl, me]; exact hdata
    · rw [me]; exact hext
    · rw [me, mn, hl]; exact hlen
    · unfold absData
      rw [hdl]
      apply List.ext_getElem?; intro i
      have hal : (pread f 468 (dataLength f)).length = dataLength f := length_pread_of_le _ _ _ (by omega)
      rw [getElem?_pread, getElem?_splice, hal, hp, getElem?_pread]
      by_cases h0 : i < dataLength f
      · rw [if_pos h0, if_pos h0]
        by_cases h1 : i < off
        · have a : ¬ (468 + off ≤ 468 + i ∧ 468 + i < 468 + off + d.length) := by omega
          rw [if_neg a, if_pos h1, if_pos h0]
        · rw [if_neg h1]
          by_cases h2 : i < off + d.length
          · have a : 468 + off ≤ 468 + i ∧ 468 + i < 468 + off + d.length := by omega
            rw [if_pos a, if_pos h2]; congr 1; omega
          · have a : ¬ (468 + off ≤ 468 + i ∧ 468 + i < 468 + off + d.length) := by omega
            rw [if_neg a, if_neg h2, if_pos h0]
      · have h1 : ¬ (i < off) := by omega
        have h2 : ¬ (i < off + d.length) := by omega
        rw [if_neg h0, if_neg h1, if_neg h2, if_neg h0]

/-! ### `writev`, `readv`, `check_testv` against the byte-array specification -/

theorem getElem?_absData (f : File) (j : Nat) :
    (absData f)[j]? = if j < dataLength f then f[468 + j]? else none := by
  unfold absData; rw [getElem?_pread]

/-- `_read_share_data` is the clipped read of the byte array (no invariant needed) -/
theorem readShareData_eq (f : File) (off len : Nat) :
    readShareData f off len = Spec.read (absData f) off len := by
  unfold readShareData Spec.read
  apply List.ext_getElem?; intro i
  rw [getElem?_pread, getElem?_absData]
  by_cases h : off + len > dataLength f
  · simp only [h, if_true]
    by_cases h0 : dataLength f - off = 0
    · have : ¬ (off + i < dataLength f) := by omega
      simp [h0, this]
    · simp only [h0, if_false, getElem?_pread]
      by_cases h1 : i < dataLength f - off
      · have a : i < len := by omega
        have b : off + i < dataLength f := by omega
        simp [h1, a, b, Nat.add_assoc]
      · have b : ¬ (off + i < dataLength f) := by omega
        simp [h1, b]
  · simp only [h, if_false]
    by_cases h0 : len = 0
    · simp [h0]
    · simp only [h0, if_false, getElem?_pread]
      by_cases h1 : i < len
      · have b : off + i < dataLength f := by omega
        simp [h1, b, Nat.add_assoc]
      · simp [h1]

theorem readv_eq (f : File) (rv : List (Nat × Nat)) : readv f rv = Spec.readv (absData f) rv := by
  unfold readv Spec.readv
  apply List.map_congr_left
  intro p _; exact readShareData_eq f p.1 p.2

theorem checkTestv_eq (f : File) (tv : List (Nat × Nat × Bytes)) :
    checkTestv f tv = Spec.testv (absData f) tv := by
  unfold checkTestv Spec.testv
  congr 1
  funext p
  obtain ⟨o, l, s⟩ := p
  simp only [readShareData_eq]

theorem checkTestvEmpty_eq (tv : List (Nat × Nat × Bytes)) : checkTestvEmpty tv = Spec.testv [] tv := by
  unfold checkTestvEmpty Spec.testv
  congr 1
  funext p
  obtain ⟨o, l, s⟩ := p
  simp [Spec.read, pread]

/-- every write vector ends at or below `MAX_SIZE` -/
def FitsAll (dv : List (Nat × Bytes)) : Prop := ∀ p ∈ dv, p.1 + p.2.length ≤ MAX_SIZE

theorem writeAll_ok (f : File) (hwf : WF f) (dv : List (Nat × Bytes)) (hfit : FitsAll dv) :
    ∃ f', writeAll f dv = (f', none) ∧ WF f' ∧ absData f' = Spec.writeAll (absData f) dv ∧ SameMeta f f' := by
  induction dv generalizing f with
  | nil => exact ⟨f, rfl, hwf, rfl, SameMeta.refl f⟩
  | cons p rest ih =>
    obtain ⟨o, d⟩ := p
    obtain ⟨f1, e1, w⟩ := wsd_ok f hwf o d (hfit (o, d) (List.mem_cons_self ..))
    obtain ⟨f2, e2, wf2, d2, m2⟩ := ih f1 w.wf (fun q hq => hfit q (List.mem_cons_of_mem _ hq))
    refine ⟨f2, ?_, wf2, ?_, w.same.trans m2⟩
    · simp only [writeAll, e1, e2]
    · rw [d2, w.data]; rfl

/-- whatever the vectors: the loop leaves a well-formed container with the same leases, and can only
    fail with `DataTooLargeError` -/
theorem writeAll_any (f : File) (hwf : WF f) (dv : List (Nat × Bytes)) :
    WF (writeAll f dv).1 ∧ SameMeta f (writeAll f dv).1 ∧
    ((writeAll f dv).2 = none ∨ ((writeAll f dv).2 = some .dataTooLarge ∧ ¬ FitsAll dv)) := by
  induction dv generalizing f with
  | nil => exact ⟨hwf, SameMeta.refl f, Or.inl rfl⟩
  | cons p rest ih =>
    obtain ⟨o, d⟩ := p
    by_cases h : o + d.length ≤ MAX_SIZE
    · obtain ⟨f1, e1, w⟩ := wsd_ok f hwf o d h
      obtain ⟨a, b, c⟩ := ih f1 w.wf
      simp only [writeAll, e1]
      refine ⟨a, w.same.trans b, ?_⟩
      rcases c with c | ⟨c, nf⟩
      · exact Or.inl c
      · exact Or.inr ⟨c, fun hf => nf (fun q hq => hf q (List.mem_cons_of_mem _ hq))⟩
    · have e := wsd_err f hwf o d (by omega)
      simp only [writeAll, e]
      exact ⟨hwf, SameMeta.refl f, Or.inr ⟨trivial, fun hf => h (hf (o, d) (List.mem_cons_self ..))⟩⟩

theorem applyNewLength_spec (f : File) (hwf : WF f) (nl : Option Nat) :
    WF (applyNewLength f nl) ∧ absData (applyNewLength f nl) = Spec.newLength (absData f) nl ∧
    SameMeta f (applyNewLength f nl) := by
  cases nl with
  | none => exact ⟨hwf, rfl, SameMeta.refl f⟩
  | some n =>
    have hal := length_absData hwf
    simp only [applyNewLength, Spec.newLength, hal]
    by_cases h : n < dataLength f
    · simp only [h, if_true]
      have hdata := hwf.data_le; have hext := hwf.ext_le; have hlen := hwf.len_ge
      unfold writeDataLength
      have hl : (pwrite f 84 (packU64 n)).length = f.length :=
        length_pwrite_of_le _ _ _ (by rw [length_packU64]; omega)
      have fr : ∀ o m, (o + m ≤ 84 ∨ (92 ≤ o ∧ o + m ≤ 468) ∨ extOff f ≤ o) →
          pread (pwrite f 84 (packU64 n)) o m = pread f o m := by
        intro o m hor
        apply pread_pwrite_disj
        rw [length_packU64]; omega
      obtain ⟨me, mn, ms⟩ := meta_of_frame f _ fr
      have hdl : dataLength (pwrite f 84 (packU64 n)) = n := by
        unfold dataLength
        have := pread_pwrite_eq f 84 (packU64 n)
        rw [length_packU64] at this
        rw [this, unpack_packU64_small _ (by omega)]
      refine ⟨⟨?_, ?_, ?_⟩, ?_, ms⟩
      · rw [hdl, me]; omega
      · rw [me]; exact hext
      · rw [me, mn, hl]; exact hlen
      · unfold absData
        rw [hdl, pread_pwrite_gt _ _ _ _ _ (by rw [length_packU64]; omega)]
        rw [← pread_zero_eq_take, pread_pread _ _ _ _ _ (by omega)]
    · simp only [h, if_false]
      exact ⟨hwf, trivial, SameMeta.refl f⟩

/-- `writev` when every vector fits: no error, and the data is the specification's `writev` -/
theorem writev_ok (f : File) (hwf : WF f) (dv : List (Nat × Bytes)) (nl : Option Nat) (hfit : FitsAll dv) :
    ∃ f', writev f dv nl = (f', none) ∧ WF f' ∧ absData f' = Spec.writev (absData f) dv nl ∧ SameMeta f f' := by
  obtain ⟨f1, e1, wf1, d1, m1⟩ := writeAll_ok f hwf dv hfit
  obtain ⟨a, b, c⟩ := applyNewLength_spec f1 wf1 nl
  refine ⟨applyNewLength f1 nl, ?_, a, ?_, m1.trans c⟩
  · simp only [writev, e1]
  · rw [b, d1]; rfl

/-- `writev` in general: invariant and leases are kept even when it fails half-way -/
theorem writev_any (f : File) (hwf : WF f) (dv : List (Nat × Bytes)) (nl : Option Nat) :
    WF (writev f dv nl).1 ∧ SameMeta f (writev f dv nl).1 := by
  obtain ⟨a, b, _⟩ := writeAll_any f hwf dv
  unfold writev
  generalize writeAll f dv = r at *
  obtain ⟨f1, e⟩ := r
  cases e with
  | none =>
    obtain ⟨x, _, z⟩ := applyNewLength_spec f1 a nl
    exact ⟨x, b.trans z⟩
  | some e => exact ⟨a, b⟩

/-! ### a freshly created container -/

theorem length_magicOf (s : Schema) : (magicOf s).length = 32 := by cases s <;> decide

theorem create_fields (s : Schema) (nodeid we : Bytes) :
    dataLength (create s nodeid we) = 0 ∧ extOff (create s nodeid we) = 468 ∧
    numExtra (create s nodeid we) = 0 ∧ (create s nodeid we).length = 472 ∧
    enabler (create s nodeid we) = fixN 32 we ∧ schemaOf (create s nodeid we) = some s := by
  have hm := length_magicOf s
  have hlen : (create s nodeid we).length = 472 := by simp [create, hm]
  have e1 : pread (create s nodeid we) 84 8 = packU64 0 := by
    simp only [create, List.append_assoc]
    rw [pread_append_of_le _ _ _ _ (by omega), pread_append_of_le _ _ _ _ (by simp; omega),
      pread_append_of_le _ _ _ _ (by simp; omega)]
    simp only [hm, length_fixN]
    exact pread_append_prefix _ _ _ (by simp)
  have e2 : pread (create s nodeid we) 92 8 = packU64 468 := by
    simp only [create, List.append_assoc]
    rw [pread_append_of_le _ _ _ _ (by omega), pread_append_of_le _ _ _ _ (by simp; omega),
      pread_append_of_le _ _ _ _ (by simp; omega), pread_append_of_le _ _ _ _ (by simp; omega)]
    simp only [hm, length_fixN, length_packU64]
    exact pread_append_prefix _ _ _ (by simp)
  have e3 : pread (create s nodeid we) 468 4 = packU32 0 := by
    simp only [create, List.append_assoc]
    rw [pread_append_of_le _ _ _ _ (by omega), pread_append_of_le _ _ _ _ (by simp; omega),
      pread_append_of_le _ _ _ _ (by simp; omega), pread_append_of_le _ _ _ _ (by simp; omega),
      pread_append_of_le _ _ _ _ (by simp; omega), pread_append_of_le _ _ _ _ (by simp; omega)]
    simp only [hm, length_fixN, length_packU64, length_zeros]
    simp [pread, packU32, packBE]
  have e4 : pread (create s nodeid we) 52 32 = fixN 32 we := by
    simp only [create, List.append_assoc]
    rw [pread_append_of_le _ _ _ _ (by omega), pread_append_of_le _ _ _ _ (by simp; omega)]
    simp only [hm, length_fixN]
    exact pread_append_prefix _ _ _ (by simp)
  have e5 : pread (create s nodeid we) 0 32 = magicOf s := by
    simp only [create, List.append_assoc]
    exact pread_append_prefix _ _ _ hm.symm
  have hext : extOff (create s nodeid we) = 468 := by unfold extOff; rw [e2]; decide
  refine ⟨by unfold dataLength; rw [e1]; decide, hext, by unfold numExtra; rw [hext, e3]; decide, hlen,
    by unfold enabler; exact e4, ?_⟩
  unfold schemaOf; simp only [e5]
  cases s <;> decide

theorem create_wf (s : Schema) (nodeid we : Bytes) : WF (create s nodeid we) := by
  obtain ⟨a, b, c, d, _⟩ := create_fields s nodeid we
  have := MAX_SIZE_lt
  exact ⟨by rw [a, b]; omega, by rw [b]; omega, by rw [b, c, d]; omega⟩

theorem absData_create (s : Schema) (nodeid we : Bytes) : absData (create s nodeid we) = [] := by
  unfold absData; rw [(create_fields s nodeid we).1]; simp [pread]

end Tahoe.Storage.Mutable
